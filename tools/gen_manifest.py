#!/venv/bin/python
"""Write MANIFEST.json from the table below (kept in one place so it stays valid)."""
import json
from pathlib import Path
HERE = Path(__file__).resolve().parents[1]
ALL = [f"C{n:02d}" for n in range(1, 21)]

NOTE_COMMON = ("Theorems are about a hand-written Lean model; the model is tied to /repo's working tree on every run by "
               "(a) regenerating OPModel/Gen/Constants.lean from the live Python objects and rebuilding, and (b) a seeded "
               "correspondence check that runs model driver and implementation on the same inputs. Exact-rational semantics; "
               "float rounding measured not proved. Axioms: propext, Classical.choice, Quot.sound only.")

CLAIMS = {
 "C16": dict(
   text="Partial proof (Lean 4): sheet_names_unique — for EVERY list of labels for which allocation succeeds the exported sheet names "
        "are pairwise distinct, at most 31 characters and free of : / ? * \\ [ ] (induction over the labels; the suffix search "
        "is bounded by 998 attempts and the facts about the 998 suffixes are a kernel-decided table); target_returns_last_loaded — "
        "for every history of load/target calls from any sources (validated model, file path, CSV pair) the wrapper returns the "
        "result of the problem loaded last, analysed under the project name of THAT source (file stem for a path, the default "
        "otherwise): a function of the last load alone (invariant over the history); target_as_fresh (whatever happened before, "
        "load + any number of target calls gives what a fresh wrapper gives); repeat_target_cached; legacy_project_name_leaks "
        "(kernel-decided witness that the code before the project-name fix: commit analysed a model loaded after a file under the "
        "file's name). Models tied to the code on 1500 label lists and 40 histories per run (sources mixed; which problem and "
        "which project name every target() reports). Channel equality (dict, validated model, value-with-unit, wrapper, JSON file, "
        "CSV directory, CSV pair, workbook, a dictionary of already validated records targeted repeatedly and through the "
        "wrapper, one model object targeted twice) is NOT a theorem (the readers are pandas/pydantic code): one logical problem "
        "is put through all thirteen channels and every record compared, 25 problems per quick run.",
   technique="Lean 4 proof (sheet names, wrapper cache) + relational testing across input channels + correspondence",
   design="§6 C16"),
 "C10": dict(
   text="Proof (Lean 4) about the model of the zone tree synthesised from stream labels and of the upward collection of streams "
        "(flat list of node paths for the nested dictionaries; code-shaped counters and renaming loop), for EVERY list of labels "
        "- any depth, labels that are prefixes or suffixes of one another or equal to generated unit-operation names, repeated "
        "labels, the empty path: build_total (the renaming loop always finds a free name: pigeonhole on injective names), "
        "own_leaf (every stream gets a leaf of its own directly below the zone its label names; no two streams share one), "
        "conservation (after collection a zone holds stream i exactly once if it lies on the path from the root to i's leaf and "
        "not at all otherwise: invariant of the builder + induction over the depth with a counting argument), "
        "root_holds_all_once, shared_only_along_a_path (no sharing between siblings). The invariant proof is what validates the "
        "second fix: commit (label nodes are created before any generated leaf). With a user zone tree (model of "
        "_rewrite_stream_zones_from_tree: label resolution full path / below the root / unique suffix, child-naming loop): "
        "tree_rewrite_total, tree_streams_in_leaves (every stream whose label names a node ends in a zone without sub-zones - its "
        "own node or one generated below it - so it cannot be lost when zones rebuild their collections: the invariant that "
        "validates the third fix: commit), tree_conservation. NOT modelled: label text splitting/stripping and "
        "the (zone, name) sort (done by the harness with the same key), duties, utility copies - decided by "
        "the oracle on prepare_problem: 600+ random label sets per run x with/without user tree; every zone's multiset of "
        "streams vs the streams labelled into it (independent label resolver), parent = union of children, independent utility "
        "objects per zone. Correspondence: zone of every stream, set of tree nodes and content of every zone, on all 600+ cases "
        "per run (both modes).",
   technique="Lean 4 proof (builder invariant by induction over the streams + counting induction over tree depth) + correspondence testing + multiset oracle on prepare_problem",
   design="§6 C10"),
 "C11": dict(
   text="Partial proof (Lean 4). The part of the property that is a fact about code structure is regenerated from the live package "
        "on every run and decided by the kernel: mutable_defaults_known (the list of ALL functions/methods of OpenPinch whose "
        "default argument values are mutable objects - cells persisting between calls - contains only three read-only ones), "
        "graph_default_not_mutable; on top of that fact the model of the service's call-to-call state gives history_independent "
        "(for every history the graph-set keys of every call equal those of a fresh call) and world_unchanged (induction over the "
        "history); mutable_default_leaks shows the same model violating the property with a mutable default (the defect repaired "
        "by d508d52). NOT provable in this setting (the service is ~5k lines of Python over numpy/pydantic): equality of complete "
        "results with a fresh process, unchanged caller input, unchanged earlier results, unchanged module state. These are "
        "decided by the oracle: every history (2-7 calls mixing service-on-dict, service-on-new-model, service-on-one-reused-model "
        "and a reused PinchProblem wrapper over a pool of problems with different zone names) runs in ONE fresh interpreter and "
        "every call's canonical JSON is compared with the result of the same problem run alone in a fresh interpreter; a snapshot "
        "of all module-level containers, class attributes and default-argument objects of the package is compared around every call.",
   technique="Lean 4 proof over facts translated from the live package (mutable default arguments) + fresh-interpreter differential oracle over call histories",
   design="§6 C11"),
 "C12": dict(
   text="Proof (Lean 4) about the specification of the energy targets that C01.di_targets_exact proves the cascade model computes "
        "on every compatible grid (IsTargets: Qh = attained maximum over ALL temperatures of the net heat deficit; Qc, Qr close "
        "the balance). IsTargets.unique + model_agrees: two descriptions with the same specification get the same targets from "
        "the model whatever grids the two runs use. For stream lists of any length: perm_invariant (any permutation), "
        "split_serial_hot/cold (split at an intermediate temperature), split_parallel_hot/cold (branches of the same range), "
        "translate_invariant (targets unchanged, every attaining temperature - pinch - moves by the shift), scale_linear "
        "(k >= 0), mirror_swaps (mirrored cold streams act as hot ones: Qh <-> Qc, Qr unchanged). NOT covered by theorems: zone "
        "renaming/reordering, utility duties per utility, total-site records, graph data - decided by the metamorphic oracle on "
        "the service: 240+ (problem, transformation) pairs per run over 8 transformations, every record compared (Qh, Qc, Qr, "
        "each utility duty, both pinch temperatures, graph curves as polylines). Model tie: the Lean cascade on the whole "
        "stream set of original and image must stand in the proved relation exactly.",
   technique="Lean 4 proof of invariance of the target specification (uniqueness + algebra of the heat-deficit function) + metamorphic testing of the service + model tie",
   design="§6 C12"),
 "C13": dict(
   text="Partial proof (Lean 4) about the code-shaped model of the run segmentation of a grand-composite series "
        "(_segment_bounds, _iter_gcc_segment_slices, _classify_segment), for series of any length: bounds_ordered (the non-flat "
        "extent is a proper range, flat series included), runs_tile (the emitted runs tile the extent exactly: consecutive runs "
        "share their end point, none is empty, first/last at the bounds - so the emitted points of a series are exactly the "
        "cleaned points of its non-flat extent), runs_homogeneous (every step of a run has the run's class: classification follows "
        "the sign of the enthalpy change / vertical within GCC_VERTICAL_TOL), runs_maximal; with C17.clean_sublist this is the "
        "structural half of the property. Constants (tolerances, display decimals) regenerated from the live module. NOT proved: "
        "that emitted points lie on the table column to display rounding and reproduce every row (it rests on clean_composite_curve, "
        "whose 1e-6 clause is false: C17 finding), extents = Qh/Qc/duties, one graph set per record with the documented types. "
        "Decided by the oracle: the service on 150+ random problems per run x graph options; 6000+ emitted curves compared both "
        "ways with their source column (window-range test for display rounding), segment colours vs sign, GCC ends and composite "
        "spans, graph-set keys and types. Correspondence: bounds and runs on 1500+ random columns.",
   technique="Lean 4 proof (induction over the code-shaped segmentation loops, partial) + correspondence testing + two-way curve/column oracle on service output",
   design="§6 C13"),
 "C14": dict(
   text="Partial proof (Lean 4). Totality of the service (numpy / pydantic / scipy code) is not carried by a model; proved are the "
        "structural facts behind the failures found, regenerated from the live package on every run (AST walk + live objects): "
        "config_reads_defined (every configuration attribute any module reads has a default - the P_TURBINE_BOX AttributeError "
        "was exactly a violation), every_zone_type_has_a_handler, cascade_total (the cascade model returns targets with Qh >= 0 on "
        "every compatible grid for ANY streams, C01). Decided by the oracle on the service: 260+ schema-valid problems per run "
        "over the degenerate shapes (single stream, only hot / only cold, isothermal, zero contributions, duplicate names, "
        "never-needed utilities, value-with-unit numbers, zone tree) x random subsets of the 11 boolean options wired into the "
        "pipeline and DT_CONT / DT_PHASE_CHANGE: returns, validates and round-trips through strict JSON with finite numbers, one "
        "direct-integration record per zone, pinch and graph temperatures inside the envelope, identical on repetition. Five "
        "fix: commits; open findings: heat-pump targeting raises on degenerate profiles and is not repeatable, area targeting "
        "raises on zero driving force.",
   technique="Lean 4 proof over facts translated from the live package (config reads, handler table) + totality / well-formedness oracle over shapes x option subsets",
   design="§6 C14"),
 "C15": dict(
   text="Proof (Lean 4 + Mathlib analysis) about the costing formulas, written once over an abstract arithmetic and instantiated with "
        "Float (driver, compared with costing.py / compute_LMTD_from_dts to 1e-11 on 900+ points per run) and with the reals: "
        "crf_annuities_sum_to_one (for every rate i > 0 and life n >= 1 the capital-recovery factor times the discounted annuities "
        "is exactly 1: geometric series), capital_cost_formula (= N(a + b(A/N)^c), real power), capital_cost_mono / "
        "capital_cost_strict_mono / annual_cost_mono (non-decreasing, strictly increasing for b, c > 0, in the area), "
        "area_term_pos / area_pos (the sum over enthalpy intervals of Q R / dT_lm is positive), area_term_bounds (with the C20 "
        "log-mean bounds each interval lies between Q R / mean and Q R / dT_min). NOT proved: that the implementation's area "
        "target is that sum over the right intervals - decided by the oracle, which recomputes the area independently (balanced "
        "curves rebuilt from the zone's streams and the record's utility duties, enthalpy intervals, counter-current LMTD, "
        "duty-weighted film resistances) on 150+ random problems x film coefficients x cost parameters per run, plus equal "
        "balanced spans, finiteness, cost laws on the record.",
   technique="Lean 4 proof over the reals (Mathlib) on formulas shared with the Float driver + correspondence + independent area-target oracle",
   design="§6 C15"),
 "C17": dict(
   text="Partial proof (Lean 4) about the code-shaped model of _rdp (stack ranges as a recursion with fuel = number of points, "
        "first-maximum scan with strict >, zero-length chord `continue`) for polylines of ANY length and ANY tolerance: rdp_ends "
        "(both end points kept), rdp_sorted (kept indices strictly increasing = original order), rdp_chain (between two "
        "neighbouring kept points every original point has cross^2 <= eps^2 |chord|^2, i.e. is within eps of the chord; induction "
        "over the recursion with an invariant for the farthest-point scan), rdp_within_segment (for a point coordinatewise between "
        "the chord ends - every point of a monotone profile - that is a bound on the distance from the chord SEGMENT, so from the "
        "simplified polyline); clean_sublist (clean_composite_curve only removes points). The 1e-6 clause of clean_composite_curve "
        "is FALSE of the code: clean_drift_witness is a kernel-decided counterexample on the model, replayed on the implementation "
        "(known finding). The one-sided eps/10 clause depends on an SLSQP optimiser (not modelled); it is decided by the oracle and "
        "fails on both paths (known findings C17-one-sided-unrefined, C17-slsqp-refinement). Oracle: ends, order, deviation from the "
        "polyline, one-sided bound on 500+ random (h,T) profiles (2-40 points quick, to 500 thorough; plateaus, steps, repeated "
        "points; hot and cold) and the three clean clauses on 1500+ composite-curve columns; kept indices / kept points compared "
        "with the model on every case.",
   technique="Lean 4 proof (induction over the RDP recursion + segment-distance geometry, partial) + correspondence testing + polyline-distance oracle",
   design="§6 C17"),
 "C02": dict(
   text="Proof (Lean 4): di_balance (direct-integration record: Qh-Qc = cold-hot duty, Qr = hot-Qc, all >= 0 for non-negative CP; "
        "corollary of the C01 closed form, any number of streams/rows), tz_balance (sums of balanced records are balanced, by "
        "induction over the zones), ts_balance (the model of the site utility cascade gives Qh_TS-Qc_TS = sum(hot utility duties) - "
        "sum(cold utility duties), both >= 0, and the Qr formula, for any utility system on a compatible grid), match_preserves_net. "
        "The total-site STREAM balance additionally needs allocation closure of every zone (C03), which is a hypothesis, not a "
        "theorem (known finding cold_sufficiency_sign). Oracle: every record of every zone of 300+ random multi-zone problems x "
        "utility sets per run against the input duties; correspondence of the site utility cascade on 400 random utility systems.",
   technique="Lean 4 proof (corollaries of the cascade closed form; induction over zones) + correspondence + balance oracle on every record",
   design="§6 C02"),
 "C09": dict(
   text="Proof (Lean 4): tz_is_sum (total-process record is the field-wise sum), ts_le_sum (total-site Qh <= summed hot utility duty, "
        "Qc <= summed cold utility duty, for any utility system with non-negative duties on a compatible grid — hence, with "
        "allocation closure, <= the zone sums), ts_qr_formula. The LOWER bound (total-site targets >= the site's own direct "
        "integration targets) is NOT proved for the code (it needs feasibility of every zone's utility profile, C04); it and the "
        "per-utility sums are decided by the oracle on 300+ random sites of 1-4 zones x utility ladders per run (31 of 300 with "
        "positive indirect recovery at seed 0).",
   technique="Lean 4 proof (bounds from the cascade closed form, partial) + site-level oracle + correspondence of the site cascade",
   design="§6 C09"),
 "C03": dict(
   text="Partial proof (Lean 4) about the model of _target_utility / _assign_utility / _maximise_utility_duty (tied to the code on "
        "1500 synthetic load profiles x utility ladders per run, all duties compared): duties_nonneg_and_bounded (for every "
        "segment, ladder and side the duties are >= 0 and never sum to more than the profile maximum, by induction over the "
        "ladder), unreachable_gets_zero (a utility whose supply lies beyond every row of its segment gets nothing), "
        "covering_ladder_closes_hot / covering_ladder_closes_cold (for every monotone load profile and every ladder that ENDS "
        "with a utility whose supply and target levels lie beyond every row of the segment - what the default utilities are - "
        "the duties add up to Qh (Qc) within tol: a covering utility takes exactly what is left, by induction over the ladder). "
        "The unconditional closure clause (the service always ends the ladder with such a default when one is needed) is NOT a "
        "theorem: it is false of the code in one recorded way "
        "(known finding C03-cold-sufficiency-sign, pinned by 6 e2e workbooks) and is decided by the oracle on every zone of 300+ "
        "random problems x utility sets per run (defaults only, ladders inside/outside the range, too-warm cold / too-cold hot "
        "utilities), which also checks the per-utility total-process sums and reachability.",
   technique="Lean 4 proof (ladder induction, partial) + correspondence testing + closure/reachability oracle on service output",
   design="§6 C03"),
 "C04": dict(
   text="Proof (Lean 4) of the specification side, replacing the statement's independent LP by a closed form: for ANY monotone "
        "pocket-free profile and ANY ascending ladder of isothermal levels the lowest-grade-first ladder is feasible at every "
        "temperature (ladder_feasible), non-negative (ladder_nonneg) and each level carries the largest feasible duty "
        "(ladder_maximal); plus the C03 bounds on the code's assignment model. That the code's duties equal the ladder, and that "
        "0 <= H_net_ut <= H_net_actual on every row, is NOT proved: it is decided by the oracle on every zone of 300+ random "
        "problems x ladders per run (row-wise feasibility on the shifted table; an independently computed lowest-grade-first "
        "optimum for every ladder of isothermal levels).",
   technique="Lean 4 proof of the reference optimum (closed-form ladder) + feasibility/optimality oracle on service output + correspondence",
   design="§6 C04"),
 "C20": dict(
   text="Proof (Lean 4 + Mathlib real analysis). Formulas are written once over an abstract record of operations and instantiated "
        "with Float (driver, compared with the code to 1e-9 on 1100+ points per run) and with the reals (theorems): "
        "roundtrip_closed_forms (NTU -> eff -> NTU = NTU for counter flow c<1 and c=1, parallel flow, condenser/evaporator, "
        "Cmax-unmixed, Cmin-unmixed, for ALL NTU > 0 and capacity ratios in their domain), eff_range_and_mono, eff_at_c0, "
        "lmtd_bounds (min <= LMTD <= arithmetic mean, via a proved log inequality, and symmetry), lmtd_equal, and "
        "dispatch_total_and_consistent (kernel decide over a table regenerated every run by probing the live HX_Eff/HX_NTU "
        "on all 8 arrangements x 2 label forms against independent textbook formulas). NOT proved: anything about the two "
        "numerically inverted cross-flow relations, the shell-and-tube round trip, eff <= counter-flow in general, multi-pass "
        "conversions — these are decided by the oracle (independent textbook formulas, range, monotonicity, both round trips) on "
        "1500+ random (arrangement, form, NTU, c, passes) points per run. Known findings: truncated cross-flow series (pinned by "
        "tests), both-mixed relation not monotone at high NTU.",
   technique="Lean 4 proof over the reals (Mathlib analysis) on formulas shared with the Float driver + correspondence + textbook oracle",
   design="§6 C20"),
 "C07": dict(
   text="Partial proof (Lean 4) about the code-shaped model of get_GCC_without_pockets (explicit row indices, exit-index search, "
        "flatten range, i += n_added*sgn, Python loop bound as fuel) and of get_seperated_gcc_heat_load_profiles: gcc_unchanged — "
        "for every curve, whatever its pockets, if pocket removal returns then H_net (any interpolated column but H_net_np) is the "
        "same polyline at every rational temperature (induction over the sweep's fuel, through C08.curves_preserved at every "
        "inserted closing temperature); profiles_monotone, profiles_ends. Specification layer: npSpec (running minima read towards "
        "the pinch, zero between the pinches) with runMin_under_and_monotone and runMin_greatest (the running minimum is "
        "non-increasing, under the column, and the GREATEST such column, for columns of any length); the refinement "
        "code-shaped model = npSpec is NOT proved: the driver evaluates both layers on every case and every tolerance-clean case "
        "(1497 of 1502 in a quick run) must agree exactly. That H_net_np of the IMPLEMENTATION equals the running minimum of "
        "the GCC and that breakpoints appear exactly at pocket closings is decided by an exact Fraction oracle "
        "applied to the implementation's output at every row and interval midpoint of 1500+ random curves per run (0-6 pockets per "
        "side, nested, closing on a row, adjacent to the pinch, threshold, two pinches) and by the correspondence on T/H/H_np and "
        "both profiles (1500/1500 agree).",
   technique="Lean 4 proof (fuel induction over the code-shaped sweep, partial) + exact running-minimum oracle + correspondence testing",
   design="§6 C07"),
 "C05": dict(
   text="Proof (Lean 4): curves_are_content — on any compatible grid and for any streams, on either scale, every row of the "
        "cascade's table has H_hot = exact heat content of the hot streams below the row temperature, H_cold = cold content "
        "below + Qc (the documented offset), H_net = H_cold - H_hot >= 0 with a zero row; span_eq_duty; "
        "real_reports_shifted_targets (the heat-recovery offset makes the real table report the shifted Qh, Qc, Qr); "
        "row_bookkeeping and deltaVals_gap (dH = dT*CP, CP_net = CP_cold - CP_hot, dT = gap to the row above). Rows inserted "
        "later keep every curve by C08.curves_preserved. The complete get_process_heat_cascade (cascade + shift + "
        "constant-enthalpy projection + insertion) is modelled and compared cell by cell on 300+ stream sets per run, and the "
        "service-level oracle checks all clauses on every row (14k+ rows per run) of both tables of every zone against exact "
        "Fraction heat contents.",
   technique="Lean 4 proof (closed form of the cascade columns) + correspondence testing + exact row-by-row oracle",
   design="§6 C05"),
 "C08": dict(
   text="Proof (Lean 4) about the model of insert_temperature_interval (all helpers transcribed; after the two fix: commits): "
        "curves_preserved — for every table (any number of rows) whose temperature column and interpolated column c are numeric "
        "and strictly descending, and ANY list of requested temperatures (above, below, inside, several per interval, duplicates, "
        "near-duplicates, unsorted) the call succeeds, returns the number of rows added, and the polyline through the new rows "
        "equals the polyline through the old rows at EVERY rational temperature (induction over rows, buckets and edge blocks + "
        "a refinement lemma for piecewise-linear functions); order_irrelevant (any permutation of the request gives the same "
        "table); reinsertion_noop; genCfg_ok (the generated column layout is consistent, by kernel decide over the live constants). "
        "bookkeeping_preserved (if the first row is a zero row - what the top row of a problem table is - and every later row has "
        "dT = gap to the row above and dH = CP*dT, then so has every row after the first of the table returned for ANY requested "
        "temperatures, above, inside or below the table: linked-run invariant through the mid blocks, the walk, the bottom block "
        "and the shifted top block; genPairs_ok decides the needed layout facts of the live (CP, dH) pairs; "
        "bookkeeping_preserved_partial is the same for any first row when nothing is inserted above it). Strict descent of the "
        "result is part of curves_preserved. NOT a theorem: minimum spacing of the result (no near-duplicates) - decided by the "
        "correspondence (600+ call sequences per run, every cell of the final table compared) and the oracle after every call.",
   technique="Lean 4 proof (structural induction + piecewise-linear refinement lemma) + correspondence testing over call histories",
   design="§6 C08"),
 "C01": dict(
   text="Proof (Lean 4): di_targets_exact — for every list of hot and cold streams (any number, any CP sign) and every grid that "
        "is compatible with them (strictly descending, gaps wider than the code's 10*tol window, no stream bound inside a cell, "
        "streams within range; extra utility rows allowed) the model of problem_table_algorithm + set_zonal_targets returns Qh = "
        "max over ALL rational temperatures of the net heat deficit above that temperature (attained, >= 0), Qc = Qh - sum(cold) + "
        "sum(hot), Qr = sum(hot) - Qc. Proved by induction over rows (cumsum = exact heat content) and an affine-interpolation "
        "argument inside cells. The grid hypothesis is an executable predicate proved equivalent to the Prop (gridOKb_iff); the driver "
        "evaluates it on every case and the evidence counts how many cases meet it. Correspondence: all 13 columns of 400+ random "
        "tables per run; service-level oracle: every zone record of 250+ random multi-zone problems vs an exact Fraction cascade. "
        "Excluded region (bounds < 2e-5 K apart) is run on the real code: known finding C01-sub-window.",
   technique="Lean 4 proof by induction over table rows (closed form of the cascade) + correspondence testing + exact-cascade oracle",
   design="§6 C01"),
 "C06": dict(
   text="Proof (Lean 4) about the model of pinch_idx/pinch_temperatures, for residual columns of any length: when the column has a "
        "zero and a non-zero row a pinch is reported, both rows are zero rows, hot row <= cold row (so T_hot >= T_cold on a descending "
        "table), every zero outside the zero runs touching the ends lies between them, and the threshold clauses hold "
        "(pinch_rows_spec, zeros_between_pinches, hot_not_colder_than_cold); absent_iff characterises exactly when a pinch is "
        "reported absent, and pinch_allzero_witness proves the full 'absent only when no zero' statement false of the code "
        "(known finding C06-all-zero, pinned by a test). Composed with the cascade (C01/C05): "
        "pinch_is_where_cascade_is_pinched - for ANY streams on any compatible grid, reading the pinch off the residual column "
        "of the cascade model as the code does gives two grid temperatures, hot >= cold, at each of which the net heat deficit "
        "is within tol of its maximum Qh over ALL temperatures (the residual heat flow through a reported pinch is zero); "
        "exact_pinches_lie_between - every grid temperature where the deficit attains Qh exactly and that has non-pinched rows "
        "above and below lies between the two reported temperatures (no pinch is missed). "
        "Correspondence on 3000+ random columns per run; the service-level oracle "
        "compares the reported pinch of every zone of 280+ random problems with the zeros of an exact Fraction cascade.",
   technique="Lean 4 proof of the decision logic over lists, composed with the cascade closed form (pinch = maximiser of the heat deficit) + correspondence testing + exact-cascade oracle on service output",
   design="§6 C06"),
 "C18": dict(
   text="Partial proof (Lean 4). The thermodynamic states come from CoolProp (C++ property library, not modelled): the second-law, "
        "isenthalpic-throttling and saturation-pressure clauses are decided by the oracle against CoolProp itself. Proved for ALL "
        "state enthalpies and duties about the model of the cycle's bookkeeping (_get_metrics, build_stream_collection; tied to the "
        "code on the five metrics and on every condenser stream duty of 250+ cycles per run): first_law (Q_cond = Q_evap + work), "
        "work_pos and cop_relation (COP_h = COP_r + 1) whenever h3 <= h0 < h1, streams_carry_duty (streams built from a monotone "
        "profile carry exactly their exchanger's duty, none negative: induction over the profile), stream_sets_order_independent "
        "(no state), legacy_order_dependent (kernel-decided witness that the bookkeeping before fix 275087a gave 1000x the "
        "evaporator duty depending on request order). Oracle: 10 refrigerants x random evaporating/condensing temperatures inside "
        "the two-phase range, superheat, subcooling, efficiency, duty x 5 request orders: first law, positive work, COP relation, "
        "entropy non-decreasing in compression and throttling, h3 = h2, saturation pressures, stream sets carry the duties, cool / "
        "heat monotonically, order-independent.",
   technique="Lean 4 proof of the cycle bookkeeping (algebra + induction over the profile) + correspondence + first/second-law oracle against CoolProp",
   design="§6 C18"),
 "C19": dict(
   text="Proof (Lean 4): for every finite sequence of setter calls on a constructed stream no exception is raised and CP*span = duty, "
        "t_min < t_max, shifted bounds = real bounds moved by dt_cont in the direction of the kind (which follows the current "
        "orientation) and htr = 1/htc hold (run_consistent + corollaries, induction over the op list); for every history of "
        "collection operations the keys stay unique and the sort cache valid (reachable_inv), add/add_many with prevent_overwrite "
        "never fail and append exactly the new members (renaming loop proven to terminate within len+1 attempts by pigeonhole), "
        "iteration is a key-sorted permutation of the members of length len, concatenation holds all members of both operands. "
        "Correspondence: 2300+ random histories per quick run against the real classes, compared attribute by attribute.",
   technique="Lean 4 proof: invariant by induction over operation histories + model/implementation correspondence testing",
   design="§6 C19"),
}

# later additions to the claim texts (kept as edits so that the history of each claim stays readable)
_EDITS = [
 ("C04", "plus the C03 bounds on the code's assignment model. That the code's duties equal the ladder, and that 0 <= H_net_ut <= H_net_actual on every row, is NOT proved: it is decided by the oracle",
  "plus the C03 bounds on the code's assignment model. Code-shaped (about the model of _assign_utility / _maximise_utility_duty that is tied to the implementation): assign_respects_supply_level - for ANY profile, ANY utilities (isothermal or gliding) and any start, whenever the k-th utility in processing order receives a duty, the duty assigned so far stays within the load the profile holds at a row its supply level reaches; isothermal_level_takes_largest - on a strictly descending grid an isothermal level's duty is zero or EXACTLY the largest unassigned load over the valid intervals its level reaches (the ladder step NP(L) - acc). NOT proved: the target-temperature side of a gliding utility's profile (the Q_tt limit), hence 0 <= H_net_ut <= H_net_actual on every row for gliding utilities: decided by the oracle"),
 ("C09", "ts_qr_formula. The LOWER bound (total-site targets >= the site's own direct integration targets) is NOT proved for the code (it needs feasibility of every zone's utility profile, C04); it and the per-utility sums are decided by the oracle",
  "ts_qr_formula; ts_ge_di_of_feasible - the LOWER bound: for every site whose utility segments cover the site's net process deficit above every temperature (feasibility of the zones' utility profiles, C04) and close the balance (C03), total-site Qh and Qc are at least the site's own direct-integration targets, on any pair of admissible grids (through di_targets_exact, ts_qh_grid and the grid-to-every-temperature lemma deficit_le_of_grid); feasible_sum carries the feasibility hypothesis from the zones to the site. Whether the CODE's zone profiles are feasible is C04's question (a change that breaks it falsifies the hypothesis, not the theorem - seeded C09-glide-cap-max): the lower bound on the implementation and the per-utility sums are decided by the oracle"),
 ("C14", "cascade_total (the cascade model returns targets with Qh >= 0 on every compatible grid for ANY streams, C01). Decided",
  "cascade_total (the cascade model returns targets with Qh >= 0 on every compatible grid for ANY streams, C01), grid_rows_are_inputs (every row of the temperature grid is the 6-decimal rounding of an input temperature: the grid invents none) and pinch_temps_in_envelope (the reported pinch temperatures are rows of the grid, hence inside any envelope containing it). Decided"),
 ("C14", "never-needed utilities, value-with-unit numbers, zone tree) x random",
  "never-needed utilities, value-with-unit numbers, zone tree, a tree that is only its root, zero-duty streams and zones) x random"),
 ("C14", "Five fix: commits;", "Six fix: commits;"),
 ("C07", "profiles_monotone, profiles_ends. Specification layer",
  "profiles_monotone, profiles_ends; closing_temperature_is_where_pocket_closes (the temperature closeInsert inserts is the point of the segment at which the curve takes the pocket's opening value again, and lies between the two rows). Specification layer"),
 ("C03", "covering_ladder_closes_hot", "covering_ladder_closes_hot (and hot_cover_exists: after the data preparation - model of _find_extreme_process_temperatures / _complete_utility_data / _add_default_utilities, tied to the code by the `defaults` correspondence on 600+ random cases per run - some active hot utility's whole shifted band lies at or above every cold stream's shifted target, for ANY streams, utilities and DT_CONT; cold_cover_fails_witness: the mirror statement is false of the code, kernel-decided - the known cold-sufficiency-sign finding)"),
 ("C04", "NOT proved: the target-temperature side of a gliding utility's profile (the Q_tt limit), hence",
  "gliding_level_respects_return_limit - for EVERY valid interval past a gliding utility's target temperature the share of its duty still to be released beyond that row fits the load the profile holds there (the Q_tt limit; false of the code under seeded change C09-glide-cap-max). NOT proved: the row-wise inequality on rows that are not ends of valid intervals, hence"),
 ("C07", "closing_temperature_is_where_pocket_closes (", "exit_search_spec (_pocket_exit_index returns the row before the FIRST row, up to and including the pinch row, whose value has dropped to h0 - tol, every row passed over staying above it; false of the code under seeded change C07-exit-search-skips-pinch-row); closing_temperature_is_where_pocket_closes ("),
 ("C17", "clean_sublist", "knees_and_turning_points_kept (whatever the curve, an interior point that is a turning point of a vertical run or lies more than tol - in kelvin - off the chord of its two neighbours is kept by the middle loop; false of the code under seeded changes C13-vertical-run-drops-turning-point and C17-cross-multiplied-collinearity), repeated_point_keeps_corner (kernel-decided witness of fix bdc25b9), clean_sublist"),
 ("C19", "run_consistent", "isothermal_band (a stream entered with equal supply and target temperature occupies [T, T + iso] when cold and [T - iso, T] when hot), run_consistent"),
 ("C11", "mutable_defaults_known", "no_shared_state_writes (no statement inside a function of the package assigns to an attribute of a class object, calls setattr on a class or declares a global - AST walk regenerated on every run), mutable_defaults_known"),
 ("C20", "roundtrip_closed_forms", "multipass_roundtrip (MultiPassNTU inverts MultiPassEff for every pass count: balanced streams for any effectiveness >= 0, unbalanced streams wherever the single-pass ratio is positive and the expression is defined - real powers), roundtrip_closed_forms"),
 ("C02", "tz_balance", "utility_net_of_closure (the listed hot and cold utility duties differ from cold minus hot stream duty by at most tol whenever the allocation closes within tol on both sides, C03), tz_balance"),
 ("C03", "covering_ladder_closes_hot (and hot_cover_exists", "ladder_with_cover_closes_hot / _cold (ANY ladder that contains, anywhere in the processing order, a utility whose shifted band lies at or above - below, on the cooling side - the level where the load profile starts to change closes the allocation within tol; with hot_cover_exists this closes the hot side for every prepared utility list whose heating demand starts at or below HU_T_min), covering_ladder_closes_hot (and hot_cover_exists"),
 ("C15", "plus equal balanced spans, finiteness, cost laws on the record.", "plus equal balanced spans, finiteness, cost laws on the record, and - for zones served by the two default utilities with one pinch or a threshold - the reported exchanger count against the Euler count (streams present plus utilities carrying duty minus one per region)."),
 ("C18", "Oracle: 10 refrigerants x random",
  "Oracle: refrigerants (half from 10 common ones, half from every fluid of the property library with a two-phase range above -60 C, 90+ fluids) x random"),
]
for _pid, _a, _b in _EDITS:
    assert CLAIMS[_pid]["text"].count(_a) == 1, (_pid, _a[:60])
    CLAIMS[_pid]["text"] = CLAIMS[_pid]["text"].replace(_a, _b)
CLAIMS["C03"]["technique"] = ("Lean 4 proof (ladder induction; the default-utility decision modelled and proved to provide a covering hot utility, "
                              "the cold side refuted by a kernel-decided witness) + correspondence testing (assignment and defaults) "
                              "+ closure/reachability oracle on service output")
CLAIMS["C04"]["technique"] = ("Lean 4 proof of the reference optimum (closed-form ladder) and of supply-level / return-limit bounds of the "
                              "code-shaped assignment + feasibility/optimality oracle on service output + correspondence")
CLAIMS["C11"]["technique"] = ("Lean 4 proof over facts translated from the live package (mutable default arguments, shared-state writes by AST "
                              "walk) + fresh-interpreter differential oracle over call histories")
CLAIMS["C09"]["technique"] = ("Lean 4 proof (upper and lower bounds from the cascade closed form; lower bound conditional on zone feasibility) "
                              "+ site-level oracle + correspondence of the site cascade")


NOT_YET = "no check has been built for this property yet in this round (design in DESIGN.md §6); not a claim of inapplicability of the technique"

def main():
    checks = []
    for pid, c in sorted(CLAIMS.items()):
        checks.append({
            "property_id": pid,
            "quick_cmd": f"./check.py {pid} --tier quick",
            "thorough_cmd": f"./check.py {pid} --tier thorough",
            "evidence_file": f"evidence/{pid}.json",
            "replay_cmd_template": f"./check.py {pid} --replay {{path}}",
            "engine": "lean4-model+correspondence",
            "level_claimed": {"category": "proof", "text": c["text"], "design_ref": c["design"]},
            "level_note": c.get("note", NOTE_COMMON),
            "technique": c["technique"],
        })
    m = {
        "version": 1,
        "setup_cmd": "cd lean && lake build",
        "hooks": {
            "guard": "OPENPINCH_VERIF",
            "enable": "no source hooks are needed: checks import OpenPinch from /repo's working tree in-process (env OPENPINCH_VERIF=1 is set but nothing in /repo reads it)",
            "baseline_off_cmd": "cd /repo && /venv/bin/python -m pytest -ra -q -p no:cacheprovider --timeout=900 --continue-on-collection-errors",
            "source_commits": [],
            "add_only": True,
        },
        "engines": [{
            "name": "lean4-model+correspondence",
            "path": "lean/ (model, proofs, driver) + harness/opv (translator, correspondence, oracles) + check.py",
            "serves_properties": sorted(CLAIMS),
            "kind_free_text": "Lean 4 theorems about an executable model; constants regenerated from /repo each run; line-protocol driver compared with the implementation; independent Fraction oracles search for failing inputs",
        }],
        "checks": checks,
        "notes": "fix: commits in /repo are listed in known_findings.json (status 'fixed: <commit>'). See DESIGN.md.",
        "not_applicable": [{"property_id": p, "reason": NOT_YET} for p in ALL if p not in CLAIMS],
    }
    (HERE / "MANIFEST.json").write_text(json.dumps(m, indent=1) + "\n")
    print("claimed:", sorted(CLAIMS))

if __name__ == "__main__":
    main()
