#!/venv/bin/python
"""Confirm a seeded breaking change and run the property's check against it.

    tools/seed_check.py <PROP> <name> <patch.diff> <demo.py> "<what it needs to manifest>"

1. scratch worktree of /repo HEAD (outside /repo and /verif): apply the patch, run the pinned
   suite (must stay 339 pass / same 2 failures), run the demo with (exit 1) and without (exit 0)
   the patch; remove the worktree;
2. apply the patch to /repo, run ./check.py <PROP> (quick, and thorough if quick misses), undo;
3. store patch, demo and meta.json under seeded/<name>/.
"""
import json, os, shutil, subprocess, sys, time
from pathlib import Path

HERE = Path(__file__).resolve().parents[1]


def sh(cmd, cwd=None, env=None, timeout=3000):
    p = subprocess.run(cmd, shell=True, cwd=cwd, env=env, capture_output=True, text=True, timeout=timeout)
    return p.returncode, (p.stdout + p.stderr)


def main():
    prop, name, patch, demo, needs = sys.argv[1:6]
    patch = Path(patch).resolve(); demo = Path(demo).resolve()
    wt = Path("/tmp/wt/seed_" + name)
    if wt.exists():
        sh(f"git -C /repo worktree remove --force {wt}")
    sh(f"git -C /repo worktree add -q --detach {wt} HEAD")
    env = dict(os.environ, PYTHONPATH=str(wt))
    local_demo = wt / demo.name            # run the demo from inside the scratch tree (script dir leads sys.path)
    shutil.copy(demo, local_demo)
    meta = {"property": prop, "name": name, "needs_to_manifest": needs, "ran": []}
    try:
        rc, out = sh(f"/venv/bin/python {local_demo}", cwd=wt, env=env)
        meta["demo_without_patch_exit"] = rc
        rc, out = sh(f"git apply {patch}", cwd=wt)
        if rc != 0:
            print("patch does not apply:", out); return 2
        rc, out = sh("/venv/bin/python -m pytest -q -p no:cacheprovider 2>&1 | tail -3", cwd=wt, env=env)
        meta["suite_with_patch"] = out.strip().splitlines()[-1] if out.strip() else ""
        rc, out = sh(f"/venv/bin/python {local_demo}", cwd=wt, env=env)
        meta["demo_with_patch_exit"] = rc
    finally:
        sh(f"git -C /repo worktree remove --force {wt}")
    ok = meta["demo_without_patch_exit"] == 0 and meta["demo_with_patch_exit"] == 1 and "339 passed" in meta["suite_with_patch"] and "2 failed" in meta["suite_with_patch"]
    meta["confirmed"] = ok
    print("confirmation:", json.dumps({k: meta[k] for k in ("demo_without_patch_exit", "demo_with_patch_exit", "suite_with_patch", "confirmed")}))
    # run the check against it
    rc, out = sh(f"git -C /repo apply {patch}")
    if rc != 0:
        print("patch does not apply to /repo:", out); return 2
    try:
        for tier in ("quick", "thorough"):
            t0 = time.time()
            rc, out = sh(f"./check.py {prop} --tier {tier}", cwd=HERE, env=dict(os.environ, VERIF_SEED="0"))
            lines = [l for l in out.splitlines() if l.startswith("VIOLATION") or l.startswith("[")]
            meta["ran"].append({"cmd": f"./check.py {prop} --tier {tier}", "exit": rc, "output": lines, "wall_s": round(time.time() - t0, 1)})
            print(tier, "exit", rc, *lines, sep="\n  ")
            if rc == 1:
                meta["caught_by"] = tier
                # keep the replay for the record
                for l in lines:
                    if l.startswith("VIOLATION"):
                        rp = l.split("replay=")[1].split()[0]
                        try:
                            meta["replay_excerpt"] = Path(rp).read_text()[:1500]
                        except Exception:
                            pass
                break
        else:
            meta["caught_by"] = None
    finally:
        sh("git -C /repo checkout -- .")
    d = HERE / "seeded" / name
    d.mkdir(parents=True, exist_ok=True)
    if patch != (d / "patch.diff").resolve():
        shutil.copy(patch, d / "patch.diff")
    if demo != (d / demo.name).resolve():
        shutil.copy(demo, d / demo.name)
    (d / "meta.json").write_text(json.dumps(meta, indent=1))
    print("stored in", d, "caught_by:", meta.get("caught_by"))
    return 0


if __name__ == "__main__":
    sys.exit(main())
