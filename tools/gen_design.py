#!/venv/bin/python
"""Write DESIGN.md = tools/design_head.md + sections generated from the framework's state
(gen_manifest.CLAIMS, obligations.json, known_findings.json, seeded/*/meta.json) + tools/design_tail.md."""
import json
import sys
import textwrap
from pathlib import Path

HERE = Path(__file__).resolve().parents[1]
sys.path.insert(0, str(HERE / "tools"))
import gen_manifest  # noqa: E402


def wrap(t, n=100, indent=""):
    return "\n".join(textwrap.wrap(t, n, initial_indent=indent, subsequent_indent=indent))


def main():
    props = {json.loads(l)["id"]: json.loads(l) for l in (HERE / "properties.jsonl").read_text().splitlines() if l.strip()}
    ob = json.loads((HERE / "obligations.json").read_text())
    kf = json.loads((HERE / "known_findings.json").read_text())["findings"]
    seeds = [json.loads(p.read_text()) for p in sorted((HERE / "seeded").glob("*/meta.json"))]
    out = [(HERE / "tools/design_head.md").read_text()]

    out.append("## 6. Per-property reach\n")
    out.append("For each property: the theorems checked by the kernel (names as in `obligations.json`), what they say, what is\n"
               "*not* a theorem and is decided by the oracle instead, and how the model is tied to the code. The text is the\n"
               "`level_claimed.text` of `MANIFEST.json`, kept in one place (`tools/gen_manifest.py`).\n")
    for pid in sorted(gen_manifest.CLAIMS):
        c = gen_manifest.CLAIMS[pid]
        names = [n.split(".")[-1] for n in ob.get(pid, {})]
        open_f = [x["id"] for x in kf if x["property"] == pid and x["status"] == "open"]
        fixed_f = [x["status"].split()[-1] for x in kf if x["property"] == pid and x["status"].startswith("fixed")]
        sd = [s for s in seeds if s["property"] == pid]
        out.append(f"### {pid} — {props[pid]['title']}\n")
        out.append(f"*Technique:* {c['technique']}\n")
        out.append(f"*Theorems ({len(names)}):* " + ", ".join(f"`{n}`" for n in names) + "\n")
        out.append(wrap(c["text"]) + "\n")
        extra = []
        if fixed_f:
            extra.append("fix commits: " + ", ".join(fixed_f))
        if open_f:
            extra.append("open findings: " + ", ".join(open_f))
        if sd:
            extra.append("seeded changes: " + ", ".join(f"{s['name']} (caught at {s.get('caught_by')})" for s in sd))
        if extra:
            out.append("*" + "; ".join(extra) + ".*\n")

    out.append("--------------------------------------------------------------------------------\n")
    out.append("## 7. Defects found on the pinned tree\n")
    out.append("Every entry below was shown against the real code with the recorded witness (`known_findings.json`, `corpus/`).\n"
               "A repair is one unguarded `fix:` commit in /repo, tested in a scratch worktree against the unedited suite\n"
               "(339 pass, the same 2 export tests fail before and after).\n")
    out.append("### 7.1 Repaired\n")
    for x in kf:
        if x["status"].startswith("fixed"):
            what = x["what"]
            what = what.split(" ", 3)[-1] if what.startswith("fixed:") else what
            out.append(wrap(f"* **{x['status'].split()[-1]}** ({x['property']}, {x['id']}) — {what}", 100).replace("\n", "\n  ") + "\n")
    out.append("### 7.2 Open findings (recorded, not repaired)\n")
    out.append("Each has a cause classifier in the property's harness module; on the unchanged tree the check prints a\n"
               "`KNOWN-FINDING` line and exits 0; any failure of the same property with another cause is a VIOLATION.\n")
    for x in kf:
        if x["status"] == "open":
            out.append(wrap(f"* **{x['id']}** ({x['property']}, cause `{x['cause']}`) — {x['what']}", 100).replace("\n", "\n  ") + "\n")

    out.append("--------------------------------------------------------------------------------\n")
    out.append("## 8. Seeded breaking changes and which checks catch them\n")
    out.append("Each change was produced by a fresh sub-agent that saw only the property text and its own scratch worktree of\n"
               "/repo, then confirmed here (`tools/seed_check.py`): the unedited suite still gives 339 pass / 2 fail with it, the\n"
               "agent's demo exits 1 with it and 0 without it. `tools/seed_verify_all.py` re-applies every stored patch to the\n"
               "current tree and re-runs the quick check. Where a check first missed a change the generator was strengthened\n"
               "(last column) — never the oracle loosened.\n")
    out.append("| seed | property | needs to manifest | caught at | strengthening it led to |")
    out.append("|---|---|---|---|---|")
    notes = json.loads((HERE / "tools/seed_notes.json").read_text()) if (HERE / "tools/seed_notes.json").exists() else {}
    for s in seeds:
        out.append(f"| {s['name']} | {s['property']} | {s['needs_to_manifest'][:160]} | {s.get('caught_by')} | {notes.get(s['name'], '—')} |")
    out.append("")
    out.append((HERE / "tools/design_tail.md").read_text())
    (HERE / "DESIGN.md").write_text("\n".join(out))
    print("DESIGN.md written:", sum(len(x) for x in out), "chars")


if __name__ == "__main__":
    main()
