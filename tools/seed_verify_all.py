#!/venv/bin/python
"""Re-apply every stored seeded change to /repo's current tree, run the property's quick check (and the
thorough one if quick misses), undo, and report.  /repo must be clean when this starts.

    tools/seed_verify_all.py [name-substring]          (SEED_FOR_VERIFY=<n> uses that VERIF_SEED and only the quick tier;
                                                        the result is stored as reverified_quick_seed_<n>)
"""
import json
import os
import subprocess
import sys
from pathlib import Path

HERE = Path(__file__).resolve().parents[1]


def sh(cmd, cwd=None, env=None, timeout=6000):
    p = subprocess.run(cmd, shell=True, cwd=cwd, env=env, capture_output=True, text=True, timeout=timeout)
    return p.returncode, p.stdout + p.stderr


def main():
    flt = sys.argv[1] if len(sys.argv) > 1 else ""
    rc, out = sh("git -C /repo status --porcelain")
    if out.strip():
        print("/repo is not clean:", out); return 2
    bad = 0
    for d in sorted((HERE / "seeded").iterdir()):
        if flt not in d.name or not (d / "patch.diff").exists():
            continue
        meta = json.loads((d / "meta.json").read_text())
        prop = meta["property"]
        rc, out = sh(f"git -C /repo apply --check {d / 'patch.diff'}")
        if rc != 0:
            print(f"{d.name}: patch no longer applies to the current tree: {out.strip()[:120]}"); bad += 1; continue
        sh(f"git -C /repo apply {d / 'patch.diff'}")
        try:
            caught = None
            seed = os.environ.get("SEED_FOR_VERIFY", "0")
            for tier in (("quick", "thorough") if seed == "0" else ("quick",)):
                rc, out = sh(f"./check.py {prop} --tier {tier}", cwd=HERE, env=dict(os.environ, VERIF_SEED=seed))
                if rc == 1:
                    caught = tier; break
        finally:
            sh("git -C /repo checkout -- .")
        print(f"{d.name}: caught at {caught}")
        meta["reverified_caught_by" if seed == "0" else f"reverified_quick_seed_{seed}"] = caught
        (d / "meta.json").write_text(json.dumps(meta, indent=1))
        bad += caught is None
    return 1 if bad else 0


if __name__ == "__main__":
    sys.exit(main())
