import sys, json, collections, importlib
sys.path.insert(0,'/verif/harness'); sys.path.insert(0, __import__('os').environ.get('REPO','/repo'))
from opv import core, lean
prop=sys.argv[1]
mod=importlib.import_module('opv.props.'+prop.lower())
ctx = core.Ctx(prop,'quick',int(sys.argv[2]) if len(sys.argv)>2 else 0)
class L: driver_ok=False
ctx.lean=L()
mod.run(ctx)
cnt = collections.Counter((f['clause'], f['cause']) for f in ctx.oracle_failures)
print(cnt)
seen=set()
for f in ctx.oracle_failures:
    k=(f['clause'],f['cause'])
    if k in seen: continue
    seen.add(k); print(k, f['detail'], json.dumps(f['case'])[:600])
print('evals', ctx.evaluations, dict(ctx.dist))
