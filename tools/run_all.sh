#!/bin/bash
# Run every claimed check at the given tier (default quick) and seed; print one line per property.
tier=${1:-quick}; seed=${2:-0}
cd "$(dirname "$0")/.."
for p in $(python3 -c "import json; print(' '.join(c['property_id'] for c in json.load(open('MANIFEST.json'))['checks']))"); do
  out=$(VERIF_SEED=$seed ./check.py $p --tier $tier 2>&1); rc=$?
  echo "$p rc=$rc $(echo "$out" | grep -E '^\[|^VIOLATION|infrastructure' | tr '\n' ' ' | cut -c1-220)"
done
