#!/venv/bin/python
"""Record the name and statement hash of every theorem in lean/OPModel/Properties/*.lean
into obligations.json (run by hand after reviewing a change to a property file)."""
import hashlib, json, sys
from pathlib import Path
HERE = Path(__file__).resolve().parents[1]
sys.path.insert(0, str(HERE / "harness"))
from opv.lean import _theorems_in
out = {}
for p in sorted((HERE / "lean/OPModel/Properties").glob("C*.lean")):
    out[p.stem] = {n: hashlib.sha1(s.encode()).hexdigest()[:16] for n, s in _theorems_in(p)}
(HERE / "obligations.json").write_text(json.dumps(out, indent=1) + "\n")
print({k: len(v) for k, v in out.items()})
