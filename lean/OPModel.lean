-- Root of the `OPModel` library: models, proofs and property theorems.
import OPModel.Model.Basic
import OPModel.Model.Stream
import OPModel.Model.Collection
