/- Line-protocol driver: one case per input line, one canonical output line per case. -/
import OPModel.Drive.C19
import OPModel.Drive.C06
import OPModel.Drive.C01
import OPModel.Drive.C08
import OPModel.Drive.C05
import OPModel.Drive.C07
import OPModel.Drive.C20
import OPModel.Drive.C03
import OPModel.Drive.C03b
import OPModel.Drive.C02
import OPModel.Drive.C16
import OPModel.Drive.C17
import OPModel.Drive.C10
import OPModel.Drive.C11
import OPModel.Drive.C13
import OPModel.Drive.C15
import OPModel.Drive.C18

open OP

def handle (line : String) : String :=
  match tokens line with
  | "stream" :: args => Drive.stream Gen.isoOffset args
  | "coll" :: args => Drive.coll args
  | "pcascade" :: args => Drive.pcascade args
  | "cascade" :: args => Drive.cascade args
  | "insert" :: args => Drive.insert args
  | "pockets" :: args => Drive.pockets args
  | "entu" :: args => Drive.entu args
  | "assign" :: args => Drive.assign args
  | "defaults" :: args => Drive.defaults args
  | "site" :: args => Drive.site args
  | "sheets" :: args => Drive.sheets args
  | "wrapper" :: args => Drive.wrapper args
  | "clean" :: args => Drive.clean args
  | "rdp" :: args => Drive.rdpOp args
  | "zones" :: args => Drive.zonesOp args
  | "treezones" :: args => Drive.treezonesOp args
  | "graphsets" :: args => Drive.graphsets args
  | "slices" :: args => Drive.slicesOp args
  | "cost" :: args => Drive.cost args
  | "lmtd" :: args => Drive.lmtdOp args
  | "hpmetrics" :: args => Drive.hpmetrics args
  | "hpstreams" :: args => Drive.hpstreams args
  | "pinch" :: args => Drive.pinch args
  | "pincht" :: args => Drive.pincht args
  | _ => "bad-op"

partial def loop (h : IO.FS.Stream) (out : IO.FS.Stream) : IO Unit := do
  let line ← h.getLine
  if line.isEmpty then return ()
  out.putStrLn (handle line)
  loop h out

def main : IO Unit := do
  let stdin ← IO.getStdin
  let stdout ← IO.getStdout
  loop stdin stdout
