/- C16 helpers: sanitised names are clean, the alternative-name search is bounded and correct,
   the wrapper's cache invariant. -/
import OPModel.Model.Sheet
import Mathlib.Data.List.Basic
import Mathlib.Tactic.ByContra

namespace OP.C16
open OP OP.Sheet

def Clean (s : Str) : Prop := ∀ c ∈ s, c ∉ forbidden

theorem suffix_ok : ∀ i, i < 1000 → (suffix i).length ≤ 6 ∧ Clean (suffix i) := by
  have h : (List.range 1000).all (fun i => decide ((suffix i).length ≤ 6) && (suffix i).all (fun c => !forbidden.contains c)) = true := by
    decide +kernel
  intro i hi
  have := List.all_eq_true.mp h i (List.mem_range.mpr hi)
  simp only [Bool.and_eq_true, decide_eq_true_eq, List.all_eq_true, Bool.not_eq_true'] at this
  refine ⟨this.1, ?_⟩
  intro c hc hf
  have := this.2 c hc
  rw [List.contains_iff_mem.mpr hf] at this
  cases this

theorem clean_sublist {a b : Str} (h : a.Sublist b) (hb : Clean b) : Clean a :=
  fun c hc => hb c (h.subset hc)

theorem rstripP_sublist (p : Char → Bool) (s : Str) : (rstripP p s).Sublist s := by
  unfold rstripP
  have := (List.dropWhile_sublist p (l := s.reverse)).reverse
  simpa using this

theorem sanitize_clean (name : Str) : Clean (sanitize name) := by
  unfold sanitize
  simp only
  split_ifs
  · intro c hc; revert c; decide
  · apply clean_sublist (rstripP_sublist _ _)
    apply clean_sublist (rstripP_sublist _ _)
    apply clean_sublist (List.dropWhile_sublist _)
    intro c hc hf
    obtain ⟨d, _, rfl⟩ := List.mem_map.mp hc
    split_ifs at hf with h
    · revert hf; decide
    · exact h (List.contains_iff_mem.mpr hf)

theorem findAlt_spec (cand : Str) (hc : Clean cand) (used : List Str) :
    ∀ fuel idx alt, idx + fuel ≤ 1000 → findAlt cand used fuel idx = some alt →
      alt ∉ used ∧ alt.length ≤ 31 ∧ Clean alt := by
  intro fuel
  induction fuel with
  | zero => intro idx alt _ h; simp [findAlt] at h
  | succ n ih =>
    intro idx alt hb h
    simp only [findAlt] at h
    obtain ⟨hl, hcl⟩ := suffix_ok idx (by omega)
    split_ifs at h with hlen hu hu
    · exact ih (idx + 1) alt (by omega) h
    · cases h
      refine ⟨by simpa using hu, ?_, ?_⟩
      · simp only [List.length_append, List.length_take]; omega
      · intro c hc'
        rcases List.mem_append.mp hc' with h1 | h1
        · exact hc c (List.mem_of_mem_take h1)
        · exact hcl c h1
    · exact ih (idx + 1) alt (by omega) h
    · cases h
      refine ⟨by simpa using hu, ?_, ?_⟩
      · simp only [List.length_append]; omega
      · intro c hc'
        rcases List.mem_append.mp hc' with h1 | h1
        · exact hc c h1
        · exact hcl c h1

/-- One allocation: the name is new, short and clean. -/
theorem uniqueName_spec (base : Str) (used : List Str) (n : Str) (used' : List Str)
    (h : uniqueName base used = .ok (n, used')) :
    n ∉ used ∧ used' = n :: used ∧ n.length ≤ 31 ∧ Clean n := by
  unfold uniqueName at h
  simp only at h
  have hcand : Clean (if ((sanitize base).take 31).isEmpty then "Sheet".toList else (sanitize base).take 31) ∧
      (if ((sanitize base).take 31).isEmpty then "Sheet".toList else (sanitize base).take 31).length ≤ 31 := by
    split_ifs
    · exact ⟨by intro c hc; revert c; decide, by decide⟩
    · exact ⟨clean_sublist (List.take_sublist _ _) (sanitize_clean base), by simp [List.length_take]; omega⟩
  generalize (if ((sanitize base).take 31).isEmpty then "Sheet".toList else (sanitize base).take 31) = cand at h hcand
  split_ifs at h with hu
  · cases h
    exact ⟨by simpa using hu, rfl, hcand.2, hcand.1⟩
  · cases hf : findAlt cand used 998 2 with
    | none => rw [hf] at h; cases h
    | some alt =>
      rw [hf] at h
      obtain ⟨a, b, c⟩ := findAlt_spec cand hcand.1 used 998 2 alt (by omega) hf
      have h' := Except.ok.inj h
      obtain ⟨h1, h2⟩ := Prod.mk.inj h'
      subst h1
      exact ⟨a, h2.symm, b, c⟩

/-! ### the wrapper -/

def wrun (w : Wrapper) : List WOp → Wrapper
  | [] => w
  | op :: ops => wrun (wstep w op).1 ops

def wrunLegacy (w : Wrapper) : List WOp → Wrapper
  | [] => w
  | op :: ops => wrunLegacy (wstepLegacy w op).1 ops

/-- project name a source gives a fresh wrapper -/
def srcName : Src → Option Nat
  | .file k => some k
  | _ => none

/-- what the load performed last stands for (specification: a function of that one operation) -/
def lastLoad (ops : List WOp) : Option Res :=
  ops.foldl (fun acc op => match op with | .load i s => some (i, srcName s) | .target => acc) none

/-- what a wrapper would report now -/
def expected (w : Wrapper) : Option Res := w.loaded.map fun i => (i, w.name)

/-- The cache is empty or holds the result of the loaded problem under the current project name. -/
def WInv (w : Wrapper) : Prop := w.cached = none ∨ w.cached = expected w

theorem wstep_inv (w : Wrapper) (op : WOp) (h : WInv w) : WInv (wstep w op).1 := by
  cases op with
  | load i src => cases src <;> exact Or.inl rfl
  | target =>
    unfold wstep
    cases hc : w.cached with
    | some r => simp only; exact h
    | none =>
      cases hl : w.loaded with
      | none => simp only; exact Or.inl hc
      | some i => simp only; exact Or.inr (by simp [expected])

theorem wrun_inv : ∀ (ops : List WOp) (w : Wrapper), WInv w → WInv (wrun w ops) := by
  intro ops
  induction ops with
  | nil => intro w h; exact h
  | cons op ops ih => intro w h; exact ih _ (wstep_inv w op h)

theorem expected_step (w : Wrapper) (op : WOp) :
    expected (wstep w op).1 = (match op with | .load i s => some (i, srcName s) | .target => expected w) := by
  cases op with
  | load i src => cases src <;> simp [wstep, expected, srcName]
  | target =>
    unfold wstep
    cases hc : w.cached with
    | some r => rfl
    | none =>
      cases hl : w.loaded with
      | none => rfl
      | some i => simp [expected, hl]

theorem expected_run : ∀ (ops : List WOp) (w : Wrapper),
    expected (wrun w ops) =
      ops.foldl (fun acc op => match op with | .load i s => some (i, srcName s) | .target => acc) (expected w) := by
  intro ops
  induction ops with
  | nil => intro w; rfl
  | cons op ops ih =>
    intro w
    rw [wrun, ih, expected_step, List.foldl_cons]

end OP.C16
