/- C07 helpers: the running minimum of a column is its greatest non-increasing minorant. -/
import OPModel.Model.Pockets
import Mathlib.Data.List.Forall2
import Mathlib.Order.Lattice
import Mathlib.Algebra.Order.Ring.Rat
import Mathlib.Tactic.Linarith

namespace OP

theorem runMinFrom_spec (m : Rat) (t : List Rat) :
    List.Forall₂ (· ≤ ·) (runMinFrom m t) t ∧ (∀ x ∈ runMinFrom m t, x ≤ m) ∧
      (runMinFrom m t).Pairwise (· ≥ ·) := by
  induction t generalizing m with
  | nil => simp [runMinFrom]
  | cons h t ih =>
    obtain ⟨h1, h2, h3⟩ := ih (min m h)
    simp only [runMinFrom]
    refine ⟨List.Forall₂.cons (min_le_right m h) h1, ?_, ?_⟩
    · intro x hx
      rcases List.mem_cons.mp hx with rfl | hx
      · exact min_le_left m h
      · exact le_trans (h2 x hx) (min_le_left m h)
    · exact List.Pairwise.cons (fun x hx => h2 x hx) h3

theorem runMinFrom_greatest (m : Rat) (t g : List Rat) (hg : List.Forall₂ (· ≤ ·) g t)
    (hmono : g.Pairwise (· ≥ ·)) (hm : ∀ x ∈ g, x ≤ m) : List.Forall₂ (· ≤ ·) g (runMinFrom m t) := by
  induction t generalizing m g with
  | nil => cases hg; simp [runMinFrom]
  | cons h t ih =>
    cases hg with
    | cons hah hrest =>
      rename_i a g'
      simp only [runMinFrom]
      have ha : a ≤ min m h := le_min (hm a (by simp)) hah
      refine List.Forall₂.cons ha (ih (min m h) g' hrest (List.pairwise_cons.mp hmono).2 ?_)
      intro x hx
      exact le_trans ((List.pairwise_cons.mp hmono).1 x hx) ha

end OP
