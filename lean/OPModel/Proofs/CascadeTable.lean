/-
  The columns of `problemTable` in closed form (under grid compatibility), and the targets.
-/
import OPModel.Proofs.CascadeLemmas

namespace OP

/-! ### list plumbing -/

theorem cumsumFrom_length (acc : Rat) (xs : List Rat) : (cumsumFrom acc xs).length = xs.length := by
  induction xs generalizing acc with
  | nil => rfl
  | cons x xs ih => simp [cumsumFrom, ih]

theorem listMin_spec : ∀ (xs : List Rat) (m : Rat), listMin xs = some m → m ∈ xs ∧ ∀ x ∈ xs, m ≤ x := by
  intro xs
  cases xs with
  | nil => intro m h; cases h
  | cons a as =>
    intro m h
    simp only [listMin, Option.some.injEq] at h
    subst h
    suffices ∀ (ys : List Rat) (b : Rat), (ys.foldl min b = b ∨ ys.foldl min b ∈ ys) ∧
        ys.foldl min b ≤ b ∧ ∀ y ∈ ys, ys.foldl min b ≤ y by
      obtain ⟨h1, h2, h3⟩ := this as a
      constructor
      · rcases h1 with h | h
        · rw [h]; exact List.mem_cons_self
        · exact List.mem_cons_of_mem _ h
      · intro x hx
        rcases List.mem_cons.mp hx with rfl | hx
        · exact h2
        · exact h3 x hx
    intro ys
    induction ys with
    | nil => intro b; exact ⟨Or.inl rfl, le_refl _, by intro y hy; cases hy⟩
    | cons y ys ih =>
      intro b
      simp only [List.foldl_cons]
      obtain ⟨h1, h2, h3⟩ := ih (min b y)
      refine ⟨?_, le_trans h2 (min_le_left _ _), ?_⟩
      · rcases h1 with h | h
        · rw [h]
          rcases min_choice b y with e | e
          · exact Or.inl e
          · right; rw [e]; exact List.mem_cons_self
        · exact Or.inr (List.mem_cons_of_mem _ h)
      · intro z hz
        rcases List.mem_cons.mp hz with rfl | hz
        · exact le_trans h2 (min_le_right _ _)
        · exact h3 z hz

/-! ### compatibility is about bounds only -/

theorem CellOK.mono {w : Rat} {ss ss' : List Seg} {l u : Rat}
    (hsub : ∀ s ∈ ss', ∃ t ∈ ss, t.lo = s.lo ∧ t.hi = s.hi) (h : CellOK w ss l u) : CellOK w ss' l u := by
  refine ⟨h.1, ?_⟩
  intro s hs
  obtain ⟨t, ht, e1, e2⟩ := hsub s hs
  have := h.2 t ht
  rw [e1, e2] at this
  exact this

theorem ChainOK.mono {w : Rat} {ss ss' : List Seg}
    (hsub : ∀ s ∈ ss', ∃ t ∈ ss, t.lo = s.lo ∧ t.hi = s.hi) :
    ∀ (rest : List Rat) (u : Rat), ChainOK w ss u rest → ChainOK w ss' u rest := by
  intro rest
  induction rest with
  | nil => intro u _; trivial
  | cons l rest ih => intro u h; exact ⟨CellOK.mono hsub h.1, ih l h.2⟩

theorem ChainOK.desc {w : Rat} (hw : 0 ≤ w) {ss : List Seg} :
    ∀ (rest : List Rat) (u : Rat), ChainOK w ss u rest → ∀ x ∈ rest, x < u := by
  intro rest
  induction rest with
  | nil => intro u _ x hx; cases hx
  | cons l rest ih =>
    intro u h x hx
    have hlu : l < u := by have := h.1.1; linarith
    rcases List.mem_cons.mp hx with rfl | hx
    · exact hlu
    · exact lt_trans (ih l h.2 x hx) hlu

/-! ### the net stream set -/

/-- Hot streams enter the net balance with negative heat-capacity flow rate. -/
def negSeg (s : Seg) : Seg := { s with cp := -s.cp }

def netSegs (hot cold : List Seg) : List Seg := cold ++ hot.map negSeg

theorem cpSum_append (w : Rat) (a b : List Seg) (l u : Rat) :
    cpSum w (a ++ b) l u = cpSum w a l u + cpSum w b l u := by
  simp [cpSum, List.sum_append]

theorem cpSum_neg (w : Rat) (ss : List Seg) (l u : Rat) :
    cpSum w (ss.map negSeg) l u = - cpSum w ss l u := by
  unfold cpSum
  induction ss with
  | nil => simp
  | cons s ss ih =>
    simp only [List.map_cons, List.sum_cons]
    rw [ih]
    have : active w (negSeg s) l u = active w s l u := rfl
    rw [this]
    split_ifs <;> simp [negSeg] <;> ring

theorem cpSum_net (w : Rat) (hot cold : List Seg) (l u : Rat) :
    cpSum w (netSegs hot cold) l u = cpSum w cold l u - cpSum w hot l u := by
  rw [netSegs, cpSum_append, cpSum_neg]; ring

theorem content_append (a b : List Seg) (l u : Rat) : content (a ++ b) l u = content a l u + content b l u := by
  simp [content, List.sum_append]

theorem content_neg (ss : List Seg) (l u : Rat) : content (ss.map negSeg) l u = - content ss l u := by
  unfold content
  induction ss with
  | nil => simp
  | cons s ss ih =>
    simp only [List.map_cons, List.sum_cons]
    rw [ih]
    have : ovl (negSeg s) l u = ovl s l u := rfl
    rw [this]
    simp [negSeg]; ring

theorem content_net (hot cold : List Seg) (l u : Rat) :
    content (netSegs hot cold) l u = content cold l u - content hot l u := by
  rw [netSegs, content_append, content_neg]; ring

theorem netSegs_bounds (hot cold : List Seg) :
    ∀ s ∈ netSegs hot cold, ∃ t ∈ cold ++ hot, t.lo = s.lo ∧ t.hi = s.hi := by
  intro s hs
  rcases List.mem_append.mp hs with h | h
  · exact ⟨s, List.mem_append_left _ h, rfl, rfl⟩
  · obtain ⟨t, ht, rfl⟩ := List.mem_map.mp h
    exact ⟨t, List.mem_append_right _ ht, rfl, rfl⟩

/-! ### the columns -/

theorem zipWith_mul_cells (tol w : Rat) (ss : List Seg) (u : Rat) (rest : List Rat) :
    List.zipWith (· * ·) (0 :: deltaVals tol (u :: rest)) (0 :: (cells (u :: rest)).map fun (a, b) => cpSum w ss b a)
      = 0 :: cellTerms tol w ss u rest := by
  simp [cellTerms]

theorem zipWith_sub_cells (w : Rat) (hot cold : List Seg) (T : List Rat) :
    List.zipWith (· - ·) (0 :: (cells T).map fun (a, b) => cpSum w cold b a)
        (0 :: (cells T).map fun (a, b) => cpSum w hot b a)
      = 0 :: (cells T).map fun (a, b) => cpSum w (netSegs hot cold) b a := by
  simp only [List.zipWith_cons_cons, sub_zero, List.cons.injEq, true_and]
  induction (cells T) with
  | nil => simp
  | cons c cs ih =>
    obtain ⟨a, b⟩ := c
    simp only [List.map_cons, List.zipWith_cons_cons, ih, cpSum_net]

/-- The cumulative column of a stream set over the whole grid. -/
theorem cum_column (tol w : Rat) (hw : 0 ≤ w) (htw : tol ≤ w) (ss : List Seg) (t0 : Rat) (rest : List Rat)
    (hs : ∀ s ∈ ss, s.lo ≤ s.hi) (hch : ChainOK w ss t0 rest) :
    cumsum (0 :: cellTerms tol w ss t0 rest) = (t0 :: rest).map (fun t => content ss t t0) := by
  simp only [cumsum, cumsumFrom, add_zero, List.map_cons, content_self ss t0 hs]
  congr 1
  exact cumsum_cells tol w hw htw ss t0 rest t0 0 (le_refl _) (content_self ss t0 hs).symm hch

end OP
