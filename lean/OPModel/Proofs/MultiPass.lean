/-
  C20 helper: the multi-pass conversion `MultiPassEff` and its inverse `MultiPassNTU`
  (`OpenPinch/utils/heat_exchanger.py`), over ℝ.  Same expressions as `HX.multiPassEff` /
  `HX.multiPassNTU` (the `Float` versions the driver compares with the code).
-/
import Mathlib.Analysis.SpecialFunctions.Pow.Real
import Mathlib.Tactic.FieldSimp
import Mathlib.Tactic.Ring
import Mathlib.Tactic.Linarith

namespace OP.HX
open Real

/-- `MultiPassEff(eff, c, Passes)` -/
noncomputable def mpEff (e c : ℝ) (P : ℕ) : ℝ :=
  if c ≠ 1 then (((1 - e * c) / (1 - e)) ^ P - 1) / (((1 - e * c) / (1 - e)) ^ P - c)
  else P * e / (1 + e * (P - 1))

/-- `MultiPassNTU(Eff_p, c, Passes)` -/
noncomputable def mpNTU (E c : ℝ) (P : ℕ) : ℝ :=
  if c ≠ 1 then (((1 - E * c) / (1 - E)) ^ ((1 : ℝ) / P) - 1) / (((1 - E * c) / (1 - E)) ^ ((1 : ℝ) / P) - c)
  else E / (P - E * (P - 1))

/-- balanced streams (`c = 1`): the two conversions are inverse for every pass count -/
theorem mp_roundtrip_balanced (e : ℝ) (P : ℕ) (he : 0 ≤ e) (hP : 1 ≤ P) : mpNTU (mpEff e 1 P) 1 P = e := by
  unfold mpNTU mpEff
  simp only [ne_eq, not_true_eq_false, if_false]
  have hP' : (1 : ℝ) ≤ P := by exact_mod_cast hP
  have hd : 0 < 1 + e * ((P : ℝ) - 1) := by nlinarith
  have hPpos : (0 : ℝ) < P := by linarith
  have h2 : (P : ℝ) - (P * e / (1 + e * (P - 1))) * (P - 1) = P / (1 + e * (P - 1)) := by
    field_simp; ring
  rw [h2]
  field_simp

/-- unbalanced streams: inverse as well, wherever the single-pass ratio `(1 − e c)/(1 − e)` is positive
    and the multi-pass expression is defined -/
theorem mp_roundtrip (e c : ℝ) (P : ℕ) (hc : c ≠ 1) (he1 : e < 1) (hec : e * c < 1) (hP : 1 ≤ P)
    (hr : ((1 - e * c) / (1 - e)) ^ P ≠ c) : mpNTU (mpEff e c P) c P = e := by
  unfold mpNTU mpEff
  simp only [ne_eq, hc, not_false_eq_true, if_true]
  set q := (1 - e * c) / (1 - e) with hq
  have hqpos : 0 < q := div_pos (by linarith) (by linarith)
  set r := q ^ P with hrdef
  have hrc : r - c ≠ 0 := sub_ne_zero.mpr hr
  have h1c : (1 : ℝ) - c ≠ 0 := sub_ne_zero.mpr (Ne.symm hc)
  -- the ratio recovered from the multi-pass effectiveness is r
  have hratio : (1 - (r - 1) / (r - c) * c) / (1 - (r - 1) / (r - c)) = r := by
    have a : 1 - (r - 1) / (r - c) * c = r * (1 - c) / (r - c) := by field_simp; ring
    have b : 1 - (r - 1) / (r - c) = (1 - c) / (r - c) := by field_simp; ring
    rw [a, b]; field_simp
  rw [hratio]
  have hroot : r ^ ((1 : ℝ) / P) = q := by
    rw [hrdef, one_div]
    exact Real.pow_rpow_inv_natCast (le_of_lt hqpos) (by omega)
  rw [hroot]
  -- (q − 1)/(q − c) = e
  have h1e : (1 : ℝ) - e ≠ 0 := by linarith
  have hqc : q - c ≠ 0 := by
    rw [hq]
    have : (1 - e * c) / (1 - e) - c = (1 - c) / (1 - e) := by field_simp; ring
    rw [this]; exact div_ne_zero h1c h1e
  have : q - 1 = e * (1 - c) / (1 - e) := by rw [hq]; field_simp; ring
  have h2 : q - c = (1 - c) / (1 - e) := by rw [hq]; field_simp; ring
  rw [this, h2]; field_simp

end OP.HX
