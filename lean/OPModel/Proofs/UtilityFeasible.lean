/-
  C04 helpers on the code-shaped assignment: every duty `_maximise_utility_duty` hands out is
  bounded by the load that the profile holds at a row the utility's supply level can reach, and
  for an isothermal level on a strictly descending grid it is exactly the largest such load.
-/
import OPModel.Proofs.UtilityClosure

namespace OP

theorem foldl_max_attained' (f : Cand → Rat) : ∀ (cs : List Cand) (init : Rat),
    cs.foldl (fun m y => max m (f y)) init = init ∨ ∃ x ∈ cs, cs.foldl (fun m y => max m (f y)) init = f x := by
  intro cs
  induction cs with
  | nil => intro init; exact Or.inl rfl
  | cons y cs ih =>
    intro init
    simp only [List.foldl_cons]
    rcases ih (max init (f y)) with h | ⟨x, hx, e⟩
    · rcases le_total init (f y) with h' | h'
      · right; exact ⟨y, by simp, by rw [h, max_eq_right h']⟩
      · left; rw [h, max_eq_left h']
    · right; exact ⟨x, List.mem_cons_of_mem _ hx, e⟩

theorem foldl_max_attained (f : Cand → Rat) (cs : List Cand) (c : Cand) :
    ∃ x ∈ c :: cs, cs.foldl (fun m y => max m (f y)) (f c) = f x := by
  rcases foldl_max_attained' f cs (f c) with h | ⟨x, hx, e⟩
  · exact ⟨c, by simp, h⟩
  · exact ⟨x, List.mem_cons_of_mem _ hx, e⟩

/-- The duty is zero or at most the potential of one of the valid intervals. -/
theorem maximise_le_candidate (tol : Rat) (T H : List Rat) (u : ULevel) (isHot : Bool) (qA : Rat) :
    maximiseUtilityDuty tol T H u isHot qA = 0 ∨
      ∃ c ∈ candidates tol T H u isHot qA, maximiseUtilityDuty tol T H u isHot qA ≤ c.qPot := by
  unfold maximiseUtilityDuty
  split_ifs with hlen
  · exact Or.inl rfl
  · cases hcs : candidates tol T H u isHot qA with
    | nil => exact Or.inl rfl
    | cons c cs =>
      simp only
      split_ifs with hdt
      · exact Or.inl rfl
      · right
        obtain ⟨x, hx, e⟩ := foldl_max_attained (·.qPot) cs c
        refine ⟨x, hx, ?_⟩
        split
        · exact le_of_eq e
        · exact le_trans (min_le_left _ _) (le_of_eq e)

/-- What a valid interval of the hot side is made of. -/
theorem candidate_hot (tol : Rat) (T H : List Rat) (u : ULevel) (qA : Rat) (c : Cand)
    (hc : c ∈ candidates tol T H u true qA) :
    ∃ tU hU tL hL, ((tU, hU), (tL, hL)) ∈ candidates.cells' (T.zip H) ∧ c.qPot = hU - qA ∧
      c.dtTar = u.tt - tL ∧ tU ≤ u.ts + tol ∧ tol < hU - qA ∧ hU ≠ hL := by
  unfold candidates at hc
  obtain ⟨⟨⟨tU, hU⟩, ⟨tL, hL⟩⟩, hmem, hsome⟩ := List.mem_filterMap.mp hc
  simp only [if_true] at hsome
  split_ifs at hsome with hcond
  cases hsome
  exact ⟨tU, hU, tL, hL, hmem, rfl, rfl, by linarith [hcond.2.1], hcond.2.2, hcond.1⟩

/-- What a valid interval of the cold side is made of. -/
theorem candidate_cold (tol : Rat) (T H : List Rat) (u : ULevel) (qA : Rat) (c : Cand)
    (hc : c ∈ candidates tol T H u false qA) :
    ∃ tU hU tL hL, ((tU, hU), (tL, hL)) ∈ candidates.cells' (T.zip H) ∧ c.qPot = hL - qA ∧
      c.dtTar = tU - u.tt ∧ u.ts - tol ≤ tL ∧ tol < hL - qA ∧ hL ≠ hU := by
  unfold candidates at hc
  obtain ⟨⟨⟨tU, hU⟩, ⟨tL, hL⟩⟩, hmem, hsome⟩ := List.mem_filterMap.mp hc
  simp only [Bool.false_eq_true, if_false] at hsome
  split_ifs at hsome with hcond
  cases hsome
  exact ⟨tU, hU, tL, hL, hmem, rfl, rfl, by linarith [hcond.2.1], hcond.2.2, hcond.1⟩

/-- The row of the profile a utility's supply level can reach: at or below it for a hot utility,
    at or above it for a cold one (within `tol`). -/
def Reaches (tol : Rat) (isHot : Bool) (u : ULevel) (r : Rat × Rat) : Prop :=
  if isHot then r.1 ≤ u.ts + tol else u.ts - tol ≤ r.1

/-- **Supply-level bound of one step**: a positive duty, added to what is already assigned, stays
    within the load the profile holds at some row the utility's supply level reaches. -/
theorem maximise_reaches (tol : Rat) (T H : List Rat) (u : ULevel) (isHot : Bool) (qA : Rat) :
    maximiseUtilityDuty tol T H u isHot qA = 0 ∨
      ∃ r ∈ T.zip H, Reaches tol isHot u r ∧ qA + maximiseUtilityDuty tol T H u isHot qA ≤ r.2 := by
  rcases maximise_le_candidate tol T H u isHot qA with h | ⟨c, hc, hle⟩
  · exact Or.inl h
  · right
    cases isHot with
    | true =>
      obtain ⟨tU, hU, tL, hL, hcell, e, _, hs, _, _⟩ := candidate_hot tol T H u qA c hc
      exact ⟨(tU, hU), (cells_mem _ _ _ hcell).1, by simp only [Reaches, if_true]; exact hs, by simp only; linarith⟩
    | false =>
      obtain ⟨tU, hU, tL, hL, hcell, e, _, hs, _, _⟩ := candidate_cold tol T H u qA c hc
      exact ⟨(tL, hL), (cells_mem _ _ _ hcell).2, by simp only [Reaches, Bool.false_eq_true, if_false]; exact hs, by simp only; linarith⟩

/-- **Supply-level feasibility of the whole loop**: whenever the `k`-th utility in processing
    order receives a duty, the duty assigned so far (to it and to all utilities before it) is at
    most the load the profile holds at some row its supply level reaches. -/
theorem assignLoop_reaches (tol : Rat) (T H : List Rat) (isHot : Bool) (limit : Rat) :
    ∀ (us : List ULevel) (qA : Rat) (k : Nat) (hk : k < us.length),
      (assignLoop tol T H isHot limit qA us)[k]? = some 0 ∨
      ∃ r ∈ T.zip H, Reaches tol isHot us[k] r ∧
        qA + ((assignLoop tol T H isHot limit qA us).take (k + 1)).sum ≤ r.2 := by
  intro us
  induction us with
  | nil => intro _ k hk; simp at hk
  | cons u us ih =>
    intro qA k hk
    simp only [assignLoop]
    by_cases hq : tol < maximiseUtilityDuty tol T H u isHot qA
    · simp only [hq, if_true]
      split_ifs with hstop
      · cases k with
        | zero =>
          rcases maximise_reaches tol T H u isHot qA with h0 | ⟨r, hr, hre, hle⟩
          · left; simp [h0]
          · right; exact ⟨r, hr, by simpa using hre, by simpa using hle⟩
        | succ k =>
          left
          simp only [List.length_cons, Nat.add_lt_add_iff_right] at hk
          simp [List.getElem?_replicate, hk]
      · cases k with
        | zero =>
          rcases maximise_reaches tol T H u isHot qA with h0 | ⟨r, hr, hre, hle⟩
          · left; simp [h0]
          · right; exact ⟨r, hr, by simpa using hre, by simpa using hle⟩
        | succ k =>
          simp only [List.length_cons, Nat.add_lt_add_iff_right] at hk
          rcases ih (qA + maximiseUtilityDuty tol T H u isHot qA) k hk with h0 | ⟨r, hr, hre, hle⟩
          · left; simpa using h0
          · right
            refine ⟨r, hr, by simpa using hre, ?_⟩
            simp only [List.take_succ_cons, List.sum_cons]
            linarith
    · simp only [hq, if_false]
      split_ifs with hstop
      · left
        cases k with
        | zero => simp
        | succ k =>
          simp only [List.length_cons, Nat.add_lt_add_iff_right] at hk
          simp [List.getElem?_replicate, hk]
      · cases k with
        | zero => left; simp
        | succ k =>
          simp only [List.length_cons, Nat.add_lt_add_iff_right] at hk
          rcases ih qA k hk with h0 | ⟨r, hr, hre, hle⟩
          · left; simpa using h0
          · right
            refine ⟨r, hr, by simpa using hre, ?_⟩
            simp only [List.take_succ_cons, List.sum_cons]
            linarith

/-! ### isothermal levels: the duty is the largest reachable potential -/

theorem cells_desc : ∀ (l : List (Rat × Rat)) (a b : Rat × Rat), (l.map (·.1)).Pairwise (· > ·) →
    (a, b) ∈ candidates.cells' l → b.1 < a.1
  | [], _, _, _, h => by simp [candidates.cells'] at h
  | [_], _, _, _, h => by simp [candidates.cells'] at h
  | x :: y :: l, a, b, hp, h => by
    simp only [candidates.cells', List.mem_cons] at h
    rcases h with h | h
    · obtain ⟨rfl, rfl⟩ := Prod.mk.inj h
      simp only [List.map_cons, List.pairwise_cons, List.mem_cons, forall_eq_or_imp] at hp
      exact hp.1.1
    · simp only [List.map_cons, List.pairwise_cons] at hp
      exact cells_desc (y :: l) a b (by simpa using hp.2) h

/-- **Lowest-grade-first, code-shaped (hot side)**: for an isothermal hot utility on a strictly
    descending grid the duty is zero or at least the potential of EVERY valid interval — together
    with `maximise_le_candidate`, exactly the largest one: the level takes all the load the profile
    holds at or below it that is not yet assigned. -/
theorem maximise_isothermal_hot (tol : Rat) (T H : List Rat) (u : ULevel) (qA : Rat)
    (hiso : u.tt = u.ts) (hlen : T.length = H.length) (hdesc : T.Pairwise (· > ·)) :
    maximiseUtilityDuty tol T H u true qA = 0 ∨
      ∀ c ∈ candidates tol T H u true qA, c.qPot ≤ maximiseUtilityDuty tol T H u true qA := by
  have hmap : ((T.zip H).map (·.1)).Pairwise (· > ·) := by
    rw [List.map_fst_zip (by omega)]; exact hdesc
  -- no valid interval lies so far above the level that the target-temperature limit applies
  have hall : ∀ c ∈ candidates tol T H u true qA, ¬ tol < -c.dtTar := by
    intro c hc
    obtain ⟨tU, hU, tL, hL, hcell, _, e, hs, _, _⟩ := candidate_hot tol T H u qA c hc
    have := cells_desc _ _ _ hmap hcell
    simp only at this
    rw [e, hiso]; intro h; linarith
  unfold maximiseUtilityDuty
  split_ifs with hl
  · exact Or.inl rfl
  · cases hcs : candidates tol T H u true qA with
    | nil => exact Or.inl rfl
    | cons c cs =>
      rw [hcs] at hall
      simp only
      split_ifs with hdt
      · exact Or.inl rfl
      · right
        rw [foldl_if_none (fun x => tol < -x.dtTar) _ (c :: cs) hall]
        simp only
        intro x hx
        rcases List.mem_cons.mp hx with rfl | hx
        · exact foldl_max_ge_init (·.qPot) cs _
        · exact foldl_max_ge_mem (·.qPot) cs _ x hx

/-- … and the cold side. -/
theorem maximise_isothermal_cold (tol : Rat) (T H : List Rat) (u : ULevel) (qA : Rat)
    (hiso : u.tt = u.ts) (hlen : T.length = H.length) (hdesc : T.Pairwise (· > ·)) :
    maximiseUtilityDuty tol T H u false qA = 0 ∨
      ∀ c ∈ candidates tol T H u false qA, c.qPot ≤ maximiseUtilityDuty tol T H u false qA := by
  have hmap : ((T.zip H).map (·.1)).Pairwise (· > ·) := by
    rw [List.map_fst_zip (by omega)]; exact hdesc
  have hall : ∀ c ∈ candidates tol T H u false qA, ¬ tol < -c.dtTar := by
    intro c hc
    obtain ⟨tU, hU, tL, hL, hcell, _, e, hs, _, _⟩ := candidate_cold tol T H u qA c hc
    have := cells_desc _ _ _ hmap hcell
    simp only at this
    rw [e, hiso]; intro h; linarith
  unfold maximiseUtilityDuty
  split_ifs with hl
  · exact Or.inl rfl
  · cases hcs : candidates tol T H u false qA with
    | nil => exact Or.inl rfl
    | cons c cs =>
      rw [hcs] at hall
      simp only
      split_ifs with hdt
      · exact Or.inl rfl
      · right
        rw [foldl_if_none (fun x => tol < -x.dtTar) _ (c :: cs) hall]
        simp only
        intro x hx
        rcases List.mem_cons.mp hx with rfl | hx
        · exact foldl_max_ge_init (·.qPot) cs _
        · exact foldl_max_ge_mem (·.qPot) cs _ x hx

/-! ### a utility whose band lies at or above the level where the demand starts -/

/-- Like `maximise_covering_hot`, but the utility need not lie above the whole segment: it is enough that its
    (shifted) band lies at or above a level `m` at or below which every decreasing interval of the heating
    profile starts — rows above `m` carry no heating demand (hot streams supplied above the hottest cold
    target). -/
theorem maximise_covering_hot_from (tol : Rat) (htol : 0 ≤ tol) (T H : List Rat) (u : ULevel) (qA limit m : Rat)
    (hm : m ≤ u.tt) (hts : u.tt ≤ u.ts)
    (hstart : ∀ c ∈ candidates.cells' (T.zip H), c.1.2 ≠ c.2.2 → c.1.1 ≤ m)
    (hlen : T.length = H.length) (hdesc : T.Pairwise (· > ·)) (hmono : H.Pairwise (· ≥ ·))
    (hhead : H.head? = some limit) (hlast : ∃ z, H.getLast? = some z ∧ z < limit) (hq : tol < limit - qA) :
    maximiseUtilityDuty tol T H u true qA = limit - qA := by
  have hM : ∀ h ∈ H, h ≤ limit := le_head_of_desc H limit hmono hhead
  have hmap : ((T.zip H).map (·.1)).Pairwise (· > ·) := by
    rw [List.map_fst_zip (by omega)]; exact hdesc
  obtain ⟨tU, tL, hL, hcell, hne⟩ := exists_top_cell T H limit hlen hmono hhead hlast
  have htU : tU ≤ m := hstart _ hcell hne
  have hlt : tL < tU := by have := cells_desc _ _ _ hmap hcell; simpa using this
  have hc0 : ({ qPot := limit - qA, qCur := hL - qA, dtTar := u.tt - tL } : Cand) ∈ candidates tol T H u true qA := by
    unfold candidates
    apply List.mem_filterMap.mpr
    refine ⟨((tU, limit), (tL, hL)), hcell, ?_⟩
    simp only [if_true]
    rw [if_pos ⟨hne, by linarith, hq⟩]
  have hall : ∀ c ∈ candidates tol T H u true qA, 0 ≤ c.dtTar ∧ c.qPot ≤ limit - qA := by
    intro c hc
    have hb := (candidates_qPot tol T H u true qA limit hM c hc).2
    refine ⟨?_, hb⟩
    obtain ⟨tU', hU', tL', hL', hcell', _, e, _, _, hne'⟩ := candidate_hot tol T H u qA c hc
    have h1 : tU' ≤ m := hstart _ hcell' hne'
    have h2 : tL' < tU' := by have := cells_desc _ _ _ hmap hcell'; simpa using this
    rw [e]; linarith
  have hlen2 : ¬ T.length < 2 := by
    intro hl
    have : (T.zip H).length < 2 := by rw [List.length_zip]; omega
    cases hz : T.zip H with
    | nil => rw [hz] at hcell; simp [candidates.cells'] at hcell
    | cons x l =>
      cases l with
      | nil => rw [hz] at hcell; simp [candidates.cells'] at hcell
      | cons y l => rw [hz] at this; simp only [List.length_cons] at this; omega
  unfold maximiseUtilityDuty
  rw [if_neg hlen2]
  cases hcs : candidates tol T H u true qA with
  | nil => rw [hcs] at hc0; simp at hc0
  | cons c cs =>
    rw [hcs] at hc0 hall
    simp only
    have hdt : ¬ cs.foldl (fun m x => max m x.dtTar) c.dtTar < 0 := by
      have h1 := foldl_max_ge_init (·.dtTar) cs c.dtTar
      have h2 := (hall c (by simp)).1
      intro h; linarith
    rw [if_neg hdt]
    rw [foldl_if_none (fun x => tol < -x.dtTar) _ (c :: cs) (fun x hx => by have := (hall x hx).1; intro h; linarith)]
    simp only
    apply le_antisymm
    · exact foldl_max_le (·.qPot) (limit - qA) cs c.qPot (hall c (by simp)).2 (fun x hx => (hall x (by simp [hx])).2)
    · rcases List.mem_cons.mp hc0 with h | h
      · have : c.qPot = limit - qA := by rw [← h]
        rw [← this]; exact foldl_max_ge_init (·.qPot) cs c.qPot
      · exact foldl_max_ge_mem (·.qPot) cs c.qPot _ h

/-- the cooling side: the utility's (shifted) band lies at or below a level `m` at or above which every
    non-flat interval of the cooling profile ends -/
theorem maximise_covering_cold_from (tol : Rat) (htol : 0 ≤ tol) (T H : List Rat) (u : ULevel) (qA limit m : Rat)
    (hm : u.tt ≤ m) (hts : u.ts ≤ u.tt)
    (hstart : ∀ c ∈ candidates.cells' (T.zip H), c.1.2 ≠ c.2.2 → m ≤ c.2.1)
    (hlen : T.length = H.length) (hdesc : T.Pairwise (· > ·)) (hmono : H.Pairwise (· ≤ ·))
    (hlastv : H.getLast? = some limit) (hhead : ∃ z, H.head? = some z ∧ z < limit) (hq : tol < limit - qA) :
    maximiseUtilityDuty tol T H u false qA = limit - qA := by
  have hM : ∀ h ∈ H, h ≤ limit := le_last_of_asc H limit hmono hlastv
  have hmap : ((T.zip H).map (·.1)).Pairwise (· > ·) := by
    rw [List.map_fst_zip (by omega)]; exact hdesc
  obtain ⟨tU, hU, tL, hcell, hne⟩ := exists_bottom_cell T H limit hlen hmono hlastv hhead
  have htL : m ≤ tL := hstart _ hcell hne
  have hlt : tL < tU := by have := cells_desc _ _ _ hmap hcell; simpa using this
  have hc0 : ({ qPot := limit - qA, qCur := hU - qA, dtTar := tU - u.tt } : Cand) ∈ candidates tol T H u false qA := by
    unfold candidates
    apply List.mem_filterMap.mpr
    refine ⟨((tU, hU), (tL, limit)), hcell, ?_⟩
    simp only [Bool.false_eq_true, if_false]
    rw [if_pos ⟨fun h => hne h.symm, by linarith, hq⟩]
  have hall : ∀ c ∈ candidates tol T H u false qA, 0 ≤ c.dtTar ∧ c.qPot ≤ limit - qA := by
    intro c hc
    have hb := (candidates_qPot tol T H u false qA limit hM c hc).2
    refine ⟨?_, hb⟩
    obtain ⟨tU', hU', tL', hL', hcell', _, e, _, _, hne'⟩ := candidate_cold tol T H u qA c hc
    have h1 : m ≤ tL' := hstart _ hcell' (fun h => hne' h.symm)
    have h2 : tL' < tU' := by have := cells_desc _ _ _ hmap hcell'; simpa using this
    rw [e]; linarith
  have hlen2 : ¬ T.length < 2 := by
    intro hl
    have : (T.zip H).length < 2 := by rw [List.length_zip]; omega
    cases hz : T.zip H with
    | nil => rw [hz] at hcell; simp [candidates.cells'] at hcell
    | cons x l =>
      cases l with
      | nil => rw [hz] at hcell; simp [candidates.cells'] at hcell
      | cons y l => rw [hz] at this; simp only [List.length_cons] at this; omega
  unfold maximiseUtilityDuty
  rw [if_neg hlen2]
  cases hcs : candidates tol T H u false qA with
  | nil => rw [hcs] at hc0; simp at hc0
  | cons c cs =>
    rw [hcs] at hc0 hall
    simp only
    have hdt : ¬ cs.foldl (fun m x => max m x.dtTar) c.dtTar < 0 := by
      have h1 := foldl_max_ge_init (·.dtTar) cs c.dtTar
      have h2 := (hall c (by simp)).1
      intro h; linarith
    rw [if_neg hdt]
    rw [foldl_if_none (fun x => tol < -x.dtTar) _ (c :: cs) (fun x hx => by have := (hall x hx).1; intro h; linarith)]
    simp only
    apply le_antisymm
    · exact foldl_max_le (·.qPot) (limit - qA) cs c.qPot (hall c (by simp)).2 (fun x hx => (hall x (by simp [hx])).2)
    · rcases List.mem_cons.mp hc0 with h | h
      · have : c.qPot = limit - qA := by rw [← h]
        rw [← this]; exact foldl_max_ge_init (·.qPot) cs c.qPot
      · exact foldl_max_ge_mem (·.qPot) cs c.qPot _ h

theorem list_sum_nonneg : ∀ (l : List Rat), (∀ d ∈ l, 0 ≤ d) → 0 ≤ l.sum
  | [], _ => by simp
  | a :: l, h => by
    simp only [List.sum_cons]
    have := h a (by simp)
    have := list_sum_nonneg l (fun d hd => h d (by simp [hd]))
    linarith

/-- the loop closes when ANY of its utilities takes whatever is left once it is reached — wherever it stands in
    the processing order (either side) -/
theorem assignLoop_closes_of_cover_mid (tol : Rat) (htol : 0 ≤ tol) (T H : List Rat) (isHot : Bool) (uc : ULevel) (limit : Rat)
    (hM : ∀ h ∈ H, h ≤ limit)
    (hstep : ∀ qA, tol < limit - qA → maximiseUtilityDuty tol T H uc isHot qA = limit - qA) (post : List ULevel) :
    ∀ (pre : List ULevel) (qA : Rat), qA ≤ limit →
      limit - tol ≤ qA + (assignLoop tol T H isHot limit qA (pre ++ uc :: post)).sum ∧
      qA + (assignLoop tol T H isHot limit qA (pre ++ uc :: post)).sum ≤ limit := by
  intro pre
  induction pre with
  | nil =>
    intro qA hqA
    have hb := assignLoop_bounds tol htol T H isHot limit limit hM (uc :: post) qA hqA
    simp only [List.nil_append]
    refine ⟨?_, by linarith [hb.2]⟩
    simp only [assignLoop] at hb ⊢
    by_cases hq : tol < limit - qA
    · rw [hstep qA hq]
      simp only [hq, if_true]
      split_ifs with hstop
      · simp only [List.sum_cons, sum_map_zero]; linarith
      · have hb2 := assignLoop_bounds tol htol T H isHot limit limit hM post (qA + (limit - qA)) (by linarith)
        have hnn : 0 ≤ (assignLoop tol T H isHot limit (qA + (limit - qA)) post).sum :=
          list_sum_nonneg _ hb2.1
        simp only [List.sum_cons]; linarith
    · -- already within tol of the limit: whatever follows is non-negative
      have hall : ∀ d ∈ (let q := maximiseUtilityDuty tol T H uc isHot qA
                          let p : Rat × Rat := if tol < q then (q, qA + q) else (0, qA)
                          if rabs (limit - p.2) < tol then p.1 :: post.map (fun _ => (0 : Rat))
                          else p.1 :: assignLoop tol T H isHot limit p.2 post), 0 ≤ d := hb.1
      have := list_sum_nonneg _ hall
      simp only at this
      linarith
  | cons u pre ih =>
    intro qA hqA
    simp only [List.cons_append, assignLoop]
    have hle := maximise_le tol T H u isHot qA limit hM hqA
    by_cases hq : tol < maximiseUtilityDuty tol T H u isHot qA
    · simp only [hq, if_true]
      have hqA' : qA + maximiseUtilityDuty tol T H u isHot qA ≤ limit := by linarith
      by_cases hstop : rabs (limit - (qA + maximiseUtilityDuty tol T H u isHot qA)) < tol
      · rw [if_pos hstop]
        simp only [List.sum_cons, sum_map_zero]
        have : rabs (limit - (qA + maximiseUtilityDuty tol T H u isHot qA)) = limit - (qA + maximiseUtilityDuty tol T H u isHot qA) := by
          unfold rabs; rw [if_neg (by linarith)]
        rw [this] at hstop
        constructor <;> linarith
      · rw [if_neg hstop]
        obtain ⟨a, b⟩ := ih _ hqA'
        simp only [List.sum_cons]
        constructor <;> linarith
    · simp only [hq, if_false]
      by_cases hstop : rabs (limit - qA) < tol
      · rw [if_pos hstop]
        simp only [List.sum_cons, sum_map_zero]
        have : rabs (limit - qA) = limit - qA := by unfold rabs; rw [if_neg (by linarith)]
        rw [this] at hstop
        constructor <;> linarith
      · rw [if_neg hstop]
        obtain ⟨a, b⟩ := ih qA hqA
        simp only [List.sum_cons]
        constructor <;> linarith

/-! ### gliding levels: the return-temperature limit -/

theorem foldl_optmin_some (p : Cand → Prop) [DecidablePred p] (g : Cand → Rat) :
    ∀ (cs : List Cand) (a : Rat), ∃ v,
      cs.foldl (fun acc x => if p x then (match acc with | none => some (g x) | some a => some (min a (g x))) else acc) (some a) = some v := by
  intro cs
  induction cs with
  | nil => intro a; exact ⟨a, rfl⟩
  | cons c cs ih =>
    intro a
    simp only [List.foldl_cons]
    by_cases hp : p c
    · simp only [hp, if_true]; exact ih _
    · simp only [hp, if_false]; exact ih _

theorem foldl_if_none_conv (p : Cand → Prop) [DecidablePred p] (g : Cand → Rat) :
    ∀ (cs : List Cand),
      cs.foldl (fun acc x => if p x then (match acc with | none => some (g x) | some a => some (min a (g x))) else acc) none = none →
      ∀ x ∈ cs, ¬ p x := by
  intro cs
  induction cs with
  | nil => intro _ x hx; simp at hx
  | cons c cs ih =>
    intro h x hx
    simp only [List.foldl_cons] at h
    by_cases hp : p c
    · simp only [hp, if_true] at h
      obtain ⟨v, hv⟩ := foldl_optmin_some p g cs (g c)
      rw [hv] at h; cases h
    · simp only [hp, if_false] at h
      rcases List.mem_cons.mp hx with rfl | hx
      · exact hp
      · exact ih h x hx

theorem foldl_optmin_le (p : Cand → Prop) [DecidablePred p] (g : Cand → Rat) :
    ∀ (cs : List Cand) (acc : Option Rat) (v : Rat),
      cs.foldl (fun acc x => if p x then (match acc with | none => some (g x) | some a => some (min a (g x))) else acc) acc = some v →
      (∀ a, acc = some a → v ≤ a) ∧ ∀ x ∈ cs, p x → v ≤ g x := by
  intro cs
  induction cs with
  | nil =>
    intro acc v h
    simp only [List.foldl_nil] at h
    refine ⟨fun a ha => ?_, fun x hx => by simp at hx⟩
    rw [h] at ha; cases ha; exact le_refl _
  | cons c cs ih =>
    intro acc v h
    simp only [List.foldl_cons] at h
    by_cases hp : p c
    · simp only [hp, if_true] at h
      cases acc with
      | none =>
        obtain ⟨h1, h2⟩ := ih _ v h
        refine ⟨fun a ha => (by cases ha), ?_⟩
        intro x hx hpx
        rcases List.mem_cons.mp hx with rfl | hx
        · exact h1 _ rfl
        · exact h2 x hx hpx
      | some a0 =>
        obtain ⟨h1, h2⟩ := ih _ v h
        have := h1 _ rfl
        refine ⟨fun a ha => (by cases ha; exact le_trans this (min_le_left _ _)), ?_⟩
        intro x hx hpx
        rcases List.mem_cons.mp hx with rfl | hx
        · exact le_trans this (min_le_right _ _)
        · exact h2 x hx hpx
    · simp only [hp, if_false] at h
      obtain ⟨h1, h2⟩ := ih _ v h
      refine ⟨h1, ?_⟩
      intro x hx hpx
      rcases List.mem_cons.mp hx with rfl | hx
      · exact absurd hpx hp
      · exact h2 x hx hpx

/-- **Return-temperature limit (`Q_tt`)**: for every valid interval that lies beyond the utility's
    target temperature (`tol < -dtTar`), the share of the duty that a utility gliding linearly from
    supply to target still has to release beyond that interval's row — `d · (-dtTar) / |tt - ts|` —
    fits the load `qCur` that the profile still holds there. -/
theorem maximise_return_limit (tol : Rat) (T H : List Rat) (u : ULevel) (isHot : Bool) (qA : Rat) :
    ∀ c ∈ candidates tol T H u isHot qA, tol < -c.dtTar → 0 ≤ tol →
      maximiseUtilityDuty tol T H u isHot qA * (-c.dtTar) ≤ c.qCur * rabs (u.tt - u.ts) ∨
      maximiseUtilityDuty tol T H u isHot qA = 0 := by
  intro c hc hlt htol
  unfold maximiseUtilityDuty
  split_ifs with hlen
  · exact Or.inr rfl
  · cases hcs : candidates tol T H u isHot qA with
    | nil => rw [hcs] at hc; simp at hc
    | cons c0 cs =>
      rw [hcs] at hc
      simp only
      split_ifs with hdt
      · exact Or.inr rfl
      · left
        have hpos : 0 < -c.dtTar := lt_of_le_of_lt htol hlt
        split
        · rename_i hnone
          -- some interval beyond the target exists, so the fold cannot be `none`
          exfalso
          have := foldl_if_none_conv (fun x => tol < -x.dtTar)
            (fun x => x.qCur / (-x.dtTar) * rabs (u.tt - u.ts)) (c0 :: cs) hnone c hc
          exact this hlt
        · rename_i v hv
          have hle := (foldl_optmin_le (fun x => tol < -x.dtTar)
            (fun x => x.qCur / (-x.dtTar) * rabs (u.tt - u.ts)) (c0 :: cs) none v hv).2 c hc hlt
          have h1 : min (cs.foldl (fun m x => max m x.qPot) c0.qPot) v ≤ c.qCur / (-c.dtTar) * rabs (u.tt - u.ts) :=
            le_trans (min_le_right _ _) hle
          have h2 := mul_le_mul_of_nonneg_right h1 (le_of_lt hpos)
          have e : c.qCur / (-c.dtTar) * rabs (u.tt - u.ts) * (-c.dtTar) = c.qCur * rabs (u.tt - u.ts) := by
            rw [mul_right_comm, div_mul_cancel₀ _ (ne_of_gt hpos)]
          rw [e] at h2
          exact h2

end OP
