/-
  From the grid to every temperature: the net deficit `deficit hot cold x` is piecewise linear
  with breakpoints on a `ChainOK` grid and constant beyond it, so a bound that holds on the grid
  rows holds at every rational temperature.  Used by C01 (exactness) and C09 (lower bound).
-/
import OPModel.Proofs.CascadeTargets

namespace OP

theorem InRange.swap {a b : List Seg} {bot top : Rat} (h : InRange (a ++ b) bot top) : InRange (b ++ a) bot top :=
  fun s hs => h s (by rcases List.mem_append.mp hs with h' | h'
                      · exact List.mem_append_right _ h'
                      · exact List.mem_append_left _ h')

theorem ChainOK.swap {w : Rat} {a b : List Seg} (rest : List Rat) (u : Rat) (h : ChainOK w (a ++ b) u rest) :
    ChainOK w (b ++ a) u rest :=
  ChainOK.mono (fun s hs => ⟨s, by
    rcases List.mem_append.mp hs with h' | h'
    · exact List.mem_append_right _ h'
    · exact List.mem_append_left _ h', rfl, rfl⟩) rest u h

theorem deficit_le_of_grid (w : Rat) (hw : 0 ≤ w) (hot cold : List Seg) (t0 : Rat) (rest : List Rat)
    (hr : InRange (cold ++ hot) ((t0 :: rest).getLast (List.cons_ne_nil _ _)) t0)
    (hch : ChainOK w (cold ++ hot) t0 rest) (q : Rat)
    (hmax : ∀ x ∈ t0 :: rest, deficit hot cold x ≤ q) : ∀ x : Rat, deficit hot cold x ≤ q := by
  have hhi_h : ∀ s ∈ hot, s.hi ≤ t0 := fun s h => (hr s (List.mem_append_right _ h)).2.1
  have hhi_c : ∀ s ∈ cold, s.hi ≤ t0 := fun s h => (hr s (List.mem_append_left _ h)).2.1
  have htop : deficit hot cold t0 = 0 := by
    unfold deficit
    rw [aboveAll_top cold t0 hhi_c, aboveAll_top hot t0 hhi_h]; ring
  have h0 : 0 ≤ q := by
    have := hmax t0 (by simp)
    rw [htop] at this; exact this
  intro x
  set bot := (t0 :: rest).getLast (List.cons_ne_nil _ _) with hbot
  by_cases hxt : t0 ≤ x
  · have : deficit hot cold x = 0 := by
      unfold deficit
      rw [aboveAll_top cold x (fun s h => le_trans (hhi_c s h) hxt),
        aboveAll_top hot x (fun s h => le_trans (hhi_h s h) hxt)]; ring
    rw [this]; exact h0
  · have hxt' : x ≤ t0 := le_of_lt (not_le.mp hxt)
    by_cases hxb : x ≤ bot
    · have e : deficit hot cold x = deficit hot cold bot := by
        unfold deficit
        rw [aboveAll_bottom cold x (fun s h => ⟨(hr s (List.mem_append_left _ h)).1, le_trans hxb (hr s (List.mem_append_left _ h)).2.2⟩),
          aboveAll_bottom hot x (fun s h => ⟨(hr s (List.mem_append_right _ h)).1, le_trans hxb (hr s (List.mem_append_right _ h)).2.2⟩),
          aboveAll_bottom cold bot (fun s h => ⟨(hr s (List.mem_append_left _ h)).1, (hr s (List.mem_append_left _ h)).2.2⟩),
          aboveAll_bottom hot bot (fun s h => ⟨(hr s (List.mem_append_right _ h)).1, (hr s (List.mem_append_right _ h)).2.2⟩)]
      rw [e]; exact hmax bot (List.getLast_mem _)
    · have hbx : bot ≤ x := le_of_lt (not_le.mp hxb)
      rcases exists_cell w (cold ++ hot) rest t0 x hch hxt' hbx with e | ⟨l, u, ml, mu, hcell, hlx, hxu⟩
      · rw [e, htop]; exact h0
      · have hc_c : ∀ s ∈ cold, (s.lo ≤ l ∨ u ≤ s.lo) ∧ (s.hi ≤ l ∨ u ≤ s.hi) ∧ s.lo ≤ s.hi :=
          fun s h => hcell.2 s (List.mem_append_left _ h)
        have hc_h : ∀ s ∈ hot, (s.lo ≤ l ∨ u ≤ s.lo) ∧ (s.hi ≤ l ∨ u ≤ s.hi) ∧ s.lo ≤ s.hi :=
          fun s h => hcell.2 s (List.mem_append_right _ h)
        have ec := aboveAll_affine cold l u x hlx hxu hc_c
        have eh := aboveAll_affine hot l u x hlx hxu hc_h
        have hd : (u - l) * deficit hot cold x = (x - l) * deficit hot cold u + (u - x) * deficit hot cold l := by
          unfold deficit
          rw [mul_sub, ec, eh]; ring
        have hu := hmax u mu
        have hl := hmax l ml
        have hpos : 0 < u - l := by have := hcell.1; linarith
        have h1 : (x - l) * deficit hot cold u ≤ (x - l) * q :=
          mul_le_mul_of_nonneg_left hu (by linarith)
        have h2 : (u - x) * deficit hot cold l ≤ (u - x) * q :=
          mul_le_mul_of_nonneg_left hl (by linarith)
        have h3 : (u - l) * deficit hot cold x ≤ (u - l) * q := by
          rw [hd]; have : (u - l) * q = (x - l) * q + (u - x) * q := by ring
          rw [this]; exact add_le_add h1 h2
        exact le_of_mul_le_mul_left h3 hpos

/-- the deficit is additive over zones: stream lists concatenated -/
theorem aboveAll_append (a b : List Seg) (x : Rat) : aboveAll (a ++ b) x = aboveAll a x + aboveAll b x := by
  unfold aboveAll; rw [List.map_append, List.sum_append]

theorem aboveAll_flatten (zs : List (List Seg)) (x : Rat) :
    aboveAll zs.flatten x = (zs.map fun z => aboveAll z x).sum := by
  induction zs with
  | nil => simp [aboveAll]
  | cons z zs ih => rw [List.flatten_cons, aboveAll_append, ih]; simp

end OP
