/- C07 helpers: cumulative sums of one-signed increments are monotone. -/
import OPModel.Model.Pockets
import Mathlib.Algebra.Order.Field.Rat
import Mathlib.Tactic.Linarith

namespace OP

theorem cumsumFrom_ge (xs : List Rat) (h : ∀ x ∈ xs, 0 ≤ x) : ∀ acc, ∀ y ∈ cumsumFrom acc xs, acc ≤ y := by
  induction xs with
  | nil => intro acc y hy; cases hy
  | cons x xs ih =>
    intro acc y hy
    have hx := h x List.mem_cons_self
    simp only [cumsumFrom, List.mem_cons] at hy
    rcases hy with rfl | hy
    · linarith
    · have := ih (fun z hz => h z (List.mem_cons_of_mem _ hz)) (acc + x) y hy
      linarith

/-- `np.cumsum` of non-negative increments is non-decreasing. -/
theorem cumsumFrom_mono (xs : List Rat) (h : ∀ x ∈ xs, 0 ≤ x) : ∀ acc, (cumsumFrom acc xs).Pairwise (· ≤ ·) := by
  induction xs with
  | nil => intro _; exact List.Pairwise.nil
  | cons x xs ih =>
    intro acc
    simp only [cumsumFrom]
    apply List.pairwise_cons.mpr
    exact ⟨cumsumFrom_ge xs (fun z hz => h z (List.mem_cons_of_mem _ hz)) (acc + x),
      ih (fun z hz => h z (List.mem_cons_of_mem _ hz)) (acc + x)⟩

theorem cumsumFrom_le (xs : List Rat) (h : ∀ x ∈ xs, x ≤ 0) : ∀ acc, ∀ y ∈ cumsumFrom acc xs, y ≤ acc := by
  induction xs with
  | nil => intro acc y hy; cases hy
  | cons x xs ih =>
    intro acc y hy
    have hx := h x List.mem_cons_self
    simp only [cumsumFrom, List.mem_cons] at hy
    rcases hy with rfl | hy
    · linarith
    · have := ih (fun z hz => h z (List.mem_cons_of_mem _ hz)) (acc + x) y hy
      linarith

theorem cumsumFrom_anti (xs : List Rat) (h : ∀ x ∈ xs, x ≤ 0) : ∀ acc, (cumsumFrom acc xs).Pairwise (· ≥ ·) := by
  induction xs with
  | nil => intro _; exact List.Pairwise.nil
  | cons x xs ih =>
    intro acc
    simp only [cumsumFrom]
    apply List.pairwise_cons.mpr
    exact ⟨fun y hy => cumsumFrom_le xs (fun z hz => h z (List.mem_cons_of_mem _ hz)) (acc + x) y hy,
      ih (fun z hz => h z (List.mem_cons_of_mem _ hz)) (acc + x)⟩

end OP
