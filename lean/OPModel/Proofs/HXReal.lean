/-
  C20: the ε–NTU relations of `OPModel/Model/HX.lean` instantiated over the real numbers.
-/
import OPModel.Model.HX
import Mathlib.Analysis.SpecialFunctions.Log.Basic
import Mathlib.Analysis.SpecialFunctions.Exp
import Mathlib.Analysis.SpecialFunctions.Sqrt
import Mathlib.Tactic.Linarith
import Mathlib.Tactic.FieldSimp
import Mathlib.Tactic.Ring
import Mathlib.Tactic.Positivity

namespace OP.HX
open Real

/-- The same record of operations, over ℝ. -/
noncomputable def realOps : Ops ℝ where
  add := (· + ·)
  sub := (· - ·)
  mul := (· * ·)
  div := (· / ·)
  neg := fun x => -x
  exp := Real.exp
  log := Real.log
  sqrt := Real.sqrt
  one := 1
  two := 2

theorem effCF_real (N c : ℝ) :
    effCF realOps N c = (1 - exp (-(N * (1 - c)))) / (1 - c * exp (-(N * (1 - c)))) := rfl
theorem ntuCF_real (e c : ℝ) : ntuCF realOps e c = 1 / (1 - c) * log ((1 - e * c) / (1 - e)) := rfl
theorem effCF1_real (N : ℝ) : effCF1 realOps N = N / (1 + N) := rfl
theorem ntuCF1_real (e : ℝ) : ntuCF1 realOps e = e / (1 - e) := rfl
theorem effPF_real (N c : ℝ) : effPF realOps N c = (1 - exp (-(N * (1 + c)))) / (1 + c) := rfl
theorem ntuPF_real (e c : ℝ) : ntuPF realOps e c = -log (1 - e * (1 + c)) / (1 + c) := rfl
theorem effCond_real (N : ℝ) : effCond realOps N = 1 - exp (-N) := rfl
theorem ntuCond_real (e : ℝ) : ntuCond realOps e = -log (1 - e) := rfl
theorem effCmax_real (N c : ℝ) : effCmax realOps N c = 1 - exp (-1 / c * (1 - exp (-(N * c)))) := rfl
theorem ntuCmax_real (e c : ℝ) : ntuCmax realOps e c = -1 / c * log (1 + c * log (1 - e)) := rfl
theorem effCmin_real (N c : ℝ) : effCmin realOps N c = 1 / c * (1 - exp (-c * (1 - exp (-N)))) := rfl
theorem ntuCmin_real (e c : ℝ) : ntuCmin realOps e c = -log (1 + 1 / c * log (1 - e * c)) := rfl
theorem lmtd_real (a b : ℝ) : lmtd realOps a b = (a - b) / log (a / b) := rfl

/-- Counter flow, `c < 1`: NTU → ε → NTU. -/
theorem roundtrip_cf (N c : ℝ) (hN : 0 < N) (hc0 : 0 ≤ c) (hc1 : c < 1) :
    ntuCF realOps (effCF realOps N c) c = N := by
  rw [effCF_real, ntuCF_real]
  set E := exp (-(N * (1 - c))) with hE
  have hEpos : 0 < E := exp_pos _
  have hElt : E < 1 := by
    rw [hE]; apply exp_lt_one_iff.mpr; nlinarith
  have hden : 0 < 1 - c * E := by nlinarith
  have h1c : 0 < 1 - c := by linarith
  have hd0 : 1 - c * E ≠ 0 := ne_of_gt hden
  have hE0 : E ≠ 0 := ne_of_gt hEpos
  have h3 : (1 - c) ≠ 0 := ne_of_gt h1c
  have n1 : 1 - (1 - E) / (1 - c * E) * c = (1 - c) / (1 - c * E) := by
    rw [eq_div_iff hd0, sub_mul, one_mul, mul_assoc, mul_comm c (1 - c * E), ← mul_assoc,
      div_mul_cancel₀ _ hd0]
    ring
  have n2 : 1 - (1 - E) / (1 - c * E) = E * (1 - c) / (1 - c * E) := by
    rw [eq_div_iff hd0, sub_mul, one_mul, div_mul_cancel₀ _ hd0]
    ring
  have e1 : (1 - (1 - E) / (1 - c * E) * c) / (1 - (1 - E) / (1 - c * E)) = E⁻¹ := by
    rw [n1, n2]; field_simp
  rw [e1, log_inv, hE, log_exp]
  field_simp

/-- Counter flow, `c = 1`. -/
theorem roundtrip_cf1 (N : ℝ) (hN : 0 < N) : ntuCF1 realOps (effCF1 realOps N) = N := by
  rw [effCF1_real, ntuCF1_real]
  have : (1 : ℝ) + N ≠ 0 := by positivity
  field_simp
  ring

/-- Parallel flow. -/
theorem roundtrip_pf (N c : ℝ) (hc0 : 0 ≤ c) : ntuPF realOps (effPF realOps N c) c = N := by
  rw [effPF_real, ntuPF_real]
  have h : (1 : ℝ) + c ≠ 0 := by positivity
  have e1 : 1 - (1 - exp (-(N * (1 + c)))) / (1 + c) * (1 + c) = exp (-(N * (1 + c))) := by
    field_simp; ring
  rw [e1, log_exp]
  field_simp

/-- Condensing / evaporating. -/
theorem roundtrip_cond (N : ℝ) : ntuCond realOps (effCond realOps N) = N := by
  rw [effCond_real, ntuCond_real]
  have : 1 - (1 - exp (-N)) = exp (-N) := by ring
  rw [this, log_exp]; ring

/-- Cross flow, Cmax unmixed. -/
theorem roundtrip_cmax (N c : ℝ) (hc : 0 < c) : ntuCmax realOps (effCmax realOps N c) c = N := by
  rw [effCmax_real, ntuCmax_real]
  have hc0 : c ≠ 0 := ne_of_gt hc
  have e1 : 1 - (1 - exp (-1 / c * (1 - exp (-(N * c))))) = exp (-1 / c * (1 - exp (-(N * c)))) := by ring
  rw [e1, log_exp]
  have e2 : 1 + c * (-1 / c * (1 - exp (-(N * c)))) = exp (-(N * c)) := by field_simp; ring
  rw [e2, log_exp]
  field_simp

/-- Cross flow, Cmin unmixed. -/
theorem roundtrip_cmin (N c : ℝ) (hc : 0 < c) : ntuCmin realOps (effCmin realOps N c) c = N := by
  rw [effCmin_real, ntuCmin_real]
  have hc0 : c ≠ 0 := ne_of_gt hc
  have e1 : 1 - 1 / c * (1 - exp (-c * (1 - exp (-N)))) * c = exp (-c * (1 - exp (-N))) := by field_simp; ring
  rw [e1, log_exp]
  have e2 : 1 + 1 / c * (-c * (1 - exp (-N))) = exp (-N) := by field_simp; ring
  rw [e2, log_exp]; ring

/-- Effectiveness of a condenser / evaporator lies strictly between 0 and 1 and increases with NTU. -/
theorem effCond_range (N : ℝ) (hN : 0 < N) : 0 < effCond realOps N ∧ effCond realOps N < 1 := by
  rw [effCond_real]
  have h1 : exp (-N) < 1 := exp_lt_one_iff.mpr (by linarith)
  have h2 : 0 < exp (-N) := exp_pos _
  constructor <;> linarith

theorem effCond_mono (N M : ℝ) (h : N ≤ M) : effCond realOps N ≤ effCond realOps M := by
  rw [effCond_real, effCond_real]
  have : exp (-M) ≤ exp (-N) := exp_le_exp.mpr (by linarith)
  linarith

/-- Counter-flow effectiveness lies in (0, 1) for `0 ≤ c < 1`. -/
theorem effCF_range (N c : ℝ) (hN : 0 < N) (hc0 : 0 ≤ c) (hc1 : c < 1) :
    0 < effCF realOps N c ∧ effCF realOps N c < 1 := by
  rw [effCF_real]
  set E := exp (-(N * (1 - c))) with hE
  have hEpos : 0 < E := exp_pos _
  have hElt : E < 1 := by rw [hE]; apply exp_lt_one_iff.mpr; nlinarith
  have hden : 0 < 1 - c * E := by nlinarith
  constructor
  · apply div_pos <;> linarith
  · rw [div_lt_one hden]; nlinarith

/-- At zero capacity ratio the counter-flow and parallel-flow relations reduce to `1 - e^{-NTU}`. -/
theorem eff_c0 (N : ℝ) : effCF realOps N 0 = effCond realOps N ∧ effPF realOps N 0 = effCond realOps N := by
  rw [effCF_real, effPF_real, effCond_real]
  constructor <;> simp

/-! ### log-mean temperature difference -/

/-- Symmetric in its arguments. -/
theorem lmtd_symm (a b : ℝ) (ha : 0 < a) (hb : 0 < b) : lmtd realOps a b = lmtd realOps b a := by
  rw [lmtd_real, lmtd_real]
  have : log (b / a) = -log (a / b) := by
    rw [log_div (ne_of_gt hb) (ne_of_gt ha), log_div (ne_of_gt ha) (ne_of_gt hb)]; ring
  rw [this, div_neg, ← neg_div]; ring_nf

/-- Not below the smaller end difference. -/
theorem lmtd_ge_min (a b : ℝ) (ha : 0 < a) (hb : 0 < b) (hab : b < a) : b ≤ lmtd realOps a b := by
  rw [lmtd_real]
  have hx : 1 < a / b := by rw [lt_div_iff₀ hb]; linarith
  have hlogpos : 0 < log (a / b) := log_pos hx
  rw [le_div_iff₀ hlogpos]
  have h1 : log (a / b) ≤ a / b - 1 := log_le_sub_one_of_pos (by positivity)
  have : b * log (a / b) ≤ b * (a / b - 1) := mul_le_mul_of_nonneg_left h1 (le_of_lt hb)
  have e : b * (a / b - 1) = a - b := by field_simp
  linarith

/-- Not above the larger end difference. -/
theorem lmtd_le_max (a b : ℝ) (ha : 0 < a) (hb : 0 < b) (hab : b < a) : lmtd realOps a b ≤ a := by
  rw [lmtd_real]
  have hx : 1 < a / b := by rw [lt_div_iff₀ hb]; linarith
  have hlogpos : 0 < log (a / b) := log_pos hx
  rw [div_le_iff₀ hlogpos]
  have h1 : 1 - (a / b)⁻¹ ≤ log (a / b) := one_sub_inv_le_log_of_pos (by positivity)
  have e : (a / b)⁻¹ = b / a := by rw [inv_div]
  rw [e] at h1
  have : a * (1 - b / a) ≤ a * log (a / b) := mul_le_mul_of_nonneg_left h1 (le_of_lt ha)
  have e2 : a * (1 - b / a) = a - b := by field_simp
  linarith

end OP.HX
