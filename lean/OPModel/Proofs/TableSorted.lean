/- C08 helpers: `_dedupe_monotonic` of a sorted request list is strictly descending with gaps
   wider than `tol`, and contains only requested values. -/
import OPModel.Proofs.TableOrder

namespace OP

theorem dedupeMono_go_sub (tol : Rat) : ∀ (xs : List Rat) (last : Rat), ∀ y ∈ dedupeMono.go tol last xs, y ∈ xs := by
  intro xs
  induction xs with
  | nil => intro last y h; simp [dedupeMono.go] at h
  | cons x xs ih =>
    intro last y h
    simp only [dedupeMono.go] at h
    split at h
    · rcases List.mem_cons.mp h with rfl | h
      · exact List.mem_cons_self
      · exact List.mem_cons_of_mem _ (ih _ y h)
    · exact List.mem_cons_of_mem _ (ih _ y h)

theorem dedupeMono_sub (tol : Rat) (xs : List Rat) : ∀ y ∈ dedupeMono tol xs, y ∈ xs := by
  cases xs with
  | nil => intro y h; simp [dedupeMono] at h
  | cons x xs =>
    intro y h
    simp only [dedupeMono] at h
    rcases List.mem_cons.mp h with rfl | h
    · exact List.mem_cons_self
    · exact List.mem_cons_of_mem _ (dedupeMono_go_sub tol xs x y h)

/-- `Chain last xs`: strictly descending from `last` with gaps wider than `tol`. -/
def GapChain (tol : Rat) : Rat → List Rat → Prop
  | _, [] => True
  | last, y :: ys => y + tol < last ∧ GapChain tol y ys

theorem dedupeMono_go_chain (tol : Rat) : ∀ (xs : List Rat) (last : Rat),
    (last :: xs).Pairwise (fun a b => b ≤ a) → GapChain tol last (dedupeMono.go tol last xs) := by
  intro xs
  induction xs with
  | nil => intro last _; trivial
  | cons x xs ih =>
    intro last hp
    have hlx : x ≤ last := (List.pairwise_cons.mp hp).1 x List.mem_cons_self
    have hp' : (x :: xs).Pairwise (fun a b => b ≤ a) := (List.pairwise_cons.mp hp).2
    simp only [dedupeMono.go]
    split
    · rename_i hgap
      refine ⟨?_, ih x hp'⟩
      have : rabs (last - x) = last - x := by
        unfold rabs; split
        · linarith
        · rfl
      rw [this] at hgap; linarith
    · apply ih last
      apply List.pairwise_cons.mpr
      refine ⟨?_, (List.pairwise_cons.mp hp').2⟩
      intro y hy
      exact (List.pairwise_cons.mp hp).1 y (List.mem_cons_of_mem _ hy)

theorem gapChain_lt (tol : Rat) (htol : 0 ≤ tol) : ∀ (xs : List Rat) (last : Rat), GapChain tol last xs →
    ∀ y ∈ xs, y < last := by
  intro xs
  induction xs with
  | nil => intro _ _ y h; cases h
  | cons x xs ih =>
    intro last hc y hy
    have hx : x < last := by have := hc.1; linarith
    rcases List.mem_cons.mp hy with rfl | hy
    · exact hx
    · exact lt_trans (ih x hc.2 y hy) hx

/-- The de-duplicated sorted list: non-empty lists start at their maximum and descend strictly. -/
theorem dedupeMono_sortDesc_chain (tol : Rat) (xs : List Rat) :
    match dedupeMono tol (sortDesc xs) with
    | [] => True
    | y :: ys => GapChain tol y ys := by
  have hp := sortDesc_pairwise xs
  cases h : sortDesc xs with
  | nil => simp [dedupeMono]
  | cons a as =>
    rw [h] at hp
    simp only [dedupeMono]
    exact dedupeMono_go_chain tol as a hp

theorem gapChain_pairwise (tol : Rat) (htol : 0 ≤ tol) : ∀ (xs : List Rat) (last : Rat), GapChain tol last xs →
    (last :: xs).Pairwise (fun a b => b < a) := by
  intro xs
  induction xs with
  | nil => intro _ _; simp
  | cons x xs ih =>
    intro last hc
    apply List.pairwise_cons.mpr
    exact ⟨fun y hy => gapChain_lt tol htol (x :: xs) last hc y hy, ih x hc.2⟩

theorem dedupeMono_sortDesc_pairwise (tol : Rat) (htol : 0 ≤ tol) (xs : List Rat) :
    (dedupeMono tol (sortDesc xs)).Pairwise (fun a b => b < a) := by
  have := dedupeMono_sortDesc_chain tol xs
  cases h : dedupeMono tol (sortDesc xs) with
  | nil => simp
  | cons y ys =>
    rw [h] at this
    exact gapChain_pairwise tol htol ys y this

theorem mem_dedupe_sort_filter (tol : Rat) (xs : List Rat) (p : Rat → Bool) :
    ∀ y ∈ dedupeMono tol (sortDesc (xs.filter p)), p y = true := by
  intro y hy
  have h1 := dedupeMono_sub tol _ y hy
  have h2 := (sortDesc_perm (xs.filter p)).subset h1
  exact (List.mem_filter.mp h2).2

end OP
