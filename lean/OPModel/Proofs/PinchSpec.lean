/- C06 helper lemmas: what `row_h` and `row_c` of `pinch_idx` are. -/
import OPModel.Proofs.PinchLemmas
import Mathlib.Tactic.ByContra

namespace OP

abbrev Z (tol : Rat) (h : List Rat) (i : Nat) : Prop := At (isZero tol) h i
abbrev NZ (tol : Rat) (h : List Rat) (i : Nat) : Prop := At (fun x => !(isZero tol x)) h i

theorem hotRow_spec (tol : Rat) (h : List Rat)
    (hz : ∃ i, Z tol h i) (hnz : ∃ i, i < h.length ∧ ¬ Z tol h i) :
    ∃ a : Nat, hotRow tol h = (a : Int) ∧ Z tol h a ∧
      ((¬ Z tol h 0 ∧ ∀ j, j < a → ¬ Z tol h j) ∨
       (Z tol h 0 ∧ (∀ j, j ≤ a → Z tol h j) ∧ a + 1 < h.length ∧ ¬ Z tol h (a + 1))) := by
  obtain ⟨iz, hiz⟩ := hz
  obtain ⟨inz, hinz, hnzz⟩ := hnz
  unfold hotRow
  cases hf : firstIdx (isZero tol) h with
  | none => exact absurd hiz (first_none _ _ hf iz)
  | some f =>
    obtain ⟨hfz, hfn⟩ := first_some _ _ _ hf
    cases f with
    | zero =>
      simp only
      have hNZ : NZ tol h inz := (at_not tol h inz hinz).mpr hnzz
      obtain ⟨j, hj⟩ := first_isSome _ _ _ hNZ
      simp only [hj]
      obtain ⟨hjnz, hjn⟩ := first_some _ _ _ hj
      have hjl : j < h.length := at_lt hjnz
      have hj0 : j ≠ 0 := by
        intro e; subst e
        exact (at_not tol h 0 hjl).mp hjnz hfz
      refine ⟨j - 1, by omega, ?_, Or.inr ⟨hfz, ?_, by omega, ?_⟩⟩
      · by_contra hc
        exact hjn (j - 1) (by omega) ((at_not tol h (j - 1) (by omega)).mpr hc)
      · intro k hk
        by_contra hc
        exact hjn k (by omega) ((at_not tol h k (by omega)).mpr hc)
      · have e : j - 1 + 1 = j := by omega
        rw [e]
        exact (at_not tol h j hjl).mp hjnz
    | succ f =>
      simp only
      refine ⟨f + 1, rfl, hfz, Or.inl ⟨hfn 0 (by omega), hfn⟩⟩

theorem coldRow_spec (tol : Rat) (h : List Rat)
    (hz : ∃ i, Z tol h i) (hnz : ∃ i, i < h.length ∧ ¬ Z tol h i) :
    ∃ b : Nat, coldRow tol h = (b : Int) ∧ Z tol h b ∧
      ((¬ Z tol h (h.length - 1) ∧ ∀ j, b < j → ¬ Z tol h j) ∨
       (Z tol h (h.length - 1) ∧ (∀ j, b ≤ j → j < h.length → Z tol h j) ∧ 1 ≤ b ∧ ¬ Z tol h (b - 1))) := by
  obtain ⟨iz, hiz⟩ := hz
  obtain ⟨inz, hinz, hnzz⟩ := hnz
  unfold coldRow
  cases hl : lastIdx (isZero tol) h with
  | none => exact absurd hiz (last_none _ _ hl iz)
  | some l =>
    obtain ⟨hlz, hln⟩ := last_some _ _ _ hl
    have hll : l < h.length := at_lt hlz
    simp only
    by_cases hc : (l : Int) < (h.length : Int) - 1
    · rw [if_pos hc]
      refine ⟨l, rfl, hlz, Or.inl ⟨hln _ (by omega), hln⟩⟩
    · rw [if_neg hc]
      have hle : l = h.length - 1 := by omega
      -- the first non-zero from the bottom
      have hNZr : NZ tol h.reverse (h.length - 1 - inz) := by
        refine (at_reverse _ _ _ (by omega)).mpr ?_
        have e : h.length - 1 - (h.length - 1 - inz) = inz := by omega
        rw [e]; exact (at_not tol h inz hinz).mpr hnzz
      obtain ⟨k, hk⟩ := first_isSome _ _ _ hNZr
      simp only [hk]
      obtain ⟨hknz, hkn⟩ := first_some _ _ _ hk
      have hkl : k < h.length := by simpa using at_lt hknz
      have hknz' : NZ tol h (h.length - 1 - k) := (at_reverse _ _ _ hkl).mp hknz
      have hk0 : k ≠ 0 := by
        intro e; subst e
        have : Z tol h (h.length - 1) := hle ▸ hlz
        exact (at_not tol h _ (by omega)).mp (by simpa using hknz') this
      have hzAbove : ∀ j, h.length - k ≤ j → j < h.length → Z tol h j := by
        intro j hj1 hj2
        by_contra hcon
        have hnzj : NZ tol h j := (at_not tol h j hj2).mpr hcon
        apply hkn (h.length - 1 - j) (by omega)
        refine (at_reverse _ _ _ (by omega)).mpr ?_
        have e : h.length - 1 - (h.length - 1 - j) = j := by omega
        rw [e]; exact hnzj
      refine ⟨h.length - k, by omega, hzAbove _ (by omega) (by omega), Or.inr ⟨hle ▸ hlz, hzAbove, by omega, ?_⟩⟩
      have e : h.length - k - 1 = h.length - 1 - k := by omega
      rw [e]
      exact (at_not tol h _ (by omega)).mp hknz'

end OP
