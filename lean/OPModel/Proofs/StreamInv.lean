/- Helper lemmas for C19: the stream consistency invariant is established by
   `_update_attributes` and preserved by every setter. -/
import OPModel.Model.Stream
import Mathlib.Algebra.Order.Field.Rat
import Mathlib.Tactic.Linarith
import Mathlib.Tactic.FieldSimp
import Mathlib.Tactic.Ring

namespace OP.Stream

def shiftOf (k : Kind) (dt x : Rat) : Rat :=
  match k with
  | .hot => x - dt
  | .cold => x + dt

/-- The temperature part of the invariant (everything but `CP` and `htr`). -/
def Oriented (s : Stream) : Prop :=
  ∃ ts tt lo hi k,
    s.ts = some ts ∧ s.tt = some tt ∧ s.tmin = some lo ∧ s.tmax = some hi ∧ s.typ = some k ∧
    lo < hi ∧ lo = min ts tt ∧ hi = max ts tt ∧ (k = .hot ↔ tt < ts) ∧
    s.tminS = some (shiftOf k s.dt lo) ∧ s.tmaxS = some (shiftOf k s.dt hi)

/-- Everything C19 says about one stream, over its public attributes. -/
structure Consistent (s : Stream) : Prop where
  oriented : Oriented s
  duty : ∀ lo hi, s.tmin = some lo → s.tmax = some hi → ∃ cp, s.cp = some cp ∧ cp * (hi - lo) = s.q
  htr : s.htc ≠ 0 → s.htr = 1 / s.htc

theorem rabs_sub (a b : Rat) : rabs (a - b) = max a b - min a b := by
  unfold rabs
  rcases le_total a b with h | h
  · rw [max_eq_right h, min_eq_left h]
    split
    · ring
    · have : a = b := le_antisymm h (by linarith)
      subst this; ring
  · rw [max_eq_left h, min_eq_right h]
    split
    · linarith
    · rfl

theorem orient_spec (iso : Rat) (hiso : 0 < iso) (s : Stream) (ts tt : Rat) (hts : s.ts = some ts)
    (htt : s.tt = some tt) :
    Oriented (orient iso s ts tt) ∧ (orient iso s ts tt).dt = s.dt ∧
    (orient iso s ts tt).htc = s.htc ∧ (orient iso s ts tt).htr = s.htr ∧
    (orient iso s ts tt).price = s.price := by
  unfold orient
  by_cases h1 : tt < ts
  · rw [if_pos h1]
    refine ⟨⟨ts, tt, tt, ts, .hot, ?_⟩, ?_⟩ <;> simp [setHot, shiftOf, hts, htt, h1, le_of_lt h1]
  · rw [if_neg h1]
    by_cases h2 : ts < tt
    · rw [if_pos h2]
      refine ⟨⟨ts, tt, ts, tt, .cold, ?_⟩, ?_⟩ <;> simp [setCold, shiftOf, hts, htt, h1, h2, le_of_lt h2]
    · rw [if_neg h2]
      by_cases h3 : 0 ≤ s.q
      · rw [if_pos h3]
        refine ⟨⟨ts, ts + iso, ts, ts + iso, .cold, ?_⟩, ?_⟩ <;>
          simp [setCold, shiftOf, hts, hiso, le_of_lt hiso]
      · rw [if_neg h3]
        refine ⟨⟨ts, ts - iso, ts - iso, ts, .hot, ?_⟩, ?_⟩ <;>
          simp [setHot, shiftOf, hts, hiso, le_of_lt hiso]

/-- `_calc_htr_and_cp_product ∘ _calc_utility_cost` once `CP` exists. -/
theorem finish_spec (s : Stream) (cp : Rat) (h : s.cp = some cp) :
    (calcHtr (calcUtCost s)).2 = none ∧
    (calcHtr (calcUtCost s)).1.ts = s.ts ∧ (calcHtr (calcUtCost s)).1.tt = s.tt ∧
    (calcHtr (calcUtCost s)).1.tmin = s.tmin ∧ (calcHtr (calcUtCost s)).1.tmax = s.tmax ∧
    (calcHtr (calcUtCost s)).1.typ = s.typ ∧ (calcHtr (calcUtCost s)).1.cp = s.cp ∧
    (calcHtr (calcUtCost s)).1.q = s.q ∧ (calcHtr (calcUtCost s)).1.dt = s.dt ∧
    (calcHtr (calcUtCost s)).1.tminS = s.tminS ∧ (calcHtr (calcUtCost s)).1.tmaxS = s.tmaxS ∧
    (calcHtr (calcUtCost s)).1.htc = s.htc ∧
    (s.htc ≠ 0 → (calcHtr (calcUtCost s)).1.htr = 1 / s.htc) := by
  unfold calcHtr calcUtCost
  by_cases h0 : s.htc = 0
  · simp [h0]
  · by_cases hp : 0 < s.htc
    · simp [h0, hp, h]
    · simp [h0, hp]

theorem oriented_congr {s s' : Stream} (h : Oriented s)
    (e1 : s'.ts = s.ts) (e2 : s'.tt = s.tt) (e3 : s'.tmin = s.tmin) (e4 : s'.tmax = s.tmax)
    (e5 : s'.typ = s.typ) (e6 : s'.dt = s.dt) (e7 : s'.tminS = s.tminS) (e8 : s'.tmaxS = s.tmaxS) :
    Oriented s' := by
  obtain ⟨ts, tt, lo, hi, k, h⟩ := h
  exact ⟨ts, tt, lo, hi, k, by rw [e1, e2, e3, e4, e5, e6, e7, e8]; exact h⟩

theorem update_consistent (iso : Rat) (hiso : 0 < iso) (s : Stream) (ts tt : Rat)
    (hts : s.ts = some ts) (htt : s.tt = some tt) :
    (update iso s).2 = none ∧ Consistent (update iso s).1 ∧
    (update iso s).1.dt = s.dt ∧ (update iso s).1.htc = s.htc := by
  unfold update
  simp only [hts, htt]
  obtain ⟨hor, hdt, hhtc, -, -⟩ := orient_spec iso hiso s ts tt hts htt
  generalize orient iso s ts tt = s1 at *
  obtain ⟨ts1, tt1, lo, hi, k, f1, f2, f3, f4, f5, hlt, f7, f8, f9, f10, f11⟩ := hor
  simp only [f3, f4]
  have hne : hi - lo ≠ 0 := by linarith
  simp only [hne, if_false]
  generalize hs2 : s1.setCp (s1.q / (hi - lo)) = s2
  have g_cp : s2.cp = some (s1.q / (hi - lo)) := by rw [← hs2]; rfl
  have g_ts : s2.ts = s1.ts := by rw [← hs2]; rfl
  have g_tt : s2.tt = s1.tt := by rw [← hs2]; rfl
  have g_tmin : s2.tmin = s1.tmin := by rw [← hs2]; rfl
  have g_tmax : s2.tmax = s1.tmax := by rw [← hs2]; rfl
  have g_typ : s2.typ = s1.typ := by rw [← hs2]; rfl
  have g_q : s2.q = s1.q := by rw [← hs2]; rfl
  have g_dt : s2.dt = s1.dt := by rw [← hs2]; rfl
  have g_tminS : s2.tminS = s1.tminS := by rw [← hs2]; rfl
  have g_tmaxS : s2.tmaxS = s1.tmaxS := by rw [← hs2]; rfl
  have g_htc : s2.htc = s1.htc := by rw [← hs2]; rfl
  obtain ⟨e, a1, a2, a3, a4, a5, a6, a7, a8, a9, a10, a11, a12⟩ := finish_spec s2 _ g_cp
  refine ⟨e, ⟨?_, ?_, ?_⟩, ?_, ?_⟩
  · exact oriented_congr ⟨ts1, tt1, lo, hi, k, f1, f2, f3, f4, f5, hlt, f7, f8, f9, f10, f11⟩
      (by rw [a1, g_ts]) (by rw [a2, g_tt]) (by rw [a3, g_tmin]) (by rw [a4, g_tmax])
      (by rw [a5, g_typ]) (by rw [a8, g_dt]) (by rw [a9, g_tminS]) (by rw [a10, g_tmaxS])
  · intro lo' hi' hlo hhi
    rw [a3, g_tmin, f3] at hlo
    rw [a4, g_tmax, f4] at hhi
    cases hlo; cases hhi
    refine ⟨s1.q / (hi - lo), by rw [a6, g_cp], ?_⟩
    rw [a7, g_q]
    field_simp
  · intro h
    rw [a11] at h ⊢
    exact a12 h
  · rw [a8, g_dt, hdt]
  · rw [a11, g_htc, hhtc]

theorem setHeatFlow_consistent (s : Stream) (v : Rat) (h : Consistent s) :
    (setHeatFlow s v).2 = none ∧ Consistent (setHeatFlow s v).1 := by
  obtain ⟨⟨ts, tt, lo, hi, k, f1, f2, f3, f4, f5, hlt, f7, f8, f9, f10, f11⟩, _, hhtr⟩ := h
  unfold setHeatFlow calcUtCost
  simp only [f1, f2]
  have habs : rabs (ts - tt) = hi - lo := by rw [rabs_sub, f7, f8]
  have hpos : 0 < rabs (ts - tt) := by rw [habs]; linarith
  simp only [hpos, if_true]
  refine ⟨trivial, ⟨⟨ts, tt, lo, hi, k, rfl, rfl, f3, f4, f5, hlt, f7, f8, f9, f10, f11⟩, ?_, hhtr⟩⟩
  intro lo' hi' hlo hhi
  simp only at hlo hhi
  rw [f3] at hlo; rw [f4] at hhi
  cases hlo; cases hhi
  refine ⟨v / rabs (ts - tt), rfl, ?_⟩
  rw [habs]
  have hne : hi - lo ≠ 0 := by linarith
  field_simp

end OP.Stream
