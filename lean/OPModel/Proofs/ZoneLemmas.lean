/-
  C10 helpers: the zone-tree builder keeps its invariant (label nodes first, generated leaves fresh,
  distinct and never inside a label path), and the upward collection counts every stream exactly
  once in every zone on the path to its leaf.
-/
import OPModel.Model.Zones
import Std.Data.String.ToNat
import Mathlib.Data.List.Perm.Subperm
import Mathlib.Data.List.Nodup
import Mathlib.Data.List.Count
import Mathlib.Algebra.BigOperators.Group.List.Basic
import Mathlib.Tactic.Linarith

namespace OP

/-! ### label nodes -/

theorem mem_addNode (paths : List ZPath) (q x : ZPath) : x ∈ addNode paths q ↔ x ∈ paths ∨ x = q := by
  unfold addNode
  split
  · rename_i h
    have hq : q ∈ paths := by simpa using h
    constructor
    · exact Or.inl
    · rintro (h | rfl)
      · exact h
      · exact hq
  · simp

theorem nodup_addNode (paths : List ZPath) (q : ZPath) (h : paths.Nodup) : (addNode paths q).Nodup := by
  unfold addNode
  split
  · exact h
  · rename_i hq
    have : q ∉ paths := by simpa using hq
    exact List.Nodup.append h (by simp) (by simpa using this)

theorem mem_foldl_addNode (qs : List ZPath) (paths : List ZPath) (x : ZPath) :
    x ∈ qs.foldl addNode paths ↔ x ∈ paths ∨ x ∈ qs := by
  induction qs generalizing paths with
  | nil => simp
  | cons q qs ih =>
    simp only [List.foldl_cons, ih, mem_addNode, List.mem_cons]
    tauto

theorem nodup_foldl_addNode (qs : List ZPath) (paths : List ZPath) (h : paths.Nodup) :
    (qs.foldl addNode paths).Nodup := by
  induction qs generalizing paths with
  | nil => exact h
  | cons q qs ih => exact ih _ (nodup_addNode _ _ h)

theorem mem_prePass_aux (labels : List ZPath) (acc : List ZPath) (x : ZPath) :
    x ∈ labels.foldl addLabel acc ↔ x ∈ acc ∨ ∃ l ∈ labels, x ∈ prefixesOf l := by
  induction labels generalizing acc with
  | nil => simp
  | cons l ls ih =>
    simp only [List.foldl_cons, ih, addLabel, mem_foldl_addNode, List.mem_cons]
    constructor
    · rintro ((h | h) | ⟨l', hl', hx⟩)
      · exact Or.inl h
      · exact Or.inr ⟨l, Or.inl rfl, h⟩
      · exact Or.inr ⟨l', Or.inr hl', hx⟩
    · rintro (h | ⟨l', (rfl | hl'), hx⟩)
      · exact Or.inl (Or.inl h)
      · exact Or.inl (Or.inr hx)
      · exact Or.inr ⟨l', hl', hx⟩

theorem mem_prePass (labels : List ZPath) (x : ZPath) :
    x ∈ prePass labels ↔ ∃ l ∈ labels, x ∈ prefixesOf l := by
  unfold prePass
  rw [mem_prePass_aux]
  simp

theorem nodup_prePass (labels : List ZPath) : (prePass labels).Nodup := by
  unfold prePass
  suffices h : ∀ acc : List ZPath, acc.Nodup → (labels.foldl addLabel acc).Nodup from h [] List.nodup_nil
  induction labels with
  | nil => intro acc h; exact h
  | cons l ls ih => intro acc h; exact ih _ (nodup_foldl_addNode _ _ h)

theorem mem_prefixesOf (l x : ZPath) : x ∈ prefixesOf l ↔ ∃ k, k < l.length ∧ x = l.take (k + 1) := by
  unfold prefixesOf
  simp only [List.mem_map, List.mem_range]
  constructor
  · rintro ⟨k, hk, rfl⟩; exact ⟨k, hk, rfl⟩
  · rintro ⟨k, hk, rfl⟩; exact ⟨k, hk, rfl⟩

/-- nodes of the tree are closed under taking non-empty prefixes -/
def PrefClosed (L : List ZPath) : Prop := ∀ p ∈ L, ∀ k, k < p.length → p.take (k + 1) ∈ L

theorem prefClosed_prePass (labels : List ZPath) : PrefClosed (prePass labels) := by
  intro p hp k hk
  rw [mem_prePass] at hp ⊢
  obtain ⟨l, hl, hpl⟩ := hp
  refine ⟨l, hl, ?_⟩
  rw [mem_prefixesOf] at hpl ⊢
  obtain ⟨j, hj, rfl⟩ := hpl
  have hlen : (l.take (j + 1)).length = j + 1 := by rw [List.length_take]; omega
  rw [hlen] at hk
  refine ⟨k, by omega, ?_⟩
  rw [List.take_take]
  congr 1
  omega

theorem nonempty_of_mem_prePass (labels : List ZPath) (p : ZPath) (hp : p ∈ prePass labels) : p ≠ [] := by
  rw [mem_prePass] at hp
  obtain ⟨l, _, hpl⟩ := hp
  rw [mem_prefixesOf] at hpl
  obtain ⟨j, hj, rfl⟩ := hpl
  intro h
  have := congrArg List.length h
  rw [List.length_take, List.length_nil] at this
  omega

theorem label_mem_prePass (labels : List ZPath) (l : ZPath) (hl : l ∈ labels) (hne : l ≠ []) : l ∈ prePass labels := by
  rw [mem_prePass]
  refine ⟨l, hl, ?_⟩
  rw [mem_prefixesOf]
  have : 0 < l.length := List.length_pos_iff.mpr hne
  exact ⟨l.length - 1, by omega, by rw [show l.length - 1 + 1 = l.length by omega, List.take_length]⟩

/-! ### fresh unit-operation names -/

theorem oName_inj {a b : Nat} (h : oName a = oName b) : a = b := by
  unfold oName at h
  exact Nat.repr_injective ((String.append_right_inj _).mp h)

theorem freshO_not_mem (paths : List ZPath) (comps : ZPath) :
    ∀ fuel c r, freshO paths comps fuel c = some r → comps ++ [oName r] ∉ paths := by
  intro fuel
  induction fuel with
  | zero => intro c r h; simp [freshO] at h
  | succ n ih =>
    intro c r h
    simp only [freshO] at h
    split at h
    · exact ih _ _ h
    · rename_i hn
      cases h
      simpa using hn

theorem freshO_none (paths : List ZPath) (comps : ZPath) :
    ∀ fuel c, freshO paths comps fuel c = none → ∀ j, j < fuel → comps ++ [oName (c + j)] ∈ paths := by
  intro fuel
  induction fuel with
  | zero => intro c _ j hj; omega
  | succ n ih =>
    intro c h j hj
    simp only [freshO] at h
    split at h
    · rename_i hm
      cases j with
      | zero => simpa using hm
      | succ j =>
        have := ih (c + 1) h j (by omega)
        have e : c + 1 + j = c + (j + 1) := by omega
        rwa [e] at this
    · cases h

/-- the renaming loop finds a free name within `len + 1` attempts (pigeonhole) -/
theorem freshO_some (paths : List ZPath) (comps : ZPath) (fuel c : Nat) (h : paths.length < fuel) :
    ∃ r, freshO paths comps fuel c = some r := by
  cases hf : freshO paths comps fuel c with
  | some r => exact ⟨r, rfl⟩
  | none =>
    exfalso
    have hall := freshO_none paths comps fuel c hf
    let cs := (List.range fuel).map (fun j => comps ++ [oName (c + j)])
    have hnd : cs.Nodup := by
      apply List.Nodup.map_on
      · intro a _ b _ hab
        have h1 : [oName (c + a)] = [oName (c + b)] := List.append_cancel_left hab
        have := oName_inj (List.singleton_inj.mp h1)
        omega
      · exact List.nodup_range
    have hsub : cs ⊆ paths := by
      intro x hx
      simp only [cs, List.mem_map, List.mem_range] at hx
      obtain ⟨j, hj, rfl⟩ := hx
      exact hall j hj
    have hle := (List.subperm_of_subset hnd hsub).length_le
    simp only [cs, List.length_map, List.length_range] at hle
    omega

/-! ### the builder invariant -/

structure BInv (L : List ZPath) (st : ZBuild) : Prop where
  paths_eq : st.paths = L ++ st.zones
  nodup : st.zones.Nodup
  fresh : ∀ z ∈ st.zones, z ∉ L
  parent : ∀ z ∈ st.zones, ∃ comps name, z = comps ++ [name] ∧ (comps = [] ∨ comps ∈ L)

theorem placeStream_inv (L : List ZPath) (st st' : ZBuild) (comps : ZPath)
    (hc : comps = [] ∨ comps ∈ L) (h : BInv L st) (he : placeStream st comps = .ok st') :
    BInv L st' ∧ ∃ name, st'.zones = st.zones ++ [comps ++ [name]] := by
  unfold placeStream at he
  split at he
  · cases he
  · rename_i c hf
    cases he
    have hnot := freshO_not_mem _ _ _ _ _ hf
    rw [h.paths_eq, List.mem_append, not_or] at hnot
    refine ⟨⟨?_, ?_, ?_, ?_⟩, oName c, rfl⟩
    · simp only [h.paths_eq, List.append_assoc]
    · exact List.Nodup.append h.nodup (by simp) (by simpa using hnot.2)
    · intro z hz
      rcases List.mem_append.mp hz with hz | hz
      · exact h.fresh z hz
      · simp only [List.mem_singleton] at hz; subst hz; exact hnot.1
    · intro z hz
      rcases List.mem_append.mp hz with hz | hz
      · exact h.parent z hz
      · simp only [List.mem_singleton] at hz; subst hz; exact ⟨comps, oName c, rfl, hc⟩

theorem placeStream_total (st : ZBuild) (comps : ZPath) : ∃ st', placeStream st comps = .ok st' := by
  unfold placeStream
  obtain ⟨r, hr⟩ := freshO_some st.paths comps (st.paths.length + 1) (counterOf st.counters comps + 1) (by omega)
  rw [hr]
  exact ⟨_, rfl⟩

theorem placeAll_spec (L : List ZPath) (ls : List ZPath) (hls : ∀ l ∈ ls, l = [] ∨ l ∈ L) :
    ∀ st, BInv L st → ∃ st', placeAll ls st = .ok st' ∧ BInv L st' ∧
      st'.zones.length = st.zones.length + ls.length ∧
      (∀ i, i < st.zones.length → st'.zones[i]? = st.zones[i]?) ∧
      ∀ j (hj : j < ls.length), ∃ name, st'.zones[st.zones.length + j]? = some (ls[j] ++ [name]) := by
  induction ls with
  | nil =>
    intro st h
    exact ⟨st, rfl, h, by simp, fun _ _ => rfl, fun j hj => by simp at hj⟩
  | cons l ls ih =>
    intro st h
    obtain ⟨st1, h1⟩ := placeStream_total st l
    obtain ⟨hinv1, name, hz1⟩ := placeStream_inv L st st1 l (hls l (by simp)) h h1
    obtain ⟨st', h2, hinv', hlen, hkeep, hnew⟩ := ih (fun l' hl' => hls l' (by simp [hl'])) st1 hinv1
    refine ⟨st', ?_, hinv', ?_, ?_, ?_⟩
    · simp only [placeAll, h1]; exact h2
    · rw [hlen, hz1]; simp; omega
    · intro i hi
      rw [hkeep i (by rw [hz1]; simp; omega), hz1, List.getElem?_append_left hi]
    · intro j hj
      cases j with
      | zero =>
        refine ⟨name, ?_⟩
        rw [Nat.add_zero, hkeep _ (by rw [hz1]; simp), hz1]
        simp
      | succ j =>
        obtain ⟨nm, hnm⟩ := hnew j (by simpa using hj)
        refine ⟨nm, ?_⟩
        have e : st.zones.length + (j + 1) = st1.zones.length + j := by rw [hz1]; simp; omega
        rw [e, hnm]
        simp

/-! ### what the invariant gives: leaves, closure, distinctness -/

theorem take_of_prefix {z q : ZPath} (h : z <+: q) : q.take z.length = z := (List.prefix_iff_eq_take.mp h).symm

theorem binv_leaf (L : List ZPath) (st : ZBuild) (hL : PrefClosed L) (h : BInv L st)
    (z : ZPath) (hz : z ∈ st.zones) (q : ZPath) (hq : q ∈ st.paths) (hpre : z <+: q) : q = z := by
  by_contra hne
  have hlen : z.length < q.length := by
    rcases Nat.lt_or_ge z.length q.length with h1 | h1
    · exact h1
    · exact absurd (List.IsPrefix.eq_of_length_le hpre h1).symm hne
  obtain ⟨comps, name, hzeq, _⟩ := h.parent z hz
  have hzpos : 0 < z.length := by rw [hzeq]; simp
  rw [h.paths_eq] at hq
  rcases List.mem_append.mp hq with hqL | hqZ
  · -- q is a label node: so is its prefix z
    have := hL q hqL (z.length - 1) (by omega)
    rw [show z.length - 1 + 1 = z.length by omega, take_of_prefix hpre] at this
    exact h.fresh z hz this
  · obtain ⟨c', n', hqeq, hc'⟩ := h.parent q hqZ
    have hqlen : q.length = c'.length + 1 := by rw [hqeq]; simp
    have hzc : z <+: c' := by
      have : z <+: c' ++ [n'] := hqeq ▸ hpre
      exact List.prefix_of_prefix_length_le this (List.prefix_append c' [n']) (by omega)
    rcases hc' with rfl | hc'
    · have := List.IsPrefix.length_le hzc; rw [List.length_nil] at this; omega
    · have := hL c' hc' (z.length - 1) (by have := List.IsPrefix.length_le hzc; omega)
      rw [show z.length - 1 + 1 = z.length by omega, take_of_prefix hzc] at this
      exact h.fresh z hz this

theorem binv_closed (L : List ZPath) (st : ZBuild) (hL : PrefClosed L) (h : BInv L st) : PrefClosed st.paths := by
  intro q hq k hk
  rw [h.paths_eq] at hq ⊢
  rcases List.mem_append.mp hq with hqL | hqZ
  · exact List.mem_append_left _ (hL q hqL k hk)
  · obtain ⟨c', n', hqeq, hc'⟩ := h.parent q hqZ
    have hqlen : q.length = c'.length + 1 := by rw [hqeq]; simp
    by_cases hk' : k + 1 = q.length
    · rw [hk', List.take_length]; exact List.mem_append_right _ hqZ
    · have hkc : k < c'.length := by omega
      have e : q.take (k + 1) = c'.take (k + 1) := by
        rw [hqeq, List.take_append_of_le_length (by omega)]
      rw [e]
      rcases hc' with rfl | hc'
      · simp at hkc
      · exact List.mem_append_left _ (hL c' hc' k hkc)

theorem binv_paths_nodup (L : List ZPath) (st : ZBuild) (hL : L.Nodup) (h : BInv L st) : st.paths.Nodup := by
  rw [h.paths_eq]
  exact List.Nodup.append hL h.nodup (by
    intro a haL haZ
    exact h.fresh a haZ haL)

/-! ### counting in the collected zones -/

theorem sum_indicator {α : Type} [DecidableEq α] (ks : List α) (f : α → Nat) (k0 : α) (hnd : ks.Nodup)
    (hk0 : k0 ∈ ks) (h1 : f k0 = 1) (h0 : ∀ k ∈ ks, k ≠ k0 → f k = 0) : (ks.map f).sum = 1 := by
  induction ks with
  | nil => simp at hk0
  | cons a ks ih =>
    simp only [List.map_cons, List.sum_cons]
    rw [List.nodup_cons] at hnd
    by_cases ha : a = k0
    · subst ha
      have hz : (ks.map f).sum = 0 := by
        apply List.sum_eq_zero
        intro x hx
        obtain ⟨k, hk, rfl⟩ := List.mem_map.mp hx
        exact h0 k (by simp [hk]) (by rintro rfl; exact hnd.1 hk)
      rw [h1, hz]
    · have hk0' : k0 ∈ ks := by
        rcases List.mem_cons.mp hk0 with h | h
        · exact absurd h.symm ha
        · exact h
      rw [h0 a (by simp) ha, ih hnd.2 hk0' (fun k hk hne => h0 k (by simp [hk]) hne)]

theorem sum_zero {α : Type} (ks : List α) (f : α → Nat) (h0 : ∀ k ∈ ks, f k = 0) : (ks.map f).sum = 0 := by
  apply List.sum_eq_zero
  intro x hx
  obtain ⟨k, hk, rfl⟩ := List.mem_map.mp hx
  exact h0 k hk

theorem mem_kidsOf (paths : List ZPath) (z q : ZPath) :
    q ∈ kidsOf paths z ↔ q ∈ paths ∧ q.length = z.length + 1 ∧ z <+: q := by
  unfold kidsOf isPre
  simp only [List.mem_filter, Bool.and_eq_true, beq_iff_eq, List.isPrefixOf_iff_prefix]

theorem count_direct (zones : List ZPath) (z : ZPath) (i : Nat) (hi : i < zones.length) :
    (direct zones z).count i = if zones[i] = z then 1 else 0 := by
  unfold direct
  rw [List.Nodup.count (List.Nodup.filter _ List.nodup_range)]
  simp only [List.mem_filter, List.mem_range, hi, true_and, beq_iff_eq, getElem!_pos zones i hi]

/-- **Every stream is counted exactly once in every zone on the path to its leaf, and nowhere else.** -/
theorem content_count (paths zones : List ZPath) (hnd : paths.Nodup) (hcl : PrefClosed paths)
    (i : Nat) (hi : i < zones.length) (hmem : zones[i] ∈ paths)
    (hleaf : ∀ q ∈ paths, zones[i] <+: q → q = zones[i]) :
    ∀ fuel z, (∀ q ∈ paths, q.length < z.length + fuel) →
      (content paths zones fuel z).count i = if z <+: zones[i] then 1 else 0 := by
  intro fuel
  induction fuel with
  | zero =>
    intro z hb
    have := hb _ (hmem)
    have hnp : ¬ z <+: zones[i] := fun hp => by have := List.IsPrefix.length_le hp; omega
    simp [content, hnp]
  | succ fuel ih =>
    intro z hb
    unfold content
    simp only
    by_cases hk : (kidsOf paths z).isEmpty = true
    · rw [if_pos hk, count_direct zones z i hi]
      have hk' : kidsOf paths z = [] := List.isEmpty_iff.mp hk
      by_cases hp : z <+: zones[i]
      · rw [if_pos hp]
        by_cases he : zones[i] = z
        · rw [if_pos he]
        · exfalso
          have hlen : z.length < zones[i].length := by
            rcases Nat.lt_or_ge z.length zones[i].length with h1 | h1
            · exact h1
            · exact absurd (List.IsPrefix.eq_of_length_le hp h1).symm he
          have hin : zones[i].take (z.length + 1) ∈ kidsOf paths z := by
            rw [mem_kidsOf]
            refine ⟨hcl _ (hmem) z.length hlen, by rw [List.length_take]; omega, ?_⟩
            rw [List.prefix_take_iff]
            exact ⟨hp, by omega⟩
          rw [hk'] at hin
          simp at hin
      · rw [if_neg hp, if_neg]
        intro he
        exact hp (he ▸ List.prefix_refl _)
    · rw [if_neg hk, List.count_flatMap]
      have hmap : (kidsOf paths z).map (List.count i ∘ content paths zones fuel)
          = (kidsOf paths z).map (fun k => if k <+: zones[i] then 1 else 0) := by
        apply List.map_congr_left
        intro k hkm
        rw [mem_kidsOf] at hkm
        simp only [Function.comp]
        exact ih k (fun q hq => by have := hb q hq; omega)
      rw [hmap]
      have hknd : (kidsOf paths z).Nodup := List.Nodup.filter _ hnd
      by_cases hp : z <+: zones[i]
      · rw [if_pos hp]
        -- z has a child, the stream's zone is a leaf, so z is a proper prefix of it
        have hne : (kidsOf paths z) ≠ [] := fun h0 => hk (by rw [h0]; rfl)
        obtain ⟨k1, hk1⟩ := List.exists_mem_of_ne_nil _ hne
        rw [mem_kidsOf] at hk1
        have hlen : z.length < zones[i].length := by
          rcases Nat.lt_or_ge z.length zones[i].length with h1 | h1
          · exact h1
          · exfalso
            have hz : z = zones[i] := List.IsPrefix.eq_of_length_le hp h1
            have := hleaf k1 hk1.1 (hz ▸ hk1.2.2)
            rw [this, ← hz] at hk1
            omega
        have hk0 : zones[i].take (z.length + 1) ∈ kidsOf paths z := by
          rw [mem_kidsOf]
          refine ⟨hcl _ (hmem) z.length hlen, by rw [List.length_take]; omega, ?_⟩
          rw [List.prefix_take_iff]
          exact ⟨hp, by omega⟩
        apply sum_indicator _ _ _ hknd hk0
        · rw [if_pos (List.take_prefix _ _)]
        · intro k hkm hne'
          rw [mem_kidsOf] at hkm
          rw [if_neg]
          intro hkp
          apply hne'
          have := take_of_prefix hkp
          rw [hkm.2.1] at this
          exact this.symm
      · rw [if_neg hp]
        apply sum_zero
        intro k hkm
        rw [mem_kidsOf] at hkm
        rw [if_neg]
        intro hkp
        exact hp (List.IsPrefix.trans hkm.2.2 hkp)

/-! ### the start state and the labels -/

theorem init_inv (labels : List ZPath) : BInv (prePass labels) { paths := prePass labels } :=
  ⟨by simp, List.nodup_nil, by simp, by simp⟩

theorem labels_ok (labels : List ZPath) : ∀ l ∈ labels, l = [] ∨ l ∈ prePass labels := by
  intro l hl
  by_cases h : l = []
  · exact Or.inl h
  · exact Or.inr (label_mem_prePass labels l hl h)

end OP
