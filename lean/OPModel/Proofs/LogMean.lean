import Mathlib.Analysis.SpecialFunctions.Log.Deriv
import Mathlib.Analysis.Calculus.Deriv.MeanValue
import Mathlib.Tactic.Linarith
import Mathlib.Tactic.FieldSimp
import Mathlib.Tactic.Ring
import Mathlib.Tactic.Positivity
open Real

namespace OP.HX
theorem log_ge_two_mul (x : ℝ) (hx : 1 ≤ x) : 2 * (x - 1) / (x + 1) ≤ log x := by
  have hder : ∀ y : ℝ, 1 < y → HasDerivAt (fun y : ℝ => log y - 2 * (y - 1) / (y + 1))
      (1 / y - (2 * (y + 1) - 2 * (y - 1) * 1) / (y + 1) ^ 2) y := by
    intro y hy
    have hy0 : y ≠ 0 := by linarith
    have hy1 : y + 1 ≠ 0 := by linarith
    apply HasDerivAt.sub
    · simpa using (hasDerivAt_log hy0)
    · apply HasDerivAt.div
      · have := ((hasDerivAt_id y).sub_const 1).const_mul 2
        simpa using this
      · simpa using (hasDerivAt_id y).add_const 1
      · exact hy1
  have key : MonotoneOn (fun y : ℝ => log y - 2 * (y - 1) / (y + 1)) (Set.Ici 1) := by
    apply monotoneOn_of_deriv_nonneg (convex_Ici 1)
    · apply ContinuousOn.sub
      · exact continuousOn_log.mono (fun y hy => by
          simp only [Set.mem_Ici] at hy; simp only [Set.mem_compl_iff, Set.mem_singleton_iff]; linarith)
      · apply ContinuousOn.div
        · fun_prop
        · fun_prop
        · intro y hy; simp only [Set.mem_Ici] at hy; linarith
    · intro y hy
      rw [interior_Ici] at hy
      simp only [Set.mem_Ioi] at hy
      exact (hder y hy).differentiableAt.differentiableWithinAt
    · intro y hy
      rw [interior_Ici] at hy
      simp only [Set.mem_Ioi] at hy
      have hy0 : y ≠ 0 := by linarith
      have hy1 : y + 1 ≠ 0 := by linarith
      rw [(hder y hy).deriv]
      have : 1 / y - (2 * (y + 1) - 2 * (y - 1) * 1) / (y + 1) ^ 2 = (y - 1) ^ 2 / (y * (y + 1) ^ 2) := by
        field_simp; ring
      rw [this]
      apply div_nonneg (sq_nonneg _)
      have : 0 < y := by linarith
      positivity
  have := key (Set.mem_Ici.mpr (le_refl 1)) (Set.mem_Ici.mpr hx) hx
  simp at this
  linarith

end OP.HX
