/-
  C12 helpers: how the specification of the energy targets (`deficit`, `total`) behaves under
  equivalent descriptions of the stream set.
-/
import OPModel.Proofs.CascadeTargets
import Mathlib.Algebra.Order.Ring.Rat
import Mathlib.Tactic.Linarith
import Mathlib.Tactic.Ring

namespace OP

/-- `t` are the exact targets of the stream set: `qh` is the largest net heat deficit above any
    temperature and is attained; `qc`, `qr` close the balance (the conclusion of `C01.di_targets_exact`). -/
structure IsTargets (hot cold : List Seg) (t : Targets) : Prop where
  ub : ∀ x : Rat, deficit hot cold x ≤ t.qh
  att : ∃ x : Rat, deficit hot cold x = t.qh
  qc : t.qc = t.qh - total cold + total hot
  qr : t.qr = total hot - t.qc

theorem IsTargets.unique {hot cold : List Seg} {t t' : Targets} (h : IsTargets hot cold t) (h' : IsTargets hot cold t') :
    t = t' := by
  obtain ⟨x, hx⟩ := h.att
  obtain ⟨x', hx'⟩ := h'.att
  have e : t.qh = t'.qh := le_antisymm (hx ▸ h'.ub x) (hx' ▸ h.ub x')
  have ec : t.qc = t'.qc := by rw [h.qc, h'.qc, e]
  have er : t.qr = t'.qr := by rw [h.qr, h'.qr, ec]
  cases t; cases t'; simp_all

/-- transfer along pointwise equal deficits and equal totals -/
theorem IsTargets.congr {hot cold hot' cold' : List Seg} {t : Targets}
    (hd : ∀ x, deficit hot' cold' x = deficit hot cold x) (hc : total cold' = total cold) (hh : total hot' = total hot)
    (h : IsTargets hot cold t) : IsTargets hot' cold' t :=
  ⟨fun x => by rw [hd]; exact h.ub x, by obtain ⟨x, hx⟩ := h.att; exact ⟨x, by rw [hd]; exact hx⟩,
   by rw [hc, hh]; exact h.qc, by rw [hh]; exact h.qr⟩

/-! ### permutation -/

theorem aboveAll_perm {a b : List Seg} (h : a.Perm b) (x : Rat) : aboveAll a x = aboveAll b x := by
  unfold aboveAll; exact (h.map _).sum_eq

theorem total_perm {a b : List Seg} (h : a.Perm b) : total a = total b := by
  unfold total; exact (h.map _).sum_eq

/-! ### splitting one stream -/

theorem above_split_serial (lo m hi cp r : Rat) (h1 : lo ≤ m) (h2 : m ≤ hi) (x : Rat) :
    above ⟨lo, hi, cp, r⟩ x = above ⟨lo, m, cp, r⟩ x + above ⟨m, hi, cp, r⟩ x := by
  unfold above
  simp only
  rw [← mul_add]
  congr 1
  simp only [max_def]
  split_ifs <;> linarith

theorem above_split_parallel (lo hi a b r : Rat) (x : Rat) :
    above ⟨lo, hi, a + b, r⟩ x = above ⟨lo, hi, a, r⟩ x + above ⟨lo, hi, b, r⟩ x := by
  unfold above; simp only; ring

theorem duty_split_serial (lo m hi cp r : Rat) :
    duty ⟨lo, hi, cp, r⟩ = duty ⟨lo, m, cp, r⟩ + duty ⟨m, hi, cp, r⟩ := by unfold duty; simp only; ring

theorem duty_split_parallel (lo hi a b r : Rat) :
    duty ⟨lo, hi, a + b, r⟩ = duty ⟨lo, hi, a, r⟩ + duty ⟨lo, hi, b, r⟩ := by unfold duty; simp only; ring

theorem aboveAll_cons (s : Seg) (ss : List Seg) (x : Rat) : aboveAll (s :: ss) x = above s x + aboveAll ss x := by
  unfold aboveAll; simp

theorem total_cons (s : Seg) (ss : List Seg) : total (s :: ss) = duty s + total ss := by unfold total; simp

/-! ### translation, scaling, mirroring -/

def Seg.shift (d : Rat) (s : Seg) : Seg := { s with lo := s.lo + d, hi := s.hi + d }
def Seg.scale (k : Rat) (s : Seg) : Seg := { s with cp := k * s.cp }
/-- mirroring the temperature axis about 0 (any other centre is a translation away) -/
def Seg.mirror (s : Seg) : Seg := { s with lo := -s.hi, hi := -s.lo }

theorem above_shift (d : Rat) (s : Seg) (x : Rat) : above (s.shift d) (x + d) = above s x := by
  unfold above Seg.shift
  simp only
  congr 1
  rw [max_add_add_right, add_sub_add_right_eq_sub]

theorem duty_shift (d : Rat) (s : Seg) : duty (s.shift d) = duty s := by unfold duty Seg.shift; simp only; ring
theorem above_scale (k : Rat) (s : Seg) (x : Rat) : above (s.scale k) x = k * above s x := by
  unfold above Seg.scale; simp only; ring
theorem duty_scale (k : Rat) (s : Seg) : duty (s.scale k) = k * duty s := by unfold duty Seg.scale; simp only; ring
theorem duty_mirror (s : Seg) : duty s.mirror = duty s := by unfold duty Seg.mirror; simp only; ring

/-- heat of the mirrored stream above `−x` = heat of the stream below `x` = duty − heat above `x` -/
theorem above_mirror (s : Seg) (hs : s.lo ≤ s.hi) (x : Rat) : above s.mirror (-x) = duty s - above s x := by
  unfold above duty Seg.mirror
  simp only
  rw [← mul_sub]
  congr 1
  simp only [max_def]
  split_ifs <;> linarith

/-! ### lists of streams -/

theorem aboveAll_shift (d : Rat) (ss : List Seg) (x : Rat) : aboveAll (ss.map (Seg.shift d)) (x + d) = aboveAll ss x := by
  unfold aboveAll
  rw [List.map_map]
  congr 1
  apply List.map_congr_left
  intro s _
  exact above_shift d s x

theorem total_map_eq (f : Seg → Seg) (hf : ∀ s, duty (f s) = duty s) (ss : List Seg) : total (ss.map f) = total ss := by
  unfold total
  rw [List.map_map]
  congr 1
  apply List.map_congr_left
  intro s _
  exact hf s

theorem aboveAll_scale (k : Rat) (ss : List Seg) (x : Rat) : aboveAll (ss.map (Seg.scale k)) x = k * aboveAll ss x := by
  induction ss with
  | nil => simp [aboveAll]
  | cons s ss ih => rw [List.map_cons, aboveAll_cons, aboveAll_cons, ih, above_scale]; ring

theorem total_scale (k : Rat) (ss : List Seg) : total (ss.map (Seg.scale k)) = k * total ss := by
  induction ss with
  | nil => simp [total]
  | cons s ss ih => rw [List.map_cons, total_cons, total_cons, ih, duty_scale]; ring

theorem aboveAll_mirror (ss : List Seg) (hs : ∀ s ∈ ss, s.lo ≤ s.hi) (x : Rat) :
    aboveAll (ss.map Seg.mirror) (-x) = total ss - aboveAll ss x := by
  induction ss with
  | nil => simp [aboveAll, total]
  | cons s ss ih =>
    rw [List.map_cons, aboveAll_cons, aboveAll_cons, total_cons, ih (fun s' h' => hs s' (by simp [h'])),
      above_mirror s (hs s (by simp))]
    ring

end OP
