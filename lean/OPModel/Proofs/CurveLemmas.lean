/-
  Lemmas about the Ramer–Douglas–Peucker model (`Model/Curves.lean`): the farthest-point scan, the
  recursion over ranges, and the geometry that turns a bound on the cross product into a bound on
  the distance from the chord *segment* for a monotone profile.
-/
import OPModel.Model.Curves
import OPModel.Proofs.CascadeLemmas
import Mathlib.Data.List.Chain
import Mathlib.Tactic.Linarith
import Mathlib.Tactic.Ring
import Mathlib.Tactic.LinearCombination

namespace OP

theorem rabs_nonneg (x : Rat) : 0 ≤ rabs x := by rw [rabs_eq_abs]; exact abs_nonneg x
theorem rabs_mul_self (x : Rat) : rabs x * rabs x = x * x := by
  unfold rabs; split <;> ring

theorem len2_nonneg (a b : P2) : 0 ≤ len2 a b := by
  unfold len2; exact add_nonneg (mul_self_nonneg _) (mul_self_nonneg _)

/-- "Point `i` is within `eps` of the chord `a`–`b`", in squared form (no square root):
    `|cross| / len ≤ eps  ⇔  cross² ≤ eps²·len²`. -/
def Within (pts : Array P2) (eps : Rat) (a b i : Nat) : Prop :=
  crossZ pts[a]! pts[b]! pts[i]! * crossZ pts[a]! pts[b]! pts[i]! ≤ eps * eps * len2 pts[a]! pts[b]!

/-- `a` and `b` are neighbours in the output: in order, and every original point strictly between
    them is within `eps` of their chord. -/
def Cov (pts : Array P2) (eps : Rat) (a b : Nat) : Prop :=
  a < b ∧ ∀ i, a < i → i < b → Within pts eps a b i

/-! ### the farthest-point scan -/

def scanStep (pts : Array P2) (s e : Nat) (acc : Nat × Rat) (k : Nat) : Nat × Rat :=
  let i := s + 1 + k
  let d := rabs (crossZ pts[s]! pts[e]! pts[i]!)
  if acc.2 < d then (i, d) else acc

theorem farthest_eq (pts : Array P2) (s e : Nat) :
    farthest pts s e = (List.range (e - s - 1)).foldl (scanStep pts s e) (s, 0) := rfl

theorem scan_inv (pts : Array P2) (s e : Nat) (ks : List Nat) (acc : Nat × Rat)
    (hks : ∀ k ∈ ks, s + 1 + k < e) (h0 : 0 ≤ acc.2) (hi : acc.2 = 0 ∨ (s < acc.1 ∧ acc.1 < e)) :
    let r := ks.foldl (scanStep pts s e) acc
    acc.2 ≤ r.2 ∧ (r.2 = 0 ∨ (s < r.1 ∧ r.1 < e)) ∧
      ∀ k ∈ ks, rabs (crossZ pts[s]! pts[e]! pts[s + 1 + k]!) ≤ r.2 := by
  induction ks generalizing acc with
  | nil => exact ⟨le_refl _, hi, by simp⟩
  | cons k ks ih =>
    simp only [List.foldl_cons]
    have hk : s + 1 + k < e := hks k (by simp)
    have hks' : ∀ k' ∈ ks, s + 1 + k' < e := fun k' hk' => hks k' (by simp [hk'])
    by_cases hlt : acc.2 < rabs (crossZ pts[s]! pts[e]! pts[s + 1 + k]!)
    · have hstep : scanStep pts s e acc k = (s + 1 + k, rabs (crossZ pts[s]! pts[e]! pts[s + 1 + k]!)) := by
        unfold scanStep; simp only; rw [if_pos hlt]
      rw [hstep]
      obtain ⟨h1, h2, h3⟩ := ih (s + 1 + k, rabs (crossZ pts[s]! pts[e]! pts[s + 1 + k]!)) hks'
        (rabs_nonneg _) (Or.inr ⟨by simp only; omega, hk⟩)
      refine ⟨le_trans (le_of_lt hlt) h1, h2, ?_⟩
      intro k' hk'
      rcases List.mem_cons.mp hk' with rfl | hk'
      · exact h1
      · exact h3 k' hk'
    · have hstep : scanStep pts s e acc k = acc := by
        unfold scanStep; simp only; rw [if_neg hlt]
      rw [hstep]
      obtain ⟨h1, h2, h3⟩ := ih acc hks' h0 hi
      refine ⟨h1, h2, ?_⟩
      intro k' hk'
      rcases List.mem_cons.mp hk' with rfl | hk'
      · exact le_trans (not_lt.mp hlt) h1
      · exact h3 k' hk'

/-- What the scan returns: a distance that dominates every interior point, and — unless that
    distance is zero — an index strictly inside the range. -/
theorem farthest_spec (pts : Array P2) (s e : Nat) :
    0 ≤ (farthest pts s e).2 ∧
    ((farthest pts s e).2 = 0 ∨ (s < (farthest pts s e).1 ∧ (farthest pts s e).1 < e)) ∧
    ∀ i, s < i → i < e → rabs (crossZ pts[s]! pts[e]! pts[i]!) ≤ (farthest pts s e).2 := by
  rw [farthest_eq]
  have hks : ∀ k ∈ List.range (e - s - 1), s + 1 + k < e := by
    intro k hk; have := List.mem_range.mp hk; omega
  obtain ⟨h1, h2, h3⟩ := scan_inv pts s e (List.range (e - s - 1)) (s, 0) hks (le_refl _) (Or.inl rfl)
  refine ⟨h1, h2, ?_⟩
  intro i hsi hie
  have := h3 (i - s - 1) (List.mem_range.mpr (by omega))
  have hidx : s + 1 + (i - s - 1) = i := by omega
  rwa [hidx] at this

/-! ### the recursion over ranges -/

/-- consecutive naturals are a chain of neighbours with nothing in between -/
theorem cov_succ (pts : Array P2) (eps : Rat) (a : Nat) : Cov pts eps a (a + 1) :=
  ⟨Nat.lt_succ_self a, fun i h1 h2 => by omega⟩

theorem chain_consecutive (pts : Array P2) (eps : Rat) (n s : Nat) :
    List.IsChain (Cov pts eps) (s :: (List.range n).map (s + 1 + ·) ++ [s + 1 + n]) := by
  induction n generalizing s with
  | zero => simp [List.isChain_cons_cons, cov_succ]
  | succ n ih =>
    have h := ih (s + 1)
    rw [List.range_succ_eq_map]
    simp only [List.map_cons, List.map_map, List.cons_append, Nat.add_zero]
    rw [List.isChain_cons_cons]
    refine ⟨cov_succ pts eps s, ?_⟩
    have e1 : (List.range n).map ((fun x => s + 1 + x) ∘ Nat.succ) = (List.range n).map (fun x => s + 1 + 1 + x) := by
      apply List.map_congr_left; intro a _; simp only [Function.comp]; omega
    have e2 : s + 1 + (n + 1) = s + 1 + 1 + n := by omega
    rw [e1, e2]
    exact h

/-- The kept indices of a range, bracketed by its ends, form a chain of neighbours. -/
theorem rdpRange_chain (pts : Array P2) (eps : Rat) (fuel s e : Nat) (hse : s < e) (hf : e - s ≤ fuel) :
    List.IsChain (Cov pts eps) (s :: rdpRange pts eps fuel s e ++ [e]) := by
  induction fuel generalizing s e with
  | zero => omega
  | succ fuel ih =>
    unfold rdpRange
    by_cases h1 : e ≤ s + 1
    · rw [if_pos h1]
      have : e = s + 1 := by omega
      subst this
      simp [List.isChain_cons_cons, cov_succ]
    · rw [if_neg h1]
      by_cases h2 : len2 pts[s]! pts[e]! = 0
      · rw [if_pos h2]
        have := chain_consecutive pts eps (e - s - 1) s
        have he : s + 1 + (e - s - 1) = e := by omega
        rw [he] at this
        exact this
      · rw [if_neg h2]
        obtain ⟨hd0, hidx, hmax⟩ := farthest_spec pts s e
        rcases hF : farthest pts s e with ⟨fi, fd⟩
        rw [hF] at hd0 hidx hmax
        simp only at hd0 hidx hmax ⊢
        by_cases h3 : eps * eps * len2 pts[s]! pts[e]! < fd * fd
        · rw [if_pos h3]
          have hpos : fd ≠ 0 := by
            intro h0; rw [h0] at h3
            have := mul_nonneg (mul_self_nonneg eps) (len2_nonneg pts[s]! pts[e]!)
            linarith
          rcases hidx with h0 | ⟨hsi, hie⟩
          · exact absurd h0 hpos
          · have c1 := ih s fi hsi (by omega)
            have c2 := ih fi e hie (by omega)
            have : s :: (rdpRange pts eps fuel s fi ++ [fi] ++ rdpRange pts eps fuel fi e) ++ [e]
                = (s :: rdpRange pts eps fuel s fi) ++ fi :: (rdpRange pts eps fuel fi e ++ [e]) := by simp
            rw [this, List.isChain_split]
            exact ⟨c1, c2⟩
        · rw [if_neg h3]
          simp only [List.cons_append, List.nil_append, List.isChain_cons_cons, List.isChain_singleton, and_true]
          refine ⟨hse, ?_⟩
          intro i hsi hie
          unfold Within
          have hm := hmax i hsi hie
          have hsq : rabs (crossZ pts[s]! pts[e]! pts[i]!) * rabs (crossZ pts[s]! pts[e]! pts[i]!) ≤ fd * fd :=
            mul_le_mul hm hm (rabs_nonneg _) hd0
          rw [rabs_mul_self] at hsq
          exact le_trans hsq (not_lt.mp h3)

/-! ### from the cross product to the distance from the chord segment -/

/-- A point `p` lying coordinatewise between the chord ends `a`, `b` (as every point of a profile
    monotone in both coordinates does) projects *inside* the segment, and its squared distance from that foot is
    `cross² / len²`.  So `cross² ≤ eps²·len²` puts `p` within `eps` of the segment `a`–`b`. -/
theorem within_segment (a b p : P2) (eps : Rat)
    (hx : (a.1 ≤ p.1 ∧ p.1 ≤ b.1) ∨ (b.1 ≤ p.1 ∧ p.1 ≤ a.1))
    (hy : (a.2 ≤ p.2 ∧ p.2 ≤ b.2) ∨ (b.2 ≤ p.2 ∧ p.2 ≤ a.2))
    (hlen : len2 a b ≠ 0)
    (h : crossZ a b p * crossZ a b p ≤ eps * eps * len2 a b) :
    ∃ t : Rat, 0 ≤ t ∧ t ≤ 1 ∧
      (p.1 - (a.1 + t * (b.1 - a.1))) * (p.1 - (a.1 + t * (b.1 - a.1))) +
      (p.2 - (a.2 + t * (b.2 - a.2))) * (p.2 - (a.2 + t * (b.2 - a.2))) ≤ eps * eps := by
  have hL : 0 < len2 a b := lt_of_le_of_ne (len2_nonneg a b) (Ne.symm hlen)
  set lx := b.1 - a.1 with hlx
  set ly := b.2 - a.2 with hly
  set dx := p.1 - a.1 with hdx
  set dy := p.2 - a.2 with hdy
  have hLdef : len2 a b = lx * lx + ly * ly := by unfold len2; rfl
  have hcdef : crossZ a b p = lx * dy - ly * dx := by unfold crossZ; rfl
  -- the dot products with the chord direction are non-negative from both ends
  have hdot0 : 0 ≤ dx * lx + dy * ly := by
    rcases hx with ⟨h1, h2⟩ | ⟨h1, h2⟩ <;> rcases hy with ⟨h3, h4⟩ | ⟨h3, h4⟩
    · exact add_nonneg (mul_nonneg (by linarith) (by linarith)) (mul_nonneg (by linarith) (by linarith))
    · -- x runs up, y runs down: then lx*ly ≤ 0, with hdir one of them is 0
      have hlx0 : 0 ≤ lx := by linarith
      have hly0 : ly ≤ 0 := by linarith
      have : dx * lx + dy * ly = dx * lx + (-dy) * (-ly) := by ring
      rw [this]
      exact add_nonneg (mul_nonneg (by linarith) hlx0) (mul_nonneg (by linarith) (by linarith))
    · have hlx0 : lx ≤ 0 := by linarith
      have : dx * lx + dy * ly = (-dx) * (-lx) + dy * ly := by ring
      rw [this]
      exact add_nonneg (mul_nonneg (by linarith) (by linarith)) (mul_nonneg (by linarith) (by linarith))
    · have : dx * lx + dy * ly = (-dx) * (-lx) + (-dy) * (-ly) := by ring
      rw [this]
      exact add_nonneg (mul_nonneg (by linarith) (by linarith)) (mul_nonneg (by linarith) (by linarith))
  have hdot1 : dx * lx + dy * ly ≤ lx * lx + ly * ly := by
    have : lx * lx + ly * ly - (dx * lx + dy * ly) = (lx - dx) * lx + (ly - dy) * ly := by ring
    have h0 : 0 ≤ (lx - dx) * lx + (ly - dy) * ly := by
      rcases hx with ⟨h1, h2⟩ | ⟨h1, h2⟩ <;> rcases hy with ⟨h3, h4⟩ | ⟨h3, h4⟩
      · exact add_nonneg (mul_nonneg (by linarith) (by linarith)) (mul_nonneg (by linarith) (by linarith))
      · have e : (lx - dx) * lx + (ly - dy) * ly = (lx - dx) * lx + (-(ly - dy)) * (-ly) := by ring
        rw [e]
        exact add_nonneg (mul_nonneg (by linarith) (by linarith)) (mul_nonneg (by linarith) (by linarith))
      · have e : (lx - dx) * lx + (ly - dy) * ly = (-(lx - dx)) * (-lx) + (ly - dy) * ly := by ring
        rw [e]
        exact add_nonneg (mul_nonneg (by linarith) (by linarith)) (mul_nonneg (by linarith) (by linarith))
      · have e : (lx - dx) * lx + (ly - dy) * ly = (-(lx - dx)) * (-lx) + (-(ly - dy)) * (-ly) := by ring
        rw [e]
        exact add_nonneg (mul_nonneg (by linarith) (by linarith)) (mul_nonneg (by linarith) (by linarith))
    linarith
  refine ⟨(dx * lx + dy * ly) / (lx * lx + ly * ly), ?_, ?_, ?_⟩
  · exact div_nonneg hdot0 (by rw [← hLdef]; exact le_of_lt hL)
  · exact div_le_one_of_le₀ hdot1 (by rw [← hLdef]; exact le_of_lt hL)
  · have hne : lx * lx + ly * ly ≠ 0 := by rw [← hLdef]; exact hlen
    have hD : 0 < lx * lx + ly * ly := by rw [← hLdef]; exact hL
    set t := (dx * lx + dy * ly) / (lx * lx + ly * ly) with htdef
    have ht : t * (lx * lx + ly * ly) = dx * lx + dy * ly := div_mul_cancel₀ _ hne
    have e1 : p.1 - (a.1 + t * lx) = dx - t * lx := by rw [hdx]; ring
    have e2 : p.2 - (a.2 + t * ly) = dy - t * ly := by rw [hdy]; ring
    rw [e1, e2]
    have key : ((dx - t * lx) * (dx - t * lx) + (dy - t * ly) * (dy - t * ly)) * (lx * lx + ly * ly)
        = (lx * dy - ly * dx) * (lx * dy - ly * dx) := by
      linear_combination (t * (lx * lx + ly * ly) - (dx * lx + dy * ly)) * ht
    rw [hcdef, hLdef] at h
    have h' : ((dx - t * lx) * (dx - t * lx) + (dy - t * ly) * (dy - t * ly)) * (lx * lx + ly * ly)
        ≤ eps * eps * (lx * lx + ly * ly) := by rw [key]; exact h
    exact le_of_mul_le_mul_right h' hD

/-! ### clean_composite_curve only removes points -/

private theorem bindOk {ε α β : Type} {x : Except ε α} {f : α → Except ε β} {b : β}
    (h : (x >>= f) = .ok b) : ∃ a, x = .ok a ∧ f a = .ok b := by
  cases x with
  | error e => simp [bind, Except.bind] at h
  | ok a => exact ⟨a, rfl, h⟩

theorem keepInterior_sublist (tol : Rat) : ∀ l : List (Rat × Rat), (keepInterior tol l).Sublist l.tail.dropLast
  | [] => by simp [keepInterior]
  | [_] => by simp [keepInterior]
  | [_, _] => by simp [keepInterior]
  | (x1, y1) :: (x2, y2) :: (x3, y3) :: rest => by
    have ih := keepInterior_sublist tol ((x2, y2) :: (x3, y3) :: rest)
    have e : ((x1, y1) :: (x2, y2) :: (x3, y3) :: rest).tail.dropLast = (x2, y2) :: ((x3, y3) :: rest).dropLast := by
      simp
    have e' : ((x2, y2) :: (x3, y3) :: rest).tail.dropLast = ((x3, y3) :: rest).dropLast := by simp
    rw [e]; rw [e'] at ih
    unfold keepInterior
    simp only
    split_ifs
    · exact ih.cons_cons _
    · exact ih.cons _
    · exact ih.cons_cons _
    · exact ih.cons _

theorem list_ends_decomp {α : Type} (l : List α) (f la : α) (h2 : 2 ≤ l.length)
    (hf : l.head? = some f) (hl : l.getLast? = some la) : l = f :: l.tail.dropLast ++ [la] := by
  match l, h2 with
  | a :: b :: t, _ =>
    simp only [List.head?_cons, Option.some.injEq] at hf
    subst hf
    simp only [List.tail_cons, List.cons_append, List.cons.injEq, true_and]
    have hne : (b :: t) ≠ [] := by simp
    have hl' : (b :: t).getLast? = some la := by simpa [List.getLast?_cons_cons] using hl
    have := List.dropLast_append_getLast? la hl'
    exact this.symm

theorem dropFirstKept_sub (tol : Rat) (kept : List (Rat × Rat)) :
    (match kept with
      | a :: b :: rest => if rabs (a.1 - b.1) < tol then b :: rest else a :: b :: rest
      | l => l).Sublist kept := by
  split
  · split_ifs
    · exact List.sublist_cons_self _ _
    · exact List.Sublist.refl _
  · exact List.Sublist.refl _

theorem dropLastKept_sub (tol : Rat) (kept1 : List (Rat × Rat)) :
    (match kept1.reverse with
      | a :: b :: rest => if rabs (a.1 - b.1) < tol then (b :: rest).reverse else kept1
      | _ => kept1).Sublist kept1 := by
  split
  · rename_i a b rest hrev
    split_ifs
    · have : kept1 = (b :: rest).reverse ++ [a] := by
        have := congrArg List.reverse hrev
        simpa using this
      conv_rhs => rw [this]
      exact List.sublist_append_left _ _
    · exact List.Sublist.refl _
  · exact List.Sublist.refl _

/-- the test of the middle loop: the middle point is a turning point of a vertical run, or lies more than
    `tol` (in `y`) off the chord through its two neighbours -/
def OffChord (tol : Rat) (p1 p2 p3 : Rat × Rat) : Prop :=
  if p1.1 = p3.1 then p1.1 ≠ p2.1
  else tol < rabs (p2.2 - (p1.2 + (p3.2 - p1.2) * (p2.1 - p1.1) / (p3.1 - p1.1)))

theorem keepInterior_keeps (tol : Rat) : ∀ (l : List (Rat × Rat)) (i : Nat) (h : i + 2 < l.length),
    OffChord tol l[i] l[i + 1] l[i + 2] → l[i + 1] ∈ keepInterior tol l
  | [], i, h, _ => by simp at h
  | [_], i, h, _ => by simp at h
  | [_, _], i, h, _ => by simp at h
  | (x1, y1) :: (x2, y2) :: (x3, y3) :: rest, 0, _, hoff => by
    unfold keepInterior
    simp only [OffChord, List.getElem_cons_zero, List.getElem_cons_succ] at hoff
    simp only
    split_ifs with h1 h2 h3
    · exact List.mem_cons_self
    · rw [if_pos h1] at hoff; exact absurd hoff h2
    · exact List.mem_cons_self
    · rw [if_neg h1] at hoff; exact absurd hoff h3
  | (x1, y1) :: (x2, y2) :: (x3, y3) :: rest, i + 1, h, hoff => by
    have ih := keepInterior_keeps tol ((x2, y2) :: (x3, y3) :: rest) i (by simp at h ⊢; omega)
      (by simpa using hoff)
    have ih' : ((x1, y1) :: (x2, y2) :: (x3, y3) :: rest)[i + 1 + 1] ∈ keepInterior tol ((x2, y2) :: (x3, y3) :: rest) := by
      simpa using ih
    unfold keepInterior
    simp only
    split_ifs
    · exact List.mem_cons_of_mem _ ih'
    · exact ih'
    · exact List.mem_cons_of_mem _ ih'
    · exact ih'

theorem dedupAdj_sublist : ∀ l : List (Rat × Rat), (dedupAdj l).Sublist l
  | [] => by simp [dedupAdj]
  | [_] => by simp [dedupAdj]
  | a :: b :: rest => by
    unfold dedupAdj
    split_ifs
    · exact (dedupAdj_sublist (a :: rest)).trans ((List.sublist_cons_self b rest).cons_cons a)
    · exact (dedupAdj_sublist (b :: rest)).cons_cons a
termination_by l => l.length

theorem cleanCurve_sublist (tol : Rat) (y x : List Rat) (out : List (Rat × Rat))
    (h : cleanCurve tol y x = .ok out) : out.Sublist (x.zip y) := by
  unfold cleanCurve at h
  obtain ⟨r, _, h⟩ := bindOk h
  match r with
  | none => simp only at h; cases h; exact List.nil_sublist _
  | some (s, e) =>
    simp only at h
    have hpts : (((x.zip y).drop s).take (e + 1 - s)).Sublist (x.zip y) :=
      (List.take_sublist _ _).trans (List.drop_sublist _ _)
    generalize ((x.zip y).drop s).take (e + 1 - s) = pts0 at h hpts
    by_cases hlen0 : pts0.length ≤ 2
    · rw [if_pos hlen0] at h; cases h; exact hpts
    rw [if_neg hlen0] at h
    have hpts : (dedupAdj pts0).Sublist (x.zip y) := (dedupAdj_sublist pts0).trans hpts
    generalize dedupAdj pts0 = pts at h hpts
    by_cases hlen : pts.length ≤ 2
    · rw [if_pos hlen] at h; cases h; exact hpts
    · rw [if_neg hlen] at h
      split at h
      · rename_i first last hf hl
        cases h
        have hdec := list_ends_decomp pts first last (by omega) hf hl
        have hkept : (first :: keepInterior tol pts ++ [last]).Sublist pts := by
          conv_rhs => rw [hdec]
          exact ((keepInterior_sublist tol pts).append (List.Sublist.refl [last])).cons_cons first
        refine List.Sublist.trans ?_ (hkept.trans hpts)
        -- dropping the first / last kept point
        exact (dropLastKept_sub tol _).trans (dropFirstKept_sub tol _)
      · cases h

end OP
