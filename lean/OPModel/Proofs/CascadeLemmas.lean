/-
  Helper lemmas for C01/C02/C05: every entry of the code's cumulative columns equals the exact
  heat content of the streams between that row and the top of the grid.
-/
import OPModel.Model.Cascade
import Mathlib.Algebra.Order.Field.Rat
import Mathlib.Algebra.BigOperators.Group.List.Basic
import Mathlib.Tactic.Linarith
import Mathlib.Tactic.Ring
import Mathlib.Tactic.SplitIfs
import Mathlib.Tactic.ByContra

namespace OP

/-! ### specification vocabulary -/

/-- Length of the overlap of a stream's range with `[l, u]`. -/
def ovl (s : Seg) (l u : Rat) : Rat := max 0 (min s.hi u - max s.lo l)

/-- Heat content of a stream set between two temperatures. -/
def content (ss : List Seg) (l u : Rat) : Rat := (ss.map fun s => s.cp * ovl s l u).sum

/-- Heat content of a stream above `T`. -/
def above (s : Seg) (T : Rat) : Rat := s.cp * max 0 (s.hi - max s.lo T)

def aboveAll (ss : List Seg) (T : Rat) : Rat := (ss.map fun s => above s T).sum

/-- Heat content of a stream below `T`. -/
def below (s : Seg) (T : Rat) : Rat := s.cp * max 0 (min s.hi T - s.lo)

def belowAll (ss : List Seg) (T : Rat) : Rat := (ss.map fun s => below s T).sum

def duty (s : Seg) : Rat := s.cp * (s.hi - s.lo)

def total (ss : List Seg) : Rat := (ss.map duty).sum

/-- Net heat deficit above `T`: cold demand above `T` minus hot supply above `T`. -/
def deficit (hot cold : List Seg) (T : Rat) : Rat := aboveAll cold T - aboveAll hot T

/-- A grid cell `(l, u)` is compatible with the streams: wider than the activity window and no
    stream bound strictly inside it. -/
def CellOK (w : Rat) (ss : List Seg) (l u : Rat) : Prop :=
  w < u - l ∧ ∀ s ∈ ss, (s.lo ≤ l ∨ u ≤ s.lo) ∧ (s.hi ≤ l ∨ u ≤ s.hi) ∧ s.lo ≤ s.hi

/-- All cells of the grid below `u` are compatible. -/
def ChainOK (w : Rat) (ss : List Seg) : Rat → List Rat → Prop
  | _, [] => True
  | u, l :: rest => CellOK w ss l u ∧ ChainOK w ss l rest

/-! ### one cell -/

theorem rabs_eq_abs (x : Rat) : rabs x = |x| := by
  unfold rabs
  split_ifs with h
  · exact (abs_of_neg h).symm
  · exact (abs_of_nonneg (not_lt.mp h)).symm

theorem active_iff (w : Rat) (hw : 0 ≤ w) (s : Seg) (l u : Rat)
    (hc : w < u - l) (h1 : s.lo ≤ l ∨ u ≤ s.lo) (h2 : s.hi ≤ l ∨ u ≤ s.hi) :
    active w s l u = true ↔ (s.lo ≤ l ∧ u ≤ s.hi) := by
  unfold active
  simp only [Bool.and_eq_true, decide_eq_true_eq]
  constructor
  · intro ⟨a, b⟩
    constructor
    · rcases h1 with h | h
      · exact h
      · linarith
    · rcases h2 with h | h
      · linarith
      · exact h
  · intro ⟨a, b⟩
    constructor <;> linarith

theorem ovl_span (s : Seg) (l u : Rat) (hlu : l ≤ u) (a : s.lo ≤ l) (b : u ≤ s.hi) : ovl s l u = u - l := by
  unfold ovl
  rw [min_eq_right b, max_eq_right a, max_eq_right (by linarith)]

theorem ovl_miss (s : Seg) (l u : Rat) (hlu : l ≤ u) (hs : s.lo ≤ s.hi)
    (h : s.hi ≤ l ∨ u ≤ s.lo) : ovl s l u = 0 := by
  unfold ovl
  apply max_eq_left
  rcases h with h | h
  · have : min s.hi u ≤ s.hi := min_le_left _ _
    have : l ≤ max s.lo l := le_max_right _ _
    linarith
  · have : min s.hi u ≤ u := min_le_right _ _
    have : s.lo ≤ max s.lo l := le_max_left _ _
    linarith

theorem cell_term (w : Rat) (hw : 0 ≤ w) (ss : List Seg) (l u : Rat) (h : CellOK w ss l u) :
    (u - l) * cpSum w ss l u = content ss l u := by
  obtain ⟨hc, hs⟩ := h
  unfold cpSum content
  induction ss with
  | nil => simp
  | cons s ss ih =>
    have hs' : ∀ t ∈ ss, (t.lo ≤ l ∨ u ≤ t.lo) ∧ (t.hi ≤ l ∨ u ≤ t.hi) ∧ t.lo ≤ t.hi :=
      fun t ht => hs t (List.mem_cons_of_mem _ ht)
    obtain ⟨h1, h2, h3⟩ := hs s (List.mem_cons_self)
    simp only [List.map_cons, List.sum_cons]
    rw [mul_add, ih hs']
    congr 1
    have hlu : l ≤ u := by linarith
    by_cases ha : active w s l u = true
    · obtain ⟨a, b⟩ := (active_iff w hw s l u hc h1 h2).mp ha
      rw [if_pos ha, ovl_span s l u hlu a b]; ring
    · rw [if_neg ha]
      have hn : ¬ (s.lo ≤ l ∧ u ≤ s.hi) := fun hh => ha ((active_iff w hw s l u hc h1 h2).mpr hh)
      have : s.hi ≤ l ∨ u ≤ s.lo := by
        rcases h1 with a | a
        · rcases h2 with b | b
          · exact Or.inl b
          · exact absurd ⟨a, b⟩ hn
        · exact Or.inr a
      rw [ovl_miss s l u hlu h3 this]; ring

/-- Overlap is additive over adjacent intervals. -/
theorem ovl_split (s : Seg) (a b c : Rat) (hab : a ≤ b) (hbc : b ≤ c) :
    ovl s a b + ovl s b c = ovl s a c := by
  unfold ovl
  simp only [max_def, min_def]
  split_ifs <;> linarith

theorem content_split (ss : List Seg) (a b c : Rat) (hab : a ≤ b) (hbc : b ≤ c) :
    content ss a b + content ss b c = content ss a c := by
  unfold content
  induction ss with
  | nil => simp
  | cons s ss ih =>
    simp only [List.map_cons, List.sum_cons]
    rw [← ih, ← ovl_split s a b c hab hbc]
    ring

theorem content_self (ss : List Seg) (a : Rat) (h : ∀ s ∈ ss, s.lo ≤ s.hi) : content ss a a = 0 := by
  unfold content
  induction ss with
  | nil => simp
  | cons s ss ih =>
    simp only [List.map_cons, List.sum_cons]
    rw [ih (fun t ht => h t (List.mem_cons_of_mem _ ht))]
    have hs := h s List.mem_cons_self
    have : ovl s a a = 0 := by
      unfold ovl
      apply max_eq_left
      simp only [max_def, min_def]
      split_ifs <;> linarith
    rw [this]; ring

/-! ### the cumulative column -/

/-- The per-row enthalpy change the code computes: `ΔT · ΣCP` over the cells of the grid. -/
def cellTerms (tol w : Rat) (ss : List Seg) (u : Rat) (rest : List Rat) : List Rat :=
  List.zipWith (· * ·) (deltaVals tol (u :: rest)) ((cells (u :: rest)).map fun (a, b) => cpSum w ss b a)

theorem cellTerms_cons (tol w : Rat) (ss : List Seg) (u l : Rat) (rest : List Rat) :
    cellTerms tol w ss u (l :: rest) =
      ((if rabs (u - l) ≤ tol then 0 else u - l) * cpSum w ss l u) :: cellTerms tol w ss l rest := by
  simp [cellTerms, deltaVals, cells]

theorem cellTerms_nil (tol w : Rat) (ss : List Seg) (u : Rat) : cellTerms tol w ss u [] = [] := by
  simp [cellTerms, deltaVals, cells]

/-- Every entry of `np.cumsum(ΔT·ΣCP)` is the exact heat content between that row and the top. -/
theorem cumsum_cells (tol w : Rat) (hw : 0 ≤ w) (htw : tol ≤ w) (ss : List Seg) (top : Rat) :
    ∀ (rest : List Rat) (u acc : Rat), u ≤ top → acc = content ss u top → ChainOK w ss u rest →
      cumsumFrom acc (cellTerms tol w ss u rest) = rest.map (fun t => content ss t top) := by
  intro rest
  induction rest with
  | nil => intro u acc _ _ _; simp [cellTerms_nil, cumsumFrom]
  | cons l rest ih =>
    intro u acc hu hacc hch
    obtain ⟨hcell, hrest⟩ := hch
    have hlu : l < u := by have := hcell.1; linarith
    rw [cellTerms_cons]
    have hnt : ¬ rabs (u - l) ≤ tol := by
      rw [rabs_eq_abs, abs_of_pos (by linarith)]
      have := hcell.1
      linarith
    rw [if_neg hnt, cell_term w hw ss l u hcell]
    simp only [cumsumFrom, List.map_cons]
    have hnew : acc + content ss l u = content ss l top := by
      rw [hacc, add_comm]; exact content_split ss l u top (le_of_lt hlu) hu
    rw [hnew]
    congr 1
    exact ih l (content ss l top) (by linarith) rfl hrest

/-! ### content versus `above` -/

theorem ovl_top (s : Seg) (T top : Rat) (h : s.hi ≤ top) : ovl s T top = max 0 (s.hi - max s.lo T) := by
  unfold ovl
  rw [min_eq_left h]

theorem content_eq_above (ss : List Seg) (T top : Rat) (h : ∀ s ∈ ss, s.hi ≤ top) :
    content ss T top = aboveAll ss T := by
  unfold content aboveAll above
  induction ss with
  | nil => simp
  | cons s ss ih =>
    simp only [List.map_cons, List.sum_cons]
    rw [ih (fun t ht => h t (List.mem_cons_of_mem _ ht)), ovl_top s T top (h s List.mem_cons_self)]

theorem above_bottom (s : Seg) (T : Rat) (hs : s.lo ≤ s.hi) (h : T ≤ s.lo) : above s T = duty s := by
  unfold above duty
  rw [max_eq_left h, max_eq_right (by linarith)]

theorem aboveAll_bottom (ss : List Seg) (T : Rat) (h : ∀ s ∈ ss, s.lo ≤ s.hi ∧ T ≤ s.lo) :
    aboveAll ss T = total ss := by
  unfold aboveAll total
  induction ss with
  | nil => simp
  | cons s ss ih =>
    simp only [List.map_cons, List.sum_cons]
    rw [ih (fun t ht => h t (List.mem_cons_of_mem _ ht)),
      above_bottom s T (h s List.mem_cons_self).1 (h s List.mem_cons_self).2]

theorem above_top (s : Seg) (T : Rat) (h : s.hi ≤ T) : above s T = 0 := by
  unfold above
  have : s.hi - max s.lo T ≤ 0 := by
    have := le_max_right s.lo T
    linarith
  rw [max_eq_left this]; ring

theorem aboveAll_top (ss : List Seg) (T : Rat) (h : ∀ s ∈ ss, s.hi ≤ T) : aboveAll ss T = 0 := by
  unfold aboveAll
  induction ss with
  | nil => simp
  | cons s ss ih =>
    simp only [List.map_cons, List.sum_cons]
    rw [ih (fun t ht => h t (List.mem_cons_of_mem _ ht)), above_top s T (h s List.mem_cons_self)]
    ring

end OP
