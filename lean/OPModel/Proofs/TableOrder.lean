/- C08 helpers: the result depends on the *set* of requested temperatures only. -/
import OPModel.Proofs.TableLemmas

namespace OP

theorem sortDesc_perm (xs : List Rat) : (sortDesc xs).Perm xs := List.mergeSort_perm _ _

theorem sortDesc_pairwise (xs : List Rat) : (sortDesc xs).Pairwise (fun a b => b ≤ a) := by
  have := List.pairwise_mergeSort (le := fun a b : Rat => decide (b ≤ a))
    (fun a b c h1 h2 => by simp only [decide_eq_true_eq] at *; exact le_trans h2 h1)
    (fun a b => by simp only [Bool.or_eq_true, decide_eq_true_eq]; exact le_total b a) xs
  simpa [sortDesc] using this

/-- Sorting forgets the order of the input. -/
theorem sortDesc_congr {xs ys : List Rat} (h : xs.Perm ys) : sortDesc xs = sortDesc ys := by
  apply List.Perm.eq_of_pairwise (le := fun a b : Rat => b ≤ a)
  · intro a b _ _ h1 h2; exact le_antisymm h2 h1
  · exact sortDesc_pairwise xs
  · exact sortDesc_pairwise ys
  · exact (sortDesc_perm xs).trans (h.trans (sortDesc_perm ys).symm)

theorem needInsert_perm (tol : Rat) (Ts : List Rat) {xs ys : List Rat} (h : xs.Perm ys) :
    (needInsert tol Ts xs).Perm (needInsert tol Ts ys) := h.filter _

theorem bucket_congr (tol hi lo : Rat) {xs ys : List Rat} (h : xs.Perm ys) :
    bucket tol hi lo xs = bucket tol hi lo ys := by
  unfold bucket
  rw [sortDesc_congr (h.filter _)]

theorem walk_congr (cfg : TblCfg) (tol : Rat) {xs ys : List Rat} (h : xs.Perm ys) :
    ∀ (pairs : List (Row × Rat)) (up : Row) (upT : Rat),
      walk cfg tol xs up upT pairs = walk cfg tol ys up upT pairs := by
  intro pairs
  induction pairs with
  | nil => intro _ _; rfl
  | cons p rest ih =>
    intro up upT
    obtain ⟨lo, loT⟩ := p
    simp only [walk, bucket_congr tol upT loT h, ih]

/-- Unsorted / permuted requests give the same table and the same count. -/
theorem insertTemps_perm (cfg : TblCfg) (tol : Rat) (rows : List Row) {xs ys : List Rat} (h : xs.Perm ys) :
    insertTemps cfg tol rows xs = insertTemps cfg tol rows ys := by
  unfold insertTemps
  cases ht : temps cfg rows with
  | none => rfl
  | some Ts =>
    cases rows with
    | nil => rfl
    | cons r0 restRows =>
      cases Ts with
      | nil => rfl
      | cons t0 restTs =>
        have hn := needInsert_perm tol (t0 :: restTs) h
        simp only [sortDesc_congr (hn.filter _), walk_congr cfg tol (hn.filter _)]

/-- Requests that are all within `tol` of existing rows select nothing. -/
theorem needInsert_nil (tol : Rat) (Ts vals : List Rat)
    (h : ∀ v ∈ vals, ∃ t ∈ Ts, rabs (t - v) ≤ tol) : needInsert tol Ts vals = [] := by
  unfold needInsert
  apply List.filter_eq_nil_iff.mpr
  intro v hv
  obtain ⟨t, ht, hle⟩ := h v hv
  simp only [List.all_eq_true, decide_eq_true_eq, not_forall]
  exact ⟨t, ht, not_lt.mpr hle⟩

theorem bucket_nil (tol hi lo : Rat) : bucket tol hi lo [] = [] := by
  simp [bucket, sortDesc, dedupeMono]

theorem walk_nil (cfg : TblCfg) (tol : Rat) :
    ∀ (pairs : List (Row × Rat)) (up : Row) (upT : Rat),
      walk cfg tol [] up upT pairs = up :: pairs.map (·.1) := by
  intro pairs
  induction pairs with
  | nil => intro _ _; rfl
  | cons p rest ih =>
    intro up upT
    obtain ⟨lo, loT⟩ := p
    simp [walk, bucket_nil, midBlock, ih]

theorem temps_length (cfg : TblCfg) : ∀ (rows : List Row) (Ts : List Rat), temps cfg rows = some Ts → Ts.length = rows.length := by
  intro rows
  induction rows with
  | nil => intro Ts h; simp [temps] at h; subst h; rfl
  | cons r rest ih =>
    intro Ts h
    simp only [temps, List.mapM_cons, Option.bind_eq_bind] at h
    cases hr : Row.temp cfg r with
    | none => simp [hr] at h
    | some t =>
      cases hrest : rest.mapM (Row.temp cfg) with
      | none => simp [hr, hrest] at h
      | some ts =>
        simp [hr, hrest] at h
        subst h
        simp [ih ts hrest]

/-- Re-inserting temperatures that are already present (within tolerance) adds nothing: the
    table is returned unchanged and the count is 0. -/
theorem insertTemps_noop (cfg : TblCfg) (tol : Rat) (rows : List Row) (Ts vals : List Rat)
    (ht : temps cfg rows = some Ts) (hd : strictlyDesc Ts = true) (hne : rows ≠ [])
    (h : ∀ v ∈ vals, ∃ t ∈ Ts, rabs (t - v) ≤ tol) :
    insertTemps cfg tol rows vals = .ok (rows, 0) := by
  have hlen := temps_length cfg rows Ts ht
  unfold insertTemps
  rw [ht]
  cases rows with
  | nil => exact absurd rfl hne
  | cons r0 restRows =>
    cases Ts with
    | nil => simp at hlen
    | cons t0 restTs =>
      have hl : restTs.length = restRows.length := by simpa using hlen
      simp only [hd, Bool.not_true, Bool.false_eq_true, if_false, needInsert_nil tol _ vals h,
        List.filter_nil, sortDesc, List.mergeSort_nil, dedupeMono, topBlock, List.reverse_nil,
        bottomBlock, edgeChain, walk_nil, List.nil_append, List.append_nil]
      have : (restRows.zip restTs).map (·.1) = restRows := by
        rw [List.map_fst_zip]; omega
      simp [this]

end OP
