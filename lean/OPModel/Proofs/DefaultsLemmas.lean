/- C03 helpers: the extreme shifted temperatures and the default-utility decision. -/
import OPModel.Model.Defaults
import Mathlib.Algebra.Order.Field.Rat
import Mathlib.Tactic.Linarith
import Mathlib.Tactic.SplitIfs

namespace OP

theorem foldl_maxif_ge_init : ∀ (l : List Rat) (init : Rat), init ≤ l.foldl (fun m x => if m < x then x else m) init := by
  intro l
  induction l with
  | nil => intro i; exact le_refl _
  | cons a l ih =>
    intro i
    simp only [List.foldl_cons]
    split_ifs with h
    · exact le_trans (le_of_lt h) (ih a)
    · exact ih i

theorem foldl_maxif_ge_mem : ∀ (l : List Rat) (init x : Rat), x ∈ l → x ≤ l.foldl (fun m x => if m < x then x else m) init := by
  intro l
  induction l with
  | nil => intro _ x h; simp at h
  | cons a l ih =>
    intro i x hx
    simp only [List.foldl_cons]
    rcases List.mem_cons.mp hx with rfl | hx
    · split_ifs with h
      · exact foldl_maxif_ge_init l x
      · exact le_trans (not_lt.mp h) (foldl_maxif_ge_init l i)
    · exact ih _ x hx

theorem foldl_minif_le_init : ∀ (l : List Rat) (init : Rat), l.foldl (fun m x => if x < m then x else m) init ≤ init := by
  intro l
  induction l with
  | nil => intro i; exact le_refl _
  | cons a l ih =>
    intro i
    simp only [List.foldl_cons]
    split_ifs with h
    · exact le_trans (ih a) (le_of_lt h)
    · exact ih i

theorem foldl_minif_le_mem : ∀ (l : List Rat) (init x : Rat), x ∈ l → l.foldl (fun m x => if x < m then x else m) init ≤ x := by
  intro l
  induction l with
  | nil => intro _ x h; simp at h
  | cons a l ih =>
    intro i x hx
    simp only [List.foldl_cons]
    rcases List.mem_cons.mp hx with rfl | hx
    · split_ifs with h
      · exact foldl_minif_le_init l x
      · exact le_trans (foldl_minif_le_init l i) (not_lt.mp h)
    · exact ih _ x hx

/-- `HU_T_min` is at or above every cold stream's shifted target. -/
theorem huTmin_ge (cold : List Rat) : ∀ x ∈ cold, x ≤ huTmin cold := fun x hx => foldl_maxif_ge_mem cold _ x hx

/-- `CU_T_max` is at or below every hot stream's shifted target. -/
theorem cuTmax_le (hot : List Rat) : ∀ x ∈ hot, cuTmax hot ≤ x := fun x hx => foldl_minif_le_mem hot _ x hx

end OP
