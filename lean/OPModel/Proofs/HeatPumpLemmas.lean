/- C18 helpers: enthalpy steps of a monotone profile. -/
import OPModel.Model.HeatPump
import OPModel.Proofs.CascadeLemmas
import Mathlib.Tactic.Ring
import Mathlib.Tactic.Linarith

namespace OP.C18
open OP OP.HP

theorem qEvap_of_le (c : Cycle) (h : c.h3 ≤ c.h0) : qEvap c = (c.h0 - c.h3) / 1000 := by
  unfold qEvap; rw [max_eq_left (by linarith)]

theorem steps_sum_desc : ∀ (l : List Rat), l.Pairwise (· ≥ ·) → ∀ a z, l.head? = some a → l.getLast? = some z →
    (steps l).sum = a - z
  | [], _, a, z, h, _ => by simp at h
  | [x], _, a, z, ha, hz => by
    simp only [List.head?_cons, Option.some.injEq] at ha
    simp only [List.getLast?_singleton, Option.some.injEq] at hz
    subst ha; subst hz; simp [steps]
  | x :: y :: rest, hp, a, z, ha, hz => by
    simp only [List.head?_cons, Option.some.injEq] at ha
    subst ha
    have hp' : (y :: rest).Pairwise (· ≥ ·) := (List.pairwise_cons.mp hp).2
    have hxy : x ≥ y := (List.pairwise_cons.mp hp).1 y (by simp)
    have hz' : (y :: rest).getLast? = some z := by simpa [List.getLast?_cons_cons] using hz
    have ih := steps_sum_desc (y :: rest) hp' y z rfl hz'
    simp only [steps, List.sum_cons, ih]
    rw [rabs_eq_abs, abs_of_nonneg (by linarith)]
    ring

theorem steps_nonneg : ∀ (l : List Rat), ∀ d ∈ steps l, 0 ≤ d
  | [], d, h => by simp [steps] at h
  | [_], d, h => by simp [steps] at h
  | x :: y :: rest, d, h => by
    simp only [steps, List.mem_cons] at h
    rcases h with rfl | h
    · rw [rabs_eq_abs]; exact abs_nonneg _
    · exact steps_nonneg (y :: rest) d h

end OP.C18
