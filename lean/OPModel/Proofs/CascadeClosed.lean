/- `problemTable` in closed form under grid compatibility. -/
import OPModel.Proofs.CascadeTable

namespace OP

theorem getLast?_map_cons {α β} (f : α → β) (a : α) (l : List α) :
    ((a :: l).map f).getLast? = some (f ((a :: l).getLast (List.cons_ne_nil a l))) := by
  rw [List.getLast?_map, List.getLast?_eq_some_getLast (List.cons_ne_nil a l)]; rfl

/-- Net heat content (cold minus hot) between `t` and the top `t0`. -/
def netC (hot cold : List Seg) (t0 t : Rat) : Rat := content cold t t0 - content hot t t0

/-- `min(H_net)` before the shift, in closed form. -/
def minNet (hot cold : List Seg) (t0 : Rat) (rest : List Rat) : Rat :=
  (rest.map fun t => -(netC hot cold t0 t)).foldl min (-(netC hot cold t0 t0))

/-- The three enthalpy columns of the table in closed form. -/
structure ClosedCols (hot cold : List Seg) (t0 : Rat) (rest : List Rat) (pt : PT) : Prop where
  T : pt.T = t0 :: rest
  hNet : pt.hNet = (t0 :: rest).map (fun t => -(netC hot cold t0 t) - minNet hot cold t0 rest)
  hHot : pt.hHot = (t0 :: rest).map (fun t =>
    content hot ((t0 :: rest).getLast (List.cons_ne_nil _ _)) t0 - content hot t t0)
  hCold : pt.hCold = (t0 :: rest).map (fun t =>
    content cold ((t0 :: rest).getLast (List.cons_ne_nil _ _)) t0
      + (-(netC hot cold t0 ((t0 :: rest).getLast (List.cons_ne_nil _ _))) - minNet hot cold t0 rest)
      - content cold t t0)

theorem problemTable_closed (tol w : Rat) (hw : 0 ≤ w) (htw : tol ≤ w) (hot cold : List Seg)
    (t0 : Rat) (rest : List Rat)
    (hs : ∀ s ∈ cold ++ hot, s.lo ≤ s.hi) (hch : ChainOK w (cold ++ hot) t0 rest) :
    ∃ pt, problemTable tol w (t0 :: rest) hot cold = .ok pt ∧ ClosedCols hot cold t0 rest pt := by
  have hsh : ∀ s ∈ hot, s.lo ≤ s.hi := fun s h => hs s (List.mem_append_right _ h)
  have hsc : ∀ s ∈ cold, s.lo ≤ s.hi := fun s h => hs s (List.mem_append_left _ h)
  have hsn : ∀ s ∈ netSegs hot cold, s.lo ≤ s.hi := by
    intro s h
    obtain ⟨t, ht, e1, e2⟩ := netSegs_bounds hot cold s h
    rw [← e1, ← e2]; exact hs t ht
  have chh : ChainOK w hot t0 rest :=
    ChainOK.mono (fun s h => ⟨s, List.mem_append_right _ h, rfl, rfl⟩) rest t0 hch
  have chc : ChainOK w cold t0 rest :=
    ChainOK.mono (fun s h => ⟨s, List.mem_append_left _ h, rfl, rfl⟩) rest t0 hch
  have chn : ChainOK w (netSegs hot cold) t0 rest := ChainOK.mono (netSegs_bounds hot cold) rest t0 hch
  have eH := cum_column tol w hw htw hot t0 rest hsh chh
  have eC := cum_column tol w hw htw cold t0 rest hsc chc
  have eN : cumsum (0 :: cellTerms tol w (netSegs hot cold) t0 rest) = (t0 :: rest).map (netC hot cold t0) := by
    rw [cum_column tol w hw htw (netSegs hot cold) t0 rest hsn chn]
    apply List.map_congr_left; intro t _; exact content_net hot cold t t0
  unfold problemTable
  simp only [zipWith_mul_cells, zipWith_sub_cells, eH, eC, eN, List.map_map, getLast?_map_cons]
  simp only [List.map_cons, listMin]
  refine ⟨_, rfl, ⟨rfl, ?_, ?_, ?_⟩⟩
  · simp [minNet, Function.comp_def]
  · simp [Function.comp_def]
  · simp [minNet, Function.comp_def]

end OP
