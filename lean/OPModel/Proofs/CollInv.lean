/- Helper lemmas for C19: the collection invariant (unique keys, valid sort cache)
   and what each operation does to the member list. -/
import OPModel.Model.Collection
import Std.Data.String.ToNat
import Mathlib.Data.List.Perm.Subperm
import Mathlib.Data.List.Nodup
import Mathlib.Tactic.Linarith

namespace OP.Coll

/-! ### the insertion-ordered dictionary -/

theorem dictSet_keys_of_not_mem (d : List (String × Obj)) (k : String) (v : Obj)
    (h : k ∉ d.map (·.1)) : dictSet d k v = d ++ [(k, v)] := by
  induction d with
  | nil => rfl
  | cons p rest ih =>
    obtain ⟨k', v'⟩ := p
    simp only [List.map_cons, List.mem_cons, not_or] at h
    simp only [dictSet]
    have : ¬ k' = k := fun e => h.1 e.symm
    simp only [this, if_false, List.cons_append, ih h.2]

theorem dictSet_keys_of_mem (d : List (String × Obj)) (k : String) (v : Obj)
    (h : k ∈ d.map (·.1)) : (dictSet d k v).map (·.1) = d.map (·.1) := by
  induction d with
  | nil => simp at h
  | cons p rest ih =>
    obtain ⟨k', v'⟩ := p
    simp only [dictSet]
    by_cases e : k' = k
    · simp [e]
    · simp only [e, if_false, List.map_cons, List.cons.injEq, true_and]
      apply ih
      simp only [List.map_cons, List.mem_cons] at h
      rcases h with h | h
      · exact absurd h.symm e
      · exact h

theorem dictSet_length_of_mem (d : List (String × Obj)) (k : String) (v : Obj)
    (h : k ∈ d.map (·.1)) : (dictSet d k v).length = d.length := by
  have := congrArg List.length (dictSet_keys_of_mem d k v h)
  simpa using this

theorem dictSet_nodup (d : List (String × Obj)) (k : String) (v : Obj)
    (h : (d.map (·.1)).Nodup) : ((dictSet d k v).map (·.1)).Nodup := by
  by_cases hk : k ∈ d.map (·.1)
  · rw [dictSet_keys_of_mem d k v hk]; exact h
  · rw [dictSet_keys_of_not_mem d k v hk]
    simp only [List.map_append, List.map_cons, List.map_nil]
    exact List.Nodup.append h (by simp) (by simpa using hk)

/-! ### fresh keys: the renaming loop terminates within `len + 1` attempts -/

def cand (orig : String) (c : Nat) : String := orig ++ "_" ++ Nat.repr c

theorem cand_inj (orig : String) {a b : Nat} (h : cand orig a = cand orig b) : a = b := by
  unfold cand at h
  exact Nat.repr_injective ((String.append_right_inj _).mp h)

theorem freshKey_not_mem (ks : List String) (orig : String) :
    ∀ fuel c k, freshKey ks orig fuel c = some k → k ∉ ks := by
  intro fuel
  induction fuel with
  | zero => intro c k h; simp [freshKey] at h
  | succ n ih =>
    intro c k h
    simp only [freshKey] at h
    split at h
    · exact ih _ _ h
    · rename_i hn
      cases h
      simpa using hn

theorem freshKey_none (ks : List String) (orig : String) :
    ∀ fuel c, freshKey ks orig fuel c = none → ∀ j, j < fuel → cand orig (c + j) ∈ ks := by
  intro fuel
  induction fuel with
  | zero => intro c _ j hj; omega
  | succ n ih =>
    intro c h j hj
    simp only [freshKey] at h
    split at h
    · rename_i hm
      cases j with
      | zero => simpa [cand] using hm
      | succ j =>
        have := ih (c + 1) h j (by omega)
        have e : c + 1 + j = c + (j + 1) := by omega
        rwa [e] at this
    · cases h

/-- Fuel suffices: with more attempts than existing keys the loop always finds a free name. -/
theorem freshKey_some (ks : List String) (orig : String) (fuel c : Nat) (h : ks.length < fuel) :
    ∃ k, freshKey ks orig fuel c = some k := by
  cases hf : freshKey ks orig fuel c with
  | some k => exact ⟨k, rfl⟩
  | none =>
    exfalso
    have hall := freshKey_none ks orig fuel c hf
    let cs := (List.range fuel).map (fun j => cand orig (c + j))
    have hnd : cs.Nodup := by
      apply List.Nodup.map_on
      · intro a _ b _ hab
        have := cand_inj orig hab
        omega
      · exact List.nodup_range
    have hsub : cs ⊆ ks := by
      intro x hx
      simp only [cs, List.mem_map, List.mem_range] at hx
      obtain ⟨j, hj, rfl⟩ := hx
      exact hall j hj
    have hle := (List.subperm_of_subset hnd hsub).length_le
    simp only [cs, List.length_map, List.length_range] at hle
    omega

/-! ### operations -/

/-- Unique keys and a valid sort cache. -/
structure Inv (c : Coll) : Prop where
  nodup : c.keys.Nodup
  cache : c.dirty = false → c.cache = sortObjs c.key c.rev c.values

theorem inv_empty : Inv {} := ⟨by simp [keys], by intro h; cases h⟩

/-- `add` with `prevent_overwrite=True` never fails and appends exactly the new member. -/
theorem add_prevent_spec (c : Coll) (o : Obj) (key : Option String) (h : Inv c) :
    ∃ c', c.add o key true = .ok c' ∧ c'.values = c.values ++ [o] ∧ c'.len = c.len + 1 ∧ Inv c' ∧
      c'.key = c.key ∧ c'.rev = c.rev := by
  unfold add
  by_cases hk : c.hasKey (key.getD o.name) = true
  · simp only [Bool.true_and, hk, if_true]
    obtain ⟨k, hkk⟩ := freshKey_some c.keys (key.getD o.name) (c.entries.length + 1) 1
      (by simp [keys])
    rw [hkk]
    refine ⟨_, rfl, by simp [values], by simp [len], ⟨?_, by intro h; cases h⟩, rfl, rfl⟩
    have hnm := freshKey_not_mem _ _ _ _ _ hkk
    simp only [keys, List.map_append, List.map_cons, List.map_nil]
    exact List.Nodup.append h.nodup (by simp) (by simpa [keys] using hnm)
  · simp only [Bool.true_and, hk]
    have hnm : key.getD o.name ∉ c.entries.map (·.1) := by
      simpa [hasKey, keys] using hk
    refine ⟨_, rfl, ?_, ?_, ⟨?_, by intro h; cases h⟩, rfl, rfl⟩
    · simp [values, dictSet_keys_of_not_mem _ _ _ hnm]
    · simp [len, dictSet_keys_of_not_mem _ _ _ hnm]
    · simpa [keys] using dictSet_nodup c.entries _ o h.nodup

/-- `add` with `prevent_overwrite=False` never fails and keeps the invariant (it may replace). -/
theorem add_overwrite_inv (c : Coll) (o : Obj) (key : Option String) (h : Inv c) :
    ∃ c', c.add o key false = .ok c' ∧ Inv c' := by
  unfold add
  simp only [Bool.false_and]
  exact ⟨_, rfl, ⟨by simpa [keys] using dictSet_nodup c.entries _ o h.nodup, by intro h; cases h⟩⟩

theorem addMany_prevent_spec (os : List Obj) :
    ∀ c : Coll, Inv c → ∃ c', c.addMany os true = .ok c' ∧ c'.values = c.values ++ os ∧
      c'.len = c.len + os.length ∧ Inv c' ∧ c'.key = c.key ∧ c'.rev = c.rev := by
  induction os with
  | nil => intro c h; exact ⟨c, rfl, by simp, by simp, h, rfl, rfl⟩
  | cons o os ih =>
    intro c h
    obtain ⟨c1, e1, v1, l1, i1, k1, r1⟩ := add_prevent_spec c o none h
    obtain ⟨c2, e2, v2, l2, i2, k2, r2⟩ := ih c1 i1
    refine ⟨c2, ?_, ?_, ?_, i2, by rw [k2, k1], by rw [r2, r1]⟩
    · simp only [addMany, List.foldlM_cons, e1]
      exact e2
    · rw [v2, v1]; simp
    · rw [l2, l1]; simp; omega

theorem addMany_overwrite_inv (os : List Obj) :
    ∀ c : Coll, Inv c → ∃ c', c.addMany os false = .ok c' ∧ Inv c' := by
  induction os with
  | nil => intro c h; exact ⟨c, rfl, h⟩
  | cons o os ih =>
    intro c h
    obtain ⟨c1, e1, i1⟩ := add_overwrite_inv c o none h
    obtain ⟨c2, e2, i2⟩ := ih c1 i1
    exact ⟨c2, by simp only [addMany, List.foldlM_cons, e1]; exact e2, i2⟩

theorem remove_inv (c : Coll) (k : String) (h : Inv c) :
    ∀ c', c.remove k = .ok c' → Inv c' ∧ c'.len + 1 = c.len := by
  intro c' hc
  unfold remove at hc
  split at hc
  · rename_i hk
    cases hc
    refine ⟨⟨?_, by intro h; cases h⟩, ?_⟩
    · simp only [keys]
      have : (c.entries.filter (·.1 ≠ k)).map (·.1) = (c.entries.map (·.1)).filter (· ≠ k) := by
        rw [List.filter_map]; rfl
      rw [this]
      exact h.nodup.filter _
    · -- exactly one entry carries the key
      have hnd := h.nodup
      have hmem : k ∈ c.entries.map (·.1) := by simpa [hasKey, keys] using hk
      simp only [len]
      simp only [keys] at hnd
      clear hk h
      generalize c.entries = d at hnd hmem ⊢
      induction d with
      | nil => simp at hmem
      | cons p rest ih =>
        simp only [List.map_cons, List.nodup_cons] at hnd
        simp only [List.map_cons, List.mem_cons] at hmem
        by_cases e : p.1 = k
        · have hn : k ∉ rest.map (·.1) := e ▸ hnd.1
          have : rest.filter (·.1 ≠ k) = rest := by
            apply List.filter_eq_self.mpr
            intro a ha
            have : a.1 ≠ k := fun hh => hn (hh ▸ List.mem_map_of_mem (f := (·.1)) ha)
            simpa using this
          rw [List.filter_cons]
          simp only [e, ne_eq, not_true_eq_false, decide_false, Bool.false_eq_true, if_false, this,
            List.length_cons]
        · have hm : k ∈ rest.map (·.1) := by
            rcases hmem with h | h
            · exact absurd h.symm e
            · exact h
          have := ih hnd.2 hm
          rw [List.filter_cons]
          simp only [ne_eq, e, not_false_eq_true, decide_true, if_true, List.length_cons]
          simp only [ne_eq] at this
          omega
  · cases hc

theorem replace_inv (c : Coll) (os : List Obj) : Inv (c.replace os) := by
  refine ⟨?_, by intro h; cases h⟩
  simp only [replace, keys]
  suffices ∀ d : List (String × Obj), (d.map (·.1)).Nodup →
      ((os.foldl (fun d o => dictSet d o.name o) d).map (·.1)).Nodup from this [] (by simp)
  induction os with
  | nil => intro d h; exact h
  | cons o os ih => intro d h; exact ih _ (dictSet_nodup d _ o h)

theorem setSortKey_inv (c : Coll) (k : SortKey) (r : Bool) (h : Inv c) : Inv (c.setSortKey k r) :=
  ⟨h.nodup, by intro h; cases h⟩

theorem ensureSorted_spec (c : Coll) (h : Inv c) :
    Inv c.ensureSorted ∧ c.ensureSorted.cache = sortObjs c.key c.rev c.values ∧
    c.ensureSorted.entries = c.entries ∧ c.ensureSorted.key = c.key ∧ c.ensureSorted.rev = c.rev := by
  unfold ensureSorted
  by_cases hd : c.dirty = true
  · rw [if_pos hd]
    exact ⟨⟨h.nodup, fun _ => rfl⟩, rfl, rfl, rfl, rfl⟩
  · have hf : c.dirty = false := by simpa using hd
    rw [if_neg hd]
    exact ⟨h, h.cache hf, rfl, rfl, rfl⟩

theorem getIndex_fst (c : Coll) (o : Obj) : (c.getIndex o).1 = c.ensureSorted := by
  unfold getIndex
  simp only
  split <;> rfl

theorem getItemInt_fst (c : Coll) (i : Int) : (c.getItemInt i).1 = c.ensureSorted := by
  unfold getItemInt
  simp only
  split
  · split
    · split <;> rfl
    · rfl
  · split
    · split <;> rfl
    · rfl

/-! ### the sort order -/

theorem le_total' (k : SortKey) (a b : Obj) : (k.le a b || k.le b a) = true := by
  cases k <;> simp only [SortKey.le, Bool.or_eq_true, decide_eq_true_eq, Bool.and_eq_true]
  · exact le_total _ _
  · exact le_total _ _
  · rcases lt_trichotomy a.tt b.tt with h | h | h
    · exact Or.inl (Or.inl h)
    · rcases le_total a.ts b.ts with h2 | h2
      · exact Or.inl (Or.inr ⟨h, h2⟩)
      · exact Or.inr (Or.inr ⟨h.symm, h2⟩)
    · exact Or.inr (Or.inl h)
  · rcases lt_trichotomy a.ts b.ts with h | h | h
    · exact Or.inl (Or.inl h)
    · rcases le_total a.tt b.tt with h2 | h2
      · exact Or.inl (Or.inr ⟨h, h2⟩)
      · exact Or.inr (Or.inr ⟨h.symm, h2⟩)
    · exact Or.inr (Or.inl h)

theorem le_trans' (k : SortKey) (a b c : Obj) (h1 : k.le a b = true) (h2 : k.le b c = true) :
    k.le a c = true := by
  cases k <;> simp only [SortKey.le, Bool.or_eq_true, decide_eq_true_eq, Bool.and_eq_true] at *
  · exact le_trans h1 h2
  · exact le_trans h1 h2
  · rcases h1 with h1 | ⟨e1, h1⟩ <;> rcases h2 with h2 | ⟨e2, h2⟩
    · exact Or.inl (lt_trans h1 h2)
    · exact Or.inl (e2 ▸ h1)
    · exact Or.inl (e1 ▸ h2)
    · exact Or.inr ⟨e1.trans e2, le_trans h1 h2⟩
  · rcases h1 with h1 | ⟨e1, h1⟩ <;> rcases h2 with h2 | ⟨e2, h2⟩
    · exact Or.inl (lt_trans h1 h2)
    · exact Or.inl (e2 ▸ h1)
    · exact Or.inl (e1 ▸ h2)
    · exact Or.inr ⟨e1.trans e2, le_trans h1 h2⟩

/-- `sorted(...)` returns a permutation of its input, ordered by the key (descending when reversed). -/
theorem sortObjs_spec (k : SortKey) (rev : Bool) (xs : List Obj) :
    (sortObjs k rev xs).Perm xs ∧
    (sortObjs k rev xs).Pairwise (fun a b => if rev then k.le b a = true else k.le a b = true) := by
  unfold sortObjs
  cases rev
  · simp only [Bool.false_eq_true, if_false]
    exact ⟨List.mergeSort_perm _ _,
      List.pairwise_mergeSort (fun a b c => le_trans' k a b c) (fun a b => le_total' k a b) xs⟩
  · simp only [if_true]
    refine ⟨List.mergeSort_perm _ _, ?_⟩
    exact List.pairwise_mergeSort (le := fun a b => k.le b a)
      (fun a b c h1 h2 => le_trans' k c b a h2 h1) (fun a b => le_total' k b a) xs

end OP.Coll
