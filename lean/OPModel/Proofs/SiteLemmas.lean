/- C02/C09 helpers: bounds on heat content, list maximum, sums of targets, the site read-out. -/
import OPModel.Model.Site
import OPModel.Proofs.CascadeTargets

namespace OP

theorem above_bounds (s : Seg) (T : Rat) (hcp : 0 ≤ s.cp) (hs : s.lo ≤ s.hi) : 0 ≤ above s T ∧ above s T ≤ duty s := by
  unfold above duty
  constructor
  · exact mul_nonneg hcp (le_max_left _ _)
  · apply mul_le_mul_of_nonneg_left _ hcp
    apply max_le
    · linarith
    · have := le_max_left s.lo T; linarith

theorem aboveAll_bounds (ss : List Seg) (T : Rat) (h : ∀ s ∈ ss, 0 ≤ s.cp ∧ s.lo ≤ s.hi) :
    0 ≤ aboveAll ss T ∧ aboveAll ss T ≤ total ss := by
  unfold aboveAll total
  induction ss with
  | nil => simp
  | cons s ss ih =>
    simp only [List.map_cons, List.sum_cons]
    obtain ⟨a, b⟩ := ih (fun t ht => h t (List.mem_cons_of_mem _ ht))
    obtain ⟨c, d⟩ := above_bounds s T (h s List.mem_cons_self).1 (h s List.mem_cons_self).2
    constructor <;> linarith

theorem listMax_spec : ∀ (xs : List Rat) (m : Rat), listMax xs = some m → m ∈ xs ∧ ∀ x ∈ xs, x ≤ m := by
  intro xs
  cases xs with
  | nil => intro m h; cases h
  | cons a as =>
    intro m h
    simp only [listMax, Option.some.injEq] at h
    subst h
    suffices ∀ (ys : List Rat) (b : Rat), (ys.foldl max b = b ∨ ys.foldl max b ∈ ys) ∧
        b ≤ ys.foldl max b ∧ ∀ y ∈ ys, y ≤ ys.foldl max b by
      obtain ⟨h1, h2, h3⟩ := this as a
      constructor
      · rcases h1 with h | h
        · rw [h]; exact List.mem_cons_self
        · exact List.mem_cons_of_mem _ h
      · intro x hx
        rcases List.mem_cons.mp hx with rfl | hx
        · exact h2
        · exact h3 x hx
    intro ys
    induction ys with
    | nil => intro b; exact ⟨Or.inl rfl, le_refl _, by intro y hy; cases hy⟩
    | cons y ys ih =>
      intro b
      simp only [List.foldl_cons]
      obtain ⟨h1, h2, h3⟩ := ih (max b y)
      refine ⟨?_, le_trans (le_max_left _ _) h2, ?_⟩
      · rcases h1 with h | h
        · rw [h]
          rcases max_choice b y with e | e
          · exact Or.inl e
          · right; rw [e]; exact List.mem_cons_self
        · exact Or.inr (List.mem_cons_of_mem _ h)
      · intro z hz
        rcases List.mem_cons.mp hz with rfl | hz
        · exact le_trans (le_max_right _ _) h2
        · exact h3 z hz

/-- `sumTargets` is the field-wise sum. -/
theorem sumTargets_fields (ts : List Targets) :
    (sumTargets ts).qh = (ts.map (·.qh)).sum ∧ (sumTargets ts).qc = (ts.map (·.qc)).sum ∧
    (sumTargets ts).qr = (ts.map (·.qr)).sum := by
  unfold sumTargets
  suffices ∀ (ts : List Targets) (a : Targets),
      (ts.foldl (fun a t => ({ qh := a.qh + t.qh, qc := a.qc + t.qc, qr := a.qr + t.qr } : Targets)) a).qh = a.qh + (ts.map (·.qh)).sum ∧
      (ts.foldl (fun a t => ({ qh := a.qh + t.qh, qc := a.qc + t.qc, qr := a.qr + t.qr } : Targets)) a).qc = a.qc + (ts.map (·.qc)).sum ∧
      (ts.foldl (fun a t => ({ qh := a.qh + t.qh, qc := a.qc + t.qc, qr := a.qr + t.qr } : Targets)) a).qr = a.qr + (ts.map (·.qr)).sum by
    obtain ⟨a, b, c⟩ := this ts { qh := 0, qc := 0, qr := 0 }
    simp only [zero_add] at a b c
    exact ⟨a, b, c⟩
  intro ts
  induction ts with
  | nil => intro a; simp
  | cons t ts ih =>
    intro a
    simp only [List.foldl_cons, List.map_cons, List.sum_cons]
    obtain ⟨x, y, z⟩ := ih { qh := a.qh + t.qh, qc := a.qc + t.qc, qr := a.qr + t.qr }
    simp only at x y z
    exact ⟨by rw [x]; ring, by rw [y]; ring, by rw [z]; ring⟩

end OP
