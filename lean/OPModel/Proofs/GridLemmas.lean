/- C14 helpers: membership in the de-duplicated descending grid and in Python-indexed columns. -/
import OPModel.Model.Cascade
import OPModel.Model.Pinch
import Mathlib.Tactic.SplitIfs

namespace OP

theorem mem_insertDesc (x y : Rat) : ∀ l : List Rat, y ∈ insertDesc x l → y = x ∨ y ∈ l := by
  intro l
  induction l with
  | nil => intro h; simp [insertDesc] at h; exact Or.inl h
  | cons z zs ih =>
    intro h
    unfold insertDesc at h
    split_ifs at h with h1 h2
    · rcases List.mem_cons.mp h with h | h
      · exact Or.inl h
      · exact Or.inr h
    · exact Or.inr h
    · rcases List.mem_cons.mp h with h | h
      · exact Or.inr (by simp [h])
      · rcases ih h with h | h
        · exact Or.inl h
        · exact Or.inr (List.mem_cons_of_mem _ h)

theorem pyIndex_mem (xs : List Rat) (i : Int) (a : Rat) (h : pyIndex xs i = some a) : a ∈ xs := by
  unfold pyIndex at h
  simp only at h
  split_ifs at h <;> exact List.mem_of_getElem? h

end OP
