/-
  C07 helper: `_pocket_exit_index` finds the last row before the curve drops at least `tol` under the
  pocket's opening value — every row it passes over stays above `h0 - tol`, the row after the exit
  does not, and when no row drops the search runs to the pinch row inclusive.
-/
import OPModel.Model.Pockets
import Mathlib.Tactic.Linarith
import Mathlib.Tactic.SplitIfs

namespace OP

/-- row `k` steps from `i0` towards the pinch -/
def stepRow (above : Bool) (i0 : Int) (k : Nat) : Int := if above then i0 + (k : Int) else i0 - (k : Int)

theorem pocketExit_go_spec (tol : Rat) (rows : List Row) (cH : Nat) (i0 pinch : Int) (above : Bool) (h0 : Rat) :
    ∀ (fuel k : Nat) (e : Int), pocketExit.go tol rows cH i0 pinch above h0 fuel k = .ok e →
      -- either a row `k' ∈ [k, k + fuel)` drops, none before it does, and `e` is the row before it …
      (∃ k', k ≤ k' ∧ k' < k + fuel ∧ e = stepRow above i0 k' - (if above then 1 else -1) ∧
          (∃ hj, cellAt rows cH (stepRow above i0 k') = .ok hj ∧ hj + tol ≤ h0) ∧
          ∀ m, k ≤ m → m < k' → ∃ hj, cellAt rows cH (stepRow above i0 m) = .ok hj ∧ h0 < hj + tol) ∨
      -- … or no row of `[k, k + fuel)` drops and the search ends at the pinch
      (e = pinch ∧ ∀ m, k ≤ m → m < k + fuel → ∃ hj, cellAt rows cH (stepRow above i0 m) = .ok hj ∧ h0 < hj + tol) := by
  intro fuel
  induction fuel with
  | zero =>
    intro k e h
    simp only [pocketExit.go] at h
    cases h
    exact Or.inr ⟨rfl, fun m h1 h2 => by omega⟩
  | succ fuel ih =>
    intro k e h
    simp only [pocketExit.go, bind, Except.bind] at h
    cases hc : cellAt rows cH (if above then i0 + (k : Int) else i0 - (k : Int)) with
    | error err => rw [hc] at h; cases h
    | ok hj =>
      rw [hc] at h
      simp only at h
      by_cases hd : hj + tol ≤ h0
      · rw [if_pos hd] at h
        cases h
        left
        refine ⟨k, le_refl _, by omega, ?_, ⟨hj, hc, hd⟩, fun m h1 h2 => by omega⟩
        unfold stepRow
        cases above <;> simp
      · rw [if_neg hd] at h
        rcases ih (k + 1) e h with ⟨k', hk1, hk2, he, hdrop, hbefore⟩ | ⟨he, hall⟩
        · left
          refine ⟨k', by omega, by omega, he, hdrop, ?_⟩
          intro m h1 h2
          by_cases hm : m = k
          · subst hm; exact ⟨hj, hc, not_le.mp hd⟩
          · exact hbefore m (by omega) h2
        · right
          refine ⟨he, ?_⟩
          intro m h1 h2
          by_cases hm : m = k
          · subst hm; exact ⟨hj, hc, not_le.mp hd⟩
          · exact hall m (by omega) (by omega)

end OP
