/-
  C03 helpers: a utility that lies wholly beyond a heating segment (supply and target level at least
  as hot as every row — what the default hot utility is) takes everything that is left of a
  non-increasing load profile, so a ladder that ends with such a utility closes the allocation.
-/
import OPModel.Proofs.UtilityLemmas

namespace OP

theorem cells_mem (l : List (Rat × Rat)) (a b : Rat × Rat) (h : (a, b) ∈ candidates.cells' l) : a ∈ l ∧ b ∈ l := by
  induction l with
  | nil => simp [candidates.cells'] at h
  | cons x l ih =>
    cases l with
    | nil => simp [candidates.cells'] at h
    | cons y l =>
      simp only [candidates.cells', List.mem_cons] at h
      rcases h with h | h
      · obtain ⟨rfl, rfl⟩ := Prod.mk.inj h
        exact ⟨List.mem_cons_self, List.mem_cons_of_mem _ List.mem_cons_self⟩
      · obtain ⟨p, q⟩ := ih h
        exact ⟨List.mem_cons_of_mem _ p, List.mem_cons_of_mem _ q⟩

theorem foldl_max_ge_mem (f : Cand → Rat) : ∀ (cs : List Cand) (init : Rat) (x : Cand), x ∈ cs →
    f x ≤ cs.foldl (fun m y => max m (f y)) init := by
  intro cs
  induction cs with
  | nil => intro _ x h; simp at h
  | cons c cs ih =>
    intro init x hx
    simp only [List.foldl_cons]
    rcases List.mem_cons.mp hx with rfl | hx
    · exact le_trans (le_max_right _ _) (foldl_max_ge_init f cs _)
    · exact ih _ x hx

/-- a fold that only changes its accumulator on elements satisfying `p` leaves it alone when none does -/
theorem foldl_if_none {β : Type} (p : Cand → Prop) [DecidablePred p] (g : Option β → Cand → Option β)
    (cs : List Cand) (h : ∀ x ∈ cs, ¬ p x) :
    cs.foldl (fun acc x => if p x then g acc x else acc) none = none := by
  induction cs with
  | nil => rfl
  | cons c cs ih =>
    simp only [List.foldl_cons]
    rw [if_neg (h c (by simp))]
    exact ih (fun x hx => h x (by simp [hx]))

/-- in a non-increasing column that starts at `limit` and ends below it some interval starts at
    `limit` and is not flat -/
theorem exists_top_cell : ∀ (T H : List Rat) (limit : Rat), T.length = H.length → H.Pairwise (· ≥ ·) →
    H.head? = some limit → (∃ z, H.getLast? = some z ∧ z < limit) →
    ∃ tU tL hL, ((tU, limit), (tL, hL)) ∈ candidates.cells' (T.zip H) ∧ limit ≠ hL
  | _, [], _, _, _, hh, _ => by simp at hh
  | T, [a], limit, _, _, hh, ⟨z, hz, hlt⟩ => by
    simp only [List.head?_cons, Option.some.injEq] at hh
    simp only [List.getLast?_singleton, Option.some.injEq] at hz
    subst hh; subst hz; exact absurd hlt (lt_irrefl _)
  | [], _ :: _ :: _, _, hl, _, _, _ => by simp at hl
  | [_], _ :: _ :: _, _, hl, _, _, _ => by simp at hl
  | t1 :: t2 :: T, a :: b :: H, limit, hl, hm, hh, ⟨z, hz, hlt⟩ => by
    simp only [List.head?_cons, Option.some.injEq] at hh
    subst hh
    by_cases hab : a = b
    · -- flat first interval: look further down (the head is still `a`)
      subst hab
      have hl' : (t2 :: T).length = (a :: H).length := by simpa using hl
      have hm' : (a :: H).Pairwise (· ≥ ·) := (List.pairwise_cons.mp hm).2
      have hz' : (a :: H).getLast? = some z := by simpa [List.getLast?_cons_cons] using hz
      obtain ⟨tU, tL, hL, hmem, hne⟩ := exists_top_cell (t2 :: T) (a :: H) a hl' hm' rfl ⟨z, hz', hlt⟩
      refine ⟨tU, tL, hL, ?_, hne⟩
      simp only [List.zip_cons_cons, candidates.cells', List.mem_cons]
      right
      simpa [List.zip_cons_cons] using hmem
    · exact ⟨t1, t2, b, by simp [List.zip_cons_cons, candidates.cells'], hab⟩

/-- **A covering hot utility takes all that is left**: supply at least as hot as every row (within
    `tol`), target level at least as hot as every row, non-increasing profile from `limit` at the
    top to something smaller at the pinch, more than `tol` still unassigned. -/
theorem maximise_covering_hot (tol : Rat) (htol : 0 ≤ tol) (T H : List Rat) (u : ULevel) (qA limit : Rat)
    (hcov : ∀ t ∈ T, t ≤ u.tt ∧ -tol ≤ u.ts - t)
    (hlen : T.length = H.length) (hmono : H.Pairwise (· ≥ ·)) (hhead : H.head? = some limit)
    (hlast : ∃ z, H.getLast? = some z ∧ z < limit) (hq : tol < limit - qA) :
    maximiseUtilityDuty tol T H u true qA = limit - qA := by
  -- every value of the column is at most `limit`
  have hM : ∀ h ∈ H, h ≤ limit := by
    intro h hh
    cases H with
    | nil => simp at hh
    | cons a H' =>
      simp only [List.head?_cons, Option.some.injEq] at hhead
      subst hhead
      rcases List.mem_cons.mp hh with rfl | hh
      · exact le_refl _
      · exact (List.pairwise_cons.mp hmono).1 h hh
  obtain ⟨tU, tL, hL, hcell, hne⟩ := exists_top_cell T H limit hlen hmono hhead hlast
  have hmemU := (cells_mem _ _ _ hcell).1
  have hmemL := (cells_mem _ _ _ hcell).2
  have htU := hcov tU (List.of_mem_zip hmemU).1
  have htL := hcov tL (List.of_mem_zip hmemL).1
  -- the candidate made by that interval
  have hc0 : ({ qPot := limit - qA, qCur := hL - qA, dtTar := u.tt - tL } : Cand) ∈ candidates tol T H u true qA := by
    unfold candidates
    apply List.mem_filterMap.mpr
    refine ⟨((tU, limit), (tL, hL)), hcell, ?_⟩
    simp only [if_true]
    rw [if_pos ⟨hne, htU.2, hq⟩]
  -- all candidates: target margin non-negative, potential at most limit − qA
  have hall : ∀ c ∈ candidates tol T H u true qA, 0 ≤ c.dtTar ∧ c.qPot ≤ limit - qA := by
    intro c hc
    have hb := (candidates_qPot tol T H u true qA limit hM c hc).2
    refine ⟨?_, hb⟩
    unfold candidates at hc
    obtain ⟨⟨⟨tU', hU'⟩, ⟨tL', hL'⟩⟩, hmem', hsome⟩ := List.mem_filterMap.mp hc
    have hml := (cells_mem _ _ _ hmem').2
    have := (hcov tL' (List.of_mem_zip hml).1).1
    simp only [if_true] at hsome
    split_ifs at hsome with hcond
    cases hsome
    simp only
    linarith
  have hlen2 : ¬ T.length < 2 := by
    intro hlt
    have : (T.zip H).length < 2 := by rw [List.length_zip]; omega
    cases hz : T.zip H with
    | nil => rw [hz] at hcell; simp [candidates.cells'] at hcell
    | cons x l =>
      cases l with
      | nil => rw [hz] at hcell; simp [candidates.cells'] at hcell
      | cons y l => rw [hz] at this; simp only [List.length_cons] at this; omega
  unfold maximiseUtilityDuty
  rw [if_neg hlen2]
  cases hcs : candidates tol T H u true qA with
  | nil => rw [hcs] at hc0; simp at hc0
  | cons c cs =>
    rw [hcs] at hc0 hall
    simp only
    have hdt : ¬ cs.foldl (fun m x => max m x.dtTar) c.dtTar < 0 := by
      have h1 := foldl_max_ge_init (·.dtTar) cs c.dtTar
      have h2 := (hall c (by simp)).1
      intro h; linarith
    rw [if_neg hdt]
    rw [foldl_if_none (fun x => tol < -x.dtTar) _ (c :: cs) (fun x hx => by have := (hall x hx).1; intro h; linarith)]
    simp only
    apply le_antisymm
    · exact foldl_max_le (·.qPot) (limit - qA) cs c.qPot (hall c (by simp)).2 (fun x hx => (hall x (by simp [hx])).2)
    · rcases List.mem_cons.mp hc0 with h | h
      · have : c.qPot = limit - qA := by rw [← h]
        rw [← this]; exact foldl_max_ge_init (·.qPot) cs c.qPot
      · exact foldl_max_ge_mem (·.qPot) cs c.qPot _ h

theorem sum_map_zero (us : List ULevel) : (us.map fun _ => (0 : Rat)).sum = 0 := by
  induction us with
  | nil => rfl
  | cons _ _ ih => simp

/-- the loop closes as soon as its last utility takes whatever is left (either side) -/
theorem assignLoop_closes_of_cover (tol : Rat) (htol : 0 ≤ tol) (T H : List Rat) (isHot : Bool) (uc : ULevel) (limit : Rat)
    (hM : ∀ h ∈ H, h ≤ limit)
    (hstep : ∀ qA, tol < limit - qA → maximiseUtilityDuty tol T H uc isHot qA = limit - qA) :
    ∀ (pre : List ULevel) (qA : Rat), qA ≤ limit →
      limit - tol ≤ qA + (assignLoop tol T H isHot limit qA (pre ++ [uc])).sum ∧
      qA + (assignLoop tol T H isHot limit qA (pre ++ [uc])).sum ≤ limit := by
  intro pre
  induction pre with
  | nil =>
    intro qA hqA
    simp only [List.nil_append, assignLoop, List.map_nil]
    by_cases hq : tol < limit - qA
    · rw [hstep qA hq]
      simp only [hq, if_true]
      split_ifs <;> simp only [List.sum_cons, List.sum_nil] <;> constructor <;> linarith
    · have hle := maximise_le tol T H uc isHot qA limit hM hqA
      have hnot : ¬ tol < maximiseUtilityDuty tol T H uc isHot qA := by intro h; linarith
      simp only [hnot, if_false]
      split_ifs <;> simp only [List.sum_cons, List.sum_nil] <;> constructor <;> linarith
  | cons u pre ih =>
    intro qA hqA
    simp only [List.cons_append, assignLoop]
    have hle := maximise_le tol T H u isHot qA limit hM hqA
    by_cases hq : tol < maximiseUtilityDuty tol T H u isHot qA
    · simp only [hq, if_true]
      have hqA' : qA + maximiseUtilityDuty tol T H u isHot qA ≤ limit := by linarith
      by_cases hstop : rabs (limit - (qA + maximiseUtilityDuty tol T H u isHot qA)) < tol
      · rw [if_pos hstop]
        simp only [List.sum_cons, sum_map_zero]
        have : rabs (limit - (qA + maximiseUtilityDuty tol T H u isHot qA)) = limit - (qA + maximiseUtilityDuty tol T H u isHot qA) := by
          unfold rabs; rw [if_neg (by linarith)]
        rw [this] at hstop
        constructor <;> linarith
      · rw [if_neg hstop]
        obtain ⟨a, b⟩ := ih _ hqA'
        simp only [List.sum_cons]
        constructor <;> linarith
    · simp only [hq, if_false]
      by_cases hstop : rabs (limit - qA) < tol
      · rw [if_pos hstop]
        simp only [List.sum_cons, sum_map_zero]
        have : rabs (limit - qA) = limit - qA := by unfold rabs; rw [if_neg (by linarith)]
        rw [this] at hstop
        constructor <;> linarith
      · rw [if_neg hstop]
        obtain ⟨a, b⟩ := ih qA hqA
        simp only [List.sum_cons]
        constructor <;> linarith

theorem le_head_of_desc (H : List Rat) (limit : Rat) (hmono : H.Pairwise (· ≥ ·)) (hhead : H.head? = some limit) :
    ∀ h ∈ H, h ≤ limit := by
  intro h hh
  cases H with
  | nil => simp at hh
  | cons a H' =>
    simp only [List.head?_cons, Option.some.injEq] at hhead
    subst hhead
    rcases List.mem_cons.mp hh with rfl | hh
    · exact le_refl _
    · exact (List.pairwise_cons.mp hmono).1 h hh

theorem le_last_of_asc : ∀ (l : List Rat) (x : Rat), l.Pairwise (· ≤ ·) → l.getLast? = some x → ∀ y ∈ l, y ≤ x := by
  intro l
  induction l with
  | nil => intro x _ h; simp at h
  | cons a l ih =>
    intro x hp hx y hy
    cases l with
    | nil =>
      simp only [List.getLast?_singleton, Option.some.injEq] at hx
      simp only [List.mem_singleton] at hy
      rw [hy, hx]
    | cons b l' =>
      have hx' : (b :: l').getLast? = some x := by simpa [List.getLast?_cons_cons] using hx
      rcases List.mem_cons.mp hy with rfl | hy
      · exact (List.pairwise_cons.mp hp).1 x (List.mem_of_getLast? hx')
      · exact ih x (List.pairwise_cons.mp hp).2 hx' y hy

/-- **A ladder that ends with a covering hot utility closes the allocation**: whatever utilities come
    before it, the duties add up to the target within `tol`. -/
theorem assignLoop_closes_hot (tol : Rat) (htol : 0 ≤ tol) (T H : List Rat) (uc : ULevel) (limit : Rat)
    (hcov : ∀ t ∈ T, t ≤ uc.tt ∧ -tol ≤ uc.ts - t)
    (hlen : T.length = H.length) (hmono : H.Pairwise (· ≥ ·)) (hhead : H.head? = some limit)
    (hlast : ∃ z, H.getLast? = some z ∧ z < limit) :
    ∀ (pre : List ULevel) (qA : Rat), qA ≤ limit →
      limit - tol ≤ qA + (assignLoop tol T H true limit qA (pre ++ [uc])).sum ∧
      qA + (assignLoop tol T H true limit qA (pre ++ [uc])).sum ≤ limit :=
  assignLoop_closes_of_cover tol htol T H true uc limit (le_head_of_desc H limit hmono hhead)
    (fun qA hq => maximise_covering_hot tol htol T H uc qA limit hcov hlen hmono hhead hlast hq)

/-! ### the cooling side (mirror image) -/

/-- in a non-decreasing column that ends at `limit` and starts below it some interval ends at
    `limit` and is not flat -/
theorem exists_bottom_cell : ∀ (T H : List Rat) (limit : Rat), T.length = H.length → H.Pairwise (· ≤ ·) →
    H.getLast? = some limit → (∃ z, H.head? = some z ∧ z < limit) →
    ∃ tU hU tL, ((tU, hU), (tL, limit)) ∈ candidates.cells' (T.zip H) ∧ hU ≠ limit
  | _, [], _, _, _, hl, _ => by simp at hl
  | T, [a], limit, _, _, hl, ⟨z, hz, hlt⟩ => by
    simp only [List.getLast?_singleton, Option.some.injEq] at hl
    simp only [List.head?_cons, Option.some.injEq] at hz
    subst hl; subst hz; exact absurd hlt (lt_irrefl _)
  | [], _ :: _ :: _, _, hlen, _, _, _ => by simp at hlen
  | [_], _ :: _ :: _, _, hlen, _, _, _ => by simp at hlen
  | t1 :: t2 :: T, a :: b :: H, limit, hlen, hm, hl, ⟨z, hz, hlt⟩ => by
    simp only [List.head?_cons, Option.some.injEq] at hz
    subst hz
    have hl' : (b :: H).getLast? = some limit := by simpa [List.getLast?_cons_cons] using hl
    have hm' : (b :: H).Pairwise (· ≤ ·) := (List.pairwise_cons.mp hm).2
    have hble : b ≤ limit := by
      cases H with
      | nil => simp only [List.getLast?_singleton, Option.some.injEq] at hl'; rw [hl']
      | cons c H' =>
        have hmem : limit ∈ c :: H' := by
          have := List.mem_of_getLast? (by simpa [List.getLast?_cons_cons] using hl' : (c :: H').getLast? = some limit)
          exact this
        exact (List.pairwise_cons.mp hm').1 limit hmem
    by_cases hb : b = limit
    · subst hb
      exact ⟨t1, a, t2, by simp [List.zip_cons_cons, candidates.cells'], ne_of_lt hlt⟩
    · have hlen' : (t2 :: T).length = (b :: H).length := by simpa using hlen
      obtain ⟨tU, hU, tL, hmem, hne⟩ := exists_bottom_cell (t2 :: T) (b :: H) limit hlen' hm' hl'
        ⟨b, rfl, lt_of_le_of_ne hble hb⟩
      refine ⟨tU, hU, tL, ?_, hne⟩
      simp only [List.zip_cons_cons, candidates.cells', List.mem_cons]
      right
      simpa [List.zip_cons_cons] using hmem

/-- **A covering cold utility takes all that is left** (mirror image of `maximise_covering_hot`). -/
theorem maximise_covering_cold (tol : Rat) (htol : 0 ≤ tol) (T H : List Rat) (u : ULevel) (qA limit : Rat)
    (hcov : ∀ t ∈ T, u.tt ≤ t ∧ -tol ≤ t - u.ts)
    (hlen : T.length = H.length) (hmono : H.Pairwise (· ≤ ·)) (hlastv : H.getLast? = some limit)
    (hhead : ∃ z, H.head? = some z ∧ z < limit) (hq : tol < limit - qA) :
    maximiseUtilityDuty tol T H u false qA = limit - qA := by
  have hM : ∀ h ∈ H, h ≤ limit := by
    intro h hh
    -- every element is at most the last one of a non-decreasing list
    have : ∀ (l : List Rat) (x : Rat), l.Pairwise (· ≤ ·) → l.getLast? = some x → ∀ y ∈ l, y ≤ x := by
      intro l
      induction l with
      | nil => intro x _ h; simp at h
      | cons a l ih =>
        intro x hp hx y hy
        cases l with
        | nil =>
          simp only [List.getLast?_singleton, Option.some.injEq] at hx
          simp only [List.mem_singleton] at hy
          rw [hy, hx]
        | cons b l' =>
          have hx' : (b :: l').getLast? = some x := by simpa [List.getLast?_cons_cons] using hx
          rcases List.mem_cons.mp hy with rfl | hy
          · exact (List.pairwise_cons.mp hp).1 x (List.mem_of_getLast? hx')
          · exact ih x (List.pairwise_cons.mp hp).2 hx' y hy
    exact this H limit hmono hlastv h hh
  obtain ⟨tU, hU, tL, hcell, hne⟩ := exists_bottom_cell T H limit hlen hmono hlastv hhead
  have hmemU := (cells_mem _ _ _ hcell).1
  have hmemL := (cells_mem _ _ _ hcell).2
  have htU := hcov tU (List.of_mem_zip hmemU).1
  have htL := hcov tL (List.of_mem_zip hmemL).1
  have hc0 : ({ qPot := limit - qA, qCur := hU - qA, dtTar := tU - u.tt } : Cand) ∈ candidates tol T H u false qA := by
    unfold candidates
    apply List.mem_filterMap.mpr
    refine ⟨((tU, hU), (tL, limit)), hcell, ?_⟩
    simp only [Bool.false_eq_true, if_false]
    rw [if_pos ⟨fun h => hne h.symm, htL.2, hq⟩]
  have hall : ∀ c ∈ candidates tol T H u false qA, 0 ≤ c.dtTar ∧ c.qPot ≤ limit - qA := by
    intro c hc
    have hb := (candidates_qPot tol T H u false qA limit hM c hc).2
    refine ⟨?_, hb⟩
    unfold candidates at hc
    obtain ⟨⟨⟨tU', hU'⟩, ⟨tL', hL'⟩⟩, hmem', hsome⟩ := List.mem_filterMap.mp hc
    have hmu := (cells_mem _ _ _ hmem').1
    have := (hcov tU' (List.of_mem_zip hmu).1).1
    simp only [Bool.false_eq_true, if_false] at hsome
    split_ifs at hsome with hcond
    cases hsome
    simp only
    linarith
  have hlen2 : ¬ T.length < 2 := by
    intro hlt
    have : (T.zip H).length < 2 := by rw [List.length_zip]; omega
    cases hz : T.zip H with
    | nil => rw [hz] at hcell; simp [candidates.cells'] at hcell
    | cons x l =>
      cases l with
      | nil => rw [hz] at hcell; simp [candidates.cells'] at hcell
      | cons y l => rw [hz] at this; simp only [List.length_cons] at this; omega
  unfold maximiseUtilityDuty
  rw [if_neg hlen2]
  cases hcs : candidates tol T H u false qA with
  | nil => rw [hcs] at hc0; simp at hc0
  | cons c cs =>
    rw [hcs] at hc0 hall
    simp only
    have hdt : ¬ cs.foldl (fun m x => max m x.dtTar) c.dtTar < 0 := by
      have h1 := foldl_max_ge_init (·.dtTar) cs c.dtTar
      have h2 := (hall c (by simp)).1
      intro h; linarith
    rw [if_neg hdt]
    rw [foldl_if_none (fun x => tol < -x.dtTar) _ (c :: cs) (fun x hx => by have := (hall x hx).1; intro h; linarith)]
    simp only
    apply le_antisymm
    · exact foldl_max_le (·.qPot) (limit - qA) cs c.qPot (hall c (by simp)).2 (fun x hx => (hall x (by simp [hx])).2)
    · rcases List.mem_cons.mp hc0 with h | h
      · have : c.qPot = limit - qA := by rw [← h]
        rw [← this]; exact foldl_max_ge_init (·.qPot) cs c.qPot
      · exact foldl_max_ge_mem (·.qPot) cs c.qPot _ h


/-- **A ladder that ends with a covering cold utility closes the allocation.** -/
theorem assignLoop_closes_cold (tol : Rat) (htol : 0 ≤ tol) (T H : List Rat) (uc : ULevel) (limit : Rat)
    (hcov : ∀ t ∈ T, uc.tt ≤ t ∧ -tol ≤ t - uc.ts)
    (hlen : T.length = H.length) (hmono : H.Pairwise (· ≤ ·)) (hlastv : H.getLast? = some limit)
    (hhead : ∃ z, H.head? = some z ∧ z < limit) :
    ∀ (pre : List ULevel) (qA : Rat), qA ≤ limit →
      limit - tol ≤ qA + (assignLoop tol T H false limit qA (pre ++ [uc])).sum ∧
      qA + (assignLoop tol T H false limit qA (pre ++ [uc])).sum ≤ limit :=
  assignLoop_closes_of_cover tol htol T H false uc limit (le_last_of_asc H limit hmono hlastv)
    (fun qA hq => maximise_covering_cold tol htol T H uc qA limit hcov hlen hmono hlastv hhead hq)

end OP
