/- C03 helpers: bounds on `_maximise_utility_duty` and the assignment loop. -/
import OPModel.Model.Utility
import Mathlib.Algebra.Order.Field.Rat
import Mathlib.Algebra.BigOperators.Group.List.Basic
import Mathlib.Tactic.Linarith

namespace OP

theorem foldl_max_le (f : Cand → Rat) (B : Rat) : ∀ (cs : List Cand) (init : Rat), init ≤ B → (∀ c ∈ cs, f c ≤ B) →
    cs.foldl (fun m x => max m (f x)) init ≤ B := by
  intro cs
  induction cs with
  | nil => intro init h _; exact h
  | cons c cs ih =>
    intro init h hc
    simp only [List.foldl_cons]
    exact ih _ (max_le h (hc c List.mem_cons_self)) (fun x hx => hc x (List.mem_cons_of_mem _ hx))

theorem foldl_max_ge_init (f : Cand → Rat) : ∀ (cs : List Cand) (init : Rat),
    init ≤ cs.foldl (fun m x => max m (f x)) init := by
  intro cs
  induction cs with
  | nil => intro init; exact le_refl _
  | cons c cs ih => intro init; exact le_trans (le_max_left _ _) (ih _)

/-- Every candidate's potential duty is positive (beyond `tol`) and bounded by the profile. -/
theorem candidates_qPot (tol : Rat) (T H : List Rat) (u : ULevel) (isHot : Bool) (qA M : Rat)
    (hM : ∀ h ∈ H, h ≤ M) : ∀ c ∈ candidates tol T H u isHot qA, tol < c.qPot ∧ c.qPot ≤ M - qA := by
  intro c hc
  unfold candidates at hc
  obtain ⟨⟨⟨tU, hU⟩, ⟨tL, hL⟩⟩, hmem, hsome⟩ := List.mem_filterMap.mp hc
  -- both rows of the cell are rows of the zipped table
  have hsub : ∀ (l : List (Rat × Rat)) (a b : Rat × Rat), (a, b) ∈ candidates.cells' l → a ∈ l ∧ b ∈ l := by
    intro l
    induction l with
    | nil => intro a b h; simp [candidates.cells'] at h
    | cons x l ih =>
      cases l with
      | nil => intro a b h; simp [candidates.cells'] at h
      | cons y l =>
        intro a b h
        simp only [candidates.cells', List.mem_cons] at h
        rcases h with h | h
        · obtain ⟨rfl, rfl⟩ := Prod.mk.inj h
          exact ⟨List.mem_cons_self, List.mem_cons_of_mem _ List.mem_cons_self⟩
        · obtain ⟨p, q⟩ := ih a b h
          exact ⟨List.mem_cons_of_mem _ p, List.mem_cons_of_mem _ q⟩
  obtain ⟨mU, mL⟩ := hsub _ _ _ hmem
  have hUle : hU ≤ M := hM hU (List.of_mem_zip mU).2
  have hLle : hL ≤ M := hM hL (List.of_mem_zip mL).2
  cases isHot <;> simp only [Bool.false_eq_true, if_false, if_true] at hsome <;>
    split_ifs at hsome with hcond <;> cases hsome <;> exact ⟨hcond.2.2, by simp only; linarith⟩

/-- `_maximise_utility_duty` never returns more than what is left of the profile's maximum. -/
theorem maximise_le (tol : Rat) (T H : List Rat) (u : ULevel) (isHot : Bool) (qA M : Rat)
    (hM : ∀ h ∈ H, h ≤ M) (hqA : qA ≤ M) :
    maximiseUtilityDuty tol T H u isHot qA ≤ M - qA := by
  unfold maximiseUtilityDuty
  split_ifs with hlen
  · linarith
  · have hc := candidates_qPot tol T H u isHot qA M hM
    cases hcs : candidates tol T H u isHot qA with
    | nil => simp only; linarith
    | cons c cs =>
      rw [hcs] at hc
      simp only
      split_ifs with hdt
      · linarith
      · have hqTs_le : cs.foldl (fun m x => max m x.qPot) c.qPot ≤ M - qA :=
          foldl_max_le (·.qPot) (M - qA) cs c.qPot (hc c List.mem_cons_self).2
            (fun x hx => (hc x (List.mem_cons_of_mem _ hx)).2)
        split
        · exact hqTs_le
        · exact le_trans (min_le_left _ _) hqTs_le

/-- The duties of the loop are non-negative and never add up to more than what is left of the
    profile's maximum. -/
theorem assignLoop_bounds (tol : Rat) (htol : 0 ≤ tol) (T H : List Rat) (isHot : Bool) (limit M : Rat)
    (hM : ∀ h ∈ H, h ≤ M) : ∀ (us : List ULevel) (qA : Rat), qA ≤ M →
      (∀ d ∈ assignLoop tol T H isHot limit qA us, 0 ≤ d) ∧ (assignLoop tol T H isHot limit qA us).sum ≤ M - qA := by
  intro us
  induction us with
  | nil => intro qA h; simp [assignLoop]; linarith
  | cons u us ih =>
    intro qA hqA
    have h1 := maximise_le tol T H u isHot qA M hM hqA
    simp only [assignLoop]
    by_cases hq : tol < maximiseUtilityDuty tol T H u isHot qA
    · have h0 : 0 ≤ maximiseUtilityDuty tol T H u isHot qA := by linarith
      simp only [hq, if_true]
      have hqA' : qA + maximiseUtilityDuty tol T H u isHot qA ≤ M := by linarith
      split_ifs
      · constructor
        · intro d hd
          rcases List.mem_cons.mp hd with rfl | hd
          · exact h0
          · obtain ⟨_, _, rfl⟩ := List.mem_map.mp hd; exact le_refl _
        · have : (us.map fun _ => (0 : Rat)).sum = 0 := by
            induction us with
            | nil => rfl
            | cons _ _ ih2 => simp
          simp only [List.sum_cons, this]; linarith
      · obtain ⟨a, b⟩ := ih _ hqA'
        constructor
        · intro d hd
          rcases List.mem_cons.mp hd with rfl | hd
          · exact h0
          · exact a d hd
        · simp only [List.sum_cons]; linarith
    · simp only [hq, if_false]
      split_ifs
      · constructor
        · intro d hd
          rcases List.mem_cons.mp hd with rfl | hd
          · exact le_refl _
          · obtain ⟨_, _, rfl⟩ := List.mem_map.mp hd; exact le_refl _
        · have : (us.map fun _ => (0 : Rat)).sum = 0 := by
            induction us with
            | nil => rfl
            | cons _ _ ih2 => simp
          simp only [List.sum_cons, this]; linarith
      · obtain ⟨a, b⟩ := ih qA hqA
        constructor
        · intro d hd
          rcases List.mem_cons.mp hd with rfl | hd
          · exact le_refl _
          · exact a d hd
        · simp only [List.sum_cons]; linarith

end OP
