/-
  Pure mathematics for C08/C05/C07: the piecewise-linear function through a descending list of
  points ("linearly interpolated, end value outside the range") does not change when points that
  lie on it are added.
-/
import Mathlib.Algebra.Order.Field.Rat
import Mathlib.Tactic.Linarith
import Mathlib.Tactic.FieldSimp
import Mathlib.Tactic.Ring

namespace OP

abbrev Pt := Rat × Rat

/-- Value at `x` of the polyline through `pts` (temperatures descending); the end values
    continue outside the range. -/
def plAt : List Pt → Rat → Option Rat
  | [], _ => none
  | [p], _ => some p.2
  | p1 :: p2 :: rest, x =>
    if p1.1 ≤ x then some p1.2
    else if p2.1 ≤ x then some (p2.2 + (x - p2.1) / (p1.1 - p2.1) * (p1.2 - p2.2))
    else plAt (p2 :: rest) x

/-- Linear interpolation between two points. -/
def lin (p1 p2 : Pt) (x : Rat) : Rat := p2.2 + (x - p2.1) / (p1.1 - p2.1) * (p1.2 - p2.2)

theorem plAt_cons_cons (p1 p2 : Pt) (rest : List Pt) (x : Rat) :
    plAt (p1 :: p2 :: rest) x =
      if p1.1 ≤ x then some p1.2 else if p2.1 ≤ x then some (lin p1 p2 x) else plAt (p2 :: rest) x := rfl

/-- At or above its first point a polyline takes the first value. -/
theorem plAt_top (p : Pt) (rest : List Pt) (x : Rat) (h : p.1 ≤ x) : plAt (p :: rest) x = some p.2 := by
  cases rest with
  | nil => rfl
  | cons q rest => rw [plAt_cons_cons, if_pos h]

/-- Prefix congruence: lists with the same first point and the same function may be exchanged
    below any prefix. -/
theorem plAt_prefix_congr (q : Pt) (L L' : List Pt) (h : ∀ x, plAt (q :: L) x = plAt (q :: L') x) :
    ∀ (pre : List Pt) (x : Rat), plAt (pre ++ q :: L) x = plAt (pre ++ q :: L') x := by
  intro pre
  induction pre with
  | nil => intro x; exact h x
  | cons a pre ih =>
    intro x
    cases pre with
    | nil =>
      simp only [List.cons_append, List.nil_append, plAt_cons_cons]
      rw [h x]
    | cons b pre =>
      simp only [List.cons_append, plAt_cons_cons]
      have := ih x
      simp only [List.cons_append] at this
      rw [this]

/-- A point of the segment `(p1, p2)` above `m` (itself on that segment) lies on `(p1, m)`. -/
theorem lin_sup (p1 p2 m : Pt) (y : Rat) (h1 : m.1 < p1.1) (h2 : p2.1 < m.1) (hm : m.2 = lin p1 p2 m.1) :
    lin p1 m y = lin p1 p2 y := by
  have d12 : p1.1 - p2.1 ≠ 0 := by linarith
  have d1m : p1.1 - m.1 ≠ 0 := by linarith
  unfold lin at *
  rw [hm]
  field_simp
  ring

/-- A point of the segment `(p1, p2)` below `m` (itself on that segment) lies on `(m, p2)`. -/
theorem lin_sub (p1 p2 m : Pt) (y : Rat) (h1 : m.1 < p1.1) (h2 : p2.1 < m.1) (hm : m.2 = lin p1 p2 m.1) :
    lin p1 p2 y = lin m p2 y := by
  have d12 : p1.1 - p2.1 ≠ 0 := by linarith
  have dm2 : m.1 - p2.1 ≠ 0 := by linarith
  unfold lin at *
  rw [hm]
  field_simp
  ring

/-- Adding one point of the first segment does not change the function. -/
theorem plAt_insert_one (p1 p2 m : Pt) (rest : List Pt)
    (h1 : m.1 < p1.1) (h2 : p2.1 < m.1) (hm : m.2 = lin p1 p2 m.1) :
    ∀ x, plAt (p1 :: m :: p2 :: rest) x = plAt (p1 :: p2 :: rest) x := by
  intro x
  rw [plAt_cons_cons p1 m, plAt_cons_cons p1 p2]
  by_cases a : p1.1 ≤ x
  · rw [if_pos a, if_pos a]
  · rw [if_neg a, if_neg a]
    by_cases b : m.1 ≤ x
    · have c : p2.1 ≤ x := by linarith
      rw [if_pos b, if_pos c, lin_sup p1 p2 m x h1 h2 hm]
    · rw [if_neg b, plAt_cons_cons m p2, if_neg b]
      by_cases c : p2.1 ≤ x
      · rw [if_pos c, if_pos c, lin_sub p1 p2 m x h1 h2 hm]
      · rw [if_neg c, if_neg c]

/-- Points strictly between `hi` and `lo`, strictly descending. -/
def Between (hi lo : Rat) : List Pt → Prop
  | [] => lo < hi
  | m :: ms => m.1 < hi ∧ lo < m.1 ∧ Between m.1 lo ms

/-- Adding any number of points of one segment does not change the function. -/
theorem plAt_insert_many (p2 : Pt) (rest : List Pt) :
    ∀ (ms : List Pt) (p1 : Pt), Between p1.1 p2.1 ms → (∀ m ∈ ms, m.2 = lin p1 p2 m.1) →
      ∀ x, plAt (p1 :: ms ++ p2 :: rest) x = plAt (p1 :: p2 :: rest) x := by
  intro ms
  induction ms with
  | nil => intro p1 _ _ x; rfl
  | cons m ms ih =>
    intro p1 hb hon x
    obtain ⟨h1, h2, hb'⟩ := hb
    have hm := hon m List.mem_cons_self
    have hon' : ∀ m' ∈ ms, m'.2 = lin m p2 m'.1 := by
      intro m' hm'
      rw [hon m' (List.mem_cons_of_mem _ hm')]
      exact lin_sub p1 p2 m m'.1 h1 h2 hm
    have step := ih m hb' hon'
    have := plAt_prefix_congr m (ms ++ p2 :: rest) (p2 :: rest) step [p1] x
    simp only [List.cons_append, List.nil_append] at this ⊢
    rw [this]
    exact plAt_insert_one p1 p2 m rest h1 h2 hm x

/-- A new first point above the table carrying the old first value changes nothing. -/
theorem plAt_extend_top (p : Pt) (rest : List Pt) (t : Rat) (h : p.1 < t) :
    ∀ x, plAt ((t, p.2) :: p :: rest) x = plAt (p :: rest) x := by
  intro x
  rw [plAt_cons_cons]
  by_cases a : t ≤ x
  · rw [if_pos a, plAt_top p rest x (by linarith)]
  · rw [if_neg a]
    by_cases b : p.1 ≤ x
    · rw [if_pos b, plAt_top p rest x b]
      simp only [lin, sub_self, mul_zero, add_zero]
    · rw [if_neg b]

theorem plAt_extend_top_many (p : Pt) (rest : List Pt) :
    ∀ (ts : List Rat), (ts.map fun t => (t, p.2) : List Pt).Pairwise (fun a b => b.1 < a.1) →
      (∀ t ∈ ts, p.1 < t) → ∀ x, plAt ((ts.map fun t => (t, p.2)) ++ p :: rest) x = plAt (p :: rest) x := by
  intro ts
  induction ts with
  | nil => intro _ _ x; rfl
  | cons t ts ih =>
    intro hp ha x
    have hp' := (List.pairwise_cons.mp hp).2
    have ih' := ih hp' (fun t' h' => ha t' (List.mem_cons_of_mem _ h'))
    cases ts with
    | nil =>
      simp only [List.map_cons, List.map_nil, List.cons_append, List.nil_append]
      exact plAt_extend_top p rest t (ha t List.mem_cons_self) x
    | cons t' ts' =>
      simp only [List.map_cons, List.cons_append] at ih' ⊢
      have h1 : t' < t := by
        have := (List.pairwise_cons.mp hp).1 (t', p.2) (by simp)
        simpa using this
      have e := plAt_extend_top (t', p.2) ((ts'.map fun t => (t, p.2)) ++ p :: rest) t h1 x
      simp only at e
      rw [e]
      exact ih' x

/-- A further point carrying the last value may be appended without changing the function. -/
theorem plAt_extend_bottom (q : Pt) :
    ∀ (L : List Pt) (p : Pt) (t : Rat), (p :: L).getLast (List.cons_ne_nil _ _) = q →
      ∀ x, plAt (p :: L ++ [(t, q.2)]) x = plAt (p :: L) x := by
  intro L
  induction L with
  | nil =>
    intro p t hl x
    simp only [List.getLast_singleton] at hl
    subst hl
    show plAt (p :: [(t, p.2)]) x = plAt [p] x
    rw [plAt_cons_cons]
    by_cases a : p.1 ≤ x
    · rw [if_pos a]; rfl
    · rw [if_neg a]
      by_cases b : t ≤ x
      · rw [if_pos b]; simp only [lin, sub_self, mul_zero, add_zero]; rfl
      · rw [if_neg b]; rfl
  | cons p2 L ih =>
    intro p t hl x
    have hl' : (p2 :: L).getLast (List.cons_ne_nil _ _) = q := by
      rw [List.getLast_cons (List.cons_ne_nil _ _)] at hl; exact hl
    have := ih p2 t hl' x
    simp only [List.cons_append, plAt_cons_cons] at this ⊢
    rw [this]

end OP
