/- C15 helpers: the costing formulas read over the reals. -/
import OPModel.Model.Costing
import OPModel.Proofs.HXReal
import Mathlib.Analysis.SpecialFunctions.Pow.Real
import Mathlib.Tactic.FieldSimp
import Mathlib.Tactic.Ring
import Mathlib.Tactic.Linarith

namespace OP.C15
open OP OP.HX OP.Costing Real

theorem powPos_real (x c : ℝ) (hx : 0 < x) : powPos realOps x c = x ^ c := by
  show Real.exp (c * Real.log x) = x ^ c
  rw [Real.rpow_def_of_pos hx, mul_comm]

theorem powPos_nat (x : ℝ) (hx : 0 < x) (n : ℕ) : powPos realOps x (n : ℝ) = x ^ n := by
  rw [powPos_real x _ hx, Real.rpow_natCast]

theorem crf_pos (i : ℝ) (hi : 0 < i) (n : ℕ) (hn : 1 ≤ n) : 0 < crf realOps i (n : ℝ) := by
  have h1 : (0 : ℝ) < 1 + i := by linarith
  show 0 < i * powPos realOps (1 + i) n / (powPos realOps (1 + i) n - 1)
  rw [powPos_nat _ h1]
  have hpow : (1 : ℝ) < (1 + i) ^ n := one_lt_pow₀ (by linarith) (by omega)
  exact div_pos (mul_pos hi (by linarith)) (by linarith)

theorem areaTerm_real (Q R L : ℝ) (hR : R ≠ 0) (hL : L ≠ 0) : areaTerm realOps Q R L = Q * R / L := by
  show Q / (1 / R * L) = Q * R / L
  field_simp

end OP.C15
