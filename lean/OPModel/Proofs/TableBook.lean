/-
  C08 helpers: the ΔT / ΔH bookkeeping of a problem table survives `insert_temperature_interval`.

  `Book cfg d r` — row `r` has ΔT = d (numeric), every heat-capacity cell numeric, and every ΔH cell
  equal to ΔT·CP.  `Link cfg r1 r2` — `r2`'s ΔT is the gap between the two rows' temperatures and
  `r2` keeps its books.  A table keeps its books when its first row does and consecutive rows are
  linked (`List.IsChain`).
-/
import OPModel.Proofs.TableLemmas
import OPModel.Proofs.TableSorted
import Mathlib.Data.List.Chain
import Mathlib.Tactic.Ring
import Mathlib.Tactic.Linarith

namespace OP

/-- column layout facts about the (CP, ΔH) pairs that the bookkeeping needs -/
structure PairsOK (cfg : TblCfg) : Prop where
  dhLt : ∀ p ∈ cfg.pairs, p.2 < cfg.nCols
  cpLt : ∀ p ∈ cfg.pairs, p.1 < cfg.nCols
  dhDistinct : cfg.pairs.Pairwise (fun p q => p.2 ≠ q.2)
  dhNotCp : ∀ p ∈ cfg.pairs, ∀ q ∈ cfg.pairs, p.2 ≠ q.1
  cpPlain : ∀ p ∈ cfg.pairs, p.1 ≠ cfg.tI ∧ p.1 ≠ cfg.dI ∧ p.1 ∉ cfg.interp

def Book (cfg : TblCfg) (d : Rat) (r : Row) : Prop :=
  r.get cfg.dI = some d ∧ ∀ p ∈ cfg.pairs, ∃ c, r.get p.1 = some c ∧ r.get p.2 = some (d * c)

def RowLen (cfg : TblCfg) (r : Row) : Prop := r.length = cfg.nCols

def Link (cfg : TblCfg) (r1 r2 : Row) : Prop :=
  ∃ t1 t2, r1.get cfg.tI = some t1 ∧ r2.get cfg.tI = some t2 ∧ Book cfg (t1 - t2) r2

theorem put_length (r : Row) (i : Nat) (v : Cell) : (r.put i v).length = r.length := by
  unfold Row.put; simp

/-! ### `_update_heat_capacity_pairs` on one row -/

theorem foldl_pairs_spec (dI : Nat) : ∀ (ps : List (Nat × Nat)) (r : Row),
    ps.Pairwise (fun p q => p.2 ≠ q.2) → (∀ p ∈ ps, p.2 ≠ dI) → (∀ p ∈ ps, ∀ q ∈ ps, p.2 ≠ q.1) →
    (∀ p ∈ ps, p.2 < r.length) →
    let r' := ps.foldl (fun r p => r.put p.2 (mulCell (r.get dI) (r.get p.1))) r
    r'.length = r.length ∧ (∀ c, (∀ p ∈ ps, p.2 ≠ c) → r'.get c = r.get c) ∧
      ∀ p ∈ ps, r'.get p.2 = mulCell (r.get dI) (r.get p.1) := by
  intro ps
  induction ps with
  | nil => intro r _ _ _ _; simp
  | cons p ps ih =>
    intro r hd hdi hcp hlt
    simp only [List.foldl_cons]
    set r1 := r.put p.2 (mulCell (r.get dI) (r.get p.1)) with hr1
    have hlen1 : r1.length = r.length := put_length _ _ _
    have hd' := (List.pairwise_cons.mp hd).2
    obtain ⟨h1, h2, h3⟩ := ih r1 hd' (fun q hq => hdi q (by simp [hq]))
      (fun a ha b hb => hcp a (by simp [ha]) b (by simp [hb])) (fun q hq => by rw [hlen1]; exact hlt q (by simp [hq]))
    refine ⟨by rw [h1, hlen1], ?_, ?_⟩
    · intro c hc
      rw [h2 c (fun q hq => hc q (by simp [hq]))]
      exact Row.get_put r p.2 c _ (hc p (by simp))
    · intro q hq
      rcases List.mem_cons.mp hq with rfl | hq
      · -- the first pair: later puts do not touch its ΔH cell
        rw [h2 q.2 (fun q' hq' => fun e => (List.pairwise_cons.mp hd).1 q' hq' e.symm)]
        exact Row.get_put_self r q.2 _ (hlt q (by simp))
      · rw [h3 q hq]
        have e1 : r1.get dI = r.get dI := Row.get_put r p.2 dI _ (hdi p (by simp))
        have e2 : r1.get q.1 = r.get q.1 := Row.get_put r p.2 q.1 _ (hcp p (by simp) q (by simp [hq]))
        rw [e1, e2]

theorem recomputeDH_book (cfg : TblCfg) (ok : CfgOK cfg) (pk : PairsOK cfg) (r : Row) (d : Rat)
    (hlen : RowLen cfg r) (hd : r.get cfg.dI = some d) (hcp : ∀ p ∈ cfg.pairs, ∃ c, r.get p.1 = some c) :
    Book cfg d (recomputeDH cfg r) ∧ RowLen cfg (recomputeDH cfg r) ∧
      (recomputeDH cfg r).get cfg.tI = r.get cfg.tI := by
  obtain ⟨h1, h2, h3⟩ := foldl_pairs_spec cfg.dI cfg.pairs r pk.dhDistinct (fun p hp => (ok.dh p hp).2.2)
    pk.dhNotCp (fun p hp => by rw [hlen]; exact pk.dhLt p hp)
  refine ⟨⟨?_, ?_⟩, by unfold RowLen recomputeDH; rw [h1]; exact hlen, ?_⟩
  · unfold recomputeDH
    rw [h2 cfg.dI (fun p hp => (ok.dh p hp).2.2)]; exact hd
  · intro p hp
    obtain ⟨c, hc⟩ := hcp p hp
    refine ⟨c, ?_, ?_⟩
    · unfold recomputeDH
      rw [h2 p.1 (fun q hq => pk.dhNotCp q hq p hp)]; exact hc
    · unfold recomputeDH
      rw [h3 p hp, hd, hc]; rfl
  · unfold recomputeDH
    exact h2 cfg.tI (fun p hp => (ok.dh p hp).2.1)

/-! ### new middle rows -/

theorem midRow_facts (cfg : TblCfg) (ok : CfgOK cfg) (pk : PairsOK cfg) (tol : Rat) (up lo : Row) (upT loT t : Rat) :
    RowLen cfg (midRow cfg tol up lo upT loT t) ∧ (midRow cfg tol up lo upT loT t).get cfg.tI = some t ∧
      ∀ p ∈ cfg.pairs, (midRow cfg tol up lo upT loT t).get p.1 = lo.get p.1 := by
  refine ⟨by unfold RowLen midRow; simp, ?_, ?_⟩
  · unfold midRow; rw [get_range_map _ _ _ ok.tLt]; simp
  · intro p hp
    obtain ⟨h1, h2, h3⟩ := pk.cpPlain p hp
    unfold midRow
    rw [get_range_map _ _ _ (pk.cpLt p hp)]
    have h3' : cfg.interp.contains p.1 = false := by
      rw [← Bool.not_eq_true]; intro h; exact h3 (List.contains_iff_mem.mp h)
    simp only [h1, h2, h3', if_false, Bool.false_eq_true]

theorem put_dI_facts (cfg : TblCfg) (ok : CfgOK cfg) (pk : PairsOK cfg) (r : Row) (d : Rat) (hlen : RowLen cfg r) :
    RowLen cfg (r.put cfg.dI (some d)) ∧ (r.put cfg.dI (some d)).get cfg.dI = some d ∧
      (r.put cfg.dI (some d)).get cfg.tI = r.get cfg.tI ∧
      ∀ p ∈ cfg.pairs, (r.put cfg.dI (some d)).get p.1 = r.get p.1 := by
  refine ⟨by unfold RowLen; rw [put_length]; exact hlen, ?_, ?_, ?_⟩
  · exact Row.get_put_self r cfg.dI _ (by rw [hlen]; exact ok.dLt)
  · exact Row.get_put r cfg.dI cfg.tI _ (fun e => ok.td e.symm)
  · intro p hp
    exact Row.get_put r cfg.dI p.1 _ (fun e => (pk.cpPlain p hp).2.1 e.symm)

/-- a row with a given temperature whose heat-capacity cells are numeric -/
def Plain (cfg : TblCfg) (t : Rat) (r : Row) : Prop :=
  RowLen cfg r ∧ r.get cfg.tI = some t ∧ ∀ p ∈ cfg.pairs, ∃ c, r.get p.1 = some c

/-- rows produced by `withGaps`: linked from a row of temperature `prevT` on -/
def LinkedFrom (cfg : TblCfg) : Rat → List Row → Prop
  | _, [] => True
  | prevT, r :: rest => ∃ t, r.get cfg.tI = some t ∧ Book cfg (prevT - t) r ∧ RowLen cfg r ∧ LinkedFrom cfg t rest

theorem withGaps_linked (cfg : TblCfg) (ok : CfgOK cfg) (pk : PairsOK cfg) :
    ∀ (l : List (Rat × Row)) (prevT : Rat), (∀ x ∈ l, Plain cfg x.1 x.2) → LinkedFrom cfg prevT (withGaps cfg prevT l) := by
  intro l
  induction l with
  | nil => intro _ _; trivial
  | cons x rest ih =>
    intro prevT h
    obtain ⟨t, r⟩ := x
    obtain ⟨hlen, ht, hcp⟩ := h (t, r) (by simp)
    simp only [withGaps, LinkedFrom]
    obtain ⟨a1, a2, a3, a4⟩ := put_dI_facts cfg ok pk r (prevT - t) hlen
    obtain ⟨b1, b2, b3⟩ := recomputeDH_book cfg ok pk _ (prevT - t) a1 a2 (fun p hp => by rw [a4 p hp]; exact hcp p hp)
    exact ⟨t, by rw [b3, a3]; exact ht, b1, b2, ih t (fun y hy => h y (by simp [hy]))⟩

/-- the last temperature of a linked run (or the start temperature when it is empty) -/
def lastTemp (prevT : Rat) : List Rat → Rat
  | [] => prevT
  | t :: ts => lastTemp t ts

theorem withGaps_temps (cfg : TblCfg) (ok : CfgOK cfg) (pk : PairsOK cfg) :
    ∀ (l : List (Rat × Row)) (prevT : Rat), (∀ x ∈ l, Plain cfg x.1 x.2) →
      (withGaps cfg prevT l).map (fun r => r.get cfg.tI) = l.map (fun x => some x.1) := by
  intro l
  induction l with
  | nil => intro _ _; rfl
  | cons x rest ih =>
    intro prevT h
    obtain ⟨t, r⟩ := x
    obtain ⟨hlen, ht, hcp⟩ := h (t, r) (by simp)
    obtain ⟨a1, a2, a3, a4⟩ := put_dI_facts cfg ok pk r (prevT - t) hlen
    obtain ⟨b1, b2, b3⟩ := recomputeDH_book cfg ok pk _ (prevT - t) a1 a2 (fun p hp => by rw [a4 p hp]; exact hcp p hp)
    simp only [withGaps, List.map_cons]
    rw [b3, a3, ht, ih t (fun y hy => h y (by simp [hy]))]

/-! ### linked runs: append, end temperature -/

/-- temperature of the last row of a run that starts after a row of temperature `a` -/
def endT (cfg : TblCfg) : Rat → List Row → Rat
  | a, [] => a
  | a, r :: rest => endT cfg ((r.get cfg.tI).getD a) rest

theorem linked_append (cfg : TblCfg) : ∀ (xs ys : List Row) (a : Rat),
    LinkedFrom cfg a xs → LinkedFrom cfg (endT cfg a xs) ys → LinkedFrom cfg a (xs ++ ys) := by
  intro xs
  induction xs with
  | nil => intro ys a _ h; simpa [endT] using h
  | cons r xs ih =>
    intro ys a h1 h2
    obtain ⟨t, ht, hb, hl, hrest⟩ := h1
    simp only [List.cons_append, LinkedFrom]
    refine ⟨t, ht, hb, hl, ih ys t hrest ?_⟩
    simpa [endT, ht] using h2

theorem endT_append (cfg : TblCfg) : ∀ (xs ys : List Row) (a : Rat), endT cfg a (xs ++ ys) = endT cfg (endT cfg a xs) ys := by
  intro xs
  induction xs with
  | nil => intro ys a; rfl
  | cons r xs ih => intro ys a; simp only [List.cons_append, endT]; exact ih ys _

theorem endT_of_temps (cfg : TblCfg) : ∀ (rows : List Row) (ts : List Rat) (a : Rat),
    rows.map (fun r => r.get cfg.tI) = ts.map some → endT cfg a rows = lastTemp a ts := by
  intro rows
  induction rows with
  | nil => intro ts a h; cases ts with
    | nil => rfl
    | cons _ _ => simp at h
  | cons r rows ih =>
    intro ts a h
    cases ts with
    | nil => simp at h
    | cons t ts =>
      simp only [List.map_cons, List.cons.injEq] at h
      simp only [endT, lastTemp, h.1, Option.getD_some]
      exact ih ts t h.2

theorem lastTemp_of_getLast (a : Rat) : ∀ (ts : List Rat) (z : Rat), ts.getLast? = some z → lastTemp a ts = z := by
  intro ts
  induction ts generalizing a with
  | nil => intro z h; simp at h
  | cons t ts ih =>
    intro z h
    cases ts with
    | nil => simp only [List.getLast?_singleton, Option.some.injEq] at h; simp [lastTemp, h]
    | cons u us =>
      simp only [lastTemp]
      exact ih t z (by simpa [List.getLast?_cons_cons] using h)

/-! ### `_build_mid_block` -/

theorem midBlock_book (cfg : TblCfg) (ok : CfgOK cfg) (pk : PairsOK cfg) (tol : Rat) (up lo : Row) (upT loT d : Rat)
    (ts : List Rat) (hup : Plain cfg upT up) (hupb : Book cfg d up) (hlo : Plain cfg loT lo)
    (hlob : Book cfg (upT - loT) lo) :
    let m := midBlock cfg tol up lo upT loT ts
    Plain cfg upT m.1 ∧ Book cfg d m.1 ∧ LinkedFrom cfg upT m.2.1 ∧
      Plain cfg loT m.2.2 ∧ Book cfg (endT cfg upT m.2.1 - loT) m.2.2 := by
  unfold midBlock
  cases h : ts.getLast? with
  | none =>
    simp only
    exact ⟨hup, hupb, trivial, hlo, by simpa [endT] using hlob⟩
  | some lastT =>
    simp only
    obtain ⟨ul, ut, ucp⟩ := hup
    obtain ⟨ll, lt, lcp⟩ := hlo
    obtain ⟨u1, u2, u3⟩ := recomputeDH_book cfg ok pk up d ul hupb.1 ucp
    -- the new rows
    have hplain : ∀ x ∈ ts.map (fun t => (t, midRow cfg tol up lo upT loT t)), Plain cfg x.1 x.2 := by
      intro x hx
      obtain ⟨t, _, rfl⟩ := List.mem_map.mp hx
      obtain ⟨m1, m2, m3⟩ := midRow_facts cfg ok pk tol up lo upT loT t
      exact ⟨m1, m2, fun p hp => by rw [m3 p hp]; exact lcp p hp⟩
    have hlinked := withGaps_linked cfg ok pk _ upT hplain
    have htemps := withGaps_temps cfg ok pk _ upT hplain
    have hend : endT cfg upT (withGaps cfg upT (ts.map fun t => (t, midRow cfg tol up lo upT loT t))) = lastT := by
      rw [endT_of_temps cfg _ ts upT (by rw [htemps, List.map_map]; rfl)]
      exact lastTemp_of_getLast upT ts lastT h
    -- the adjusted lower row
    obtain ⟨a1, a2, a3, a4⟩ := put_dI_facts cfg ok pk lo (lastT - loT) ll
    obtain ⟨b1, b2, b3⟩ := recomputeDH_book cfg ok pk _ (lastT - loT) a1 a2 (fun p hp => by rw [a4 p hp]; exact lcp p hp)
    refine ⟨⟨u2, by rw [u3]; exact ut, fun p hp => ?_⟩, u1, hlinked, ⟨b2, by rw [b3, a3]; exact lt, fun p hp => ?_⟩, by rw [hend]; exact b1⟩
    · obtain ⟨c, hc, _⟩ := u1.2 p hp; exact ⟨c, hc⟩
    · obtain ⟨c, hc, _⟩ := b1.2 p hp; exact ⟨c, hc⟩

/-! ### the walk over the original rows -/

/-- the original rows below the current one, with their temperatures, keep their books -/
def InLinked (cfg : TblCfg) : Rat → List (Row × Rat) → Prop
  | _, [] => True
  | prevT, (lo, loT) :: rest => Plain cfg loT lo ∧ Book cfg (prevT - loT) lo ∧ InLinked cfg loT rest

def finalT (upT : Rat) : List (Row × Rat) → Rat
  | [] => upT
  | (_, loT) :: rest => finalT loT rest

theorem walk_book (cfg : TblCfg) (ok : CfgOK cfg) (pk : PairsOK cfg) (tol : Rat) (mid : List Rat) :
    ∀ (rest : List (Row × Rat)) (up : Row) (upT d : Rat), Plain cfg upT up → Book cfg d up → InLinked cfg upT rest →
      ∃ h tail, walk cfg tol mid up upT rest = h :: tail ∧ Plain cfg upT h ∧ Book cfg d h ∧
        LinkedFrom cfg upT tail ∧ endT cfg upT tail = finalT upT rest := by
  intro rest
  induction rest with
  | nil =>
    intro up upT d hp hb _
    exact ⟨up, [], rfl, hp, hb, trivial, rfl⟩
  | cons x rest ih =>
    intro up upT d hp hb hin
    obtain ⟨lo, loT⟩ := x
    obtain ⟨hlo, hlob, hrest⟩ := hin
    obtain ⟨m1, m2, m3, m4, m5⟩ := midBlock_book cfg ok pk tol up lo upT loT d (bucket tol upT loT mid) hp hb hlo hlob
    simp only [walk]
    obtain ⟨h', tail', hw, hp', hb', hl', he'⟩ := ih _ loT _ m4 m5 hrest
    refine ⟨_, _, rfl, m1, m2, ?_, ?_⟩
    · rw [hw]
      apply linked_append cfg _ _ upT m3
      exact ⟨loT, hp'.2.1, hb', hp'.1, hl'⟩
    · rw [hw]
      show endT cfg upT (_ ++ (h' :: tail')) = _
      rw [endT_append]
      simp only [endT, hp'.2.1, Option.getD_some, finalT]
      exact he'

/-! ### the bottom block -/

theorem edgeRow_book (cfg : TblCfg) (ok : CfgOK cfg) (pk : PairsOK cfg) (nb : Row) (t dt : Rat)
    (hnb : ∀ p ∈ cfg.pairs, (∃ c, nb.get p.1 = some c) ∧ ∃ c, nb.get p.2 = some c) :
    Plain cfg t (edgeRow cfg nb t dt) ∧ Book cfg dt (edgeRow cfg nb t dt) ∧
      ∀ p ∈ cfg.pairs, (∃ c, (edgeRow cfg nb t dt).get p.1 = some c) ∧ ∃ c, (edgeRow cfg nb t dt).get p.2 = some c := by
  have hT : (edgeRow cfg nb t dt).get cfg.tI = some t := by
    unfold edgeRow; rw [get_range_map _ _ _ ok.tLt]; simp
  have hD : (edgeRow cfg nb t dt).get cfg.dI = some dt := by
    unfold edgeRow; rw [get_range_map _ _ _ ok.dLt]
    have hne : cfg.dI ≠ cfg.tI := fun e => ok.td e.symm
    simp only [hne, if_false, if_true]
  have hcp : ∀ p ∈ cfg.pairs, (edgeRow cfg nb t dt).get p.1 = some 0 := by
    intro p hp
    obtain ⟨h1, h2, h3⟩ := pk.cpPlain p hp
    obtain ⟨⟨c, hc⟩, _⟩ := hnb p hp
    unfold edgeRow
    rw [get_range_map _ _ _ (pk.cpLt p hp)]
    have h3' : cfg.interp.contains p.1 = false := by
      rw [← Bool.not_eq_true]; intro h; exact h3 (List.contains_iff_mem.mp h)
    simp only [h1, h2, h3', if_false, Bool.false_eq_true, hc, Option.map_some]
  have hdh : ∀ p ∈ cfg.pairs, (edgeRow cfg nb t dt).get p.2 = some 0 := by
    intro p hp
    obtain ⟨h3, h1, h2⟩ := ok.dh p hp
    obtain ⟨_, ⟨c, hc⟩⟩ := hnb p hp
    unfold edgeRow
    rw [get_range_map _ _ _ (pk.dhLt p hp)]
    have h3' : cfg.interp.contains p.2 = false := by
      rw [← Bool.not_eq_true]; intro h; exact h3 (List.contains_iff_mem.mp h)
    simp only [h1, h2, h3', if_false, Bool.false_eq_true, hc, Option.map_some]
  refine ⟨⟨by unfold RowLen edgeRow; simp, hT, fun p hp => ⟨0, hcp p hp⟩⟩, ⟨hD, fun p hp => ⟨0, hcp p hp, by rw [hdh p hp]; simp⟩⟩,
    fun p hp => ⟨⟨0, hcp p hp⟩, ⟨0, hdh p hp⟩⟩⟩

theorem edgeChain_linked_down (cfg : TblCfg) (ok : CfgOK cfg) (pk : PairsOK cfg) :
    ∀ (ts : List Rat) (nb : Row) (prevT : Rat),
      (∀ p ∈ cfg.pairs, (∃ c, nb.get p.1 = some c) ∧ ∃ c, nb.get p.2 = some c) →
      (prevT :: ts).Pairwise (fun a b => b < a) → LinkedFrom cfg prevT (edgeChain cfg nb prevT ts) := by
  intro ts
  induction ts with
  | nil => intro _ _ _ _; trivial
  | cons t ts ih =>
    intro nb prevT hnb hdesc
    simp only [edgeChain, LinkedFrom]
    have hlt : t < prevT := (List.pairwise_cons.mp hdesc).1 t (by simp)
    have habs : rabs (t - prevT) = prevT - t := by unfold rabs; rw [if_pos (by linarith)]; ring
    obtain ⟨e1, e2, e3⟩ := edgeRow_book cfg ok pk nb t (rabs (t - prevT)) hnb
    refine ⟨t, e1.2.1, by rw [← habs]; exact e2, e1.1, ih _ t e3 (List.pairwise_cons.mp hdesc).2⟩

/-! ### from the table's own rows to the walk's input -/

theorem linked_temps (cfg : TblCfg) : ∀ (rest : List Row) (a : Rat), LinkedFrom cfg a rest →
    ∃ ts, rest.mapM (Row.temp cfg) = some ts ∧ ts.length = rest.length ∧ InLinked cfg a (rest.zip ts) ∧
      finalT a (rest.zip ts) = endT cfg a rest ∧ endT cfg a rest = lastTemp a ts := by
  intro rest
  induction rest with
  | nil => intro a _; exact ⟨[], rfl, rfl, trivial, rfl, rfl⟩
  | cons r rest ih =>
    intro a h
    obtain ⟨t, ht, hb, hl, hrest⟩ := h
    obtain ⟨ts, h1, h2, h3, h4, h5⟩ := ih t hrest
    refine ⟨t :: ts, ?_, by simp [h2], ?_, ?_, ?_⟩
    · simp [List.mapM_cons, Row.temp, ht, h1]
    · simp only [List.zip_cons_cons, InLinked]
      exact ⟨⟨hl, ht, fun p hp => by obtain ⟨c, hc, _⟩ := hb.2 p hp; exact ⟨c, hc⟩⟩, hb, h3⟩
    · simp only [List.zip_cons_cons, finalT, endT, ht, Option.getD_some]; exact h4
    · simp only [endT, ht, Option.getD_some, lastTemp]; exact h5

theorem linked_mem_book (cfg : TblCfg) : ∀ (rest : List Row) (a : Rat), LinkedFrom cfg a rest →
    ∀ r ∈ rest, ∃ d, Book cfg d r := by
  intro rest
  induction rest with
  | nil => intro _ _ r hr; simp at hr
  | cons x rest ih =>
    intro a h r hr
    obtain ⟨t, _, hb, _, hrest⟩ := h
    rcases List.mem_cons.mp hr with rfl | hr
    · exact ⟨_, hb⟩
    · exact ih t hrest r hr

theorem lastTemp_eq_getLast (a : Rat) (ts : List Rat) : lastTemp a ts = (a :: ts).getLast (List.cons_ne_nil _ _) := by
  induction ts generalizing a with
  | nil => rfl
  | cons t ts ih => simp only [lastTemp]; rw [ih t, List.getLast_cons (List.cons_ne_nil _ _)]

theorem book_numeric {cfg : TblCfg} {d : Rat} {r : Row} (h : Book cfg d r) :
    ∀ p ∈ cfg.pairs, (∃ c, r.get p.1 = some c) ∧ ∃ c, r.get p.2 = some c := by
  intro p hp
  obtain ⟨c, h1, h2⟩ := h.2 p hp
  exact ⟨⟨c, h1⟩, ⟨_, h2⟩⟩

/-- **The books survive an insertion** (no requested temperature above the top row): if the first
    row keeps its books and every later row is linked to the one above it, the same holds for the
    table returned by `insertTemps`, whatever temperatures are requested at or below the top. -/
theorem insertTemps_book (cfg : TblCfg) (ok : CfgOK cfg) (pk : PairsOK cfg) (tol : Rat) (htol : 0 ≤ tol)
    (r0 : Row) (rest : List Row) (t0 d0 : Rat) (vals : List Rat)
    (hp : Plain cfg t0 r0) (hb : Book cfg d0 r0) (hl : LinkedFrom cfg t0 rest)
    (hnotop : ∀ v ∈ vals, ¬ t0 < v) (out : List Row) (n : Nat)
    (he : insertTemps cfg tol (r0 :: rest) vals = .ok (out, n)) :
    ∃ h tail, out = h :: tail ∧ Plain cfg t0 h ∧ Book cfg d0 h ∧ LinkedFrom cfg t0 tail := by
  obtain ⟨ts, hts, hlen, hin, hfin, hend⟩ := linked_temps cfg rest t0 hl
  have hT : temps cfg (r0 :: rest) = some (t0 :: ts) := by
    simp [temps, List.mapM_cons, Row.temp, hp.2.1, hts]
  -- no value above the top row is needed
  have htops : ∀ need : List Rat, (∀ v ∈ need, v ∈ vals) →
      dedupeMono tol (sortDesc (need.filter fun v => decide (t0 < v))) = [] := by
    intro need hsub
    have : need.filter (fun v => decide (t0 < v)) = [] := by
      apply List.filter_eq_nil_iff.mpr
      intro v hv
      simpa using hnotop v (hsub v hv)
    rw [this]; simp [sortDesc, dedupeMono]
  have hneedsub : ∀ v ∈ needInsert tol (t0 :: ts) vals, v ∈ vals := by
    intro v hv; unfold needInsert at hv; exact (List.mem_filter.mp hv).1
  -- the body
  obtain ⟨h, tail, hw, hph, hbh, hlt, het⟩ := walk_book cfg ok pk tol
    ((needInsert tol (t0 :: ts) vals).filter fun v => !(decide (t0 < v)) && !(decide (v < (t0 :: ts).getLast (List.cons_ne_nil _ _))))
    (rest.zip ts) r0 t0 d0 hp hb hin
  unfold insertTemps at he
  rw [hT] at he
  simp only at he
  by_cases hsd : (!strictlyDesc (t0 :: ts)) = true
  · rw [if_pos hsd] at he; cases he
  rw [if_neg hsd, htops _ hneedsub] at he
  simp only [topBlock, List.reverse_nil, List.nil_append, hw] at he
  cases he
  refine ⟨h, tail ++ bottomBlock cfg ((r0 :: rest).getLast (List.cons_ne_nil _ _)) ((t0 :: ts).getLast (List.cons_ne_nil _ _))
    (dedupeMono tol (sortDesc ((needInsert tol (t0 :: ts) vals).filter fun v => decide (v < (t0 :: ts).getLast (List.cons_ne_nil _ _))))),
    by simp, hph, hbh, ?_⟩
  apply linked_append cfg _ _ t0 hlt
  rw [het, hfin, hend, lastTemp_eq_getLast]
  -- the bottom block hangs below the last row
  unfold bottomBlock
  apply edgeChain_linked_down cfg ok pk
  · -- the last row is numeric
    cases hr : rest with
    | nil => simpa using book_numeric hb
    | cons x xs =>
      have hmem : (r0 :: x :: xs).getLast (List.cons_ne_nil _ _) ∈ x :: xs := by
        rw [List.getLast_cons (List.cons_ne_nil _ _)]; exact List.getLast_mem _
      obtain ⟨d, hd⟩ := linked_mem_book cfg rest t0 hl _ (by rw [hr]; exact hmem)
      exact book_numeric hd
  · apply List.pairwise_cons.mpr
    refine ⟨?_, dedupeMono_sortDesc_pairwise tol htol _⟩
    intro y hy
    have := mem_dedupe_sort_filter tol _ _ y hy
    simpa using this

/-! ### the top block -/

/-- a "zero row": plain, ΔT = d, every heat capacity and enthalpy change 0 (what edge rows are) -/
def ZRow (cfg : TblCfg) (t d : Rat) (r : Row) : Prop :=
  Plain cfg t r ∧ r.get cfg.dI = some d ∧ ∀ p ∈ cfg.pairs, r.get p.1 = some 0 ∧ r.get p.2 = some 0

theorem ZRow.book {cfg : TblCfg} {t d : Rat} {r : Row} (h : ZRow cfg t d r) : Book cfg d r :=
  ⟨h.2.1, fun p hp => ⟨0, (h.2.2 p hp).1, by rw [(h.2.2 p hp).2]; simp⟩⟩

theorem ZRow.numeric {cfg : TblCfg} {t d : Rat} {r : Row} (h : ZRow cfg t d r) :
    ∀ p ∈ cfg.pairs, (∃ c, r.get p.1 = some c) ∧ ∃ c, r.get p.2 = some c :=
  fun p hp => ⟨⟨0, (h.2.2 p hp).1⟩, ⟨0, (h.2.2 p hp).2⟩⟩

theorem edgeRow_Z (cfg : TblCfg) (ok : CfgOK cfg) (pk : PairsOK cfg) (nb : Row) (t dt : Rat)
    (hnb : ∀ p ∈ cfg.pairs, (∃ c, nb.get p.1 = some c) ∧ ∃ c, nb.get p.2 = some c) :
    ZRow cfg t dt (edgeRow cfg nb t dt) := by
  obtain ⟨e1, e2, _⟩ := edgeRow_book cfg ok pk nb t dt hnb
  refine ⟨e1, e2.1, ?_⟩
  intro p hp
  have hcp : (edgeRow cfg nb t dt).get p.1 = some 0 := by
    obtain ⟨h1, h2, h3⟩ := pk.cpPlain p hp
    obtain ⟨⟨c, hc⟩, _⟩ := hnb p hp
    unfold edgeRow
    rw [get_range_map _ _ _ (pk.cpLt p hp)]
    have h3' : cfg.interp.contains p.1 = false := by
      rw [← Bool.not_eq_true]; intro h; exact h3 (List.contains_iff_mem.mp h)
    simp only [h1, h2, h3', if_false, Bool.false_eq_true, hc, Option.map_some]
  have hdh : (edgeRow cfg nb t dt).get p.2 = some 0 := by
    obtain ⟨h3, h1, h2⟩ := ok.dh p hp
    obtain ⟨_, ⟨c, hc⟩⟩ := hnb p hp
    unfold edgeRow
    rw [get_range_map _ _ _ (pk.dhLt p hp)]
    have h3' : cfg.interp.contains p.2 = false := by
      rw [← Bool.not_eq_true]; intro h; exact h3 (List.contains_iff_mem.mp h)
    simp only [h1, h2, h3', if_false, Bool.false_eq_true, hc, Option.map_some]
  exact ⟨hcp, hdh⟩

theorem ZRow.put_dI {cfg : TblCfg} (ok : CfgOK cfg) (pk : PairsOK cfg) {t d : Rat} {r : Row} (h : ZRow cfg t d r) (d' : Rat) :
    ZRow cfg t d' (r.put cfg.dI (some d')) := by
  obtain ⟨a1, a2, a3, a4⟩ := put_dI_facts cfg ok pk r d' h.1.1
  refine ⟨⟨a1, by rw [a3]; exact h.1.2.1, fun p hp => by rw [a4 p hp]; exact h.1.2.2 p hp⟩, a2, ?_⟩
  intro p hp
  refine ⟨by rw [a4 p hp]; exact (h.2.2 p hp).1, ?_⟩
  rw [Row.get_put r cfg.dI p.2 _ (fun e => (ok.dh p hp).2.2 e.symm)]
  exact (h.2.2 p hp).2

/-- relation between a row and the row below it in a table that keeps its books -/
def LinkR (cfg : TblCfg) (ra rb : Row) : Prop :=
  ∃ ta tb, ra.get cfg.tI = some ta ∧ rb.get cfg.tI = some tb ∧ Book cfg (ta - tb) rb ∧ RowLen cfg rb

theorem chain_of_linked (cfg : TblCfg) : ∀ (rows : List Row) (h : Row) (a : Rat), h.get cfg.tI = some a →
    LinkedFrom cfg a rows → List.IsChain (LinkR cfg) (h :: rows) := by
  intro rows
  induction rows with
  | nil => intro h a _ _; simp
  | cons r rows ih =>
    intro h a ha hl
    obtain ⟨t, ht, hb, hlen, hrest⟩ := hl
    rw [List.isChain_cons_cons]
    exact ⟨⟨a, t, ha, ht, hb, hlen⟩, ih r t ht hrest⟩

theorem linked_of_chain (cfg : TblCfg) : ∀ (rows : List Row) (h : Row) (a : Rat), h.get cfg.tI = some a →
    List.IsChain (LinkR cfg) (h :: rows) → LinkedFrom cfg a rows := by
  intro rows
  induction rows with
  | nil => intro _ _ _ _; trivial
  | cons r rows ih =>
    intro h a ha hc
    rw [List.isChain_cons_cons] at hc
    obtain ⟨⟨ta, tb, h1, h2, h3, h4⟩, hrest⟩ := hc
    rw [ha] at h1
    cases h1
    exact ⟨tb, h2, h3, h4, ih r tb h2 hrest⟩

/-- (temperature, ΔT) of rows built upwards from temperature `prev`: ΔT is the gap to the row below -/
def upTD : Rat → List Rat → List (Rat × Rat)
  | _, [] => []
  | prev, t :: ts => (t, t - prev) :: upTD t ts

def GapsUp : Rat → List (Rat × Rat) → Prop
  | _, [] => True
  | below, td :: rest => td.2 = td.1 - below ∧ GapsUp td.1 rest

theorem gapsUp_upTD : ∀ (ts : List Rat) (prev : Rat), GapsUp prev (upTD prev ts) := by
  intro ts
  induction ts with
  | nil => intro _; trivial
  | cons t ts ih => intro prev; exact ⟨rfl, ih t⟩

/-- rows built upwards from `nb`: zero rows whose ΔT is the gap to the row below -/
theorem edgeChain_up (cfg : TblCfg) (ok : CfgOK cfg) (pk : PairsOK cfg) :
    ∀ (ts : List Rat) (nb : Row) (prevT : Rat),
      (∀ p ∈ cfg.pairs, (∃ c, nb.get p.1 = some c) ∧ ∃ c, nb.get p.2 = some c) →
      (prevT :: ts).Pairwise (fun a b => a < b) →
      List.Forall₂ (fun r (td : Rat × Rat) => ZRow cfg td.1 td.2 r) (edgeChain cfg nb prevT ts) (upTD prevT ts) := by
  intro ts
  induction ts with
  | nil => intro _ _ _ _; simp [edgeChain, upTD]
  | cons t ts ih =>
    intro nb prevT hnb hasc
    have hlt : prevT < t := (List.pairwise_cons.mp hasc).1 t (by simp)
    have habs : rabs (t - prevT) = t - prevT := by unfold rabs; rw [if_neg (by linarith)]
    simp only [edgeChain, upTD]
    have hz := edgeRow_Z cfg ok pk nb t (rabs (t - prevT)) hnb
    refine List.Forall₂.cons (by simp only; have hz' := hz; rw [habs] at hz'; rw [habs]; exact hz') ?_
    exact ih _ t hz.numeric (List.pairwise_cons.mp hasc).2

/-- after the ΔT shift every built row is linked to the row above it (the list is ascending) -/
theorem shiftDT_chain (cfg : TblCfg) (ok : CfgOK cfg) (pk : PairsOK cfg) :
    ∀ (rows : List Row) (tds : List (Rat × Rat)) (below : Rat),
      List.Forall₂ (fun r (td : Rat × Rat) => ZRow cfg td.1 td.2 r) rows tds → GapsUp below tds →
      List.IsChain (fun lower upper => LinkR cfg upper lower) (shiftDT cfg rows) ∧
      (shiftDT cfg rows).map (fun r => r.get cfg.tI) = tds.map (fun td => some td.1) ∧
      ∀ r ∈ shiftDT cfg rows, ∃ t d, ZRow cfg t d r := by
  intro rows
  induction rows with
  | nil => intro tds _ h _; cases h; simp [shiftDT]
  | cons r1 rows ih =>
    intro tds below h hgap
    cases h with
    | cons hz1 hrest =>
      rename_i td1 tds'
      cases rows with
      | nil =>
        cases hrest
        simp only [shiftDT, List.isChain_singleton, List.map_cons, List.map_nil, List.mem_singleton, true_and]
        have hz := hz1.put_dI ok pk 0
        exact ⟨by rw [hz.1.2.1], fun r hr => by subst hr; exact ⟨_, _, hz⟩⟩
      | cons r2 rest =>
        cases hrest with
        | cons hz2 hrest2 =>
          rename_i td2 tds''
          obtain ⟨_, hd2, hgap'⟩ := hgap
          obtain ⟨ic, it, iz⟩ := ih (td2 :: tds'') td1.1 (List.Forall₂.cons hz2 hrest2) ⟨hd2, hgap'⟩
          have hz1' := hz1.put_dI ok pk td2.2
          have hget : r2.get cfg.dI = some td2.2 := hz2.2.1
          simp only [shiftDT]
          rw [hget]
          -- the head of the shifted rest has temperature td2.1
          have hhead : ∃ s srest, shiftDT cfg (r2 :: rest) = s :: srest ∧ s.get cfg.tI = some td2.1 := by
            cases hs : shiftDT cfg (r2 :: rest) with
            | nil => rw [hs] at it; simp at it
            | cons s srest =>
              rw [hs] at it
              simp only [List.map_cons, List.cons.injEq] at it
              exact ⟨s, srest, rfl, it.1⟩
          obtain ⟨s, srest, hs, hst⟩ := hhead
          refine ⟨?_, ?_, ?_⟩
          · rw [hs, List.isChain_cons_cons]
            rw [hs] at ic
            refine ⟨⟨td2.1, td1.1, hst, hz1'.1.2.1, by rw [← hd2]; exact hz1'.book, hz1'.1.1⟩, ic⟩
          · simp only [List.map_cons, hz1'.1.2.1, it]
          · intro r hr
            rcases List.mem_cons.mp hr with rfl | hr
            · exact ⟨_, _, hz1'⟩
            · exact iz r hr

/-- what the top block delivers: rows (hottest first) linked downwards, all zero rows, the lowest of
    them at temperature `a0`, and the old top row re-based on it -/
theorem topBlock_book (cfg : TblCfg) (ok : CfgOK cfg) (pk : PairsOK cfg) (nb : Row) (nbT d0 : Rat) (a0 : Rat) (asc : List Rat)
    (tops : List Rat) (hrev : tops.reverse = a0 :: asc) (hasc : (nbT :: a0 :: asc).Pairwise (fun a b => a < b))
    (hz : ZRow cfg nbT d0 nb) :
    let tb := topBlock cfg nb nbT tops
    List.IsChain (LinkR cfg) tb.1 ∧ (∀ r ∈ tb.1, ∃ t d, ZRow cfg t d r) ∧ tb.1 ≠ [] ∧
      (∀ x ∈ tb.1.getLast?, x.get cfg.tI = some a0) ∧ ZRow cfg nbT (a0 - nbT) tb.2 := by
  unfold topBlock
  rw [hrev]
  simp only
  have hbuilt := edgeChain_up cfg ok pk (a0 :: asc) nb nbT hz.numeric hasc
  have hgaps := gapsUp_upTD (a0 :: asc) nbT
  -- facts about the (possibly shifted) ascending rows
  have hsh : ∀ sh : List Row,
      (sh = edgeChain cfg nb nbT (a0 :: asc) ∧ (edgeChain cfg nb nbT (a0 :: asc)).length ≤ 1) ∨
      (sh = shiftDT cfg (edgeChain cfg nb nbT (a0 :: asc))) →
      List.IsChain (fun lower upper => LinkR cfg upper lower) sh ∧
      sh.map (fun r => r.get cfg.tI) = (upTD nbT (a0 :: asc)).map (fun td => some td.1) ∧
      ∀ r ∈ sh, ∃ t d, ZRow cfg t d r := by
    intro sh hcase
    rcases hcase with ⟨rfl, hlen⟩ | rfl
    · -- a single new row: kept as built
      cases asc with
      | nil =>
        simp only [edgeChain, upTD] at hbuilt ⊢
        cases hbuilt with
        | cons hz0 _ =>
          exact ⟨by simp, by simp [hz0.1.2.1], fun r hr => by simp at hr; subst hr; exact ⟨_, _, hz0⟩⟩
      | cons a1 asc' => simp [edgeChain] at hlen
    · exact shiftDT_chain cfg ok pk _ _ nbT hbuilt hgaps
  have hpick : (if (edgeChain cfg nb nbT (a0 :: asc)).length ≤ 1 then edgeChain cfg nb nbT (a0 :: asc)
      else shiftDT cfg (edgeChain cfg nb nbT (a0 :: asc))) = (if (edgeChain cfg nb nbT (a0 :: asc)).length ≤ 1 then edgeChain cfg nb nbT (a0 :: asc)
      else shiftDT cfg (edgeChain cfg nb nbT (a0 :: asc))) := rfl
  obtain ⟨hc, ht, hzr⟩ := hsh (if (edgeChain cfg nb nbT (a0 :: asc)).length ≤ 1 then edgeChain cfg nb nbT (a0 :: asc)
      else shiftDT cfg (edgeChain cfg nb nbT (a0 :: asc))) (by
    by_cases hl : (edgeChain cfg nb nbT (a0 :: asc)).length ≤ 1
    · rw [if_pos hl]; exact Or.inl ⟨rfl, hl⟩
    · rw [if_neg hl]; exact Or.inr rfl)
  set sh := (if (edgeChain cfg nb nbT (a0 :: asc)).length ≤ 1 then edgeChain cfg nb nbT (a0 :: asc)
      else shiftDT cfg (edgeChain cfg nb nbT (a0 :: asc))) with hshdef
  -- the head of the ascending rows sits at a0
  have hne : sh ≠ [] := by
    intro h0; rw [h0] at ht; simp [upTD] at ht
  refine ⟨List.isChain_reverse.mpr hc, fun r hr => hzr r (List.mem_reverse.mp hr), by simpa using hne, ?_, hz.put_dI ok pk (a0 - nbT)⟩
  intro x hx
  rw [List.getLast?_reverse] at hx
  cases hs : sh with
  | nil => exact absurd hs hne
  | cons s srest =>
    rw [hs] at hx ht
    simp only [List.head?_cons, Option.mem_def, Option.some.injEq] at hx
    subst hx
    simp only [upTD, List.map_cons, List.cons.injEq] at ht
    exact ht.1

/-- **The books survive any insertion** (also above the table): if the first row is a zero row (ΔT
    numeric, all heat capacities and enthalpy changes 0 — the top row of a problem table) and every
    later row is linked to the row above it, then in the table returned for ANY requested
    temperatures every row after the first is linked to the row above it and the first row keeps
    its books. -/
theorem insertTemps_book_full (cfg : TblCfg) (ok : CfgOK cfg) (pk : PairsOK cfg) (tol : Rat) (htol : 0 ≤ tol)
    (r0 : Row) (rest : List Row) (t0 d0 : Rat) (vals : List Rat)
    (hz0 : ZRow cfg t0 d0 r0) (hl : LinkedFrom cfg t0 rest) (out : List Row) (n : Nat)
    (he : insertTemps cfg tol (r0 :: rest) vals = .ok (out, n)) :
    ∃ h tail, out = h :: tail ∧ (∃ t d, Plain cfg t h ∧ Book cfg d h) ∧ List.IsChain (LinkR cfg) out := by
  have hp : Plain cfg t0 r0 := hz0.1
  obtain ⟨ts, hts, hlen, hin, hfin, hend⟩ := linked_temps cfg rest t0 hl
  have hT : temps cfg (r0 :: rest) = some (t0 :: ts) := by
    simp [temps, List.mapM_cons, Row.temp, hp.2.1, hts]
  unfold insertTemps at he
  rw [hT] at he
  simp only at he
  by_cases hsd : (!strictlyDesc (t0 :: ts)) = true
  · rw [if_pos hsd] at he; cases he
  rw [if_neg hsd] at he
  -- name the pieces
  set need := needInsert tol (t0 :: ts) vals with hneed
  set tLast := (t0 :: ts).getLast (List.cons_ne_nil _ _) with htLast
  set rLast := (r0 :: rest).getLast (List.cons_ne_nil _ _) with hrLast
  set tops := dedupeMono tol (sortDesc (need.filter fun v => decide (t0 < v))) with htops
  set bots := dedupeMono tol (sortDesc (need.filter fun v => decide (v < tLast))) with hbots
  set mid := need.filter (fun v => !(decide (t0 < v)) && !(decide (v < tLast))) with hmid
  -- the bottom block hangs below whatever precedes it
  have hbot : LinkedFrom cfg tLast (bottomBlock cfg rLast tLast bots) := by
    unfold bottomBlock
    apply edgeChain_linked_down cfg ok pk
    · cases hr : rest with
      | nil => simp only [hrLast, hr, List.getLast_singleton]; exact hz0.numeric
      | cons x xs =>
        have hmem : (r0 :: x :: xs).getLast (List.cons_ne_nil _ _) ∈ x :: xs := by
          rw [List.getLast_cons (List.cons_ne_nil _ _)]; exact List.getLast_mem _
        obtain ⟨d, hd⟩ := linked_mem_book cfg rest t0 hl rLast (by rw [hrLast]; simp only [hr]; exact hmem)
        exact book_numeric hd
    · apply List.pairwise_cons.mpr
      refine ⟨?_, dedupeMono_sortDesc_pairwise tol htol _⟩
      intro y hy
      have := mem_dedupe_sort_filter tol _ _ y hy
      simpa using this
  cases hrev : tops.reverse with
  | nil =>
    have htn : tops = [] := by simpa using hrev
    rw [htn] at he
    obtain ⟨h, tail, hw, hph, hbh, hlt, het⟩ := walk_book cfg ok pk tol mid (rest.zip ts) r0 t0 d0 hp hz0.book hin
    simp only [topBlock, List.reverse_nil, List.nil_append, hw] at he
    cases he
    have hlink : LinkedFrom cfg t0 (tail ++ bottomBlock cfg rLast tLast bots) := by
      apply linked_append cfg _ _ t0 hlt
      rw [het, hfin, hend, lastTemp_eq_getLast]
      exact hbot
    exact ⟨h, tail ++ bottomBlock cfg rLast tLast bots, by simp, ⟨t0, d0, hph, hbh⟩,
      by simpa using chain_of_linked cfg _ h t0 hph.2.1 hlink⟩
  | cons a0 asc =>
    -- the requested temperatures above the table, ascending from the old top row
    have hdesc : tops.Pairwise (fun a b => b < a) := dedupeMono_sortDesc_pairwise tol htol _
    have habove : ∀ y ∈ tops, t0 < y := by
      intro y hy
      have := mem_dedupe_sort_filter tol _ _ y hy
      simpa using this
    have hasc : (t0 :: a0 :: asc).Pairwise (fun a b => a < b) := by
      apply List.pairwise_cons.mpr
      constructor
      · intro y hy
        exact habove y (by rw [← List.mem_reverse, hrev]; exact hy)
      · rw [← hrev, List.pairwise_reverse]; exact hdesc
    obtain ⟨tc, tz, tne, tlast, tr0⟩ := topBlock_book cfg ok pk r0 t0 d0 a0 asc tops hrev hasc hz0
    set tb := topBlock cfg r0 t0 tops with htb
    obtain ⟨h, tail, hw, hph, hbh, hlt, het⟩ := walk_book cfg ok pk tol mid (rest.zip ts) tb.2 t0 (a0 - t0) tr0.1 tr0.book hin
    have he' : out = tb.1 ++ (h :: tail) ++ bottomBlock cfg rLast tLast bots := by
      rw [hw] at he
      cases he
      rfl
    have hlink : LinkedFrom cfg t0 (tail ++ bottomBlock cfg rLast tLast bots) := by
      apply linked_append cfg _ _ t0 hlt
      rw [het, hfin, hend, lastTemp_eq_getLast]
      exact hbot
    have hbody : List.IsChain (LinkR cfg) (h :: (tail ++ bottomBlock cfg rLast tLast bots)) :=
      chain_of_linked cfg _ h t0 hph.2.1 hlink
    cases htop : tb.1 with
    | nil => exact absurd htop tne
    | cons hTop tTop =>
      obtain ⟨tt, td, hzt⟩ := tz hTop (by rw [htop]; simp)
      refine ⟨hTop, tTop ++ (h :: tail) ++ bottomBlock cfg rLast tLast bots, by rw [he', htop]; simp,
        ⟨tt, td, hzt.1, hzt.book⟩, ?_⟩
      rw [he']
      have e : tb.1 ++ (h :: tail) ++ bottomBlock cfg rLast tLast bots
          = tb.1 ++ (h :: (tail ++ bottomBlock cfg rLast tLast bots)) := by simp
      rw [e, List.isChain_append]
      refine ⟨tc, hbody, ?_⟩
      intro x hx y hy
      simp only [List.head?_cons, Option.mem_def, Option.some.injEq] at hy
      subst hy
      exact ⟨a0, t0, tlast x hx, hph.2.1, hbh, hph.1⟩

end OP
