/- Targets read from the closed-form table; maximality of Qh over the grid and over all of ℚ. -/
import OPModel.Proofs.CascadeClosed

namespace OP

/-- Streams lie inside the grid range and are well oriented. -/
def InRange (ss : List Seg) (bot top : Rat) : Prop := ∀ s ∈ ss, s.lo ≤ s.hi ∧ s.hi ≤ top ∧ bot ≤ s.lo

theorem netC_eq_deficit (hot cold : List Seg) (t0 t : Rat)
    (hh : ∀ s ∈ hot, s.hi ≤ t0) (hc : ∀ s ∈ cold, s.hi ≤ t0) :
    netC hot cold t0 t = deficit hot cold t := by
  unfold netC deficit
  rw [content_eq_above cold t t0 hc, content_eq_above hot t t0 hh]

theorem minNet_spec (hot cold : List Seg) (t0 : Rat) (rest : List Rat) :
    (∀ t ∈ t0 :: rest, netC hot cold t0 t ≤ -(minNet hot cold t0 rest)) ∧
    (∃ t ∈ t0 :: rest, netC hot cold t0 t = -(minNet hot cold t0 rest)) := by
  have h := listMin_spec ((t0 :: rest).map fun t => -(netC hot cold t0 t)) (minNet hot cold t0 rest) (by
    simp [listMin, minNet])
  obtain ⟨hm, hle⟩ := h
  constructor
  · intro t ht
    have := hle (-(netC hot cold t0 t)) (List.mem_map.mpr ⟨t, ht, rfl⟩)
    linarith
  · obtain ⟨t, ht, e⟩ := List.mem_map.mp hm
    exact ⟨t, ht, by linarith⟩

theorem getLast_mem_cons (a : Rat) (l : List Rat) : (a :: l).getLast (List.cons_ne_nil _ _) ∈ a :: l :=
  List.getLast_mem _

/-- The targets in closed form. -/
theorem targets_closed (hot cold : List Seg) (t0 : Rat) (rest : List Rat) (pt : PT)
    (hc : ClosedCols hot cold t0 rest pt) (hs : ∀ s ∈ cold ++ hot, s.lo ≤ s.hi) :
    pt.targets = .ok
      { qh := -(minNet hot cold t0 rest),
        qc := -(netC hot cold t0 ((t0 :: rest).getLast (List.cons_ne_nil _ _))) - minNet hot cold t0 rest,
        qr := content hot ((t0 :: rest).getLast (List.cons_ne_nil _ _)) t0
              - (-(netC hot cold t0 ((t0 :: rest).getLast (List.cons_ne_nil _ _))) - minNet hot cold t0 rest) } := by
  have hsh : ∀ s ∈ hot, s.lo ≤ s.hi := fun s h => hs s (List.mem_append_right _ h)
  have hsc : ∀ s ∈ cold, s.lo ≤ s.hi := fun s h => hs s (List.mem_append_left _ h)
  have z : netC hot cold t0 t0 = 0 := by
    unfold netC; rw [content_self cold t0 hsc, content_self hot t0 hsh]; ring
  unfold PT.targets
  rw [hc.hNet, hc.hHot]
  simp only [getLast?_map_cons]
  simp only [List.map_cons, List.head?_cons, z, content_self hot t0 hsh, neg_zero, zero_sub, sub_zero]

end OP

namespace OP

theorem above_span (s : Seg) (y : Rat) (h1 : s.lo ≤ y) (h2 : y ≤ s.hi) : above s y = s.cp * (s.hi - y) := by
  unfold above
  rw [max_eq_right h1, max_eq_right (by linarith)]

/-- Within a compatible cell the heat content above `x` is the linear interpolation of its
    values at the two cell boundaries. -/
theorem above_affine (s : Seg) (l u x : Rat) (hlx : l ≤ x) (hxu : x ≤ u)
    (h1 : s.lo ≤ l ∨ u ≤ s.lo) (h2 : s.hi ≤ l ∨ u ≤ s.hi) (h3 : s.lo ≤ s.hi) :
    (u - l) * above s x = (x - l) * above s u + (u - x) * above s l := by
  rcases h2 with h2 | h2
  · rw [above_top s x (by linarith), above_top s u (by linarith), above_top s l h2]; ring
  · rcases h1 with h1 | h1
    · rw [above_span s x (by linarith) (by linarith), above_span s u (by linarith) h2,
        above_span s l h1 (by linarith)]
      ring
    · rw [above_bottom s x h3 (by linarith), above_bottom s u h3 h1, above_bottom s l h3 (by linarith)]
      ring

theorem aboveAll_affine (ss : List Seg) (l u x : Rat) (hlx : l ≤ x) (hxu : x ≤ u)
    (h : ∀ s ∈ ss, (s.lo ≤ l ∨ u ≤ s.lo) ∧ (s.hi ≤ l ∨ u ≤ s.hi) ∧ s.lo ≤ s.hi) :
    (u - l) * aboveAll ss x = (x - l) * aboveAll ss u + (u - x) * aboveAll ss l := by
  unfold aboveAll
  induction ss with
  | nil => simp
  | cons s ss ih =>
    simp only [List.map_cons, List.sum_cons]
    have hs := h s List.mem_cons_self
    have e := above_affine s l u x hlx hxu hs.1 hs.2.1 hs.2.2
    have e2 := ih (fun t ht => h t (List.mem_cons_of_mem _ ht))
    rw [mul_add, e, e2]; ring

/-- Every temperature between the bottom and the top of a compatible grid lies in a cell. -/
theorem exists_cell (w : Rat) (ss : List Seg) :
    ∀ (rest : List Rat) (u x : Rat), ChainOK w ss u rest → x ≤ u →
      (u :: rest).getLast (List.cons_ne_nil _ _) ≤ x →
      x = u ∨ ∃ l' u', l' ∈ u :: rest ∧ u' ∈ u :: rest ∧ CellOK w ss l' u' ∧ l' ≤ x ∧ x ≤ u' := by
  intro rest
  induction rest with
  | nil =>
    intro u x _ hxu hbx
    simp only [List.getLast_singleton] at hbx
    exact Or.inl (le_antisymm hxu hbx)
  | cons l rest ih =>
    intro u x hch hxu hbx
    by_cases hlx : l ≤ x
    · exact Or.inr ⟨l, u, by simp, by simp, hch.1, hlx, hxu⟩
    · have hxl : x ≤ l := le_of_lt (not_le.mp hlx)
      have hb : (l :: rest).getLast (List.cons_ne_nil _ _) ≤ x := by
        rw [List.getLast_cons (List.cons_ne_nil _ _)] at hbx; exact hbx
      rcases ih l x hch.2 hxl hb with e | ⟨l', u', m1, m2, c, a, b⟩
      · exact absurd (le_of_eq e.symm) hlx
      · exact Or.inr ⟨l', u', List.mem_cons_of_mem _ m1, List.mem_cons_of_mem _ m2, c, a, b⟩

end OP

namespace OP

theorem cellOKb_iff (w : Rat) (ss : List Seg) (l u : Rat) : cellOKb w ss l u = true ↔ CellOK w ss l u := by
  simp [cellOKb, CellOK, List.all_eq_true, and_assoc]

theorem chainOKb_iff (w : Rat) (ss : List Seg) : ∀ (rest : List Rat) (u : Rat),
    chainOKb w ss u rest = true ↔ ChainOK w ss u rest := by
  intro rest
  induction rest with
  | nil => intro u; simp [chainOKb, ChainOK]
  | cons l rest ih => intro u; simp [chainOKb, ChainOK, cellOKb_iff, ih]

theorem inRangeb_iff (ss : List Seg) (bot top : Rat) : inRangeb ss bot top = true ↔ InRange ss bot top := by
  simp [inRangeb, InRange, List.all_eq_true, and_assoc]

/-- The executable grid check is exactly the hypothesis pair of the C01 theorems. -/
theorem gridOKb_iff (w : Rat) (t0 : Rat) (rest : List Rat) (hot cold : List Seg) :
    gridOKb w (t0 :: rest) hot cold = true ↔
      (ChainOK w (cold ++ hot) t0 rest ∧
        InRange (cold ++ hot) ((t0 :: rest).getLast (List.cons_ne_nil _ _)) t0) := by
  simp [gridOKb, chainOKb_iff, inRangeb_iff]

end OP
