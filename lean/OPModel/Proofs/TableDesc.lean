/- C08: the rebuilt table is strictly descending again. -/
import OPModel.Proofs.TableInsert

namespace OP

theorem between_pairwise : ∀ (ms : List Pt) (hi lo : Rat), Between hi lo ms →
    ms.Pairwise (fun a b => b.1 < a.1) ∧ (∀ m ∈ ms, m.1 < hi ∧ lo < m.1) := by
  intro ms
  induction ms with
  | nil => intro hi lo _; exact ⟨List.Pairwise.nil, fun m hm => by cases hm⟩
  | cons m ms ih =>
    intro hi lo h
    obtain ⟨h1, h2, h3⟩ := h
    obtain ⟨p, q⟩ := ih m.1 lo h3
    refine ⟨List.pairwise_cons.mpr ⟨fun m' hm' => (q m' hm').1, p⟩, ?_⟩
    intro m' hm'
    rcases List.mem_cons.mp hm' with rfl | hm'
    · exact ⟨h1, h2⟩
    · exact ⟨lt_trans (q m' hm').1 h1, (q m' hm').2⟩

/-- The body is strictly descending and stays within the old range. -/
theorem walkPts_desc (tol : Rat) (htol : 0 ≤ tol) (mid : List Rat) :
    ∀ (P : List Pt) (p0 : Pt), (p0 :: P).Pairwise (fun a b => b.1 < a.1) →
      (walkPts tol mid p0 P).Pairwise (fun a b => b.1 < a.1) ∧
      (∀ q ∈ walkPts tol mid p0 P, q.1 ≤ p0.1 ∧ ((p0 :: P).getLast (List.cons_ne_nil _ _)).1 ≤ q.1) := by
  intro P
  induction P with
  | nil =>
    intro p0 _
    simp [walkPts]
  | cons p1 P ih =>
    intro p0 hp
    have h01 : p1.1 < p0.1 := (List.pairwise_cons.mp hp).1 p1 List.mem_cons_self
    obtain ⟨ihp, ihr⟩ := ih p1 (List.pairwise_cons.mp hp).2
    obtain ⟨bp, br⟩ := between_pairwise _ p0.1 p1.1 (bucket_between tol htol mid p0 p1 h01)
    have hlast : (p0 :: p1 :: P).getLast (List.cons_ne_nil _ _) = (p1 :: P).getLast (List.cons_ne_nil _ _) :=
      List.getLast_cons (List.cons_ne_nil _ _)
    simp only [walkPts]
    constructor
    · apply List.pairwise_cons.mpr
      constructor
      · intro q hq
        rcases List.mem_append.mp hq with h | h
        · exact (br q h).1
        · exact lt_of_le_of_lt (ihr q h).1 h01
      · apply List.pairwise_append.mpr
        refine ⟨bp, ihp, ?_⟩
        intro a ha b hb
        exact lt_of_le_of_lt (ihr b hb).1 (br a ha).2
    · intro q hq
      rw [hlast]
      rcases List.mem_cons.mp hq with rfl | hq
      · refine ⟨le_refl _, ?_⟩
        have := (ihr p1 (by obtain ⟨L, hL⟩ := walkPts_head tol mid p1 P; rw [hL]; exact List.mem_cons_self)).2
        exact le_trans this (le_of_lt h01)
      · rcases List.mem_append.mp hq with h | h
        · refine ⟨le_of_lt (br q h).1, ?_⟩
          have := (ihr p1 (by obtain ⟨L, hL⟩ := walkPts_head tol mid p1 P; rw [hL]; exact List.mem_cons_self)).2
          exact le_trans this (le_of_lt (br q h).2)
        · exact ⟨le_trans (ihr q h).1 (le_of_lt h01), (ihr q h).2⟩

end OP
