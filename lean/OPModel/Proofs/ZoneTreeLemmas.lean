/-
  C10 helpers, user-tree mode: label resolution returns a node of the tree, the child-naming loop
  always finds a free name, and rewriting keeps the invariant "every placed stream sits in a leaf".
-/
import OPModel.Proofs.ZoneLemmas

namespace OP

theorem resolveLabel_mem (paths : List ZPath) (root : String) (comps r : ZPath)
    (h : resolveLabel paths root comps = some r) : r ∈ paths := by
  unfold resolveLabel at h
  split_ifs at h with h1 h2
  · cases h; simpa using h1
  · cases h; simpa using h2
  · split at h
    · rename_i p hp
      cases h
      have : r ∈ paths.filter (fun p => decide (comps.length ≤ p.length) && comps.isSuffixOf p) := by
        rw [hp]; simp
      exact (List.mem_filter.mp this).1
    · cases h

/-! ### child names -/

theorem childName_inj (base : String) {a b : Nat} (ha : 1 ≤ a) (hb : 1 ≤ b)
    (h : childName base a = childName base b) : a = b := by
  unfold childName at h
  by_cases ha1 : a = 1 <;> by_cases hb1 : b = 1
  · omega
  · rw [if_pos ha1, if_neg hb1] at h
    exfalso
    have := congrArg String.length h
    have h1 : "_".length = 1 := by decide
    simp only [String.length_append, h1] at this
    omega
  · rw [if_neg ha1, if_pos hb1] at h
    exfalso
    have := congrArg String.length h
    have h1 : "_".length = 1 := by decide
    simp only [String.length_append, h1] at this
    omega
  · rw [if_neg ha1, if_neg hb1] at h
    have h' : base ++ ("_" ++ Nat.repr a) = base ++ ("_" ++ Nat.repr b) := by
      simpa [String.append_assoc] using h
    have h2 := (String.append_right_inj base).mp h'
    exact Nat.repr_injective ((String.append_right_inj "_").mp h2)

/-- the loop's test, read as membership in the sibling paths plus the node's own name as a pseudo-sibling -/
theorem freshChild_test (paths : List ZPath) (node : ZPath) (nodeName nm : String) :
    (paths.contains (node ++ [nm]) || nm == nodeName) = (paths ++ [node ++ [nodeName]]).contains (node ++ [nm]) := by
  rw [Bool.eq_iff_iff]
  simp only [Bool.or_eq_true, List.contains_iff_mem, beq_iff_eq, List.mem_append, List.mem_singleton]
  constructor
  · rintro (h | h)
    · exact Or.inl h
    · exact Or.inr (by rw [h])
  · rintro (h | h)
    · exact Or.inl h
    · exact Or.inr (by have := List.append_cancel_left h; simpa using this)

theorem freshChild_not_mem (paths : List ZPath) (node : ZPath) (nodeName base : String) :
    ∀ fuel c nm, freshChild paths node nodeName base fuel c = some nm → node ++ [nm] ∉ paths := by
  intro fuel
  induction fuel with
  | zero => intro c nm h; simp [freshChild] at h
  | succ n ih =>
    intro c nm h
    simp only [freshChild] at h
    split at h
    · exact ih _ _ h
    · rename_i hn
      cases h
      simp only [Bool.or_eq_true, List.contains_iff_mem, beq_iff_eq, not_or] at hn
      exact hn.1

theorem freshChild_none (paths : List ZPath) (node : ZPath) (nodeName base : String) :
    ∀ fuel c, freshChild paths node nodeName base fuel c = none →
      ∀ j, j < fuel → node ++ [childName base (c + j)] ∈ paths ++ [node ++ [nodeName]] := by
  intro fuel
  induction fuel with
  | zero => intro c _ j hj; omega
  | succ n ih =>
    intro c h j hj
    simp only [freshChild] at h
    split at h
    · rename_i hm
      cases j with
      | zero =>
        rw [freshChild_test] at hm
        simpa using hm
      | succ j =>
        have := ih (c + 1) h j (by omega)
        have e : c + 1 + j = c + (j + 1) := by omega
        rwa [e] at this
    · cases h

/-- the child-naming loop finds a free name within `len + 2` attempts -/
theorem freshChild_some (paths : List ZPath) (node : ZPath) (nodeName base : String) (fuel c : Nat)
    (hc : 1 ≤ c) (h : paths.length + 1 < fuel) : ∃ nm, freshChild paths node nodeName base fuel c = some nm := by
  cases hf : freshChild paths node nodeName base fuel c with
  | some nm => exact ⟨nm, rfl⟩
  | none =>
    exfalso
    have hall := freshChild_none paths node nodeName base fuel c hf
    let cs := (List.range fuel).map (fun j => node ++ [childName base (c + j)])
    have hnd : cs.Nodup := by
      apply List.Nodup.map_on
      · intro a _ b _ hab
        have h1 : [childName base (c + a)] = [childName base (c + b)] := List.append_cancel_left hab
        have := childName_inj base (by omega) (by omega) (List.singleton_inj.mp h1)
        omega
      · exact List.nodup_range
    have hsub : cs ⊆ paths ++ [node ++ [nodeName]] := by
      intro x hx
      simp only [cs, List.mem_map, List.mem_range] at hx
      obtain ⟨j, hj, rfl⟩ := hx
      exact hall j hj
    have hle := (List.subperm_of_subset hnd hsub).length_le
    simp only [cs, List.length_map, List.length_range, List.length_append, List.length_singleton] at hle
    omega

/-! ### the invariant of the rewriting -/

structure TInv (st : TBuild) : Prop where
  nodup : st.paths.Nodup
  closed : PrefClosed st.paths
  nonempty : ∀ p ∈ st.paths, p ≠ []
  leaf : ∀ z, some z ∈ st.zones → z ∈ st.paths ∧ kidsOf st.paths z = [] ∧ 1 < z.length

theorem kidsOf_append_single (paths : List ZPath) (p z : ZPath) :
    kidsOf (paths ++ [p]) z = kidsOf paths z ++ (if p.length = z.length + 1 ∧ z <+: p then [p] else []) := by
  unfold kidsOf isPre
  rw [List.filter_append]
  congr 1
  by_cases h : p.length = z.length + 1 ∧ z <+: p
  · rw [if_pos h]
    simp [List.filter_cons, h.1, List.isPrefixOf_iff_prefix.mpr h.2]
  · rw [if_neg h]
    simp only [List.filter_cons, List.filter_nil]
    rw [if_neg]
    simp only [Bool.and_eq_true, beq_iff_eq, List.isPrefixOf_iff_prefix]
    exact h

theorem rewriteOne_inv (root : String) (st st' : TBuild) (comps : ZPath) (sname : String)
    (h : TInv st) (he : rewriteOne root st comps sname = .ok st') :
    TInv st' ∧ st'.zones.length = st.zones.length + 1 ∧ (∀ p ∈ st.paths, p ∈ st'.paths) := by
  unfold rewriteOne at he
  by_cases hc : comps.isEmpty = true
  · rw [if_pos hc] at he
    cases he
    refine ⟨⟨h.nodup, h.closed, h.nonempty, ?_⟩, by simp, fun p hp => hp⟩
    intro z hz
    rcases List.mem_append.mp hz with hz | hz
    · exact h.leaf z hz
    · simp at hz
  · rw [if_neg hc] at he
    cases hr : resolveLabel st.paths root comps with
    | none =>
      rw [hr] at he
      cases he
      refine ⟨⟨h.nodup, h.closed, h.nonempty, ?_⟩, by simp, fun p hp => hp⟩
      intro z hz
      rcases List.mem_append.mp hz with hz | hz
      · exact h.leaf z hz
      · simp at hz
    | some r =>
      rw [hr] at he
      simp only at he
      have hrmem := resolveLabel_mem _ _ _ _ hr
      by_cases hstay : (decide (1 < r.length) && !hasKids st.paths r) = true
      · rw [if_pos hstay] at he
        cases he
        refine ⟨⟨h.nodup, h.closed, h.nonempty, ?_⟩, by simp, fun p hp => hp⟩
        intro z hz
        rcases List.mem_append.mp hz with hz | hz
        · exact h.leaf z hz
        · simp only [List.mem_singleton, Option.some.injEq] at hz
          subst hz
          simp only [Bool.and_eq_true, decide_eq_true_eq, Bool.not_eq_eq_eq_not, Bool.not_true] at hstay
          refine ⟨hrmem, ?_, hstay.1⟩
          have := hstay.2
          unfold hasKids at this
          simp only [Bool.not_eq_eq_eq_not, Bool.not_false] at this
          exact List.isEmpty_iff.mp this
      · rw [if_neg hstay] at he
        cases hf : freshChild st.paths r (r.getLast?.getD "") (if sname = "" then r.getLast?.getD "" ++ "_Process" else sname)
            (st.paths.length + 2) 1 with
        | none => rw [hf] at he; cases he
        | some nm =>
          rw [hf] at he
          cases he
          have hfresh := freshChild_not_mem _ _ _ _ _ _ _ hf
          have hrne : r ≠ [] := h.nonempty r hrmem
          -- r is the root or has sub-zones: no placed stream sits in it
          have hr_not_zone : ∀ z, some z ∈ st.zones → z ≠ r := by
            intro z hz hzr
            subst hzr
            obtain ⟨_, hk, hl⟩ := h.leaf z hz
            simp only [Bool.and_eq_true, decide_eq_true_eq, Bool.not_eq_eq_eq_not, Bool.not_true, not_and,
              Bool.not_eq_false] at hstay
            have := hstay hl
            unfold hasKids at this
            rw [hk] at this
            simp at this
          refine ⟨⟨?_, ?_, ?_, ?_⟩, by simp, fun p hp => List.mem_append_left _ hp⟩
          · exact List.Nodup.append h.nodup (by simp) (by simpa using hfresh)
          · intro p hp k hk
            rcases List.mem_append.mp hp with hp | hp
            · exact List.mem_append_left _ (h.closed p hp k hk)
            · simp only [List.mem_singleton] at hp
              subst hp
              have hlen : (r ++ [nm]).length = r.length + 1 := by simp
              by_cases hk' : k + 1 = r.length + 1
              · rw [hk', ← hlen, List.take_length]; simp
              · have hkr : k < r.length := by omega
                rw [List.take_append_of_le_length (by omega)]
                exact List.mem_append_left _ (h.closed r hrmem k hkr)
          · intro p hp
            rcases List.mem_append.mp hp with hp | hp
            · exact h.nonempty p hp
            · simp only [List.mem_singleton] at hp; subst hp; simp
          · intro z hz
            rcases List.mem_append.mp hz with hz | hz
            · obtain ⟨hm, hk, hl⟩ := h.leaf z hz
              refine ⟨List.mem_append_left _ hm, ?_, hl⟩
              rw [kidsOf_append_single, hk, if_neg]
              · rfl
              · rintro ⟨hlen, hpre⟩
                apply hr_not_zone z hz
                have hlen' : z.length = r.length := by simp at hlen; omega
                have hzr : z <+: r := List.prefix_of_prefix_length_le hpre (List.prefix_append r [nm]) (by omega)
                exact List.IsPrefix.eq_of_length_le hzr (by omega)
            · simp only [List.mem_singleton, Option.some.injEq] at hz
              subst hz
              refine ⟨by simp, ?_, by have := List.length_pos_iff.mpr hrne; simp; omega⟩
              rw [kidsOf_append_single, if_neg (by rintro ⟨hl, _⟩; omega), List.append_nil]
              -- a child of the new node among the old paths would make the new node an old path
              by_contra hne
              obtain ⟨q, hq⟩ := List.exists_mem_of_ne_nil _ hne
              rw [mem_kidsOf] at hq
              have := h.closed q hq.1 (r.length) (by have := hq.2.1; simp at this; omega)
              rw [show r.length + 1 = (r ++ [nm]).length by simp, take_of_prefix hq.2.2] at this
              exact hfresh this

theorem rewriteOne_total (root : String) (st : TBuild) (comps : ZPath) (sname : String) :
    ∃ st', rewriteOne root st comps sname = .ok st' := by
  unfold rewriteOne
  by_cases hc : comps.isEmpty = true
  · rw [if_pos hc]; exact ⟨_, rfl⟩
  · rw [if_neg hc]
    cases hr : resolveLabel st.paths root comps with
    | none => exact ⟨_, rfl⟩
    | some r =>
      simp only
      by_cases hstay : (decide (1 < r.length) && !hasKids st.paths r) = true
      · rw [if_pos hstay]; exact ⟨_, rfl⟩
      · rw [if_neg hstay]
        obtain ⟨nm, hnm⟩ := freshChild_some st.paths r (r.getLast?.getD "")
          (if sname = "" then r.getLast?.getD "" ++ "_Process" else sname) (st.paths.length + 2) 1 (le_refl 1) (by omega)
        rw [hnm]; exact ⟨_, rfl⟩

theorem rewriteAll_spec (root : String) : ∀ (ss : List (ZPath × String)) (st : TBuild), TInv st →
    ∃ st', rewriteAll root ss st = .ok st' ∧ TInv st' ∧ st'.zones.length = st.zones.length + ss.length := by
  intro ss
  induction ss with
  | nil => intro st h; exact ⟨st, rfl, h, by simp⟩
  | cons x ss ih =>
    intro st h
    obtain ⟨c, n⟩ := x
    obtain ⟨st1, h1⟩ := rewriteOne_total root st c n
    obtain ⟨hinv1, hlen1, _⟩ := rewriteOne_inv root st st1 c n h h1
    obtain ⟨st', h2, hinv', hlen'⟩ := ih st1 hinv1
    refine ⟨st', ?_, hinv', ?_⟩
    · simp only [rewriteAll, h1]; exact h2
    · rw [hlen', hlen1]; simp; omega

/-- a leaf in the strong sense: no path of the tree extends it -/
theorem tinv_leaf (st : TBuild) (h : TInv st) (z : ZPath) (hz : some z ∈ st.zones) (q : ZPath) (hq : q ∈ st.paths)
    (hpre : z <+: q) : q = z := by
  by_contra hne
  obtain ⟨_, hk, _⟩ := h.leaf z hz
  have hlen : z.length < q.length := by
    rcases Nat.lt_or_ge z.length q.length with h1 | h1
    · exact h1
    · exact absurd (List.IsPrefix.eq_of_length_le hpre h1).symm hne
  have hin : q.take (z.length + 1) ∈ kidsOf st.paths z := by
    rw [mem_kidsOf]
    refine ⟨h.closed q hq z.length hlen, by rw [List.length_take]; omega, ?_⟩
    rw [List.prefix_take_iff]
    exact ⟨hpre, by omega⟩
  rw [hk] at hin
  simp at hin

end OP
