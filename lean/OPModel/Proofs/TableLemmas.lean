/-
  Helper lemmas for C08: cells and rows, sorting of requests, and the "view" of the rebuilt
  table (temperature + interpolated cells of every row, in order).
-/
import OPModel.Model.Table
import Mathlib.Algebra.Order.Field.Rat
import Mathlib.Tactic.Linarith
import Mathlib.Tactic.ByContra

namespace OP

/-! ### cells -/

theorem Row.get_put (r : Row) (i j : Nat) (v : Cell) (h : i ≠ j) : (r.put i v).get j = r.get j := by
  simp [Row.get, Row.put, List.getElem?_set_ne h]

theorem Row.get_put_self (r : Row) (i : Nat) (v : Cell) (h : i < r.length) : (r.put i v).get i = v := by
  simp [Row.get, Row.put, List.getElem?_set_self h]

/-- Column layout sanity: `T`, `ΔT`, interpolated and ΔH columns are pairwise different and exist. -/
structure CfgOK (cfg : TblCfg) : Prop where
  tLt : cfg.tI < cfg.nCols
  dLt : cfg.dI < cfg.nCols
  td : cfg.tI ≠ cfg.dI
  tInterp : cfg.tI ∉ cfg.interp
  dInterp : cfg.dI ∉ cfg.interp
  interpLt : ∀ c ∈ cfg.interp, c < cfg.nCols
  dh : ∀ p ∈ cfg.pairs, p.2 ∉ cfg.interp ∧ p.2 ≠ cfg.tI ∧ p.2 ≠ cfg.dI

theorem recomputeDH_get (cfg : TblCfg) (r : Row) (c : Nat) (h : ∀ p ∈ cfg.pairs, p.2 ≠ c) :
    (recomputeDH cfg r).get c = r.get c := by
  unfold recomputeDH
  generalize cfg.pairs = ps at h
  induction ps generalizing r with
  | nil => rfl
  | cons p ps ih =>
    simp only [List.foldl_cons]
    rw [ih _ (fun q hq => h q (List.mem_cons_of_mem _ hq))]
    exact Row.get_put r p.2 c _ (h p List.mem_cons_self)

/-- What C08's curve clause looks at: the temperature and the interpolated cells of a row. -/
def view (cfg : TblCfg) (r : Row) : Cell × List Cell := (r.get cfg.tI, cfg.interp.map r.get)

theorem view_recomputeDH (cfg : TblCfg) (ok : CfgOK cfg) (r : Row) : view cfg (recomputeDH cfg r) = view cfg r := by
  unfold view
  congr 1
  · exact recomputeDH_get cfg r cfg.tI (fun p hp => (ok.dh p hp).2.1)
  · apply List.map_congr_left
    intro c hc
    exact recomputeDH_get cfg r c (fun p hp e => (ok.dh p hp).1 (e ▸ hc))

theorem view_put_dI (cfg : TblCfg) (ok : CfgOK cfg) (r : Row) (v : Cell) : view cfg (r.put cfg.dI v) = view cfg r := by
  unfold view
  congr 1
  · exact Row.get_put r cfg.dI cfg.tI v (Ne.symm ok.td)
  · apply List.map_congr_left
    intro c hc
    exact Row.get_put r cfg.dI c v (fun e => ok.dInterp (e ▸ hc))

/-! ### the interpolation formula of `_interpolate_heat_columns` -/

def linCell (tol : Rat) (upT loT t : Rat) (a b : Cell) : Cell :=
  if rabs (upT - loT) ≤ tol then b
  else
    match b, a with
    | none, _ => none
    | some b, none => some b
    | some b, some a => some (b + (t - loT) / (upT - loT) * (a - b))

theorem get_range_map (n : Nat) (f : Nat → Cell) (c : Nat) (h : c < n) :
    Row.get ((List.range n).map f) c = f c := by
  simp [Row.get, h]

theorem view_midRow (cfg : TblCfg) (ok : CfgOK cfg) (tol : Rat) (up lo : Row) (upT loT t : Rat) :
    view cfg (midRow cfg tol up lo upT loT t) =
      (some t, cfg.interp.map fun c => linCell tol upT loT t (up.get c) (lo.get c)) := by
  unfold view midRow
  congr 1
  · rw [get_range_map _ _ _ ok.tLt]; simp
  · apply List.map_congr_left
    intro c hc
    rw [get_range_map _ _ _ (ok.interpLt c hc)]
    have h1 : c ≠ cfg.tI := fun e => ok.tInterp (e ▸ hc)
    have h2 : c ≠ cfg.dI := fun e => ok.dInterp (e ▸ hc)
    have h3 : cfg.interp.contains c = true := List.contains_iff_mem.mpr hc
    simp only [h1, h2, h3, if_false, if_true, linCell]
    split_ifs
    · rfl
    · cases lo.get c <;> cases up.get c <;> rfl

theorem view_edgeRow (cfg : TblCfg) (ok : CfgOK cfg) (nb : Row) (t dt : Rat) :
    view cfg (edgeRow cfg nb t dt) = (some t, cfg.interp.map nb.get) := by
  unfold view edgeRow
  congr 1
  · rw [get_range_map _ _ _ ok.tLt]; simp
  · apply List.map_congr_left
    intro c hc
    rw [get_range_map _ _ _ (ok.interpLt c hc)]
    have h1 : c ≠ cfg.tI := fun e => ok.tInterp (e ▸ hc)
    have h2 : c ≠ cfg.dI := fun e => ok.dInterp (e ▸ hc)
    have h3 : cfg.interp.contains c = true := List.contains_iff_mem.mpr hc
    simp only [h1, h2, h3, if_false, if_true]

/-! ### views of the blocks -/

theorem view_withGaps (cfg : TblCfg) (ok : CfgOK cfg) :
    ∀ (l : List (Rat × Row)) (prevT : Rat),
      (withGaps cfg prevT l).map (view cfg) = l.map (fun p => view cfg p.2) := by
  intro l
  induction l with
  | nil => intro _; rfl
  | cons p rest ih =>
    intro prevT
    obtain ⟨t, r⟩ := p
    simp only [withGaps, List.map_cons, ih, view_recomputeDH cfg ok, view_put_dI cfg ok]

/-- The rows `midBlock` produces, seen through `view`. -/
theorem view_midBlock (cfg : TblCfg) (ok : CfgOK cfg) (tol : Rat) (up lo : Row) (upT loT : Rat) (ts : List Rat) :
    view cfg (midBlock cfg tol up lo upT loT ts).1 = view cfg up ∧
    (midBlock cfg tol up lo upT loT ts).2.1.map (view cfg) =
      ts.map (fun t => (some t, cfg.interp.map fun c => linCell tol upT loT t (up.get c) (lo.get c))) ∧
    view cfg (midBlock cfg tol up lo upT loT ts).2.2 = view cfg lo := by
  unfold midBlock
  cases h : ts.getLast? with
  | none =>
    have : ts = [] := List.getLast?_eq_none_iff.mp h
    subst this
    simp
  | some lastT =>
    simp only [view_recomputeDH cfg ok, view_put_dI cfg ok, view_withGaps cfg ok, List.map_map, true_and, and_true]
    apply List.map_congr_left
    intro t _
    exact view_midRow cfg ok tol up lo upT loT t

/-- The body of the rebuilt table (everything between the top and bottom blocks) in view form. -/
def walkView (cfg : TblCfg) (tol : Rat) (mid : List Rat) (up : Row) (upT : Rat) :
    List (Row × Rat) → List (Cell × List Cell)
  | [] => [view cfg up]
  | (lo, loT) :: rest =>
    view cfg up ::
      (bucket tol upT loT mid).map (fun t => (some t, cfg.interp.map fun c => linCell tol upT loT t (up.get c) (lo.get c)))
      ++ walkView cfg tol mid lo loT rest

theorem get_of_view_eq {cfg : TblCfg} {r r' : Row} (h : view cfg r = view cfg r') :
    ∀ c ∈ cfg.interp, r.get c = r'.get c := by
  intro c hc
  have := congrArg Prod.snd h
  simp only [view] at this
  exact List.map_inj_left.mp this c hc

/-- **Structure of the rebuilt table**: every original row is kept with its temperature and
    interpolated cells; between two original rows exactly the bucket of that interval is inserted,
    each new row carrying the linear interpolation between the two *original* neighbours. -/
theorem walk_view (cfg : TblCfg) (ok : CfgOK cfg) (tol : Rat) (mid : List Rat) :
    ∀ (pairs : List (Row × Rat)) (up up0 : Row) (upT : Rat), view cfg up = view cfg up0 →
      (walk cfg tol mid up upT pairs).map (view cfg) = walkView cfg tol mid up0 upT pairs := by
  intro pairs
  induction pairs with
  | nil => intro up up0 upT h; simp [walk, walkView, h]
  | cons p rest ih =>
    intro up up0 upT h
    obtain ⟨lo, loT⟩ := p
    obtain ⟨h1, h2, h3⟩ := view_midBlock cfg ok tol up lo upT loT (bucket tol upT loT mid)
    simp only [walk, walkView, List.map_cons, List.map_append]
    rw [h1, h, h2, ih _ lo loT h3]
    congr 2
    apply List.map_congr_left
    intro t _
    congr 1
    apply List.map_congr_left
    intro c hc
    rw [get_of_view_eq h c hc]

end OP
