/-
  C08: the rebuilt table, read one interpolated column at a time, is a refinement of the old
  polyline (old points kept, new points on the old segments or carrying the end values).
-/
import OPModel.Proofs.TableSorted
import OPModel.Proofs.PiecewiseLinear

namespace OP

/-- Temperature and one column of a row. -/
def cellPt (cfg : TblCfg) (c : Nat) (r : Row) : Cell × Cell := (r.get cfg.tI, r.get c)

def somePt (p : Pt) : Cell × Cell := (some p.1, some p.2)

/-- Read column `c` out of a view. -/
def projV (cfg : TblCfg) (c : Nat) (v : Cell × List Cell) : Cell × Cell :=
  (v.1, ((cfg.interp.zip v.2).lookup c).join)

theorem lookup_zip_map (g : Nat → Cell) (c : Nat) : ∀ (l : List Nat), c ∈ l →
    (l.zip (l.map g)).lookup c = some (g c) := by
  intro l
  induction l with
  | nil => intro h; cases h
  | cons a l ih =>
    intro h
    simp only [List.map_cons, List.zip_cons_cons, List.lookup_cons]
    by_cases e : c = a
    · subst e; simp
    · have : (c == a) = false := by simpa using e
      rw [this]
      rcases List.mem_cons.mp h with h | h
      · exact absurd h e
      · exact ih h

theorem projV_mk (cfg : TblCfg) (c : Nat) (hc : c ∈ cfg.interp) (T : Cell) (g : Nat → Cell) :
    projV cfg c (T, cfg.interp.map g) = (T, g c) := by
  simp [projV, lookup_zip_map g c cfg.interp hc]

theorem cellPt_eq_projV (cfg : TblCfg) (c : Nat) (hc : c ∈ cfg.interp) (r : Row) :
    cellPt cfg c r = projV cfg c (view cfg r) := by
  unfold view
  rw [projV_mk cfg c hc]
  rfl

/-- The body of the rebuilt table, one column. -/
def walkCells (cfg : TblCfg) (c : Nat) (tol : Rat) (mid : List Rat) (up : Row) (upT : Rat) :
    List (Row × Rat) → List (Cell × Cell)
  | [] => [cellPt cfg c up]
  | (lo, loT) :: rest =>
    cellPt cfg c up ::
      (bucket tol upT loT mid).map (fun t => (some t, linCell tol upT loT t (up.get c) (lo.get c)))
      ++ walkCells cfg c tol mid lo loT rest

theorem walkView_proj (cfg : TblCfg) (c : Nat) (hc : c ∈ cfg.interp) (tol : Rat) (mid : List Rat) :
    ∀ (pairs : List (Row × Rat)) (up : Row) (upT : Rat),
      (walkView cfg tol mid up upT pairs).map (projV cfg c) = walkCells cfg c tol mid up upT pairs := by
  intro pairs
  induction pairs with
  | nil => intro up upT; simp [walkView, walkCells, cellPt_eq_projV cfg c hc]
  | cons p rest ih =>
    intro up upT
    obtain ⟨lo, loT⟩ := p
    simp only [walkView, walkCells, List.map_cons, List.map_append, List.map_map, ih,
      cellPt_eq_projV cfg c hc]
    congr 2
    apply List.map_congr_left
    intro t _
    simp only [Function.comp]
    exact projV_mk cfg c hc (some t) (fun c => linCell tol upT loT t (up.get c) (lo.get c))

theorem walk_cells (cfg : TblCfg) (ok : CfgOK cfg) (c : Nat) (hc : c ∈ cfg.interp) (tol : Rat) (mid : List Rat)
    (pairs : List (Row × Rat)) (up up0 : Row) (upT : Rat) (h : view cfg up = view cfg up0) :
    (walk cfg tol mid up upT pairs).map (cellPt cfg c) = walkCells cfg c tol mid up0 upT pairs := by
  have : (walk cfg tol mid up upT pairs).map (cellPt cfg c)
      = ((walk cfg tol mid up upT pairs).map (view cfg)).map (projV cfg c) := by
    rw [List.map_map]
    apply List.map_congr_left
    intro r _
    exact cellPt_eq_projV cfg c hc r
  rw [this, walk_view cfg ok tol mid pairs up up0 upT h, walkView_proj cfg c hc]

/-! ### numeric form of the body -/

/-- Body points when temperatures and the column are numeric. -/
def walkPts (tol : Rat) (mid : List Rat) (p0 : Pt) : List Pt → List Pt
  | [] => [p0]
  | p1 :: rest => p0 :: (bucket tol p0.1 p1.1 mid).map (fun t => (t, lin p0 p1 t)) ++ walkPts tol mid p1 rest

theorem bucket_mem (tol hi lo : Rat) (mid : List Rat) : ∀ t ∈ bucket tol hi lo mid, lo + tol < t ∧ t < hi - tol := by
  intro t ht
  have := mem_dedupe_sort_filter tol mid _ t ht
  simp only [Bool.and_eq_true, decide_eq_true_eq, Bool.not_eq_true'] at this
  exact ⟨this.2, this.1.2⟩

theorem linCell_num (tol : Rat) (htol : 0 ≤ tol) (upT loT t a b : Rat) (h1 : loT + tol < t) (h2 : t < upT - tol) :
    linCell tol upT loT t (some a) (some b) = some (lin (upT, a) (loT, b) t) := by
  unfold linCell lin
  have : ¬ rabs (upT - loT) ≤ tol := by
    unfold rabs
    split
    · linarith
    · linarith
  rw [if_neg this]

theorem walkCells_num (cfg : TblCfg) (c : Nat) (tol : Rat) (htol : 0 ≤ tol) (mid : List Rat) :
    ∀ (pairs : List (Row × Rat)) (P : List Pt) (up : Row) (p0 : Pt),
      cellPt cfg c up = somePt p0 →
      pairs.map (fun p => cellPt cfg c p.1) = P.map somePt → pairs.map (·.2) = P.map (·.1) →
      walkCells cfg c tol mid up p0.1 pairs = (walkPts tol mid p0 P).map somePt := by
  intro pairs
  induction pairs with
  | nil =>
    intro P up p0 h0 hP _
    cases P with
    | nil => simp [walkCells, walkPts, h0]
    | cons _ _ => simp at hP
  | cons pr rest ih =>
    intro P up p0 h0 hP hT
    obtain ⟨lo, loT⟩ := pr
    cases P with
    | nil => simp at hP
    | cons p1 P' =>
      simp only [List.map_cons, List.cons.injEq] at hP hT
      obtain ⟨hlo, hP'⟩ := hP
      obtain ⟨hloT, hT'⟩ := hT
      subst hloT
      simp only [walkCells, walkPts, List.map_cons, List.map_append, List.map_map, h0]
      rw [ih P' lo p1 hlo hP' hT']
      congr 2
      apply List.map_congr_left
      intro t ht
      obtain ⟨b1, b2⟩ := bucket_mem tol p0.1 p1.1 mid t ht
      have hu : up.get c = some p0.2 := by
        have := congrArg Prod.snd h0; simpa [cellPt, somePt] using this
      have hl : lo.get c = some p1.2 := by
        have := congrArg Prod.snd hlo; simpa [cellPt, somePt] using this
      simp only [Function.comp, hu, hl, somePt]
      rw [linCell_num tol htol p0.1 p1.1 t p0.2 p1.2 b1 b2]

/-- Points of a bucket lie strictly between the two rows, in strictly descending order. -/
theorem bucket_between (tol : Rat) (htol : 0 ≤ tol) (mid : List Rat) (p0 p1 : Pt) (h01 : p1.1 < p0.1) :
    Between p0.1 p1.1 ((bucket tol p0.1 p1.1 mid).map (fun t => (t, lin p0 p1 t))) := by
  have hmem := bucket_mem tol p0.1 p1.1 mid
  have hpw : (bucket tol p0.1 p1.1 mid).Pairwise (fun a b => b < a) := by
    unfold bucket; exact dedupeMono_sortDesc_pairwise tol htol _
  generalize bucket tol p0.1 p1.1 mid = B at hmem hpw
  suffices ∀ (B : List Rat) (hi : Rat), p1.1 < hi → (∀ t ∈ B, p1.1 < t ∧ t < hi) →
      B.Pairwise (fun a b => b < a) → Between hi p1.1 (B.map (fun t => (t, lin p0 p1 t))) from
    this B p0.1 h01 (fun t ht => ⟨by have := (hmem t ht).1; linarith, by have := (hmem t ht).2; linarith⟩) hpw
  intro B
  induction B with
  | nil => intro hi h _ _; exact h
  | cons t B ih =>
    intro hi _ hm hp
    obtain ⟨h1, h2⟩ := hm t List.mem_cons_self
    refine ⟨h2, h1, ih t h1 ?_ (List.pairwise_cons.mp hp).2⟩
    intro t' ht'
    exact ⟨(hm t' (List.mem_cons_of_mem _ ht')).1, (List.pairwise_cons.mp hp).1 t' ht'⟩

theorem walkPts_head (tol : Rat) (mid : List Rat) (p0 : Pt) (P : List Pt) :
    ∃ L, walkPts tol mid p0 P = p0 :: L := by
  cases P with
  | nil => exact ⟨[], rfl⟩
  | cons p1 P => exact ⟨_, rfl⟩

/-- **The body keeps the polyline.** -/
theorem plAt_walkPts (tol : Rat) (htol : 0 ≤ tol) (mid : List Rat) :
    ∀ (P : List Pt) (p0 : Pt), (p0 :: P).Pairwise (fun a b => b.1 < a.1) →
      ∀ x, plAt (walkPts tol mid p0 P) x = plAt (p0 :: P) x := by
  intro P
  induction P with
  | nil => intro p0 _ x; rfl
  | cons p1 P ih =>
    intro p0 hp x
    have h01 : p1.1 < p0.1 := (List.pairwise_cons.mp hp).1 p1 List.mem_cons_self
    have hp' := (List.pairwise_cons.mp hp).2
    obtain ⟨L, hL⟩ := walkPts_head tol mid p1 P
    have ihx : ∀ x, plAt (p1 :: L) x = plAt (p1 :: P) x := by
      intro x; rw [← hL]; exact ih p1 hp' x
    simp only [walkPts]
    rw [hL]
    have e := plAt_prefix_congr p1 L P ihx (p0 :: (bucket tol p0.1 p1.1 mid).map (fun t => (t, lin p0 p1 t))) x
    rw [e]
    exact plAt_insert_many p1 P _ p0 (bucket_between tol htol mid p0 p1 h01)
      (by intro m hm; obtain ⟨t, _, rfl⟩ := List.mem_map.mp hm; rfl) x

end OP
