/- Helper lemmas for C06: first/last index with a property, in `getElem?` form. -/
import OPModel.Model.Pinch

namespace OP

/-- "row `i` exists and satisfies `p`". -/
def At (p : Rat → Bool) (xs : List Rat) (i : Nat) : Prop := ∃ x, xs[i]? = some x ∧ p x = true

theorem at_lt {p xs i} (h : At p xs i) : i < xs.length := by
  obtain ⟨x, hx, _⟩ := h
  exact (List.getElem?_eq_some_iff.mp hx).1

theorem first_some (p : Rat → Bool) (xs : List Rat) (i : Nat) (h : firstIdx p xs = some i) :
    At p xs i ∧ ∀ j, j < i → ¬ At p xs j := by
  unfold firstIdx at h
  obtain ⟨hi, hp, hn⟩ := List.findIdx?_eq_some_iff_getElem.mp h
  refine ⟨⟨xs[i], List.getElem?_eq_getElem hi, hp⟩, ?_⟩
  intro j hj ⟨x, hx, hpx⟩
  have hjl : j < xs.length := Nat.lt_trans hj hi
  rw [List.getElem?_eq_getElem hjl] at hx
  cases hx
  exact hn j hj hpx

theorem first_none (p : Rat → Bool) (xs : List Rat) (h : firstIdx p xs = none) :
    ∀ j, ¬ At p xs j := by
  unfold firstIdx at h
  intro j ⟨x, hx, hpx⟩
  have := List.findIdx?_eq_none_iff.mp h x (List.mem_of_getElem? hx)
  rw [this] at hpx
  cases hpx

theorem first_isSome (p : Rat → Bool) (xs : List Rat) (i : Nat) (h : At p xs i) :
    ∃ k, firstIdx p xs = some k := by
  cases hf : firstIdx p xs with
  | some k => exact ⟨k, rfl⟩
  | none => exact absurd h (first_none p xs hf i)

/-- Reading a reversed list. -/
theorem at_reverse (p : Rat → Bool) (xs : List Rat) (k : Nat) (hk : k < xs.length) :
    At p xs.reverse k ↔ At p xs (xs.length - 1 - k) := by
  unfold At
  rw [List.getElem?_reverse hk]

theorem last_some (p : Rat → Bool) (xs : List Rat) (l : Nat) (h : lastIdx p xs = some l) :
    At p xs l ∧ ∀ j, l < j → ¬ At p xs j := by
  unfold lastIdx at h
  cases hf : firstIdx p xs.reverse with
  | none => rw [hf] at h; cases h
  | some k =>
    rw [hf] at h
    simp only [Option.map_some, Option.some.injEq] at h
    obtain ⟨hk, hn⟩ := first_some p xs.reverse k hf
    have hkl : k < xs.length := by simpa using at_lt hk
    subst h
    refine ⟨(at_reverse p xs k hkl).mp hk, ?_⟩
    intro j hj hat
    have hjl := at_lt hat
    have hk' : xs.length - 1 - j < k := by omega
    have := hn (xs.length - 1 - j) hk'
    apply this
    rw [at_reverse p xs _ (by omega)]
    have e : xs.length - 1 - (xs.length - 1 - j) = j := by omega
    rw [e]; exact hat

theorem last_none (p : Rat → Bool) (xs : List Rat) (h : lastIdx p xs = none) : ∀ j, ¬ At p xs j := by
  unfold lastIdx at h
  cases hf : firstIdx p xs.reverse with
  | some k => rw [hf] at h; cases h
  | none =>
    intro j hat
    have hjl := at_lt hat
    apply first_none p xs.reverse hf (xs.length - 1 - j)
    rw [at_reverse p xs _ (by omega)]
    have e : xs.length - 1 - (xs.length - 1 - j) = j := by omega
    rw [e]; exact hat

theorem any_iff_at (p : Rat → Bool) (xs : List Rat) : xs.any p = true ↔ ∃ i, At p xs i := by
  constructor
  · intro h
    obtain ⟨x, hx, hp⟩ := List.any_eq_true.mp h
    obtain ⟨i, hi⟩ := List.getElem?_of_mem hx
    exact ⟨i, x, hi, hp⟩
  · intro ⟨i, x, hx, hp⟩
    exact List.any_eq_true.mpr ⟨x, List.mem_of_getElem? hx, hp⟩

theorem all_iff_at (p : Rat → Bool) (xs : List Rat) :
    xs.all p = true ↔ ∀ i, i < xs.length → At p xs i := by
  constructor
  · intro h i hi
    exact ⟨xs[i], List.getElem?_eq_getElem hi, List.all_eq_true.mp h _ (List.getElem_mem hi)⟩
  · intro h
    apply List.all_eq_true.mpr
    intro x hx
    obtain ⟨i, hi⟩ := List.getElem?_of_mem hx
    obtain ⟨y, hy, hp⟩ := h i (List.getElem?_eq_some_iff.mp hi).1
    rw [hi] at hy; cases hy; exact hp

/-- A row is zero or non-zero, not both. -/
theorem at_not (tol : Rat) (xs : List Rat) (i : Nat) (hi : i < xs.length) :
    At (fun x => !(isZero tol x)) xs i ↔ ¬ At (isZero tol) xs i := by
  unfold At
  rw [List.getElem?_eq_getElem hi]
  constructor
  · intro ⟨x, hx, hp⟩ ⟨y, hy, hq⟩
    cases hx; cases hy
    simp [hq] at hp
  · intro h
    refine ⟨xs[i], rfl, ?_⟩
    cases hz : isZero tol xs[i] with
    | false => simp [hz]
    | true => exact absurd ⟨xs[i], rfl, hz⟩ h

end OP
