/- C07 helpers: the pocket sweep never alters the GCC itself (any column other than H_np). -/
import OPModel.Model.Pockets
import OPModel.Properties.C08

namespace OP

theorem Except.bind_ok {ε α β : Type} {x : Except ε α} {f : α → Except ε β} {b : β}
    (h : (x >>= f) = .ok b) : ∃ a, x = .ok a ∧ f a = .ok b := by
  cases x with
  | error e => simp [bind, Except.bind] at h
  | ok a => exact ⟨a, rfl, h⟩

/-- Column `c` is numeric over strictly descending temperatures, with points `p0 :: P`. -/
def CurveInv (cfg : TblCfg) (c : Nat) (rows : List Row) (p0 : Pt) (P : List Pt) : Prop :=
  rows.map (cellPt cfg c) = (p0 :: P).map somePt ∧ (p0 :: P).Pairwise (fun a b => b.1 < a.1)

/-- `rows'` carries the same polyline in column `c` as the points `p0 :: P`. -/
def SameCurve (cfg : TblCfg) (c : Nat) (rows' : List Row) (p0 : Pt) (P : List Pt) : Prop :=
  ∃ q0 Q, CurveInv cfg c rows' q0 Q ∧ ∀ x, plAt (q0 :: Q) x = plAt (p0 :: P) x

theorem sameCurve_refl {cfg c rows p0 P} (h : CurveInv cfg c rows p0 P) : SameCurve cfg c rows p0 P :=
  ⟨p0, P, h, fun _ => rfl⟩

theorem sameCurve_trans {cfg c rows' p0 P q0 Q} (h1 : ∀ x, plAt (q0 :: Q) x = plAt (p0 :: P) x)
    (h2 : SameCurve cfg c rows' q0 Q) : SameCurve cfg c rows' p0 P := by
  obtain ⟨r0, R, hi, hp⟩ := h2
  exact ⟨r0, R, hi, fun x => by rw [hp x, h1 x]⟩

theorem flatten_cellPt (cfg : TblCfg) (c cNP : Nat) (h1 : cNP ≠ c) (h2 : cNP ≠ cfg.tI)
    (rows : List Row) (lo hi : Int) (v : Rat) :
    (flatten rows cNP lo hi v).map (cellPt cfg c) = rows.map (cellPt cfg c) := by
  unfold flatten
  rw [List.map_map]
  have : rows.map (cellPt cfg c) = (rows.zipIdx).map (fun p => cellPt cfg c p.1) := by
    conv_lhs => rw [← List.zipIdx_map_fst 0 rows]
    rw [List.map_map]; rfl
  rw [this]
  apply List.map_congr_left
  intro p _
  obtain ⟨r, k⟩ := p
  simp only [Function.comp]
  split_ifs
  · simp [cellPt, Row.get_put _ _ _ _ h1, Row.get_put _ _ _ _ h2]
  · rfl

theorem insert_sameCurve (cfg : TblCfg) (ok : CfgOK cfg) (tol : Rat) (htol : 0 ≤ tol) (c : Nat) (hc : c ∈ cfg.interp)
    (rows : List Row) (vals : List Rat) (p0 : Pt) (P : List Pt) (h : CurveInv cfg c rows p0 P)
    (out : List Row) (n : Nat) (he : insertTemps cfg tol rows vals = .ok (out, n)) : SameCurve cfg c out p0 P := by
  obtain ⟨out', q0, Q, e, hq, hd, hp⟩ := C08.curves_preserved cfg ok tol htol rows vals c hc p0 P h.1 h.2
  rw [e] at he
  cases he
  exact ⟨q0, Q, ⟨hq, hd⟩, hp⟩

end OP

namespace OP

theorem curveInv_flatten {cfg : TblCfg} {c cNP : Nat} (h1 : cNP ≠ c) (h2 : cNP ≠ cfg.tI)
    {rows : List Row} {p0 : Pt} {P : List Pt} (lo hi : Int) (v : Rat)
    (h : SameCurve cfg c rows p0 P) : SameCurve cfg c (flatten rows cNP lo hi v) p0 P := by
  obtain ⟨q0, Q, ⟨hq, hd⟩, hp⟩ := h
  exact ⟨q0, Q, ⟨by rw [flatten_cellPt cfg c cNP h1 h2]; exact hq, hd⟩, hp⟩

theorem closeInsert_curve (cfg : TblCfg) (ok : CfgOK cfg) (tol : Rat) (htol : 0 ≤ tol) (c : Nat) (hc : c ∈ cfg.interp)
    (cH : Nat) (above : Bool) (rows : List Row) (i0 e pinch : Int)
    (p0 : Pt) (P : List Pt) (h : CurveInv cfg c rows p0 P) (r : List Row × Nat)
    (he : closeInsert cfg tol cH above rows i0 e pinch = .ok r) : SameCurve cfg c r.1 p0 P := by
  unfold closeInsert at he
  by_cases hep : e ≠ pinch
  · rw [if_pos hep] at he
    obtain ⟨_, _, he⟩ := Except.bind_ok he
    obtain ⟨_, _, he⟩ := Except.bind_ok he
    obtain ⟨_, _, he⟩ := Except.bind_ok he
    obtain ⟨_, _, he⟩ := Except.bind_ok he
    obtain ⟨_, _, he⟩ := Except.bind_ok he
    obtain ⟨t0, _, he⟩ := Except.bind_ok he
    obtain ⟨r1, r2⟩ := r
    exact insert_sameCurve cfg ok tol htol c hc rows [t0] p0 P h r1 r2 he
  · rw [if_neg hep] at he
    cases he
    exact sameCurve_refl h

theorem pocketRows_curve (cfg : TblCfg) (ok : CfgOK cfg) (tol : Rat) (htol : 0 ≤ tol) (c : Nat) (hc : c ∈ cfg.interp)
    (cH cNP : Nat) (h1 : cNP ≠ c) (h2 : cNP ≠ cfg.tI) (above : Bool) (rows : List Row) (i0 e pinch : Int)
    (p0 : Pt) (P : List Pt) (h : CurveInv cfg c rows p0 P) (r : List Row × Nat)
    (he : pocketRows cfg tol cH cNP above rows i0 e pinch = .ok r) : SameCurve cfg c r.1 p0 P := by
  unfold pocketRows at he
  obtain ⟨r1, hx, he⟩ := Except.bind_ok he
  have hs1 := closeInsert_curve cfg ok tol htol c hc cH above rows i0 e pinch p0 P h r1 hx
  obtain ⟨h0, _, he⟩ := Except.bind_ok he
  cases he
  simp only
  by_cases ha : above = true
  · rw [if_pos ha]; exact curveInv_flatten h1 h2 _ _ _ hs1
  · rw [if_neg ha]; exact curveInv_flatten h1 h2 _ _ _ hs1

theorem sweepStep_curve (cfg : TblCfg) (ok : CfgOK cfg) (tol : Rat) (htol : 0 ≤ tol) (c : Nat) (hc : c ∈ cfg.interp)
    (cH cNP : Nat) (h1 : cNP ≠ c) (h2 : cNP ≠ cfg.tI) (above : Bool) (st : Sweep) (i pinch : Int)
    (p0 : Pt) (P : List Pt) (h : CurveInv cfg c st.rows p0 P) (r : Sweep × Int × Int)
    (he : sweepStep cfg tol cH cNP above st i pinch = .ok r) : SameCurve cfg c r.1.rows p0 P := by
  unfold sweepStep at he
  obtain ⟨hi, _, he⟩ := Except.bind_ok he
  obtain ⟨hn, _, he⟩ := Except.bind_ok he
  by_cases hcond : hi < hn - tol
  · rw [if_pos hcond] at he
    unfold pocketStep at he
    obtain ⟨e, _, he⟩ := Except.bind_ok he
    obtain ⟨r2, hpr, he⟩ := Except.bind_ok he
    have := pocketRows_curve cfg ok tol htol c hc cH cNP h1 h2 above st.rows i e pinch p0 P h r2 hpr
    cases he
    simp only
    split_ifs <;> exact this
  · rw [if_neg hcond] at he
    cases he
    exact sameCurve_refl h

theorem sweepLoop_curve (cfg : TblCfg) (ok : CfgOK cfg) (tol : Rat) (htol : 0 ≤ tol) (c : Nat) (hc : c ∈ cfg.interp)
    (cH cNP : Nat) (h1 : cNP ≠ c) (h2 : cNP ≠ cfg.tI) (above : Bool) :
    ∀ (fuel : Nat) (st : Sweep) (i pinch : Int) (p0 : Pt) (P : List Pt), CurveInv cfg c st.rows p0 P →
      ∀ st', sweepLoop cfg tol cH cNP above fuel st i pinch = .ok st' → SameCurve cfg c st'.rows p0 P := by
  intro fuel
  induction fuel with
  | zero =>
    intro st i pinch p0 P h st' he
    simp only [sweepLoop] at he
    cases he
    exact sameCurve_refl h
  | succ fuel ih =>
    intro st i pinch p0 P h st' he
    simp only [sweepLoop] at he
    obtain ⟨r, hstep, he⟩ := Except.bind_ok he
    have hs := sweepStep_curve cfg ok tol htol c hc cH cNP h1 h2 above st i pinch p0 P h r hstep
    obtain ⟨q0, Q, hinv, hp⟩ := hs
    by_cases hcond : (r.2.2 - r.2.1) * (if above = true then 1 else -1) ≤ 0
    · rw [if_pos hcond] at he
      cases he
      exact ⟨q0, Q, hinv, hp⟩
    · rw [if_neg hcond] at he
      exact sameCurve_trans hp (ih r.1 r.2.1 r.2.2 q0 Q hinv st' he)

theorem removePocketsSide_curve (cfg : TblCfg) (ok : CfgOK cfg) (tol : Rat) (htol : 0 ≤ tol) (c : Nat) (hc : c ∈ cfg.interp)
    (cH cNP : Nat) (h1 : cNP ≠ c) (h2 : cNP ≠ cfg.tI) (above : Bool) (st : Sweep)
    (p0 : Pt) (P : List Pt) (h : CurveInv cfg c st.rows p0 P) (st' : Sweep)
    (he : removePocketsSide cfg tol cH cNP above st = .ok st') : SameCurve cfg c st'.rows p0 P := by
  unfold removePocketsSide at he
  obtain ⟨hi, _, he⟩ := Except.bind_ok he
  by_cases hcond : hi < tol
  · rw [if_pos hcond] at he
    cases he; exact sameCurve_refl h
  · rw [if_neg hcond] at he
    exact sweepLoop_curve cfg ok tol htol c hc cH cNP h1 h2 above _ st _ _ p0 P h st' he

end OP
