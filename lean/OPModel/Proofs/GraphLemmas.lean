/- C13 helpers: the run segmentation of a GCC series tiles its range with homogeneous, maximal runs. -/
import OPModel.Model.Graphs
import Mathlib.Data.List.Chain
import Mathlib.Tactic.Linarith

namespace OP

theorem runEnd_spec (vtol : Rat) (x : Array Rat) (cls : SegClass) (e : Nat) :
    ∀ fuel nj, nj ≤ e →
      nj ≤ runEnd vtol x cls e fuel nj ∧ runEnd vtol x cls e fuel nj ≤ e ∧
      (∀ k, nj ≤ k → k < runEnd vtol x cls e fuel nj → classify vtol (diffAt x k) = cls) ∧
      (e - nj ≤ fuel → runEnd vtol x cls e fuel nj = e ∨
        classify vtol (diffAt x (runEnd vtol x cls e fuel nj)) ≠ cls) := by
  intro fuel
  induction fuel with
  | zero =>
    intro nj h
    refine ⟨le_refl _, h, fun k h1 h2 => by simp only [runEnd] at h2; omega, fun hf => Or.inl ?_⟩
    simp only [runEnd]; omega
  | succ fuel ih =>
    intro nj h
    unfold runEnd
    by_cases h1 : nj < e
    · rw [if_pos h1]
      by_cases h2 : classify vtol (diffAt x nj) = cls
      · rw [if_pos h2]
        obtain ⟨a, b, c, d⟩ := ih (nj + 1) (by omega)
        refine ⟨by omega, b, ?_, fun hf => d (by omega)⟩
        intro k hk1 hk2
        by_cases hk : k = nj
        · subst hk; exact h2
        · exact c k (by omega) hk2
      · rw [if_neg h2]
        exact ⟨le_refl _, h, fun k a b => by omega, fun _ => Or.inr h2⟩
    · rw [if_neg h1]
      exact ⟨le_refl _, h, fun k a b => by omega, fun _ => Or.inl (by omega)⟩

/-- the runs tile `[j, e]`: each starts where the previous one ended, none is empty -/
def Tiles : List (SegClass × Nat × Nat) → Nat → Nat → Prop
  | [], j, e => j = e
  | (_, a, b) :: rest, j, e => a = j ∧ a < b ∧ Tiles rest b e

theorem slices_tiles (vtol : Rat) (x : Array Rat) (e : Nat) :
    ∀ fuel j, j ≤ e → e - j ≤ fuel → Tiles (slices vtol x e fuel j) j e := by
  intro fuel
  induction fuel with
  | zero => intro j h1 h2; simp only [slices, Tiles]; omega
  | succ fuel ih =>
    intro j h1 h2
    unfold slices
    by_cases hj : j < e
    · rw [if_pos hj]
      obtain ⟨a, b, _, _⟩ := runEnd_spec vtol x (classify vtol (diffAt x j)) e (e - j) (j + 1) (by omega)
      simp only [Tiles]
      exact ⟨trivial, by omega, ih _ b (by omega)⟩
    · rw [if_neg hj]; simp only [Tiles]; omega

theorem slices_homogeneous (vtol : Rat) (x : Array Rat) (e : Nat) :
    ∀ fuel j, j ≤ e → ∀ t ∈ slices vtol x e fuel j, ∀ k, t.2.1 ≤ k → k < t.2.2 → classify vtol (diffAt x k) = t.1 := by
  intro fuel
  induction fuel with
  | zero => intro j _ t ht; simp [slices] at ht
  | succ fuel ih =>
    intro j h1 t ht k hk1 hk2
    unfold slices at ht
    by_cases hj : j < e
    · rw [if_pos hj] at ht
      obtain ⟨a, b, c, _⟩ := runEnd_spec vtol x (classify vtol (diffAt x j)) e (e - j) (j + 1) (by omega)
      rcases List.mem_cons.mp ht with rfl | ht
      · simp only at hk1 hk2 ⊢
        by_cases hk : k = j
        · subst hk; rfl
        · exact c k (by omega) hk2
      · exact ih _ b t ht k hk1 hk2
    · rw [if_neg hj] at ht; simp at ht

/-- neighbouring runs have different classes: every run is maximal -/
theorem slices_maximal (vtol : Rat) (x : Array Rat) (e : Nat) :
    ∀ fuel j, j ≤ e → e - j ≤ fuel → List.IsChain (fun a b => a.1 ≠ b.1) (slices vtol x e fuel j) := by
  intro fuel
  induction fuel with
  | zero => intro j _ _; simp [slices]
  | succ fuel ih =>
    intro j h1 h2
    unfold slices
    by_cases hj : j < e
    · rw [if_pos hj]
      obtain ⟨a, b, _, d⟩ := runEnd_spec vtol x (classify vtol (diffAt x j)) e (e - j) (j + 1) (by omega)
      have hrest := ih (runEnd vtol x (classify vtol (diffAt x j)) e (e - j) (j + 1)) b (by omega)
      simp only
      -- look at the head of the remaining runs
      cases fuel with
      | zero => simp [slices]
      | succ f =>
        unfold slices at hrest ⊢
        by_cases hn : runEnd vtol x (classify vtol (diffAt x j)) e (e - j) (j + 1) < e
        · rw [if_pos hn] at hrest ⊢
          simp only
          rw [List.isChain_cons_cons]
          refine ⟨?_, hrest⟩
          simp only
          rcases d (by omega) with h | h
          · omega
          · exact fun he => h he.symm
        · rw [if_neg hn]; simp
    · rw [if_neg hj]; simp

end OP
