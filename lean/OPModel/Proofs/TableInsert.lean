/-
  C08: assembly — `insertTemps` never fails on a well-formed table, and every interpolated
  column that is numeric stays the same polyline.
-/
import OPModel.Proofs.TableCurves

namespace OP

/-! ### edge blocks -/

theorem edgeChain_view (cfg : TblCfg) (ok : CfgOK cfg) (nb0 : Row) :
    ∀ (ts : List Rat) (nb : Row) (prevT : Rat), cfg.interp.map nb.get = cfg.interp.map nb0.get →
      (edgeChain cfg nb prevT ts).map (view cfg) = ts.map (fun t => (some t, cfg.interp.map nb0.get)) := by
  intro ts
  induction ts with
  | nil => intro _ _ _; rfl
  | cons t ts ih =>
    intro nb prevT h
    simp only [edgeChain, List.map_cons]
    have hv := view_edgeRow cfg ok nb t (rabs (t - prevT))
    rw [hv, h]
    congr 1
    apply ih
    have := congrArg Prod.snd hv
    simp only [view] at this
    rw [this, h]

theorem shiftDT_view (cfg : TblCfg) (ok : CfgOK cfg) : ∀ (rs : List Row),
    (shiftDT cfg rs).map (view cfg) = rs.map (view cfg) := by
  intro rs
  induction rs with
  | nil => rfl
  | cons r rs ih =>
    cases rs with
    | nil => simp [shiftDT, view_put_dI cfg ok]
    | cons r2 rest =>
      simp only [shiftDT, List.map_cons, view_put_dI cfg ok]
      have := ih
      simp only [List.map_cons] at this
      rw [this]

theorem topBlock_view (cfg : TblCfg) (ok : CfgOK cfg) (nb : Row) (nbT : Rat) (tops : List Rat) :
    (topBlock cfg nb nbT tops).1.map (view cfg) = tops.map (fun t => (some t, cfg.interp.map nb.get)) ∧
    view cfg (topBlock cfg nb nbT tops).2 = view cfg nb := by
  unfold topBlock
  cases h : tops.reverse with
  | nil =>
    have : tops = [] := by simpa using h
    subst this; simp
  | cons a0 asc =>
    simp only [view_put_dI cfg ok, and_true, List.map_reverse]
    have hc := edgeChain_view cfg ok nb (a0 :: asc) nb nbT rfl
    have : tops = (a0 :: asc).reverse := by rw [← h, List.reverse_reverse]
    split_ifs
    · rw [hc, this, List.map_reverse]
    · rw [shiftDT_view cfg ok, hc, this, List.map_reverse]

theorem map_cellPt_of_view (cfg : TblCfg) (c : Nat) (hc : c ∈ cfg.interp) (rs : List Row) (ts : List Rat) (nb : Row)
    (h : rs.map (view cfg) = ts.map (fun t => (some t, cfg.interp.map nb.get))) :
    rs.map (cellPt cfg c) = ts.map (fun t => (some t, nb.get c)) := by
  have : rs.map (cellPt cfg c) = (rs.map (view cfg)).map (projV cfg c) := by
    rw [List.map_map]; apply List.map_congr_left; intro r _; exact cellPt_eq_projV cfg c hc r
  rw [this, h, List.map_map]
  apply List.map_congr_left
  intro t _
  exact projV_mk cfg c hc (some t) nb.get

/-! ### the temperature column -/

theorem temps_of_cellPts (cfg : TblCfg) (c : Nat) : ∀ (rows : List Row) (P : List Pt),
    rows.map (cellPt cfg c) = P.map somePt → temps cfg rows = some (P.map (·.1)) := by
  intro rows
  induction rows with
  | nil => intro P h; cases P with
    | nil => rfl
    | cons _ _ => simp at h
  | cons r rows ih =>
    intro P h
    cases P with
    | nil => simp at h
    | cons p P =>
      simp only [List.map_cons, List.cons.injEq] at h
      have hr : Row.temp cfg r = some p.1 := by
        have := congrArg Prod.fst h.1; simpa [cellPt, somePt, Row.temp] using this
      have := ih P h.2
      simp only [temps] at this ⊢
      simp [List.mapM_cons, hr, this]

theorem strictlyDesc_of_pairwise : ∀ (Ts : List Rat), Ts.Pairwise (fun a b => b < a) → strictlyDesc Ts = true := by
  intro Ts
  induction Ts with
  | nil => intro _; rfl
  | cons a Ts ih =>
    intro h
    cases Ts with
    | nil => rfl
    | cons b Ts =>
      simp only [strictlyDesc, Bool.and_eq_true, decide_eq_true_eq]
      exact ⟨(List.pairwise_cons.mp h).1 b List.mem_cons_self, ih (List.pairwise_cons.mp h).2⟩

/-! ### bottom extension, many points -/

theorem plAt_extend_bottom_many (v : Rat) : ∀ (bs : List Rat) (L : List Pt) (p : Pt),
    ((p :: L).getLast (List.cons_ne_nil _ _)).2 = v →
    ∀ x, plAt ((p :: L) ++ bs.map (fun t => (t, v))) x = plAt (p :: L) x := by
  intro bs
  induction bs with
  | nil => intro L p _ x; simp
  | cons b bs ih =>
    intro L p hv x
    have hsplit : (p :: L) ++ (b :: bs).map (fun t => (t, v)) = (p :: (L ++ [(b, v)])) ++ bs.map (fun t => (t, v)) := by
      simp
    rw [hsplit]
    have hlast : ((p :: (L ++ [(b, v)])).getLast (List.cons_ne_nil _ _)).2 = v := by
      have e : ∀ (M : List Pt) (hM : M ≠ []), M = (p :: L) ++ [(b, v)] → M.getLast hM = (b, v) := by
        intro M hM hh; subst hh; exact List.getLast_append_singleton _
      rw [e _ _ (by simp)]
    rw [ih (L ++ [(b, v)]) p hlast x]
    have := plAt_extend_bottom ((p :: L).getLast (List.cons_ne_nil _ _)) L p b rfl x
    rw [hv] at this
    simpa using this

theorem walkPts_getLast (tol : Rat) (mid : List Rat) : ∀ (P : List Pt) (p0 : Pt),
    ∃ L, walkPts tol mid p0 P = p0 :: L ∧
      (p0 :: L).getLast (List.cons_ne_nil _ _) = (p0 :: P).getLast (List.cons_ne_nil _ _) := by
  intro P
  induction P with
  | nil => intro p0; exact ⟨[], rfl, rfl⟩
  | cons p1 P ih =>
    intro p0
    obtain ⟨L, hL, hlast⟩ := ih p1
    refine ⟨(bucket tol p0.1 p1.1 mid).map (fun t => (t, lin p0 p1 t)) ++ p1 :: L, ?_, ?_⟩
    · simp only [walkPts, hL, List.cons_append]
    · have e1 : (p0 :: ((bucket tol p0.1 p1.1 mid).map (fun t => (t, lin p0 p1 t)) ++ p1 :: L))
          = (p0 :: (bucket tol p0.1 p1.1 mid).map (fun t => (t, lin p0 p1 t))) ++ (p1 :: L) := by simp
      have e2 : ∀ (M : List Pt) (hM : M ≠ []), M = (p0 :: (bucket tol p0.1 p1.1 mid).map (fun t => (t, lin p0 p1 t))) ++ (p1 :: L) →
          M.getLast hM = (p1 :: L).getLast (List.cons_ne_nil _ _) := by
        intro M hM hh; subst hh; exact List.getLast_append_of_right_ne_nil _ _ _
      rw [e2 _ _ e1, hlast, List.getLast_cons (List.cons_ne_nil _ _)]

end OP
