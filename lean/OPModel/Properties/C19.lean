/-
  C19 — Stream and stream-collection objects stay consistent under any use.
  Property theorems only; helper lemmas live in `OPModel/Proofs`.
  All statements are about the executable models `OP.Stream` / `OP.Coll`
  (tied to `OpenPinch/classes/stream.py`, `stream_collection.py` by the
  correspondence check of `harness/opv/props/c19.py`).
-/
import OPModel.Proofs.StreamInv
import OPModel.Proofs.CollInv
import OPModel.Gen.Constants

namespace OP.C19
open OP OP.Stream

/-- One setter call on a consistent stream never raises and leaves it consistent. -/
theorem step_consistent (iso : Rat) (hiso : 0 < iso) (s : Stream) (op : Op) (h : Consistent s) :
    (step iso s op).2 = none ∧ Consistent (step iso s op).1 := by
  obtain ⟨ts, tt, lo, hi, k, f1, f2, _⟩ := h.oriented
  cases op with
  | setTs v =>
    obtain ⟨a, b, _⟩ := update_consistent iso hiso { s with ts := some v } v tt rfl f2
    exact ⟨a, b⟩
  | setTt v =>
    obtain ⟨a, b, _⟩ := update_consistent iso hiso { s with tt := some v } ts v f1 rfl
    exact ⟨a, b⟩
  | setDt v =>
    obtain ⟨a, b, _⟩ := update_consistent iso hiso { s with dt := v } ts tt f1 f2
    exact ⟨a, b⟩
  | setQ v =>
    obtain ⟨a, b, _⟩ := update_consistent iso hiso { s with q := v } ts tt f1 f2
    exact ⟨a, b⟩
  | setHtc v =>
    obtain ⟨a, b, _⟩ := update_consistent iso hiso { s with htc := v } ts tt f1 f2
    exact ⟨a, b⟩
  | setHeatFlow v => exact setHeatFlow_consistent s v h

/-- The constructor with both temperatures given never raises and yields a consistent stream
    (including `t_supply = t_target`, any sign of duty, `htc = 0`). -/
theorem new_consistent (iso : Rat) (hiso : 0 < iso) (ts tt dt q htc price : Rat) :
    (new iso (some ts) (some tt) dt q htc price).2 = none ∧
    Consistent (new iso (some ts) (some tt) dt q htc price).1 := by
  unfold new
  obtain ⟨a, b, _⟩ := update_consistent iso hiso
    { ts := some ts, tt := some tt, dt := dt, q := q, htc := if htc = 0 then 1 else htc,
      htr := 1 / (if htc = 0 then 1 else htc), price := price } ts tt rfl rfl
  exact ⟨a, b⟩

/-- **Every reachable state**: any finite sequence of setter calls, in any order, on a
    constructed stream runs without exception and ends in a consistent stream. -/
theorem run_consistent (iso : Rat) (hiso : 0 < iso) (ops : List Op) :
    ∀ s, Consistent s → (run iso s ops).2 = none ∧ Consistent (run iso s ops).1 := by
  induction ops with
  | nil => intro s h; exact ⟨rfl, h⟩
  | cons op ops ih =>
    intro s h
    obtain ⟨e, c⟩ := step_consistent iso hiso s op h
    unfold run
    generalize hst : step iso s op = r at e c
    obtain ⟨s', o⟩ := r
    cases o with
    | none => exact ih s' c
    | some x => cases e

/-- CP × temperature span = duty, for every reachable state. -/
theorem cp_times_span_eq_duty (s : Stream) (h : Consistent s) :
    ∃ cp lo hi, s.cp = some cp ∧ s.tmin = some lo ∧ s.tmax = some hi ∧ cp * (hi - lo) = s.q := by
  obtain ⟨_, _, lo, hi, _, _, _, f3, f4, _⟩ := h.oriented
  obtain ⟨cp, hc, he⟩ := h.duty lo hi f3 f4
  exact ⟨cp, lo, hi, hc, f3, f4, he⟩

/-- Minimum temperature strictly below maximum temperature. -/
theorem tmin_lt_tmax (s : Stream) (h : Consistent s) :
    ∃ lo hi, s.tmin = some lo ∧ s.tmax = some hi ∧ lo < hi := by
  obtain ⟨_, _, lo, hi, _, _, _, f3, f4, _, hlt, _⟩ := h.oriented
  exact ⟨lo, hi, f3, f4, hlt⟩

/-- Shifted bounds are the real bounds moved by the contribution in the direction of the
    stream's kind (down for hot, up for cold), and the kind is that of the current
    supply/target orientation. -/
theorem shift_direction_matches_kind (s : Stream) (h : Consistent s) :
    ∃ ts tt lo hi k, s.ts = some ts ∧ s.tt = some tt ∧ s.typ = some k ∧ (k = .hot ↔ tt < ts) ∧
      s.tmin = some lo ∧ s.tmax = some hi ∧
      s.tminS = some (match k with | .hot => lo - s.dt | .cold => lo + s.dt) ∧
      s.tmaxS = some (match k with | .hot => hi - s.dt | .cold => hi + s.dt) := by
  obtain ⟨ts, tt, lo, hi, k, f1, f2, f3, f4, f5, _, _, _, f9, f10, f11⟩ := h.oriented
  refine ⟨ts, tt, lo, hi, k, f1, f2, f5, f9, f3, f4, ?_, ?_⟩
  · cases k <;> simpa [shiftOf] using f10
  · cases k <;> simpa [shiftOf] using f11

/-- Resistance is the reciprocal of the film coefficient (whenever that is defined). -/
theorem htr_is_reciprocal (s : Stream) (h : Consistent s) (h0 : s.htc ≠ 0) : s.htr = 1 / s.htc :=
  h.htr h0

/-- **Where a latent load sits.**  A stream entered with equal supply and target temperature `T` is given a
    band of width `iso`: `[T, T + iso]` when it is cold (duty ≥ 0), `[T − iso, T]` when it is hot (duty < 0) —
    a condensing stream is never treated as hotter than its supply temperature.  (Seeded change
    C01-isothermal-hot-band-above puts the hot band at `[T, T + iso]`.) -/
theorem isothermal_band (iso : Rat) (hiso : 0 < iso) (T dt q htc price : Rat) :
    (0 ≤ q → (new iso (some T) (some T) dt q htc price).1.tmin = some T ∧
             (new iso (some T) (some T) dt q htc price).1.tmax = some (T + iso)) ∧
    (q < 0 → (new iso (some T) (some T) dt q htc price).1.tmax = some T ∧
             (new iso (some T) (some T) dt q htc price).1.tmin = some (T - iso)) := by
  have hne : (T + iso) - T ≠ 0 := by linarith
  have hne' : T - (T - iso) ≠ 0 := by linarith
  constructor
  · intro hq
    simp only [new, update, orient, hq, setCold, setHot, Stream.setCp, calcHtr, calcUtCost, lt_irrefl, if_false, if_true]
    split_ifs <;> exact ⟨rfl, rfl⟩
  · intro hq
    have : ¬ 0 ≤ q := not_le.mpr hq
    simp only [new, update, orient, this, setCold, setHot, Stream.setCp, calcHtr, calcUtCost, lt_irrefl, if_false, if_true]
    split_ifs <;> exact ⟨rfl, rfl⟩

/-- The generated isothermal offset is positive, so the theorems above apply to the code's constant. -/
theorem isoOffset_pos : 0 < Gen.isoOffset := by decide +kernel

/-- Non-vacuity: a concrete history through a re-orientation and an isothermal step. -/
example : (run Gen.isoOffset (new Gen.isoOffset (some 100) (some 50) 5 500 2 40).1
    [.setTs 20, .setHeatFlow 300, .setTt 20, .setDt 3]).2 = none := by decide +kernel

/-! ## Collections -/
open OP.Coll

/-- Insertion never loses or replaces a member: with `prevent_overwrite` (the default) `add`
    cannot fail, the members afterwards are exactly the old members plus the new one, and the
    reported length grows by one — whatever keys clash (the renaming loop always terminates). -/
theorem add_never_loses (c : Coll) (h : Coll.Inv c) (o : Obj) (key : Option String) :
    ∃ c', c.add o key true = .ok c' ∧ c'.values = c.values ++ [o] ∧ c'.len = c.len + 1 ∧ Coll.Inv c' := by
  obtain ⟨c', e, v, l, i, _⟩ := add_prevent_spec c o key h
  exact ⟨c', e, v, l, i⟩

theorem add_many_never_loses (c : Coll) (h : Coll.Inv c) (os : List Obj) :
    ∃ c', c.addMany os true = .ok c' ∧ c'.values = c.values ++ os ∧ c'.len = c.len + os.length ∧ Coll.Inv c' := by
  obtain ⟨c', e, v, l, i, _⟩ := addMany_prevent_spec os c h
  exact ⟨c', e, v, l, i⟩

/-- Every operation preserves the invariant (unique keys, valid sort cache). -/
theorem applyOp_inv (c : Coll) (h : Coll.Inv c) (op : COp) : Coll.Inv (c.applyOp op) := by
  cases op with
  | add o key p =>
    cases p with
    | true =>
      obtain ⟨c', e, _, _, i, _⟩ := add_prevent_spec c o key h
      simp only [applyOp, e]; exact i
    | false =>
      obtain ⟨c', e, i⟩ := add_overwrite_inv c o key h
      simp only [applyOp, e]; exact i
  | addMany os p =>
    cases p with
    | true =>
      obtain ⟨c', e, _, _, i, _⟩ := addMany_prevent_spec os c h
      simp only [applyOp, e]; exact i
    | false =>
      obtain ⟨c', e, i⟩ := addMany_overwrite_inv os c h
      simp only [applyOp, e]; exact i
  | remove k =>
    simp only [applyOp]
    cases hr : c.remove k with
    | ok c' => exact (remove_inv c k h c' hr).1
    | error _ => exact h
  | replace os => exact replace_inv c os
  | setSortKey k r => exact setSortKey_inv c k r h
  | iter => exact (ensureSorted_spec c h).1
  | getIndex o =>
    simp only [applyOp, getIndex_fst]
    exact (ensureSorted_spec c h).1
  | getItem i =>
    simp only [applyOp, getItemInt_fst]
    exact (ensureSorted_spec c h).1

/-- **Every reachable state** of a collection satisfies the invariant. -/
theorem reachable_inv (ops : List COp) : Coll.Inv (ops.foldl applyOp {}) := by
  suffices ∀ c : Coll, Coll.Inv c → Coll.Inv (ops.foldl applyOp c) from this {} inv_empty
  induction ops with
  | nil => intro c h; exact h
  | cons op ops ih => intro c h; exact ih _ (applyOp_inv c h op)

/-- Iteration yields exactly the members (a permutation of them), in the order of the sort key,
    and as many as `len` reports. -/
theorem iter_is_sorted_members (c : Coll) (h : Coll.Inv c) :
    c.iter.2.Perm c.values ∧ c.iter.2.length = c.len ∧
    c.iter.2.Pairwise (fun a b => if c.rev then c.key.le b a = true else c.key.le a b = true) := by
  obtain ⟨_, hc, _, _, _⟩ := ensureSorted_spec c h
  obtain ⟨hp, hs⟩ := sortObjs_spec c.key c.rev c.values
  simp only [iter, hc]
  exact ⟨hp, by rw [hp.length_eq]; simp [values, len], hs⟩

/-- … in particular after any history of operations. -/
theorem history_iter_sorted (ops : List COp) :
    let c := ops.foldl applyOp {}
    c.iter.2.Perm c.values ∧ c.iter.2.length = c.len ∧
    c.iter.2.Pairwise (fun a b => if c.rev then c.key.le b a = true else c.key.le a b = true) :=
  iter_is_sorted_members _ (reachable_inv ops)

/-- Concatenation never fails and holds every member of both operands, in order. -/
theorem concat_holds_all (a b : Coll) :
    ∃ c, Coll.concat a b = .ok c ∧ c.values = a.values ++ b.values ∧ c.len = a.len + b.len ∧ Coll.Inv c := by
  obtain ⟨c1, e1, v1, l1, i1, _⟩ := addMany_prevent_spec a.values {} inv_empty
  obtain ⟨c2, e2, v2, l2, i2, _⟩ := addMany_prevent_spec b.values c1 i1
  refine ⟨c2, ?_, ?_, ?_, i2⟩
  · simp only [Coll.concat, e1]; exact e2
  · rw [v2, v1]; simp [values]
  · rw [l2, l1]; simp [values, len]

/-- Non-vacuity: three clashing names. -/
example : (([COp.add ⟨1, "a", 10, 20⟩ none true, .add ⟨2, "a", 30, 5⟩ none true,
    .add ⟨3, "a_1", 30, 7⟩ none true].foldl applyOp {}).keys) = ["a", "a_1", "a_1_1"] := by decide +kernel

end OP.C19
