/-
  C09 — Total-site targets are additive over zones and bracketed by bounds.

  `sumTargets` / `sumDuties` model `_sum_subzone_targets`; `siteTargets` the total-site read-out.
  Proved: the total-process record is the field-wise sum; the total-site hot (cold) target never
  exceeds the summed hot (cold) utility duties — hence, with allocation closure (C03), never the
  sum of the zones' targets; the heat-recovery formula.  The LOWER bound (total-site targets are
  not below the site's own direct-integration targets) is NOT a theorem for the code: it needs
  feasibility of every zone's utility profile (C04) and is decided by the oracle.
-/
import OPModel.Properties.C02

namespace OP.C09
open OP

/-- The total-process record equals the sum of the zones' targets, value by value. -/
theorem tz_is_sum (ts : List Targets) :
    (sumTargets ts).qh = (ts.map (·.qh)).sum ∧ (sumTargets ts).qc = (ts.map (·.qc)).sum ∧
    (sumTargets ts).qr = (ts.map (·.qr)).sum := sumTargets_fields ts

/-- **Upper bounds**: with non-negative duties the total-site hot target is at most the summed
    hot utility duty and the cold target at most the summed cold utility duty. -/
theorem ts_le_sum (tol w : Rat) (hw : 0 ≤ w) (htw : tol ≤ w) (hotU coldU : List Seg) (tz : Targets)
    (t0 : Rat) (rest : List Rat)
    (hr : InRange (coldU ++ hotU) ((t0 :: rest).getLast (List.cons_ne_nil _ _)) t0)
    (hch : ChainOK w (coldU ++ hotU) t0 rest) (hcp : ∀ s ∈ coldU ++ hotU, 0 ≤ s.cp) :
    ∃ t, siteTargets tol w (t0 :: rest) hotU coldU tz = .ok t ∧ t.qh ≤ total hotU ∧ t.qc ≤ total coldU := by
  have hs : ∀ s ∈ coldU ++ hotU, s.lo ≤ s.hi := fun s h => (hr s h).1
  have hhi_h : ∀ s ∈ hotU, s.hi ≤ t0 := fun s h => (hr s (List.mem_append_right _ h)).2.1
  have hhi_c : ∀ s ∈ coldU, s.hi ≤ t0 := fun s h => (hr s (List.mem_append_left _ h)).2.1
  have hc' : ∀ s ∈ coldU, 0 ≤ s.cp ∧ s.lo ≤ s.hi :=
    fun s h => ⟨hcp s (List.mem_append_left _ h), (hr s (List.mem_append_left _ h)).1⟩
  have hh' : ∀ s ∈ hotU, 0 ≤ s.cp ∧ s.lo ≤ s.hi :=
    fun s h => ⟨hcp s (List.mem_append_right _ h), (hr s (List.mem_append_right _ h)).1⟩
  obtain ⟨t, ht, hbal, _, _, _⟩ := C02.ts_balance tol w hw htw hotU coldU tz t0 rest hr hch
  -- re-open the read-out to bound Qh_TS by the maximum of hot-above minus cold-above
  obtain ⟨pt, hpt, hc⟩ := problemTable_closed tol w hw htw hotU coldU t0 rest hs hch
  obtain ⟨m, hm⟩ : ∃ m, listMax pt.hNet = some m := by rw [hc.hNet]; exact ⟨_, rfl⟩
  obtain ⟨hmem, _⟩ := listMax_spec pt.hNet m hm
  have hsh : ∀ s ∈ hotU, s.lo ≤ s.hi := fun s h => hs s (List.mem_append_right _ h)
  have hsc : ∀ s ∈ coldU, s.lo ≤ s.hi := fun s h => hs s (List.mem_append_left _ h)
  have z : netC hotU coldU t0 t0 = 0 := by
    unfold netC; rw [content_self coldU t0 hsc, content_self hotU t0 hsh]; ring
  have hqh : t.qh = m - (-(netC hotU coldU t0 t0) - minNet hotU coldU t0 rest) := by
    have : siteTargets tol w (t0 :: rest) hotU coldU tz = .ok
        { qh := m - (-(netC hotU coldU t0 t0) - minNet hotU coldU t0 rest),
          qc := m - (-(netC hotU coldU t0 ((t0 :: rest).getLast (List.cons_ne_nil _ _))) - minNet hotU coldU t0 rest),
          qr := tz.qr + (tz.qh - (m - (-(netC hotU coldU t0 t0) - minNet hotU coldU t0 rest))) } := by
      have hhead : pt.hNet.head? = some (-(netC hotU coldU t0 t0) - minNet hotU coldU t0 rest) := by
        rw [hc.hNet]; rfl
      have hlast : pt.hNet.getLast? = some (-(netC hotU coldU t0 ((t0 :: rest).getLast (List.cons_ne_nil _ _))) - minNet hotU coldU t0 rest) := by
        rw [hc.hNet, getLast?_map_cons]
      simp only [siteTargets, siteUtilityColumn, hpt, hm, bind, Except.bind, pure, Except.pure,
        List.head?_map, List.getLast?_map, hhead, hlast, Option.map_some]
    rw [this] at ht
    cases ht; rfl
  have hqh_le : t.qh ≤ total hotU := by
    rw [hqh, z]
    rw [hc.hNet] at hmem
    obtain ⟨x, _, hx⟩ := List.mem_map.mp hmem
    rw [← hx, netC_eq_deficit hotU coldU t0 x hhi_h hhi_c]
    unfold deficit
    have := (aboveAll_bounds hotU x hh').2
    have := (aboveAll_bounds coldU x hc').1
    linarith
  refine ⟨t, ht, hqh_le, ?_⟩
  -- Qc_TS = Qh_TS − ΣHU + ΣCU, and Qh_TS = max (HU above − CU above) ≤ ΣHU − ... gives Qc_TS ≤ ΣCU
  rw [hc.hNet] at hmem
  obtain ⟨x, _, hx⟩ := List.mem_map.mp hmem
  have hqh' : t.qh = -(deficit hotU coldU x) := by
    rw [hqh, z, ← hx, netC_eq_deficit hotU coldU t0 x hhi_h hhi_c]; ring
  unfold deficit at hqh'
  have h1 := (aboveAll_bounds hotU x hh').2
  have h2 := (aboveAll_bounds coldU x hc').1
  linarith

/-- Total-site heat recovery = summed zonal recovery + hot utility saved. -/
theorem ts_qr_formula (tol w : Rat) (T : List Rat) (hotU coldU : List Seg) (tz t : Targets)
    (h : siteTargets tol w T hotU coldU tz = .ok t) : t.qr = tz.qr + (tz.qh - t.qh) := by
  unfold siteTargets at h
  obtain ⟨ut, _, h⟩ := Except.bind_ok' h
  split at h
  · cases h; rfl
  · cases h
where
  Except.bind_ok' {ε α β : Type} {x : Except ε α} {f : α → Except ε β} {b : β}
      (h : (x >>= f) = .ok b) : ∃ a, x = .ok a ∧ f a = .ok b := by
    cases x with
    | error e => simp [bind, Except.bind] at h
    | ok a => exact ⟨a, rfl, h⟩

end OP.C09
