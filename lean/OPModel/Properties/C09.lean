/-
  C09 — Total-site targets are additive over zones and bracketed by bounds.

  `sumTargets` / `sumDuties` model `_sum_subzone_targets`; `siteTargets` the total-site read-out.
  Proved: the total-process record is the field-wise sum; the total-site hot (cold) target never
  exceeds the summed hot (cold) utility duties — hence, with allocation closure (C03), never the
  sum of the zones' targets; the heat-recovery formula; and the LOWER bound (total-site targets are
  not below the site's own direct-integration targets) for every site whose zones' utility
  profiles are feasible (C04: above every temperature the net utility heat covers the zone's net
  deficit) and close (C03) — `ts_ge_di_of_feasible`, with `feasible_sum` carrying the hypothesis
  from the zones to the site.  Whether the code's zone profiles ARE feasible is C04's question; a
  change that breaks it (seeded C09-glide-cap-max) falsifies the hypothesis, not the theorem, and
  is found by the oracle.
-/
import OPModel.Properties.C02
import OPModel.Proofs.DeficitAll

namespace OP.C09
open OP

/-- The total-process record equals the sum of the zones' targets, value by value. -/
theorem tz_is_sum (ts : List Targets) :
    (sumTargets ts).qh = (ts.map (·.qh)).sum ∧ (sumTargets ts).qc = (ts.map (·.qc)).sum ∧
    (sumTargets ts).qr = (ts.map (·.qr)).sum := sumTargets_fields ts

/-- **Upper bounds**: with non-negative duties the total-site hot target is at most the summed
    hot utility duty and the cold target at most the summed cold utility duty. -/
theorem ts_le_sum (tol w : Rat) (hw : 0 ≤ w) (htw : tol ≤ w) (hotU coldU : List Seg) (tz : Targets)
    (t0 : Rat) (rest : List Rat)
    (hr : InRange (coldU ++ hotU) ((t0 :: rest).getLast (List.cons_ne_nil _ _)) t0)
    (hch : ChainOK w (coldU ++ hotU) t0 rest) (hcp : ∀ s ∈ coldU ++ hotU, 0 ≤ s.cp) :
    ∃ t, siteTargets tol w (t0 :: rest) hotU coldU tz = .ok t ∧ t.qh ≤ total hotU ∧ t.qc ≤ total coldU := by
  have hs : ∀ s ∈ coldU ++ hotU, s.lo ≤ s.hi := fun s h => (hr s h).1
  have hhi_h : ∀ s ∈ hotU, s.hi ≤ t0 := fun s h => (hr s (List.mem_append_right _ h)).2.1
  have hhi_c : ∀ s ∈ coldU, s.hi ≤ t0 := fun s h => (hr s (List.mem_append_left _ h)).2.1
  have hc' : ∀ s ∈ coldU, 0 ≤ s.cp ∧ s.lo ≤ s.hi :=
    fun s h => ⟨hcp s (List.mem_append_left _ h), (hr s (List.mem_append_left _ h)).1⟩
  have hh' : ∀ s ∈ hotU, 0 ≤ s.cp ∧ s.lo ≤ s.hi :=
    fun s h => ⟨hcp s (List.mem_append_right _ h), (hr s (List.mem_append_right _ h)).1⟩
  obtain ⟨t, ht, hbal, _, _, _⟩ := C02.ts_balance tol w hw htw hotU coldU tz t0 rest hr hch
  -- re-open the read-out to bound Qh_TS by the maximum of hot-above minus cold-above
  obtain ⟨pt, hpt, hc⟩ := problemTable_closed tol w hw htw hotU coldU t0 rest hs hch
  obtain ⟨m, hm⟩ : ∃ m, listMax pt.hNet = some m := by rw [hc.hNet]; exact ⟨_, rfl⟩
  obtain ⟨hmem, _⟩ := listMax_spec pt.hNet m hm
  have hsh : ∀ s ∈ hotU, s.lo ≤ s.hi := fun s h => hs s (List.mem_append_right _ h)
  have hsc : ∀ s ∈ coldU, s.lo ≤ s.hi := fun s h => hs s (List.mem_append_left _ h)
  have z : netC hotU coldU t0 t0 = 0 := by
    unfold netC; rw [content_self coldU t0 hsc, content_self hotU t0 hsh]; ring
  have hqh : t.qh = m - (-(netC hotU coldU t0 t0) - minNet hotU coldU t0 rest) := by
    have : siteTargets tol w (t0 :: rest) hotU coldU tz = .ok
        { qh := m - (-(netC hotU coldU t0 t0) - minNet hotU coldU t0 rest),
          qc := m - (-(netC hotU coldU t0 ((t0 :: rest).getLast (List.cons_ne_nil _ _))) - minNet hotU coldU t0 rest),
          qr := tz.qr + (tz.qh - (m - (-(netC hotU coldU t0 t0) - minNet hotU coldU t0 rest))) } := by
      have hhead : pt.hNet.head? = some (-(netC hotU coldU t0 t0) - minNet hotU coldU t0 rest) := by
        rw [hc.hNet]; rfl
      have hlast : pt.hNet.getLast? = some (-(netC hotU coldU t0 ((t0 :: rest).getLast (List.cons_ne_nil _ _))) - minNet hotU coldU t0 rest) := by
        rw [hc.hNet, getLast?_map_cons]
      simp only [siteTargets, siteUtilityColumn, hpt, hm, bind, Except.bind, pure, Except.pure,
        List.head?_map, List.getLast?_map, hhead, hlast, Option.map_some]
    rw [this] at ht
    cases ht; rfl
  have hqh_le : t.qh ≤ total hotU := by
    rw [hqh, z]
    rw [hc.hNet] at hmem
    obtain ⟨x, _, hx⟩ := List.mem_map.mp hmem
    rw [← hx, netC_eq_deficit hotU coldU t0 x hhi_h hhi_c]
    unfold deficit
    have := (aboveAll_bounds hotU x hh').2
    have := (aboveAll_bounds coldU x hc').1
    linarith
  refine ⟨t, ht, hqh_le, ?_⟩
  -- Qc_TS = Qh_TS − ΣHU + ΣCU, and Qh_TS = max (HU above − CU above) ≤ ΣHU − ... gives Qc_TS ≤ ΣCU
  rw [hc.hNet] at hmem
  obtain ⟨x, _, hx⟩ := List.mem_map.mp hmem
  have hqh' : t.qh = -(deficit hotU coldU x) := by
    rw [hqh, z, ← hx, netC_eq_deficit hotU coldU t0 x hhi_h hhi_c]; ring
  unfold deficit at hqh'
  have h1 := (aboveAll_bounds hotU x hh').2
  have h2 := (aboveAll_bounds coldU x hc').1
  linarith

/-- On every row of the utility grid the total-site hot target covers the net utility deficit
    (hot utility heat used above the row minus cold utility heat raised above it). -/
theorem ts_qh_grid (tol w : Rat) (hw : 0 ≤ w) (htw : tol ≤ w) (hotU coldU : List Seg) (tz : Targets)
    (t0 : Rat) (rest : List Rat)
    (hr : InRange (coldU ++ hotU) ((t0 :: rest).getLast (List.cons_ne_nil _ _)) t0)
    (hch : ChainOK w (coldU ++ hotU) t0 rest) :
    ∃ t, siteTargets tol w (t0 :: rest) hotU coldU tz = .ok t ∧
      t.qh - t.qc = total hotU - total coldU ∧
      ∀ x ∈ t0 :: rest, deficit coldU hotU x ≤ t.qh := by
  have hs : ∀ s ∈ coldU ++ hotU, s.lo ≤ s.hi := fun s h => (hr s h).1
  have hhi_h : ∀ s ∈ hotU, s.hi ≤ t0 := fun s h => (hr s (List.mem_append_right _ h)).2.1
  have hhi_c : ∀ s ∈ coldU, s.hi ≤ t0 := fun s h => (hr s (List.mem_append_left _ h)).2.1
  obtain ⟨t, ht, hbal, _, _, _⟩ := C02.ts_balance tol w hw htw hotU coldU tz t0 rest hr hch
  obtain ⟨pt, hpt, hc⟩ := problemTable_closed tol w hw htw hotU coldU t0 rest hs hch
  obtain ⟨m, hm⟩ : ∃ m, listMax pt.hNet = some m := by rw [hc.hNet]; exact ⟨_, rfl⟩
  obtain ⟨_, hle⟩ := listMax_spec pt.hNet m hm
  have hsh : ∀ s ∈ hotU, s.lo ≤ s.hi := fun s h => hs s (List.mem_append_right _ h)
  have hsc : ∀ s ∈ coldU, s.lo ≤ s.hi := fun s h => hs s (List.mem_append_left _ h)
  have z : netC hotU coldU t0 t0 = 0 := by
    unfold netC; rw [content_self coldU t0 hsc, content_self hotU t0 hsh]; ring
  have hqh : t.qh = m - (-(netC hotU coldU t0 t0) - minNet hotU coldU t0 rest) := by
    have : siteTargets tol w (t0 :: rest) hotU coldU tz = .ok
        { qh := m - (-(netC hotU coldU t0 t0) - minNet hotU coldU t0 rest),
          qc := m - (-(netC hotU coldU t0 ((t0 :: rest).getLast (List.cons_ne_nil _ _))) - minNet hotU coldU t0 rest),
          qr := tz.qr + (tz.qh - (m - (-(netC hotU coldU t0 t0) - minNet hotU coldU t0 rest))) } := by
      have hhead : pt.hNet.head? = some (-(netC hotU coldU t0 t0) - minNet hotU coldU t0 rest) := by
        rw [hc.hNet]; rfl
      have hlast : pt.hNet.getLast? = some (-(netC hotU coldU t0 ((t0 :: rest).getLast (List.cons_ne_nil _ _))) - minNet hotU coldU t0 rest) := by
        rw [hc.hNet, getLast?_map_cons]
      simp only [siteTargets, siteUtilityColumn, hpt, hm, bind, Except.bind, pure, Except.pure,
        List.head?_map, List.getLast?_map, hhead, hlast, Option.map_some]
    rw [this] at ht
    cases ht; rfl
  refine ⟨t, ht, hbal, ?_⟩
  intro x hx
  have hmem : -(netC hotU coldU t0 x) - minNet hotU coldU t0 rest ∈ pt.hNet := by
    rw [hc.hNet]; exact List.mem_map.mpr ⟨x, hx, rfl⟩
  have := hle _ hmem
  rw [netC_eq_deficit hotU coldU t0 x hhi_h hhi_c] at this
  rw [hqh, z]
  unfold deficit at this ⊢
  linarith

/-- **Lower bound** — indirect recovery through the utility system cannot beat direct recovery.
    `hot`, `cold`: all process streams of the site (shifted); `hotU`, `coldU`: the utility segments the
    zones ask for.  If above EVERY temperature the net utility heat covers the site's net process
    deficit (`hfeas`: the zones' utility profiles are feasible, C04) and the duties close the balance
    (`hclose`: C03 with C02), then the total-site targets are at least the site's own
    direct-integration targets, on any pair of admissible grids. -/
theorem ts_ge_di_of_feasible (tol w : Rat) (hw : 0 ≤ w) (htw : tol ≤ w)
    (hot cold hotU coldU : List Seg) (tz : Targets)
    (p0 : Rat) (prest : List Rat)
    (hrp : InRange (cold ++ hot) ((p0 :: prest).getLast (List.cons_ne_nil _ _)) p0)
    (hchp : ChainOK w (cold ++ hot) p0 prest)
    (u0 : Rat) (urest : List Rat)
    (hru : InRange (coldU ++ hotU) ((u0 :: urest).getLast (List.cons_ne_nil _ _)) u0)
    (hchu : ChainOK w (coldU ++ hotU) u0 urest)
    (hfeas : ∀ x : Rat, deficit hot cold x ≤ aboveAll hotU x - aboveAll coldU x)
    (hclose : total hotU - total coldU = total cold - total hot) :
    ∃ d t, directTargets tol w (p0 :: prest) hot cold = .ok d ∧
      siteTargets tol w (u0 :: urest) hotU coldU tz = .ok t ∧ d.qh ≤ t.qh ∧ d.qc ≤ t.qc := by
  obtain ⟨d, hd, _, ⟨xa, hxa⟩, _, hdqc, _⟩ := C01.di_targets_exact tol w hw htw hot cold p0 prest hrp hchp
  obtain ⟨t, ht, hbal, hgrid⟩ := ts_qh_grid tol w hw htw hotU coldU tz u0 urest hru hchu
  have hall := deficit_le_of_grid w hw coldU hotU u0 urest (InRange.swap hru) (ChainOK.swap urest u0 hchu) t.qh hgrid
  have h1 : d.qh ≤ t.qh := by
    have := hall xa
    have := hfeas xa
    unfold deficit at *
    linarith
  refine ⟨d, t, hd, ht, h1, ?_⟩
  linarith

/-- Feasibility is additive: if every zone's utility profile covers the zone's deficit above `x`,
    the site's utility segments cover the site's deficit above `x`. -/
theorem feasible_sum (zones : List (List Seg × List Seg × List Seg × List Seg)) (x : Rat)
    (h : ∀ z ∈ zones, deficit z.1 z.2.1 x ≤ aboveAll z.2.2.1 x - aboveAll z.2.2.2 x) :
    deficit (zones.map (·.1)).flatten (zones.map (·.2.1)).flatten x ≤
      aboveAll (zones.map (·.2.2.1)).flatten x - aboveAll (zones.map (·.2.2.2)).flatten x := by
  induction zones with
  | nil => simp [deficit, aboveAll]
  | cons z zs ih =>
    have hz := h z (by simp)
    have hr := ih (fun z' hz' => h z' (by simp [hz']))
    simp only [List.map_cons, List.flatten_cons]
    unfold deficit at *
    rw [aboveAll_append, aboveAll_append, aboveAll_append, aboveAll_append]
    linarith

/-- Non-vacuity of the lower bound (the site of seeded change C09-glide-cap-max, shifted scale):
    process deficit and the code's own utility segments at the top of the feed heater. -/
example : deficit [⟨191, 200, 2000 / 9, 2000 / 9⟩] [⟨210, 250, 100, 100⟩, ⟨105, 155, 20, 20⟩] 210 = 4000 ∧
    aboveAll [⟨294, 295, 318182 / 100, 318182 / 100⟩, ⟨155, 255, 181818 / 10000, 181818 / 10000⟩] 210
      - aboveAll [⟨189, 190, 0, 0⟩] 210 ≥ 4000 := by
  constructor <;> (simp only [deficit, aboveAll, above, List.map_cons, List.map_nil, List.sum_cons, List.sum_nil]; norm_num)

/-- Total-site heat recovery = summed zonal recovery + hot utility saved. -/
theorem ts_qr_formula (tol w : Rat) (T : List Rat) (hotU coldU : List Seg) (tz t : Targets)
    (h : siteTargets tol w T hotU coldU tz = .ok t) : t.qr = tz.qr + (tz.qh - t.qh) := by
  unfold siteTargets at h
  obtain ⟨ut, _, h⟩ := Except.bind_ok' h
  split at h
  · cases h; rfl
  · cases h
where
  Except.bind_ok' {ε α β : Type} {x : Except ε α} {f : α → Except ε β} {b : β}
      (h : (x >>= f) = .ok b) : ∃ a, x = .ok a ∧ f a = .ok b := by
    cases x with
    | error e => simp [bind, Except.bind] at h
    | ok a => exact ⟨a, rfl, h⟩

end OP.C09
