/-
  C06 — Reported pinch temperatures are where the cascade is pinched.
  Theorems about `OP.pinchIdx` (model of `ProblemTable.pinch_idx`, tied to the code by
  harness/opv/props/c06.py).  `Z tol h i` reads "row `i` of the residual column `h`
  exists and is zero within `tol`".
-/
import OPModel.Proofs.PinchSpec
import OPModel.Properties.C01
import OPModel.Properties.C05
import OPModel.Gen.Constants

namespace OP.C06
open OP

/-- When the residual column has a zero row and a non-zero row, a pinch is reported
    (`valid`), both pinch rows are zero rows, the hot row is not below the cold row, and the
    threshold clauses hold: if the top row is zero the hot pinch is the last row of the leading
    zero run (the row after it is non-zero); if the bottom row is zero the cold pinch is the first
    row of the trailing zero run. Otherwise they are the first / last zero of the column. -/
theorem pinch_rows_spec (tol : Rat) (h : List Rat)
    (hz : ∃ i, Z tol h i) (hnz : ∃ i, i < h.length ∧ ¬ Z tol h i) :
    ∃ a b : Nat, (pinchIdx tol h).rowH = (a : Int) ∧ (pinchIdx tol h).rowC = (b : Int) ∧
      (pinchIdx tol h).valid = true ∧ a ≤ b ∧ b < h.length ∧ Z tol h a ∧ Z tol h b ∧
      ((¬ Z tol h 0 ∧ ∀ j, j < a → ¬ Z tol h j) ∨
       (Z tol h 0 ∧ (∀ j, j ≤ a → Z tol h j) ∧ a + 1 < h.length ∧ ¬ Z tol h (a + 1))) ∧
      ((¬ Z tol h (h.length - 1) ∧ ∀ j, b < j → ¬ Z tol h j) ∨
       (Z tol h (h.length - 1) ∧ (∀ j, b ≤ j → j < h.length → Z tol h j) ∧ 1 ≤ b ∧ ¬ Z tol h (b - 1))) := by
  obtain ⟨a, ha, hza, hhot⟩ := hotRow_spec tol h hz hnz
  obtain ⟨b, hb, hzb, hcold⟩ := coldRow_spec tol h hz hnz
  have hbl : b < h.length := at_lt hzb
  have hab : a ≤ b := by
    rcases hhot with ⟨_, h1⟩ | ⟨_, h1, h2, h3⟩
    · by_contra hc
      exact h1 b (by omega) hzb
    · rcases hcold with ⟨_, c1⟩ | ⟨_, c1, _, _⟩
      · by_contra hc
        exact c1 a (by omega) hza
      · by_contra hc
        exact h3 (c1 (a + 1) (by omega) h2)
  have hany : h.any (isZero tol) = true := (any_iff_at _ _).mpr hz
  have hall : h.all (isZero tol) = false := by
    obtain ⟨i, hi, hn⟩ := hnz
    cases hh : h.all (isZero tol) with
    | false => rfl
    | true => exact absurd ((all_iff_at _ _).mp hh i hi) hn
  refine ⟨a, b, ?_, ?_, ?_, hab, hbl, hza, hzb, hhot, hcold⟩
  · simp only [pinchIdx, hany, hall, Bool.not_false, Bool.and_self, if_true, ha]
  · simp only [pinchIdx, hany, hall, Bool.not_false, Bool.and_self, if_true, hb]
  · simp only [pinchIdx, hany, hall, Bool.not_false, Bool.and_self, if_true, ha, hb]
    simpa using hab

/-- Every other zero of the residual that is not part of a zero run touching an end of the
    temperature range lies between the two pinch rows. -/
theorem zeros_between_pinches (tol : Rat) (h : List Rat)
    (hz : ∃ i, Z tol h i) (hnz : ∃ i, i < h.length ∧ ¬ Z tol h i)
    (z : Nat) (hzz : Z tol h z)
    (habove : ∃ j, j < z ∧ ¬ Z tol h j) (hbelow : ∃ j, z < j ∧ j < h.length ∧ ¬ Z tol h j) :
    (pinchIdx tol h).rowH ≤ (z : Int) ∧ (z : Int) ≤ (pinchIdx tol h).rowC := by
  obtain ⟨a, b, ha, hb, _, _, _, _, _, hhot, hcold⟩ := pinch_rows_spec tol h hz hnz
  rw [ha, hb]
  constructor
  · rcases hhot with ⟨_, h1⟩ | ⟨_, h1, _, _⟩
    · by_contra hc
      exact h1 z (by omega) hzz
    · by_contra hc
      obtain ⟨j, hj, hnj⟩ := habove
      exact hnj (h1 j (by omega))
  · rcases hcold with ⟨_, c1⟩ | ⟨_, c1, _, _⟩
    · by_contra hc
      exact c1 z (by omega) hzz
    · by_contra hc
      obtain ⟨j, hj, hjl, hnj⟩ := hbelow
      exact hnj (c1 j (by omega) hjl)

/-- The hot pinch is not colder than the cold pinch: on a strictly descending temperature
    column the temperature read at the hot row is ≥ the one at the cold row. -/
theorem hot_not_colder_than_cold (tol : Rat) (T h : List Rat) (hlen : T.length = h.length)
    (hdesc : T.Pairwise (· > ·))
    (hz : ∃ i, Z tol h i) (hnz : ∃ i, i < h.length ∧ ¬ Z tol h i) :
    ∃ th tc, pinchTemperatures tol T h = .ok (some (th, tc)) ∧ tc ≤ th := by
  obtain ⟨a, b, ha, hb, hv, hab, hbl, _⟩ := pinch_rows_spec tol h hz hnz
  have hal : a < T.length := by omega
  have hbl' : b < T.length := by omega
  have ia : pyIndex T (a : Int) = some T[a] := by
    unfold pyIndex
    have h1 : ¬ ((a : Int) < 0) := by omega
    simp only [h1, if_false]
    have h2 : (0 : Int) ≤ a ∧ (a : Int) < T.length := by omega
    simp only [h2, and_self, if_true, Int.toNat_natCast, List.getElem?_eq_getElem hal]
  have ib : pyIndex T (b : Int) = some T[b] := by
    unfold pyIndex
    have h1 : ¬ ((b : Int) < 0) := by omega
    simp only [h1, if_false]
    have h2 : (0 : Int) ≤ b ∧ (b : Int) < T.length := by omega
    simp only [h2, and_self, if_true, Int.toNat_natCast, List.getElem?_eq_getElem hbl']
  refine ⟨T[a], T[b], ?_, ?_⟩
  · simp only [pinchTemperatures, hv, if_true, ha, hb, ia, ib]
  · rcases Nat.lt_or_eq_of_le hab with hlt | heq
    · exact Rat.le_of_lt (List.pairwise_iff_getElem.mp hdesc a b hal hbl' hlt)
    · subst heq; exact Rat.le_refl

/-- A pinch is reported absent exactly when the column has no zero row or consists of zero rows
    only (for a table of at least two rows). -/
theorem absent_iff (tol : Rat) (h : List Rat) (hn : 2 ≤ h.length) :
    (pinchIdx tol h).valid = false ↔ ((¬ ∃ i, Z tol h i) ∨ (∀ i, i < h.length → Z tol h i)) := by
  constructor
  · intro hv
    by_contra hc
    push Not at hc
    obtain ⟨hz, i, hi, hni⟩ := hc
    obtain ⟨_, _, _, _, hvalid, _⟩ := pinch_rows_spec tol h hz ⟨i, hi, hni⟩
    rw [hvalid] at hv; cases hv
  · intro hc
    have hbr : (h.any (isZero tol) && !(h.all (isZero tol))) = false := by
      rcases hc with h1 | h2
      · have : h.any (isZero tol) = false := by
          cases hh : h.any (isZero tol) with
          | false => rfl
          | true => exact absurd ((any_iff_at _ _).mp hh) h1
        simp [this]
      · have : h.all (isZero tol) = true := (all_iff_at _ _).mpr h2
        simp [this]
    simp only [pinchIdx, hbr, Bool.false_eq_true, if_false, decide_eq_false_iff_not]
    omega

/-- heat content of a stream set below and above a temperature add up to its duty -/
theorem below_add_above (ss : List Seg) (t : Rat) (h : ∀ s ∈ ss, s.lo ≤ s.hi) :
    belowAll ss t + aboveAll ss t = total ss := by
  induction ss with
  | nil => simp [belowAll, aboveAll, total]
  | cons s ss ih =>
    have hs := h s List.mem_cons_self
    have ih' := ih (fun x hx => h x (List.mem_cons_of_mem _ hx))
    simp only [belowAll, aboveAll, total, List.map_cons, List.sum_cons] at ih' ⊢
    have e : below s t + above s t = duty s := by
      unfold below above duty
      have : max 0 (min s.hi t - s.lo) + max 0 (s.hi - max s.lo t) = s.hi - s.lo := by
        simp only [max_def, min_def]; split_ifs <;> linarith
      rw [← mul_add, this]
    linarith

/-- **The reported pinch temperatures are where the exact cascade is pinched.**  On any compatible
    grid, for any streams: run the cascade (`problemTable`), read the pinch from its residual
    column as the code does (`pinchTemperatures` over `H_net`).  Then both reported temperatures
    are rows of the grid, the hot one is not colder than the cold one, no temperature at all has a
    larger net heat deficit above it than `Qh`, and the deficit above each reported temperature is
    within `tol` of that maximum - i.e. the residual heat flow through it is (numerically) zero. -/
theorem pinch_is_where_cascade_is_pinched (tol w : Rat) (htol : 0 < tol) (hw : 0 ≤ w) (htw : tol ≤ w)
    (hot cold : List Seg) (t0 : Rat) (rest : List Rat)
    (hr : InRange (cold ++ hot) ((t0 :: rest).getLast (List.cons_ne_nil _ _)) t0)
    (hch : ChainOK w (cold ++ hot) t0 rest)
    (pt : PT) (tg : Targets) (hpt : problemTable tol w (t0 :: rest) hot cold = .ok pt) (htg : pt.targets = .ok tg)
    (hnz : ∃ i, i < pt.hNet.length ∧ ¬ Z tol pt.hNet i)
    (th tc : Rat) (hp : pinchTemperatures tol (t0 :: rest) pt.hNet = .ok (some (th, tc))) :
    th ∈ t0 :: rest ∧ tc ∈ t0 :: rest ∧ tc ≤ th ∧
    (∀ x : Rat, deficit hot cold x ≤ tg.qh) ∧
    tg.qh - tol < deficit hot cold th ∧ tg.qh - tol < deficit hot cold tc := by
  obtain ⟨pt', tg', hpt', htg', _, _, hnet, _, x0, hx0, hx00⟩ :=
    C05.curves_are_content tol w hw htw hot cold t0 rest hr hch
  rw [hpt] at hpt'; cases hpt'
  rw [htg] at htg'; cases htg'
  obtain ⟨t, ht, hmax, _, _, hqc, _⟩ := C01.di_targets_exact tol w hw htw hot cold t0 rest hr hch
  have htt : t = tg := by
    simp only [directTargets, hpt] at ht
    have : pt.targets = .ok t := ht
    rw [htg] at this; cases this; rfl
  subst htt
  have hs : ∀ s ∈ cold ++ hot, s.lo ≤ s.hi := fun s h => (hr s h).1
  -- every entry of the residual column is Qh minus the deficit above its temperature
  have hrow : ∀ i (hi : i < (t0 :: rest).length), pt.hNet[i]? = some (t.qh - deficit hot cold (t0 :: rest)[i]) := by
    intro i hi
    rw [hnet, List.getElem?_map, List.getElem?_eq_getElem hi, Option.map_some]
    congr 1
    have a := below_add_above cold (t0 :: rest)[i] (fun s h => hs s (List.mem_append_left _ h))
    have b := below_add_above hot (t0 :: rest)[i] (fun s h => hs s (List.mem_append_right _ h))
    unfold deficit
    linarith
  have hlen : (t0 :: rest).length = pt.hNet.length := by rw [hnet, List.length_map]
  have hz : ∃ i, Z tol pt.hNet i := by
    obtain ⟨i, hi, e⟩ := List.getElem_of_mem hx0
    refine ⟨i, x0, by rw [List.getElem?_eq_getElem hi, e], ?_⟩
    simp only [isZero, decide_eq_true_eq, hx00, rabs]
    simpa using htol
  obtain ⟨a, b, ha, hb, hv, hab, hbl, hza, hzb, _⟩ := pinch_rows_spec tol pt.hNet hz hnz
  have hal : a < (t0 :: rest).length := by omega
  have hbl' : b < (t0 :: rest).length := by omega
  have idx : ∀ k (hk : k < (t0 :: rest).length), pyIndex (t0 :: rest) (k : Int) = some (t0 :: rest)[k] := by
    intro k hk
    unfold pyIndex
    have h1 : ¬ ((k : Int) < 0) := by omega
    simp only [h1, if_false]
    have h2 : (0 : Int) ≤ k ∧ (k : Int) < (t0 :: rest).length := by omega
    simp only [h2, and_self, if_true, Int.toNat_natCast, List.getElem?_eq_getElem hk]
  have hpe : pinchTemperatures tol (t0 :: rest) pt.hNet = .ok (some ((t0 :: rest)[a], (t0 :: rest)[b])) := by
    simp only [pinchTemperatures, hv, if_true, ha, hb, idx a hal, idx b hbl']
  rw [hpe] at hp
  have hth : th = (t0 :: rest)[a] := by injection hp with h; injection h with h; injection h with h1 h2; exact h1.symm
  have htc : tc = (t0 :: rest)[b] := by injection hp with h; injection h with h; injection h with h1 h2; exact h2.symm
  have hdesc : (t0 :: rest).Pairwise (· > ·) := C05.curves_are_content.gapless hw rest t0 hch
  have zero_row : ∀ k (hk : k < (t0 :: rest).length), Z tol pt.hNet k → t.qh - tol < deficit hot cold (t0 :: rest)[k] := by
    intro k hk ⟨x, hx, hzx⟩
    rw [hrow k hk] at hx
    cases hx
    simp only [isZero, decide_eq_true_eq, rabs_eq_abs] at hzx
    have := (abs_lt.mp hzx).2
    linarith
  refine ⟨hth ▸ List.getElem_mem hal, htc ▸ List.getElem_mem hbl', ?_, hmax, ?_, ?_⟩
  · rw [hth, htc]
    rcases Nat.lt_or_eq_of_le hab with hlt | heq
    · exact le_of_lt (List.pairwise_iff_getElem.mp hdesc a b hal hbl' hlt)
    · subst heq; exact le_refl _
  · rw [hth]; exact zero_row a hal hza
  · rw [htc]; exact zero_row b hbl' hzb

/-- **No pinch is missed.**  In the same setting: every grid temperature at which the net heat
    deficit attains its maximum `Qh` exactly (a true pinch of the exact cascade), and which has a
    non-pinched row somewhere above it and somewhere below it, lies between the two reported pinch
    temperatures. -/
theorem exact_pinches_lie_between (tol w : Rat) (htol : 0 < tol) (hw : 0 ≤ w) (htw : tol ≤ w)
    (hot cold : List Seg) (t0 : Rat) (rest : List Rat)
    (hr : InRange (cold ++ hot) ((t0 :: rest).getLast (List.cons_ne_nil _ _)) t0)
    (hch : ChainOK w (cold ++ hot) t0 rest)
    (pt : PT) (tg : Targets) (hpt : problemTable tol w (t0 :: rest) hot cold = .ok pt) (htg : pt.targets = .ok tg)
    (th tc : Rat) (hp : pinchTemperatures tol (t0 :: rest) pt.hNet = .ok (some (th, tc)))
    (z : Nat) (hz : z < (t0 :: rest).length) (hpinched : deficit hot cold (t0 :: rest)[z] = tg.qh)
    (habove : ∃ j, j < z ∧ ¬ Z tol pt.hNet j) (hbelow : ∃ j, z < j ∧ j < pt.hNet.length ∧ ¬ Z tol pt.hNet j) :
    tc ≤ (t0 :: rest)[z] ∧ (t0 :: rest)[z] ≤ th := by
  obtain ⟨pt', tg', hpt', htg', _, _, hnet, _, _⟩ :=
    C05.curves_are_content tol w hw htw hot cold t0 rest hr hch
  rw [hpt] at hpt'; cases hpt'
  rw [htg] at htg'; cases htg'
  obtain ⟨t, ht, _, _, _, hqc, _⟩ := C01.di_targets_exact tol w hw htw hot cold t0 rest hr hch
  have htt : t = tg := by
    simp only [directTargets, hpt] at ht
    have : pt.targets = .ok t := ht
    rw [htg] at this; cases this; rfl
  subst htt
  have hs : ∀ s ∈ cold ++ hot, s.lo ≤ s.hi := fun s h => (hr s h).1
  have hlen : (t0 :: rest).length = pt.hNet.length := by rw [hnet, List.length_map]
  have hzz : Z tol pt.hNet z := by
    refine ⟨0, ?_, ?_⟩
    · rw [hnet, List.getElem?_map, List.getElem?_eq_getElem hz, Option.map_some]
      congr 1
      have a := below_add_above cold (t0 :: rest)[z] (fun s h => hs s (List.mem_append_left _ h))
      have b := below_add_above hot (t0 :: rest)[z] (fun s h => hs s (List.mem_append_right _ h))
      unfold deficit at hpinched
      linarith
    · simp only [isZero, decide_eq_true_eq, rabs]
      simpa using htol
  have hnz : ∃ i, i < pt.hNet.length ∧ ¬ Z tol pt.hNet i := by
    obtain ⟨j, hj, hn⟩ := habove
    exact ⟨j, by omega, hn⟩
  obtain ⟨a, b, ha, hb, hv, hab, hbl, _⟩ := pinch_rows_spec tol pt.hNet ⟨z, hzz⟩ hnz
  obtain ⟨h1, h2⟩ := zeros_between_pinches tol pt.hNet ⟨z, hzz⟩ hnz z hzz habove hbelow
  rw [ha] at h1; rw [hb] at h2
  have haz : a ≤ z := by omega
  have hzb : z ≤ b := by omega
  have hal : a < (t0 :: rest).length := by omega
  have hbl' : b < (t0 :: rest).length := by omega
  have idx : ∀ k (hk : k < (t0 :: rest).length), pyIndex (t0 :: rest) (k : Int) = some (t0 :: rest)[k] := by
    intro k hk
    unfold pyIndex
    have h1 : ¬ ((k : Int) < 0) := by omega
    simp only [h1, if_false]
    have h2 : (0 : Int) ≤ k ∧ (k : Int) < (t0 :: rest).length := by omega
    simp only [h2, and_self, if_true, Int.toNat_natCast, List.getElem?_eq_getElem hk]
  have hpe : pinchTemperatures tol (t0 :: rest) pt.hNet = .ok (some ((t0 :: rest)[a], (t0 :: rest)[b])) := by
    simp only [pinchTemperatures, hv, if_true, ha, hb, idx a hal, idx b hbl']
  rw [hpe] at hp
  have hth : th = (t0 :: rest)[a] := by injection hp with h; injection h with h; injection h with h1 h2; exact h1.symm
  have htc : tc = (t0 :: rest)[b] := by injection hp with h; injection h with h; injection h with h1 h2; exact h2.symm
  have hdesc : (t0 :: rest).Pairwise (· > ·) := C05.curves_are_content.gapless hw rest t0 hch
  have mono : ∀ i j (hi : i < (t0 :: rest).length) (hj : j < (t0 :: rest).length), i ≤ j → (t0 :: rest)[j] ≤ (t0 :: rest)[i] := by
    intro i j hi hj hij
    rcases Nat.lt_or_eq_of_le hij with hlt | heq
    · exact le_of_lt (List.pairwise_iff_getElem.mp hdesc i j hi hj hlt)
    · subst heq; exact le_refl _
  exact ⟨htc ▸ mono z b hz hbl' hzb, hth ▸ mono a z hal hz haz⟩

/-- The full statement "absent only when the residual has no zero" is FALSE of the code: an
    all-zero residual (perfectly balanced problem) is reported absent although every row is
    pinched. Recorded as known finding `C06-all-zero` (a pinned test requires this behaviour). -/
theorem pinch_allzero_witness :
    (pinchIdx Gen.tol [0, 0, 0]).valid = false ∧ Z Gen.tol [0, 0, 0] 1 := by
  constructor
  · decide +kernel
  · exact ⟨0, rfl, by decide +kernel⟩

/-- Non-vacuity of the hypotheses of `pinch_rows_spec` and a concrete threshold column. -/
example : (pinchIdx Gen.tol [0, 0, 5, 0, 3, 0, 0]) = ⟨1, 5, true⟩ := by decide +kernel


/-- Non-vacuity of `pinch_is_where_cascade_is_pinched`: the two-stream problem of C01 on its grid
    is a threshold problem (Qh = 0): the pinch is reported at the top row 190. -/
example : (do
    let pt ← problemTable Gen.tol (Gen.activityFactor * Gen.tol) [190, 170, 110, 50] [⟨110, 190, 100, 100⟩] [⟨50, 170, 50, 50⟩]
    pinchTemperatures Gen.tol [190, 170, 110, 50] pt.hNet) = .ok (some (190, 190)) := by decide +kernel

/-- ... and an interior pinch: hot 170 -> 50 (6000 kW), cold 110 -> 190 (8000 kW): Qh = 5000 and the
    residual vanishes at the shifted temperature 110 only. -/
example : (do
    let pt ← problemTable Gen.tol (Gen.activityFactor * Gen.tol) [190, 170, 110, 50] [⟨50, 170, 50, 50⟩] [⟨110, 190, 100, 100⟩]
    pinchTemperatures Gen.tol [190, 170, 110, 50] pt.hNet) = .ok (some (110, 110)) := by decide +kernel

end OP.C06
