/-
  C06 — Reported pinch temperatures are where the cascade is pinched.
  Theorems about `OP.pinchIdx` (model of `ProblemTable.pinch_idx`, tied to the code by
  harness/opv/props/c06.py).  `Z tol h i` reads "row `i` of the residual column `h`
  exists and is zero within `tol`".
-/
import OPModel.Proofs.PinchSpec
import OPModel.Gen.Constants

namespace OP.C06
open OP

/-- When the residual column has a zero row and a non-zero row, a pinch is reported
    (`valid`), both pinch rows are zero rows, the hot row is not below the cold row, and the
    threshold clauses hold: if the top row is zero the hot pinch is the last row of the leading
    zero run (the row after it is non-zero); if the bottom row is zero the cold pinch is the first
    row of the trailing zero run. Otherwise they are the first / last zero of the column. -/
theorem pinch_rows_spec (tol : Rat) (h : List Rat)
    (hz : ∃ i, Z tol h i) (hnz : ∃ i, i < h.length ∧ ¬ Z tol h i) :
    ∃ a b : Nat, (pinchIdx tol h).rowH = (a : Int) ∧ (pinchIdx tol h).rowC = (b : Int) ∧
      (pinchIdx tol h).valid = true ∧ a ≤ b ∧ b < h.length ∧ Z tol h a ∧ Z tol h b ∧
      ((¬ Z tol h 0 ∧ ∀ j, j < a → ¬ Z tol h j) ∨
       (Z tol h 0 ∧ (∀ j, j ≤ a → Z tol h j) ∧ a + 1 < h.length ∧ ¬ Z tol h (a + 1))) ∧
      ((¬ Z tol h (h.length - 1) ∧ ∀ j, b < j → ¬ Z tol h j) ∨
       (Z tol h (h.length - 1) ∧ (∀ j, b ≤ j → j < h.length → Z tol h j) ∧ 1 ≤ b ∧ ¬ Z tol h (b - 1))) := by
  obtain ⟨a, ha, hza, hhot⟩ := hotRow_spec tol h hz hnz
  obtain ⟨b, hb, hzb, hcold⟩ := coldRow_spec tol h hz hnz
  have hbl : b < h.length := at_lt hzb
  have hab : a ≤ b := by
    rcases hhot with ⟨_, h1⟩ | ⟨_, h1, h2, h3⟩
    · by_contra hc
      exact h1 b (by omega) hzb
    · rcases hcold with ⟨_, c1⟩ | ⟨_, c1, _, _⟩
      · by_contra hc
        exact c1 a (by omega) hza
      · by_contra hc
        exact h3 (c1 (a + 1) (by omega) h2)
  have hany : h.any (isZero tol) = true := (any_iff_at _ _).mpr hz
  have hall : h.all (isZero tol) = false := by
    obtain ⟨i, hi, hn⟩ := hnz
    cases hh : h.all (isZero tol) with
    | false => rfl
    | true => exact absurd ((all_iff_at _ _).mp hh i hi) hn
  refine ⟨a, b, ?_, ?_, ?_, hab, hbl, hza, hzb, hhot, hcold⟩
  · simp only [pinchIdx, hany, hall, Bool.not_false, Bool.and_self, if_true, ha]
  · simp only [pinchIdx, hany, hall, Bool.not_false, Bool.and_self, if_true, hb]
  · simp only [pinchIdx, hany, hall, Bool.not_false, Bool.and_self, if_true, ha, hb]
    simpa using hab

/-- Every other zero of the residual that is not part of a zero run touching an end of the
    temperature range lies between the two pinch rows. -/
theorem zeros_between_pinches (tol : Rat) (h : List Rat)
    (hz : ∃ i, Z tol h i) (hnz : ∃ i, i < h.length ∧ ¬ Z tol h i)
    (z : Nat) (hzz : Z tol h z)
    (habove : ∃ j, j < z ∧ ¬ Z tol h j) (hbelow : ∃ j, z < j ∧ j < h.length ∧ ¬ Z tol h j) :
    (pinchIdx tol h).rowH ≤ (z : Int) ∧ (z : Int) ≤ (pinchIdx tol h).rowC := by
  obtain ⟨a, b, ha, hb, _, _, _, _, _, hhot, hcold⟩ := pinch_rows_spec tol h hz hnz
  rw [ha, hb]
  constructor
  · rcases hhot with ⟨_, h1⟩ | ⟨_, h1, _, _⟩
    · by_contra hc
      exact h1 z (by omega) hzz
    · by_contra hc
      obtain ⟨j, hj, hnj⟩ := habove
      exact hnj (h1 j (by omega))
  · rcases hcold with ⟨_, c1⟩ | ⟨_, c1, _, _⟩
    · by_contra hc
      exact c1 z (by omega) hzz
    · by_contra hc
      obtain ⟨j, hj, hjl, hnj⟩ := hbelow
      exact hnj (c1 j (by omega) hjl)

/-- The hot pinch is not colder than the cold pinch: on a strictly descending temperature
    column the temperature read at the hot row is ≥ the one at the cold row. -/
theorem hot_not_colder_than_cold (tol : Rat) (T h : List Rat) (hlen : T.length = h.length)
    (hdesc : T.Pairwise (· > ·))
    (hz : ∃ i, Z tol h i) (hnz : ∃ i, i < h.length ∧ ¬ Z tol h i) :
    ∃ th tc, pinchTemperatures tol T h = .ok (some (th, tc)) ∧ tc ≤ th := by
  obtain ⟨a, b, ha, hb, hv, hab, hbl, _⟩ := pinch_rows_spec tol h hz hnz
  have hal : a < T.length := by omega
  have hbl' : b < T.length := by omega
  have ia : pyIndex T (a : Int) = some T[a] := by
    unfold pyIndex
    have h1 : ¬ ((a : Int) < 0) := by omega
    simp only [h1, if_false]
    have h2 : (0 : Int) ≤ a ∧ (a : Int) < T.length := by omega
    simp only [h2, and_self, if_true, Int.toNat_natCast, List.getElem?_eq_getElem hal]
  have ib : pyIndex T (b : Int) = some T[b] := by
    unfold pyIndex
    have h1 : ¬ ((b : Int) < 0) := by omega
    simp only [h1, if_false]
    have h2 : (0 : Int) ≤ b ∧ (b : Int) < T.length := by omega
    simp only [h2, and_self, if_true, Int.toNat_natCast, List.getElem?_eq_getElem hbl']
  refine ⟨T[a], T[b], ?_, ?_⟩
  · simp only [pinchTemperatures, hv, if_true, ha, hb, ia, ib]
  · rcases Nat.lt_or_eq_of_le hab with hlt | heq
    · exact Rat.le_of_lt (List.pairwise_iff_getElem.mp hdesc a b hal hbl' hlt)
    · subst heq; exact Rat.le_refl

/-- A pinch is reported absent exactly when the column has no zero row or consists of zero rows
    only (for a table of at least two rows). -/
theorem absent_iff (tol : Rat) (h : List Rat) (hn : 2 ≤ h.length) :
    (pinchIdx tol h).valid = false ↔ ((¬ ∃ i, Z tol h i) ∨ (∀ i, i < h.length → Z tol h i)) := by
  constructor
  · intro hv
    by_contra hc
    push Not at hc
    obtain ⟨hz, i, hi, hni⟩ := hc
    obtain ⟨_, _, _, _, hvalid, _⟩ := pinch_rows_spec tol h hz ⟨i, hi, hni⟩
    rw [hvalid] at hv; cases hv
  · intro hc
    have hbr : (h.any (isZero tol) && !(h.all (isZero tol))) = false := by
      rcases hc with h1 | h2
      · have : h.any (isZero tol) = false := by
          cases hh : h.any (isZero tol) with
          | false => rfl
          | true => exact absurd ((any_iff_at _ _).mp hh) h1
        simp [this]
      · have : h.all (isZero tol) = true := (all_iff_at _ _).mpr h2
        simp [this]
    simp only [pinchIdx, hbr, Bool.false_eq_true, if_false, decide_eq_false_iff_not]
    omega

/-- The full statement "absent only when the residual has no zero" is FALSE of the code: an
    all-zero residual (perfectly balanced problem) is reported absent although every row is
    pinched. Recorded as known finding `C06-all-zero` (a pinned test requires this behaviour). -/
theorem pinch_allzero_witness :
    (pinchIdx Gen.tol [0, 0, 0]).valid = false ∧ Z Gen.tol [0, 0, 0] 1 := by
  constructor
  · decide +kernel
  · exact ⟨0, rfl, by decide +kernel⟩

/-- Non-vacuity of the hypotheses of `pinch_rows_spec` and a concrete threshold column. -/
example : (pinchIdx Gen.tol [0, 0, 5, 0, 3, 0, 0]) = ⟨1, 5, true⟩ := by decide +kernel

end OP.C06
