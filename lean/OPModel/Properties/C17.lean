/-
  C17 — Curve simplification stays within its tolerance.

  `rdp` (Model/Curves.lean) is the code-shaped model of `_rdp` (explicit stack ranges as a
  recursion, first-maximum scan with strict `>`, the `continue` on a zero-length chord); it is
  tied to the code on the kept indices by harness/opv/props/c17.py.  `cleanCurve` models
  `clean_composite_curve`.

  Proved here for every polyline of any length and every tolerance:
    * `rdp` keeps both end points, returns indices in strictly increasing (= original) order,
      and between two neighbouring kept points every original point is within `eps` of the chord
      (squared form, no square root); for a point lying coordinatewise between the chord ends —
      every point of a monotone profile does — that is a bound on the distance from the chord
      *segment*, i.e. from the simplified polyline;
    * `cleanCurve` returns a sub-list of the original points.
  NOT true of the code (and so not a theorem): that `clean_composite_curve` keeps every original
  point within 1e-6 of the kept polyline — `clean_drift_witness` is a kernel-checked counterexample
  on the model, replayed on the implementation from corpus/C17 (known finding); and the one-sided
  bound of `get_piecewise_data_points`, which the SLSQP refinement (not modelled: a numerical
  optimiser) is meant to provide and the plain-RDP path never enforces (known findings).
-/
import OPModel.Proofs.CurveLemmas
import OPModel.Drive.C17

namespace OP.C17
open OP

/-- **Both end points are kept** (two or more points). -/
theorem rdp_ends (pts : Array P2) (eps : Rat) (h : 2 ≤ pts.size) :
    (rdp pts eps).head? = some 0 ∧ (rdp pts eps).getLast? = some (pts.size - 1) := by
  unfold rdp
  rw [if_neg (by omega), if_neg (by omega)]
  constructor
  · simp
  · simp only [List.cons_append, List.nil_append]
    rw [← List.cons_append, List.getLast?_concat]

/-- **Neighbouring kept points cover everything between them.**  The output is a chain in which
    each kept index is followed by a larger one, and every original point strictly between two
    neighbours `a`, `b` satisfies `cross² ≤ eps²·|b−a|²` — it is within `eps` of their chord. -/
theorem rdp_chain (pts : Array P2) (eps : Rat) (h : 2 ≤ pts.size) :
    List.IsChain (Cov pts eps) (rdp pts eps) := by
  unfold rdp
  rw [if_neg (by omega), if_neg (by omega)]
  have := rdpRange_chain pts eps pts.size 0 (pts.size - 1) (by omega) (by omega)
  simpa using this

/-- **Original order**: the kept indices are strictly increasing. -/
theorem rdp_sorted (pts : Array P2) (eps : Rat) (h : 2 ≤ pts.size) :
    (rdp pts eps).Pairwise (· < ·) := by
  have hc := (rdp_chain pts eps h).imp (S := (· < ·)) (fun _ _ hab => hab.1)
  exact List.isChain_iff_pairwise.mp hc

/-- **Within the deviation of the simplified polyline.**  If `a`, `b` are neighbours in the output
    and the original point `i` between them lies coordinatewise between `pts[a]` and `pts[b]`
    (true for every point of a profile monotone in h and T), then some point of the segment
    `pts[a]`–`pts[b]` is within `eps` of `pts[i]` (squared Euclidean distance ≤ eps²). -/
theorem rdp_within_segment (pts : Array P2) (eps : Rat) (a b i : Nat) (hab : Cov pts eps a b)
    (hai : a < i) (hib : i < b)
    (hx : (pts[a]!.1 ≤ pts[i]!.1 ∧ pts[i]!.1 ≤ pts[b]!.1) ∨ (pts[b]!.1 ≤ pts[i]!.1 ∧ pts[i]!.1 ≤ pts[a]!.1))
    (hy : (pts[a]!.2 ≤ pts[i]!.2 ∧ pts[i]!.2 ≤ pts[b]!.2) ∨ (pts[b]!.2 ≤ pts[i]!.2 ∧ pts[i]!.2 ≤ pts[a]!.2)) :
    ∃ t : Rat, 0 ≤ t ∧ t ≤ 1 ∧
      (pts[i]!.1 - (pts[a]!.1 + t * (pts[b]!.1 - pts[a]!.1))) * (pts[i]!.1 - (pts[a]!.1 + t * (pts[b]!.1 - pts[a]!.1))) +
      (pts[i]!.2 - (pts[a]!.2 + t * (pts[b]!.2 - pts[a]!.2))) * (pts[i]!.2 - (pts[a]!.2 + t * (pts[b]!.2 - pts[a]!.2)))
        ≤ eps * eps := by
  by_cases hl : len2 pts[a]! pts[b]! = 0
  · -- the chord ends coincide, so the point between them coincides with both
    have h1 : (pts[b]!.1 - pts[a]!.1) * (pts[b]!.1 - pts[a]!.1) = 0 ∧ (pts[b]!.2 - pts[a]!.2) * (pts[b]!.2 - pts[a]!.2) = 0 := by
      unfold len2 at hl
      have n1 := mul_self_nonneg (pts[b]!.1 - pts[a]!.1)
      have n2 := mul_self_nonneg (pts[b]!.2 - pts[a]!.2)
      constructor <;> linarith
    have ex : pts[b]!.1 = pts[a]!.1 := by have := mul_self_eq_zero.mp h1.1; linarith
    have ey : pts[b]!.2 = pts[a]!.2 := by have := mul_self_eq_zero.mp h1.2; linarith
    have px : pts[i]!.1 = pts[a]!.1 := by rcases hx with ⟨u, v⟩ | ⟨u, v⟩ <;> linarith
    have py : pts[i]!.2 = pts[a]!.2 := by rcases hy with ⟨u, v⟩ | ⟨u, v⟩ <;> linarith
    refine ⟨0, le_refl _, by norm_num, ?_⟩
    rw [px, py]
    have : (pts[a]!.1 - (pts[a]!.1 + 0 * (pts[b]!.1 - pts[a]!.1))) * (pts[a]!.1 - (pts[a]!.1 + 0 * (pts[b]!.1 - pts[a]!.1))) +
      (pts[a]!.2 - (pts[a]!.2 + 0 * (pts[b]!.2 - pts[a]!.2))) * (pts[a]!.2 - (pts[a]!.2 + 0 * (pts[b]!.2 - pts[a]!.2))) = 0 := by ring
    rw [this]; exact mul_self_nonneg eps
  · exact within_segment pts[a]! pts[b]! pts[i]! eps hx hy hl (hab.2 i hai hib)

/-- **Cleaning only removes points**: whatever `clean_composite_curve` returns is a sub-list of
    the original `(x, y)` points, in the original order. -/
theorem clean_sublist (tol : Rat) (y x : List Rat) (out : List (Rat × Rat))
    (h : cleanCurve tol y x = .ok out) : out.Sublist (x.zip y) :=
  cleanCurve_sublist tol y x out h

/-- **Counterexample (model level) to "never moves the curve by more than 1e-6".**  A slowly bending
    run: each interior point is within 1e-6 (vertically) of the chord of its two original
    neighbours, so all are removed, but the middle one is 8.1e-6 from the chord that remains. -/
theorem clean_drift_witness :
    cleanCurve (1 / 1000000) [390, 370, 350, 330, 310, 290, 270]
      [500, 700 + 9 / 1000000, 900 + 36 / 1000000, 1100 + 81 / 1000000, 1300 + 144 / 1000000,
       1500 + 225 / 1000000, 1700 + 324 / 1000000]
      = .ok [(500, 390), (1700 + 324 / 1000000, 270)] ∧
    (1 : Rat) / 1000000 <
      rabs (330 - (390 + (270 - 390) * ((1100 + 81 / 1000000) - 500) / ((1700 + 324 / 1000000) - 500))) := by
  decide +kernel

/-- **Knees and turning points survive the middle loop.**  Whatever the curve, an interior point that is a
    turning point of a vertical run (its neighbours share an abscissa it does not have) or that lies more
    than `tol` — measured in `y`, i.e. in kelvin — off the chord through its two neighbours is among the
    points `clean_composite_curve`'s middle loop keeps.  (Seeded changes C13-vertical-run-drops-turning-point
    and C17-cross-multiplied-collinearity — the latter measures deviation × chord width instead — make this
    statement false of the code.) -/
theorem knees_and_turning_points_kept (tol : Rat) (l : List (Rat × Rat)) (i : Nat) (h : i + 2 < l.length)
    (hoff : OffChord tol l[i] l[i + 1] l[i + 2]) : l[i + 1] ∈ keepInterior tol l :=
  keepInterior_keeps tol l i h hoff

/-- **A repeated point no longer hides the corner it sits on** (fix bdc25b9; kernel-decided): the
    utility grand composite curve of a site whose table, rounded for output, lists 47.0 and 46.99
    twice — the corner `(0, 46.99)` between the zero run and the cold utility is kept. -/
theorem repeated_point_keeps_corner :
    cleanCurve (1 / 1000000) [3911 / 10, 391, 47, 47, 4699 / 100, 4699 / 100, 4689 / 100, 43]
      [18081, 0, 0, 0, 0, 0, 6481, 6481]
      = .ok [(18081, 3911 / 10), (0, 391), (0, 4699 / 100), (6481, 4689 / 100)] := by
  decide +kernel

/-! ### non-vacuity -/

/-- A kinked profile: the kink is kept, the collinear points are dropped. -/
example : rdp #[(0, 0), (10, 1), (20, 2), (30, 30), (40, 31)] (1 / 2) = [0, 2, 3, 4] := by decide +kernel

example : Cov #[(0, 0), (10, 1), (20, 2), (30, 30), (40, 31)] (1 / 2) 0 2 := by
  refine ⟨by omega, ?_⟩
  intro i h1 h2
  have : i = 1 := by omega
  subst this
  unfold Within
  decide +kernel

end OP.C17
