import OPModel.Model.Curves
namespace OP.C17
theorem placeholder : True := trivial
end OP.C17
