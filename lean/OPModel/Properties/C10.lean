/-
  C10 — Zone-tree construction conserves the streams.

  `buildZones` (Model/Zones.lean) is the model of the tree synthesised from stream labels
  (`_validate_zone_tree_structure` without a user tree, after the two fix: commits), and `content`
  of the placement of the streams plus the upward collection
  (`_get_process_streams_in_each_subzone`, `import_hot_and_cold_streams_from_sub_zones`); both are
  tied to the code by harness/opv/props/c10.py on the zone given to every stream, the set of tree
  nodes and the streams held by every zone.

  Proved here for EVERY list of labels (any depth, labels that are prefixes or suffixes of one
  another, labels equal to generated unit-operation names, repeated labels, the empty path):
  construction never fails; every stream gets a leaf of its own directly below the zone its label
  names; and after collection a zone holds a stream exactly once if it lies on the path from the
  root to that leaf and not at all otherwise — so nothing is dropped, duplicated, or shared
  between zones that are not ancestors of one another.
  Not modelled: splitting and stripping the label text, the `(zone, name)` sort (done by the harness
  with the same key), the user-tree path (`_rewrite_stream_zones_from_tree`), utility copies —
  these are decided by the oracle on the implementation.
-/
import OPModel.Proofs.ZoneLemmas
import OPModel.Drive.C10

namespace OP.C10
open OP

/-- **Construction is total**: the unit-operation renaming loop always finds a free name. -/
theorem build_total (labels : List ZPath) : ∃ st, buildZones labels = .ok st := by
  obtain ⟨st, h, _⟩ := placeAll_spec (prePass labels) labels (labels_ok labels) _ (init_inv labels)
  exact ⟨st, h⟩

/-- **Every stream gets its own leaf below the zone its label names**, and no two streams share one. -/
theorem own_leaf (labels : List ZPath) (st : ZBuild) (h : buildZones labels = .ok st) :
    st.zones.length = labels.length ∧ st.zones.Nodup ∧
    ∀ j (hj : j < labels.length), ∃ name, st.zones[j]? = some (labels[j] ++ [name]) := by
  obtain ⟨st', h', hinv, hlen, _, hnew⟩ := placeAll_spec (prePass labels) labels (labels_ok labels) _ (init_inv labels)
  have : st' = st := by
    have e : buildZones labels = .ok st' := h'
    rw [h] at e; cases e; rfl
  subst this
  refine ⟨by simpa using hlen, hinv.nodup, ?_⟩
  intro j hj
  simpa using hnew j hj

/-- **Conservation.**  After the streams are placed and every zone with sub-zones has collected its
    streams from them, stream `i` occurs in zone `z` exactly once when `z` is the root, the zone of
    its label, an ancestor of that zone, or its own leaf — and does not occur in any other zone. -/
theorem conservation (labels : List ZPath) (st : ZBuild) (h : buildZones labels = .ok st)
    (i : Nat) (hi : i < st.zones.length) (fuel : Nat) (z : ZPath)
    (hfuel : ∀ q ∈ st.paths, q.length < z.length + fuel) :
    (content st.paths st.zones fuel z).count i = if z <+: st.zones[i] then 1 else 0 := by
  obtain ⟨st', h', hinv, _, _, _⟩ := placeAll_spec (prePass labels) labels (labels_ok labels) _ (init_inv labels)
  have : st' = st := by
    have e : buildZones labels = .ok st' := h'
    rw [h] at e; cases e; rfl
  subst this
  have hL := prefClosed_prePass labels
  have hmem : ∀ i (hi : i < st'.zones.length), st'.zones[i] ∈ st'.paths := by
    intro i hi
    rw [hinv.paths_eq]
    exact List.mem_append_right _ (List.getElem_mem hi)
  exact content_count st'.paths st'.zones (binv_paths_nodup _ _ (nodup_prePass labels) hinv)
    (binv_closed _ _ hL hinv) hmem
    (fun i hi q hq hp => binv_leaf _ _ hL hinv _ (List.getElem_mem hi) q hq hp) i hi fuel z hfuel

/-- The root holds every stream exactly once. -/
theorem root_holds_all_once (labels : List ZPath) (st : ZBuild) (h : buildZones labels = .ok st)
    (i : Nat) (hi : i < st.zones.length) (fuel : Nat) (hfuel : ∀ q ∈ st.paths, q.length < fuel) :
    (content st.paths st.zones fuel []).count i = 1 := by
  have := conservation labels st h i hi fuel [] (by simpa using hfuel)
  simpa using this

/-- Zones that hold a common stream are ancestors of one another: nothing is shared between siblings. -/
theorem shared_only_along_a_path (labels : List ZPath) (st : ZBuild) (h : buildZones labels = .ok st)
    (i : Nat) (hi : i < st.zones.length) (fuel : Nat) (z1 z2 : ZPath)
    (hf1 : ∀ q ∈ st.paths, q.length < z1.length + fuel) (hf2 : ∀ q ∈ st.paths, q.length < z2.length + fuel)
    (h1 : i ∈ content st.paths st.zones fuel z1) (h2 : i ∈ content st.paths st.zones fuel z2) :
    z1 <+: z2 ∨ z2 <+: z1 := by
  have c1 := conservation labels st h i hi fuel z1 hf1
  have c2 := conservation labels st h i hi fuel z2 hf2
  have p1 : z1 <+: st.zones[i] := by
    by_contra hn; rw [if_neg hn] at c1; exact (List.count_eq_zero.mp c1) h1
  have p2 : z2 <+: st.zones[i] := by
    by_contra hn; rw [if_neg hn] at c2; exact (List.count_eq_zero.mp c2) h2
  rcases Nat.le_total z1.length z2.length with hl | hl
  · exact Or.inl (List.prefix_of_prefix_length_le p1 p2 hl)
  · exact Or.inr (List.prefix_of_prefix_length_le p2 p1 hl)

/-! ### non-vacuity: the shapes that used to break -/

/-- labels `A/B` and `B` (one a suffix of the other), two streams each -/
example : (buildZones [["A", "B"], ["A", "B"], ["B"], ["B"]]).toOption.map (·.zones)
    = some [["A", "B", "O1"], ["A", "B", "O2"], ["B", "O1"], ["B", "O2"]] := by decide +kernel

/-- label `O1` next to label `O1/O1`: the generated leaf steps aside (`O2`) -/
example : (buildZones [["O1"], ["O1", "O1"]]).toOption.map (·.zones)
    = some [["O1", "O2"], ["O1", "O1", "O1"]] := by decide +kernel

example : content [["A"], ["A", "B"], ["B"], ["A", "B", "O1"], ["B", "O1"]] [["A", "B", "O1"], ["B", "O1"]] 5 ["B"] = [1] := by
  decide +kernel

end OP.C10
