/-
  C10 — Zone-tree construction conserves the streams.

  `buildZones` (Model/Zones.lean) is the model of the tree synthesised from stream labels
  (`_validate_zone_tree_structure` without a user tree, after the two fix: commits), and `content`
  of the placement of the streams plus the upward collection
  (`_get_process_streams_in_each_subzone`, `import_hot_and_cold_streams_from_sub_zones`); both are
  tied to the code by harness/opv/props/c10.py on the zone given to every stream, the set of tree
  nodes and the streams held by every zone.

  Proved here for EVERY list of labels (any depth, labels that are prefixes or suffixes of one
  another, labels equal to generated unit-operation names, repeated labels, the empty path):
  construction never fails; every stream gets a leaf of its own directly below the zone its label
  names; and after collection a zone holds a stream exactly once if it lies on the path from the
  root to that leaf and not at all otherwise — so nothing is dropped, duplicated, or shared
  between zones that are not ancestors of one another.
  With a user tree (`rewriteAll`, the model of `_rewrite_stream_zones_from_tree` after fix 3f9e38c,
  tied to the code on 200+ tree cases per run): rewriting is total, every stream whose label names a
  node ends in a zone without sub-zones (its own node, or a zone generated for it when the node is
  the root or has sub-zones), and conservation holds for it exactly as above.
  Not modelled: splitting and stripping the label text, the `(zone, name)` sort (done by the harness
  with the same key), utility copies — decided by the oracle on the implementation.
-/
import OPModel.Proofs.ZoneLemmas
import OPModel.Proofs.ZoneTreeLemmas
import OPModel.Drive.C10

namespace OP.C10
open OP

/-- **Construction is total**: the unit-operation renaming loop always finds a free name. -/
theorem build_total (labels : List ZPath) : ∃ st, buildZones labels = .ok st := by
  obtain ⟨st, h, _⟩ := placeAll_spec (prePass labels) labels (labels_ok labels) _ (init_inv labels)
  exact ⟨st, h⟩

/-- **Every stream gets its own leaf below the zone its label names**, and no two streams share one. -/
theorem own_leaf (labels : List ZPath) (st : ZBuild) (h : buildZones labels = .ok st) :
    st.zones.length = labels.length ∧ st.zones.Nodup ∧
    ∀ j (hj : j < labels.length), ∃ name, st.zones[j]? = some (labels[j] ++ [name]) := by
  obtain ⟨st', h', hinv, hlen, _, hnew⟩ := placeAll_spec (prePass labels) labels (labels_ok labels) _ (init_inv labels)
  have : st' = st := by
    have e : buildZones labels = .ok st' := h'
    rw [h] at e; cases e; rfl
  subst this
  refine ⟨by simpa using hlen, hinv.nodup, ?_⟩
  intro j hj
  simpa using hnew j hj

/-- **Conservation.**  After the streams are placed and every zone with sub-zones has collected its
    streams from them, stream `i` occurs in zone `z` exactly once when `z` is the root, the zone of
    its label, an ancestor of that zone, or its own leaf — and does not occur in any other zone. -/
theorem conservation (labels : List ZPath) (st : ZBuild) (h : buildZones labels = .ok st)
    (i : Nat) (hi : i < st.zones.length) (fuel : Nat) (z : ZPath)
    (hfuel : ∀ q ∈ st.paths, q.length < z.length + fuel) :
    (content st.paths st.zones fuel z).count i = if z <+: st.zones[i] then 1 else 0 := by
  obtain ⟨st', h', hinv, _, _, _⟩ := placeAll_spec (prePass labels) labels (labels_ok labels) _ (init_inv labels)
  have : st' = st := by
    have e : buildZones labels = .ok st' := h'
    rw [h] at e; cases e; rfl
  subst this
  have hL := prefClosed_prePass labels
  have hmem : st'.zones[i] ∈ st'.paths := by
    rw [hinv.paths_eq]
    exact List.mem_append_right _ (List.getElem_mem hi)
  exact content_count st'.paths st'.zones (binv_paths_nodup _ _ (nodup_prePass labels) hinv)
    (binv_closed _ _ hL hinv) i hi hmem
    (fun q hq hp => binv_leaf _ _ hL hinv _ (List.getElem_mem hi) q hq hp) fuel z hfuel

/-- The root holds every stream exactly once. -/
theorem root_holds_all_once (labels : List ZPath) (st : ZBuild) (h : buildZones labels = .ok st)
    (i : Nat) (hi : i < st.zones.length) (fuel : Nat) (hfuel : ∀ q ∈ st.paths, q.length < fuel) :
    (content st.paths st.zones fuel []).count i = 1 := by
  have := conservation labels st h i hi fuel [] (by simpa using hfuel)
  simpa using this

/-- Zones that hold a common stream are ancestors of one another: nothing is shared between siblings. -/
theorem shared_only_along_a_path (labels : List ZPath) (st : ZBuild) (h : buildZones labels = .ok st)
    (i : Nat) (hi : i < st.zones.length) (fuel : Nat) (z1 z2 : ZPath)
    (hf1 : ∀ q ∈ st.paths, q.length < z1.length + fuel) (hf2 : ∀ q ∈ st.paths, q.length < z2.length + fuel)
    (h1 : i ∈ content st.paths st.zones fuel z1) (h2 : i ∈ content st.paths st.zones fuel z2) :
    z1 <+: z2 ∨ z2 <+: z1 := by
  have c1 := conservation labels st h i hi fuel z1 hf1
  have c2 := conservation labels st h i hi fuel z2 hf2
  have p1 : z1 <+: st.zones[i] := by
    by_contra hn; rw [if_neg hn] at c1; exact (List.count_eq_zero.mp c1) h1
  have p2 : z2 <+: st.zones[i] := by
    by_contra hn; rw [if_neg hn] at c2; exact (List.count_eq_zero.mp c2) h2
  rcases Nat.le_total z1.length z2.length with hl | hl
  · exact Or.inl (List.prefix_of_prefix_length_le p1 p2 hl)
  · exact Or.inr (List.prefix_of_prefix_length_le p2 p1 hl)

/-! ### with a user zone tree -/

/-- a well-formed input tree: distinct node paths, closed under non-empty prefixes, none empty -/
def TreeOK (paths : List ZPath) : Prop := paths.Nodup ∧ PrefClosed paths ∧ ∀ p ∈ paths, p ≠ []

theorem treeOK_inv (paths : List ZPath) (h : TreeOK paths) : TInv { paths := paths } :=
  ⟨h.1, h.2.1, h.2.2, by intro z hz; simp at hz⟩

/-- **Rewriting the labels against a user tree is total**: the child-naming loop always finds a free
    name (labels that name no node are left alone — they are not an error of this step). -/
theorem tree_rewrite_total (root : String) (paths : List ZPath) (h : TreeOK paths) (ss : List (ZPath × String)) :
    ∃ st, rewriteAll root ss { paths := paths } = .ok st ∧ st.zones.length = ss.length := by
  obtain ⟨st, h1, _, h3⟩ := rewriteAll_spec root ss _ (treeOK_inv paths h)
  exact ⟨st, h1, by simpa using h3⟩

/-- **Every stream whose label names a node ends up in a zone without sub-zones** — its own node if
    that is a leaf, otherwise a zone generated for it below the node — so it cannot be lost when
    zones with sub-zones rebuild their collections. -/
theorem tree_streams_in_leaves (root : String) (paths : List ZPath) (h : TreeOK paths) (ss : List (ZPath × String))
    (st : TBuild) (he : rewriteAll root ss { paths := paths } = .ok st) :
    ∀ z, some z ∈ st.zones → z ∈ st.paths ∧ kidsOf st.paths z = [] ∧ 1 < z.length := by
  obtain ⟨st', h1, hinv, _⟩ := rewriteAll_spec root ss _ (treeOK_inv paths h)
  rw [he] at h1; cases h1
  exact hinv.leaf

/-- **Conservation with a user tree**: after collection, a stream whose label named a node is held
    exactly once by every zone on the path from the root to its zone and by no other zone. -/
theorem tree_conservation (root : String) (paths : List ZPath) (h : TreeOK paths) (ss : List (ZPath × String))
    (st : TBuild) (he : rewriteAll root ss { paths := paths } = .ok st)
    (i : Nat) (hi : i < st.zones.length) (z : ZPath) (hz : st.zones[i] = some z)
    (fuel : Nat) (y : ZPath) (hfuel : ∀ q ∈ st.paths, q.length < y.length + fuel) :
    (content st.paths (st.zones.map fun o => o.getD []) fuel y).count i = if y <+: z then 1 else 0 := by
  obtain ⟨st', h1, hinv, _⟩ := rewriteAll_spec root ss _ (treeOK_inv paths h)
  rw [he] at h1; cases h1
  have hmemz : some z ∈ st.zones := by rw [← hz]; exact List.getElem_mem hi
  have hi' : i < (st.zones.map fun o => o.getD []).length := by simpa using hi
  have hget : (st.zones.map fun o => o.getD [])[i] = z := by simp [hz]
  have := content_count st.paths (st.zones.map fun o => o.getD []) hinv.nodup hinv.closed i hi'
    (by rw [hget]; exact (hinv.leaf z hmemz).1)
    (by rw [hget]; exact fun q hq hp => tinv_leaf st hinv z hmemz q hq hp) fuel y hfuel
  rw [hget] at this
  exact this

/-- a stream labelled with a zone that has sub-zones gets a zone of its own below it (fix 3f9e38c) -/
example : (rewriteAll "Site" [(["Site", "A"], "S1"), (["A", "B"], "S2"), (["Site"], "S1")]
      { paths := [["Site"], ["Site", "A"], ["Site", "A", "B"]] }).toOption.map (·.zones)
    = some [some ["Site", "A", "S1"], some ["Site", "A", "B"], some ["Site", "S1"]] := by decide +kernel

example : TreeOK [["Site"], ["Site", "A"], ["Site", "A", "B"]] := by
  refine ⟨by decide, ?_, by decide⟩
  unfold PrefClosed
  decide

/-! ### non-vacuity: the shapes that used to break -/

/-- labels `A/B` and `B` (one a suffix of the other), two streams each -/
example : (buildZones [["A", "B"], ["A", "B"], ["B"], ["B"]]).toOption.map (·.zones)
    = some [["A", "B", "O1"], ["A", "B", "O2"], ["B", "O1"], ["B", "O2"]] := by decide +kernel

/-- label `O1` next to label `O1/O1`: the generated leaf steps aside (`O2`) -/
example : (buildZones [["O1"], ["O1", "O1"]]).toOption.map (·.zones)
    = some [["O1", "O2"], ["O1", "O1", "O1"]] := by decide +kernel

example : content [["A"], ["A", "B"], ["B"], ["A", "B", "O1"], ["B", "O1"]] [["A", "B", "O1"], ["B", "O1"]] 5 ["B"] = [1] := by
  decide +kernel

end OP.C10
