/-
  C20 — Effectiveness-NTU and LMTD relations are mutually consistent.

  The formulas are those of `OPModel/Model/HX.lean` (one syntax, instantiated with `Float` for the
  driver — compared with the code to 1e-9 — and with ℝ here).  Dispatch: the arrangement label is
  normalised once (fix 3266977); the generated table `Gen.hxDispatch` records, for every
  arrangement × label form, which relation the live functions actually evaluate.
-/
import OPModel.Proofs.HXReal
import OPModel.Proofs.LogMean
import OPModel.Proofs.MultiPass
import OPModel.Gen.Constants

namespace OP.C20
open OP OP.HX Real

/-- **Dispatch is total and consistent**: for each of the 8 arrangements and both label forms
    (enumeration member, its text) the live `HX_Eff` and `HX_NTU` evaluate the relation of that
    arrangement (table regenerated from /repo on every run by probing the functions). -/
theorem dispatch_total_and_consistent :
    Gen.hxDispatch.length = 16 ∧ ∀ e ∈ Gen.hxDispatch, e.2.2.1 = e.1 ∧ e.2.2.2 = e.1 := by
  constructor
  · decide +kernel
  · decide +kernel

/-- **Multi-pass conversion and its inverse.**  `MultiPassNTU(MultiPassEff(e, c, P), c, P) = e` for every pass
    count `P ≥ 1`: for balanced streams (`c = 1`, any `e ≥ 0`) and for unbalanced streams wherever the
    single-pass ratio `(1 − e c)/(1 − e)` is positive and the multi-pass expression is defined.  (Seeded change
    C20-multipass-ntu-balanced-sign flips a sign in the balanced branch of the inverse.) -/
theorem multipass_roundtrip (e c : ℝ) (P : ℕ) (hP : 1 ≤ P) :
    (0 ≤ e → mpNTU (mpEff e 1 P) 1 P = e) ∧
    (c ≠ 1 → e < 1 → e * c < 1 → ((1 - e * c) / (1 - e)) ^ P ≠ c → mpNTU (mpEff e c P) c P = e) :=
  ⟨fun he => mp_roundtrip_balanced e P he hP, fun hc he1 hec hr => mp_roundtrip e c P hc he1 hec hP hr⟩

/-- **NTU → ε → NTU** for every arrangement with a closed-form inverse, on its whole domain. -/
theorem roundtrip_closed_forms (N c : ℝ) (hN : 0 < N) :
    (0 ≤ c → c < 1 → ntuCF realOps (effCF realOps N c) c = N) ∧
    ntuCF1 realOps (effCF1 realOps N) = N ∧
    (0 ≤ c → ntuPF realOps (effPF realOps N c) c = N) ∧
    ntuCond realOps (effCond realOps N) = N ∧
    (0 < c → ntuCmax realOps (effCmax realOps N c) c = N) ∧
    (0 < c → ntuCmin realOps (effCmin realOps N c) c = N) :=
  ⟨fun h0 h1 => roundtrip_cf N c hN h0 h1, roundtrip_cf1 N hN, fun h0 => roundtrip_pf N c h0,
   roundtrip_cond N, fun h => roundtrip_cmax N c h, fun h => roundtrip_cmin N c h⟩

/-- Effectiveness in (0,1) and non-decreasing in NTU (condenser/evaporator; counter flow in (0,1)). -/
theorem eff_range_and_mono (N M c : ℝ) (hN : 0 < N) (hNM : N ≤ M) (hc0 : 0 ≤ c) (hc1 : c < 1) :
    (0 < effCond realOps N ∧ effCond realOps N < 1) ∧ effCond realOps N ≤ effCond realOps M ∧
    (0 < effCF realOps N c ∧ effCF realOps N c < 1) :=
  ⟨effCond_range N hN, effCond_mono N M hNM, effCF_range N c hN hc0 hc1⟩

/-- At zero capacity ratio the relations reduce to `1 - exp(-NTU)`. -/
theorem eff_at_c0 (N : ℝ) : effCF realOps N 0 = 1 - exp (-N) ∧ effPF realOps N 0 = 1 - exp (-N) := by
  obtain ⟨a, b⟩ := eff_c0 N
  exact ⟨by rw [a, effCond_real], by rw [b, effCond_real]⟩

/-- **LMTD lies between the smaller end difference and the arithmetic mean, and is symmetric.** -/
theorem lmtd_bounds (a b : ℝ) (ha : 0 < a) (hb : 0 < b) (hab : b < a) :
    b ≤ lmtd realOps a b ∧ lmtd realOps a b ≤ (a + b) / 2 ∧ lmtd realOps a b = lmtd realOps b a := by
  refine ⟨lmtd_ge_min a b ha hb hab, ?_, lmtd_symm a b ha hb⟩
  rw [lmtd_real]
  have hx : 1 ≤ a / b := by rw [le_div_iff₀ hb]; linarith
  have hx' : 1 < a / b := by rw [lt_div_iff₀ hb]; linarith
  have hlogpos : 0 < log (a / b) := log_pos hx'
  have key := log_ge_two_mul (a / b) hx
  have e : 2 * (a / b - 1) / (a / b + 1) = 2 * (a - b) / (a + b) := by
    have : a + b ≠ 0 := by positivity
    have : a / b + 1 ≠ 0 := by positivity
    field_simp
  rw [e] at key
  rw [div_le_iff₀ hlogpos]
  have hab' : 0 < a + b := by positivity
  have : 2 * (a - b) ≤ log (a / b) * (a + b) := by
    have := mul_le_mul_of_nonneg_right key (le_of_lt hab')
    rwa [div_mul_cancel₀ _ (ne_of_gt hab')] at this
  linarith

/-- The equal branch returns the common value. -/
theorem lmtd_equal (a : ℝ) : lmtdEq realOps a a = a := by
  show (a + a) / 2 = a
  ring

end OP.C20
