/-
  C16 — All input channels describe the same problem identically.

  Proved here (models tied to the code by harness/opv/props/c16.py): exported sheet names are
  pairwise distinct, at most 31 characters and free of the characters Excel forbids, for EVERY
  list of labels for which allocation succeeds (the code raises after 998 collisions of one
  31-character prefix — explicit error branch); and for every load/target history the wrapper's
  `target` returns the result of the problem loaded last (cache cleared by `load`, fix 3088761).
  Channel equality itself (dict / model / value-with-unit / JSON / CSV / workbook readers are
  pandas and pydantic code) is decided by relational testing, not by a theorem.
-/
import OPModel.Proofs.SheetLemmas

namespace OP.C16
open OP OP.Sheet

/-- **Every list of labels**: the allocated names are pairwise distinct, distinct from those
    already used, at most 31 characters, and contain none of `: / ? * \ [ ]`. -/
theorem sheet_names_unique : ∀ (labels : List Str) (used names : List Str),
    allocate labels used = .ok names →
      names.Nodup ∧ (∀ n ∈ names, n ∉ used ∧ n.length ≤ 31 ∧ Clean n) ∧ names.length = labels.length := by
  intro labels
  induction labels with
  | nil => intro used names h; cases h; simp
  | cons l ls ih =>
    intro used names h
    simp only [allocate, bind, Except.bind] at h
    cases hu : uniqueName l used with
    | error e => rw [hu] at h; cases h
    | ok p =>
      obtain ⟨n, used'⟩ := p
      rw [hu] at h
      simp only at h
      cases hr : allocate ls used' with
      | error e => rw [hr] at h; cases h
      | ok rest =>
        rw [hr] at h
        cases h
        obtain ⟨a, b, c, d⟩ := uniqueName_spec l used n used' hu
        obtain ⟨e, f, g⟩ := ih used' rest hr
        subst b
        refine ⟨List.nodup_cons.mpr ⟨?_, e⟩, ?_, by simp [g]⟩
        · intro hn
          exact (f n hn).1 List.mem_cons_self
        · intro m hm
          rcases List.mem_cons.mp hm with rfl | hm
          · exact ⟨a, c, d⟩
          · obtain ⟨x, y, z⟩ := f m hm
            exact ⟨fun hmu => x (List.mem_cons_of_mem _ hmu), y, z⟩

/-! ### the wrapper -/

/-- **Any history**: after any sequence of `load`/`target` calls, `target` returns the result of
    the problem loaded last (and nothing when none is loaded). -/
theorem target_returns_last_loaded (ops : List WOp) :
    (wstep (wrun {} ops) .target).2 = (wrun {} ops).loaded := by
  have h := wrun_inv ops {} (Or.inl rfl)
  unfold wstep
  cases hc : (wrun {} ops).cached with
  | none => rfl
  | some r =>
    simp only
    rcases h with h | h
    · rw [hc] at h; cases h
    · rw [← h, hc]

/-- Repeated targeting returns the cached result and leaves the wrapper unchanged. -/
theorem repeat_target_cached (w : Wrapper) (r : Nat) (h : w.cached = some r) :
    wstep w .target = (w, some r) := by
  unfold wstep; rw [h]

/-- Non-vacuity: three labels sharing a 31-character prefix with a forbidden character. -/
example : allocate ["Zone A/Direct Integration (Shifted) 1".toList, "Zone A/Direct Integration (Shifted) 2".toList,
    "Zone A/Direct Integration (Shifted) 3".toList] [] =
    .ok ["Zone A_Direct Integration (Shif".toList, "Zone A_Direct Integration ( (2)".toList,
         "Zone A_Direct Integration ( (3)".toList] := by decide +kernel

end OP.C16
