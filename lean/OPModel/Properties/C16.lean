/-
  C16 — All input channels describe the same problem identically.

  Proved here (models tied to the code by harness/opv/props/c16.py): exported sheet names are
  pairwise distinct, at most 31 characters and free of the characters Excel forbids, for EVERY
  list of labels for which allocation succeeds (the code raises after 998 collisions of one
  31-character prefix — explicit error branch); and for every load/target history the wrapper's
  `target` returns the result of the problem loaded last (cache cleared by `load`, fix 3088761).
  Channel equality itself (dict / model / value-with-unit / JSON / CSV / workbook readers are
  pandas and pydantic code) is decided by relational testing, not by a theorem.
-/
import OPModel.Proofs.SheetLemmas

namespace OP.C16
open OP OP.Sheet

/-- **Every list of labels**: the allocated names are pairwise distinct, distinct from those
    already used, at most 31 characters, and contain none of `: / ? * \ [ ]`. -/
theorem sheet_names_unique : ∀ (labels : List Str) (used names : List Str),
    allocate labels used = .ok names →
      names.Nodup ∧ (∀ n ∈ names, n ∉ used ∧ n.length ≤ 31 ∧ Clean n) ∧ names.length = labels.length := by
  intro labels
  induction labels with
  | nil => intro used names h; cases h; simp
  | cons l ls ih =>
    intro used names h
    simp only [allocate, bind, Except.bind] at h
    cases hu : uniqueName l used with
    | error e => rw [hu] at h; cases h
    | ok p =>
      obtain ⟨n, used'⟩ := p
      rw [hu] at h
      simp only at h
      cases hr : allocate ls used' with
      | error e => rw [hr] at h; cases h
      | ok rest =>
        rw [hr] at h
        cases h
        obtain ⟨a, b, c, d⟩ := uniqueName_spec l used n used' hu
        obtain ⟨e, f, g⟩ := ih used' rest hr
        subst b
        refine ⟨List.nodup_cons.mpr ⟨?_, e⟩, ?_, by simp [g]⟩
        · intro hn
          exact (f n hn).1 List.mem_cons_self
        · intro m hm
          rcases List.mem_cons.mp hm with rfl | hm
          · exact ⟨a, c, d⟩
          · obtain ⟨x, y, z⟩ := f m hm
            exact ⟨fun hmu => x (List.mem_cons_of_mem _ hmu), y, z⟩

/-! ### the wrapper -/

/-- **Any history**: after any sequence of `load`/`target` calls from any sources, `target` returns
    the result of the problem loaded last, analysed under the project name of THAT source (the file
    stem for a path, the default for a model or a CSV pair) — a function of the last `load` alone,
    whatever was loaded or targeted before; nothing when none is loaded. -/
theorem target_returns_last_loaded (ops : List WOp) :
    (wstep (wrun {} ops) .target).2 = lastLoad ops := by
  have h := wrun_inv ops {} (Or.inl rfl)
  have he := expected_run ops {}
  unfold lastLoad
  rw [show expected ({} : Wrapper) = none from rfl] at he
  rw [← he]
  unfold wstep
  cases hc : (wrun {} ops).cached with
  | some r =>
    simp only
    rcases h with h | h
    · rw [hc] at h; cases h
    · rw [← h, hc]
  | none =>
    cases hl : (wrun {} ops).loaded with
    | none => simp [expected, hl]
    | some i => simp [expected, hl]

/-- History independence in the form the property states it: whatever happened before, loading a
    problem and then targeting any number of times gives what a fresh wrapper gives for that load. -/
theorem target_as_fresh (pre post : List WOp) (i : Nat) (src : Src) (hpost : ∀ op ∈ post, op = .target) :
    (wstep (wrun {} (pre ++ .load i src :: post)) .target).2 = (wstep (wrun {} [.load i src]) .target).2 := by
  rw [target_returns_last_loaded, target_returns_last_loaded]
  unfold lastLoad
  rw [List.foldl_append, List.foldl_cons]
  simp only [List.foldl_cons, List.foldl_nil]
  generalize (some (i, srcName src) : Option Res) = acc
  induction post generalizing acc with
  | nil => rfl
  | cons op post ih =>
    have : op = .target := hpost op List.mem_cons_self
    subst this
    rw [List.foldl_cons]
    exact ih (fun o ho => hpost o (List.mem_cons_of_mem _ ho)) acc

/-- Repeated targeting returns the cached result and leaves the wrapper unchanged. -/
theorem repeat_target_cached (w : Wrapper) (r : Res) (h : w.cached = some r) :
    wstep w .target = (w, some r) := by
  unfold wstep; rw [h]

/-- The code before the project-name `fix:` commit violates the statement: after a file, a model
    loaded into the same wrapper was analysed under the file's project name (kernel-decided). -/
theorem legacy_project_name_leaks :
    (wstepLegacy (wrunLegacy {} [.load 0 (.file 7), .target, .load 1 .model]) .target).2 = some (1, some 7) ∧
    (wstep (wrun {} [.load 0 (.file 7), .target, .load 1 .model]) .target).2 = some (1, none) := by
  constructor <;> decide

/-- Non-vacuity: three labels sharing a 31-character prefix with a forbidden character. -/
example : allocate ["Zone A/Direct Integration (Shifted) 1".toList, "Zone A/Direct Integration (Shifted) 2".toList,
    "Zone A/Direct Integration (Shifted) 3".toList] [] =
    .ok ["Zone A_Direct Integration (Shif".toList, "Zone A_Direct Integration ( (2)".toList,
         "Zone A_Direct Integration ( (3)".toList] := by decide +kernel

end OP.C16
