/-
  C13 — Graph payloads reproduce the curves of the problem tables.

  Proved here, for series of any length, about the code-shaped model of the run segmentation of a
  grand-composite series (`_segment_bounds`, `_iter_gcc_segment_slices`, `_classify_segment`; tied
  to the code on 1500+ random columns per run):
    * `bounds_ordered`: the non-flat extent is a proper range (start ≤ end), flat series included;
    * `runs_tile`: the emitted runs tile the extent exactly — the first starts at `start`, each next
      one starts on the point where the previous one ended, the last ends at `end`, none is empty —
      so the emitted points of a series are exactly the cleaned points of its non-flat extent;
    * `runs_homogeneous`: inside a run every step has the run's class (sign of the enthalpy change,
      or vertical within GCC_VERTICAL_TOL) — classification follows the sign;
    * `runs_maximal`: neighbouring runs have different classes.
  Together with `C17.clean_sublist` (cleaning only removes points) this is the structural half of the
  property.  That the cleaned points stay within display rounding of the table column (false in
  general: C17 drift finding), extents = Qh/Qc/duties, one graph set per record with the documented
  types: decided by the oracle on the service output.
-/
import OPModel.Proofs.GraphLemmas
import OPModel.Drive.C13

namespace OP.C13
open OP

theorem bounds_ordered (tol : Rat) (x : Array Rat) : segStart tol x ≤ segEnd tol x := by
  unfold segStart segEnd
  cases hs : (List.range (x.size - 1)).find? fun i => decide (tol < rabs (x[i]! - x[i + 1]!)) with
  | none => simp
  | some i =>
    simp only [Option.getD_some]
    have hi := List.find?_some hs
    have him := List.mem_of_find?_eq_some hs
    rw [List.mem_range] at him
    simp only [decide_eq_true_eq] at hi
    -- i + 1 is a candidate of the backward search and satisfies its test
    set l := (List.range (x.size - 1)).map fun k => x.size - 1 - k with hl
    have hmem : i + 1 ∈ l := by
      rw [hl, List.mem_map]
      exact ⟨x.size - 1 - (i + 1), List.mem_range.mpr (by omega), by omega⟩
    have hq : decide (tol < rabs (x[i + 1]! - x[i + 1 - 1]!)) = true := by
      simp only [Nat.add_sub_cancel, decide_eq_true_eq]
      have : rabs (x[i + 1]! - x[i]!) = rabs (x[i]! - x[i + 1]!) := by
        unfold rabs; split <;> split <;> linarith
      rw [this]; exact hi
    cases he : l.find? fun i => decide (tol < rabs (x[i]! - x[i - 1]!)) with
    | none =>
      exfalso
      have := List.find?_eq_none.mp he (i + 1) hmem
      exact this hq
    | some r =>
      simp only [Option.getD_some]
      obtain ⟨_, as, bs, hsplit, has⟩ := List.find?_eq_some_iff_append.mp he
      by_contra hlt
      have hlt' : r < i + 1 := by omega
      have hdec : l.Pairwise (· > ·) := by
        rw [hl, List.pairwise_map]
        refine List.Pairwise.imp_of_mem ?_ List.pairwise_lt_range
        intro a b ha hb hab
        have := List.mem_range.mp ha
        have := List.mem_range.mp hb
        omega
      rw [hsplit] at hmem hdec
      rcases List.mem_append.mp hmem with h1 | h1
      · have := has _ h1
        simp only [Bool.not_eq_eq_eq_not, Bool.not_true] at this
        rw [this] at hq; cases hq
      · rcases List.mem_cons.mp h1 with h2 | h2
        · omega
        · have := (List.pairwise_append.mp hdec).2.1
          have := (List.pairwise_cons.mp this).1 _ h2
          omega

/-- **The runs tile the non-flat extent.** -/
theorem runs_tile (tol vtol : Rat) (x : Array Rat) :
    Tiles (gccSlices tol vtol x).2.2 (gccSlices tol vtol x).1 (gccSlices tol vtol x).2.1 := by
  unfold gccSlices
  exact slices_tiles vtol x _ _ _ (bounds_ordered tol x) (by omega)

/-- **Classification follows the sign of the enthalpy change**: every step of a run has the run's class. -/
theorem runs_homogeneous (tol vtol : Rat) (x : Array Rat) :
    ∀ t ∈ (gccSlices tol vtol x).2.2, ∀ k, t.2.1 ≤ k → k < t.2.2 → classify vtol (diffAt x k) = t.1 := by
  unfold gccSlices
  exact slices_homogeneous vtol x _ _ _ (bounds_ordered tol x)

/-- **Runs are maximal**: neighbouring runs differ in class. -/
theorem runs_maximal (tol vtol : Rat) (x : Array Rat) :
    List.IsChain (fun a b => a.1 ≠ b.1) (gccSlices tol vtol x).2.2 := by
  unfold gccSlices
  exact slices_maximal vtol x _ _ _ (bounds_ordered tol x) (by omega)

theorem tolerances_ok : 0 ≤ Gen.tol ∧ 0 ≤ Gen.gccVerticalTol ∧ Gen.graphDecimalPlaces = 2 := by decide +kernel

/-! ### non-vacuity -/
example : gccSlices (1 / 1000000) (1 / 1000) #[500, 500, 400, 450, 450, 700, 700]
    = (1, 5, [(.cold, 1, 2), (.hot, 2, 3), (.vert, 3, 4), (.hot, 4, 5)]) := by decide +kernel

end OP.C13
