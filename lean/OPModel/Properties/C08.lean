/-
  C08 — Inserting temperature intervals never changes any curve.

  `insertTemps` is the model of `ProblemTable.insert_temperature_interval` (tied to the code
  cell by cell by harness/opv/props/c08.py, over sequences of calls).  `plAt P x` is the
  specification: the polyline through the points `P`, linearly interpolated between rows, end
  value outside the range, at an arbitrary temperature `x : ℚ`.
-/
import OPModel.Proofs.TableDesc
import OPModel.Proofs.TableBook
import Mathlib.Tactic.NormNum
import OPModel.Drive.C08

namespace OP.C08
open OP

/-- The generated column layout (live `ProblemTableLabel`, `INTERPOLATION_KEYS`,
    `HEAT_CAPACITY_PAIRS`) is sane: `T`, `ΔT`, the interpolated columns and the ΔH columns are
    pairwise different existing columns.  Breaks when a constant is changed inconsistently. -/
theorem genCfg_ok : CfgOK Drive.genCfg := by
  constructor <;> decide +kernel

/-- **One call, one column, every temperature.**  For a table whose temperature column and
    interpolated column `c` are numeric with strictly descending temperatures, and *any* list of
    requested temperatures: the call succeeds, returns the number of rows added, the column stays
    numeric, and the polyline through the new rows equals the polyline through the old rows at
    every rational temperature. -/
theorem curves_preserved (cfg : TblCfg) (ok : CfgOK cfg) (tol : Rat) (htol : 0 ≤ tol)
    (rows : List Row) (vals : List Rat) (c : Nat) (hc : c ∈ cfg.interp) (p0 : Pt) (P : List Pt)
    (hP : rows.map (cellPt cfg c) = (p0 :: P).map somePt)
    (hd : (p0 :: P).Pairwise (fun a b => b.1 < a.1)) :
    ∃ out q0 Q, insertTemps cfg tol rows vals = .ok (out, out.length - rows.length) ∧
      out.map (cellPt cfg c) = (q0 :: Q).map somePt ∧ (q0 :: Q).Pairwise (fun a b => b.1 < a.1) ∧
      ∀ x, plAt (q0 :: Q) x = plAt (p0 :: P) x := by
  have hT := temps_of_cellPts cfg c rows (p0 :: P) hP
  have hsd : strictlyDesc ((p0 :: P).map (·.1)) = true := by
    apply strictlyDesc_of_pairwise
    exact List.pairwise_map.mpr hd
  simp only [List.map_cons] at hsd hT
  cases rows with
  | nil => simp at hP
  | cons r0 restRows =>
    simp only [List.map_cons, List.cons.injEq] at hP
    obtain ⟨h0, hrest⟩ := hP
    unfold insertTemps
    rw [hT]
    simp only [hsd, Bool.not_true, Bool.false_eq_true, if_false]
    -- name the pieces
    generalize hneed : needInsert tol (p0.1 :: P.map (·.1)) vals = need
    set tLast := (p0.1 :: P.map (·.1)).getLast (List.cons_ne_nil _ _) with htLast
    set rLast := (r0 :: restRows).getLast (List.cons_ne_nil _ _) with hrLast
    set tops := dedupeMono tol (sortDesc (need.filter fun v => decide (p0.1 < v))) with htops
    set bots := dedupeMono tol (sortDesc (need.filter fun v => decide (v < tLast))) with hbots
    set mid := need.filter fun v => !(decide (p0.1 < v)) && !(decide (v < tLast)) with hmid
    obtain ⟨htv, hr0v⟩ := topBlock_view cfg ok r0 p0.1 tops
    have hu : r0.get c = some p0.2 := by
      have := congrArg Prod.snd h0; simpa [cellPt, somePt] using this
    -- top rows
    have htopC : (topBlock cfg r0 p0.1 tops).1.map (cellPt cfg c) = (tops.map fun t => ((t, p0.2) : Pt)).map somePt := by
      rw [map_cellPt_of_view cfg c hc _ tops r0 htv, hu, List.map_map]; rfl
    -- body
    have hlen : (P.map (·.1)).length = restRows.length := by
      have := congrArg List.length hrest; simp at this; simp [this]
    have hz1 : (restRows.zip (P.map (·.1))).map (fun p => cellPt cfg c p.1) = P.map somePt := by
      have : (restRows.zip (P.map (·.1))).map (fun p => cellPt cfg c p.1)
          = ((restRows.zip (P.map (·.1))).map (·.1)).map (cellPt cfg c) := by rw [List.map_map]; rfl
      rw [this, List.map_fst_zip (by omega), hrest]
    have hz2 : (restRows.zip (P.map (·.1))).map (·.2) = P.map (·.1) := by
      rw [List.map_snd_zip (by omega)]
    have hbody : (walk cfg tol mid (topBlock cfg r0 p0.1 tops).2 p0.1 (restRows.zip (P.map (·.1)))).map (cellPt cfg c)
        = (walkPts tol mid p0 P).map somePt := by
      rw [walk_cells cfg ok c hc tol mid _ _ r0 p0.1 hr0v]
      exact walkCells_num cfg c tol htol mid _ P r0 p0 h0 hz1 hz2
    -- bottom rows
    obtain ⟨L, hL, hLlast⟩ := walkPts_getLast tol mid P p0
    have hbv := edgeChain_view cfg ok rLast bots rLast tLast rfl
    have hlastC : cellPt cfg c rLast = somePt ((p0 :: P).getLast (List.cons_ne_nil _ _)) := by
      have hall : (r0 :: restRows).map (cellPt cfg c) = (p0 :: P).map somePt := by
        simp only [List.map_cons, h0, hrest]
      have h1 : ((r0 :: restRows).map (cellPt cfg c)).getLast? = some (cellPt cfg c rLast) := by
        rw [List.getLast?_map, List.getLast?_eq_some_getLast (List.cons_ne_nil _ _)]; rfl
      have h2 : ((p0 :: P).map somePt).getLast? = some (somePt ((p0 :: P).getLast (List.cons_ne_nil _ _))) := by
        rw [List.getLast?_map, List.getLast?_eq_some_getLast (List.cons_ne_nil _ _)]; rfl
      rw [hall, h2] at h1
      exact (Option.some.inj h1).symm
    have hlv : rLast.get c = some ((p0 :: P).getLast (List.cons_ne_nil _ _)).2 := by
      have := congrArg Prod.snd hlastC; simpa [cellPt, somePt] using this
    have hbotC : (bottomBlock cfg rLast tLast bots).map (cellPt cfg c)
        = (bots.map fun t => ((t, ((p0 :: P).getLast (List.cons_ne_nil _ _)).2) : Pt)).map somePt := by
      unfold bottomBlock
      rw [map_cellPt_of_view cfg c hc _ bots rLast hbv, hlv, List.map_map]; rfl
    have htp : (tops.map fun t => ((t, p0.2) : Pt)).Pairwise (fun a b => b.1 < a.1) := by
      apply List.pairwise_map.mpr
      exact dedupeMono_sortDesc_pairwise tol htol _
    have hta : ∀ t ∈ tops, p0.1 < t := by
      intro t ht
      have := mem_dedupe_sort_filter tol need _ t ht
      simpa using this
    have hbp : (bots.map fun t => ((t, ((p0 :: P).getLast (List.cons_ne_nil _ _)).2) : Pt)).Pairwise (fun a b => b.1 < a.1) := by
      apply List.pairwise_map.mpr
      exact dedupeMono_sortDesc_pairwise tol htol _
    have htl : tLast = ((p0 :: P).getLast (List.cons_ne_nil _ _)).1 := by
      have h1 : ((p0 :: P).map (·.1)).getLast? = some tLast := by
        simp only [List.map_cons]
        exact List.getLast?_eq_some_getLast (List.cons_ne_nil _ _)
      have h2 : ((p0 :: P).map (·.1)).getLast? = some ((p0 :: P).getLast (List.cons_ne_nil _ _)).1 := by
        rw [List.getLast?_map, List.getLast?_eq_some_getLast (List.cons_ne_nil _ _)]; rfl
      rw [h1] at h2
      exact Option.some.inj h2
    have hba : ∀ t ∈ bots, t < ((p0 :: P).getLast (List.cons_ne_nil _ _)).1 := by
      intro t ht
      have := mem_dedupe_sort_filter tol need _ t ht
      rw [← htl]; simpa using this
    obtain ⟨hwp, hwr⟩ := walkPts_desc tol htol mid P p0 hd
    -- the whole new point list, as a cons
    have hcons : ∃ q0 Q, (tops.map fun t => ((t, p0.2) : Pt)) ++ walkPts tol mid p0 P
        ++ (bots.map fun t => ((t, ((p0 :: P).getLast (List.cons_ne_nil _ _)).2) : Pt)) = q0 :: Q := by
      rw [hL]
      cases tops.map fun t => ((t, p0.2) : Pt) with
      | nil => exact ⟨_, _, rfl⟩
      | cons a as => exact ⟨_, _, rfl⟩
    obtain ⟨q0, Q, hq⟩ := hcons
    refine ⟨_, q0, Q, rfl, ?_, ?_, ?_⟩
    · rw [← hq]; simp only [List.map_append, htopC, hbody, hbotC]
    · rw [← hq]
      apply List.pairwise_append.mpr
      refine ⟨List.pairwise_append.mpr ⟨htp, hwp, ?_⟩, hbp, ?_⟩
      · intro a ha b hb
        obtain ⟨t, ht, rfl⟩ := List.mem_map.mp ha
        exact lt_of_le_of_lt (hwr b hb).1 (hta t ht)
      · intro a ha b hb
        obtain ⟨t, ht, rfl⟩ := List.mem_map.mp hb
        rcases List.mem_append.mp ha with h | h
        · obtain ⟨t', ht', rfl⟩ := List.mem_map.mp h
          have h1 := hba t ht
          have h2 := (hwr p0 (by rw [hL]; exact List.mem_cons_self)).2
          have h3 := hta t' ht'
          simp only at *
          linarith
        · exact lt_of_lt_of_le (hba t ht) (hwr a h).2
    · intro x
      rw [← hq]
      -- strip the top rows, then the bottom rows, then the inserted middle rows
      rw [hL, List.append_assoc]
      have e1 := plAt_extend_top_many p0 (L ++ bots.map fun t => ((t, ((p0 :: P).getLast (List.cons_ne_nil _ _)).2) : Pt)) tops htp hta x
      simp only [List.cons_append] at e1 ⊢
      rw [e1]
      have e2 := plAt_extend_bottom_many ((p0 :: P).getLast (List.cons_ne_nil _ _)).2 bots L p0 (by rw [hLlast]) x
      simp only [List.cons_append] at e2
      rw [e2, ← hL]
      exact plAt_walkPts tol htol mid P p0 hd x

/-- **Any sequence of calls.**  By induction over the history: every call succeeds, the column
    stays numeric and strictly descending, and the polyline is the original one at every
    temperature after every call. -/
theorem curves_preserved_history (cfg : TblCfg) (ok : CfgOK cfg) (tol : Rat) (htol : 0 ≤ tol)
    (c : Nat) (hc : c ∈ cfg.interp) (reqs : List (List Rat)) :
    ∀ (rows : List Row) (p0 : Pt) (P : List Pt),
      rows.map (cellPt cfg c) = (p0 :: P).map somePt → (p0 :: P).Pairwise (fun a b => b.1 < a.1) →
      ∃ counts out q0 Q, insertMany cfg tol rows reqs = .ok (counts, out) ∧ counts.length = reqs.length ∧
        out.map (cellPt cfg c) = (q0 :: Q).map somePt ∧ (q0 :: Q).Pairwise (fun a b => b.1 < a.1) ∧
        ∀ x, plAt (q0 :: Q) x = plAt (p0 :: P) x := by
  induction reqs with
  | nil =>
    intro rows p0 P hP hd
    exact ⟨[], rows, p0, P, rfl, rfl, hP, hd, fun _ => rfl⟩
  | cons req reqs ih =>
    intro rows p0 P hP hd
    obtain ⟨out1, q0, Q, e1, hQ, hdQ, hpl1⟩ := curves_preserved cfg ok tol htol rows req c hc p0 P hP hd
    obtain ⟨cs, out, r0, R, e2, hlen, hR, hdR, hpl2⟩ := ih out1 q0 Q hQ hdQ
    refine ⟨(out1.length - rows.length) :: cs, out, r0, R, ?_, by simp [hlen], hR, hdR, fun x => by rw [hpl2 x, hpl1 x]⟩
    simp only [insertMany, e1, e2, bind, Except.bind, pure, Except.pure]

/-- Unsorted or permuted requests give exactly the same table and count. -/
theorem order_irrelevant (cfg : TblCfg) (tol : Rat) (rows : List Row) {xs ys : List Rat} (h : xs.Perm ys) :
    insertTemps cfg tol rows xs = insertTemps cfg tol rows ys :=
  insertTemps_perm cfg tol rows h

/-- Re-inserting temperatures already present (within tolerance) adds nothing. -/
theorem reinsertion_noop (cfg : TblCfg) (tol : Rat) (rows : List Row) (Ts vals : List Rat)
    (ht : temps cfg rows = some Ts) (hd : strictlyDesc Ts = true) (hne : rows ≠ [])
    (h : ∀ v ∈ vals, ∃ t ∈ Ts, rabs (t - v) ≤ tol) :
    insertTemps cfg tol rows vals = .ok (rows, 0) :=
  insertTemps_noop cfg tol rows Ts vals ht hd hne h

/-- The generated (CP, ΔH) pairs are laid out as the bookkeeping needs: distinct existing ΔH columns,
    never a CP column, CP columns plain (not `T`, not `ΔT`, not interpolated). -/
theorem genPairs_ok : PairsOK Drive.genCfg := by
  constructor <;> decide +kernel

/-- **Row bookkeeping survives an insertion at or below the top row**, whatever books the first row
    keeps (for insertions above the table see `bookkeeping_preserved`, which needs a zero first row).
    If the first row keeps its books (ΔT numeric, CPs numeric, every ΔH = ΔT·CP) and every later
    row's ΔT is the gap to the row above with ΔH = ΔT·CP, then the same holds for the table
    returned for ANY list of requested temperatures at or below the top: every new or adjusted row's
    interval width equals the gap to the row above and its enthalpy changes equal CP times it. -/
theorem bookkeeping_preserved_partial (cfg : TblCfg) (ok : CfgOK cfg) (pk : PairsOK cfg) (tol : Rat) (htol : 0 ≤ tol)
    (r0 : Row) (rest : List Row) (t0 d0 : Rat) (vals : List Rat)
    (hp : Plain cfg t0 r0) (hb : Book cfg d0 r0) (hl : LinkedFrom cfg t0 rest)
    (hnotop : ∀ v ∈ vals, ¬ t0 < v) (out : List Row) (n : Nat)
    (he : insertTemps cfg tol (r0 :: rest) vals = .ok (out, n)) :
    ∃ h tail, out = h :: tail ∧ Plain cfg t0 h ∧ Book cfg d0 h ∧ LinkedFrom cfg t0 tail :=
  insertTemps_book cfg ok pk tol htol r0 rest t0 d0 vals hp hb hl hnotop out n he

/-- **Row bookkeeping survives ANY insertion**, also above the table: if the first row is a zero row
    (ΔT numeric, heat capacities and enthalpy changes 0 — what the top row of a problem table is)
    and every later row is linked to the row above it (ΔT = gap, ΔH = CP·ΔT), then so is every row
    after the first of the table returned for any requested temperatures — above, inside, below, in
    any number — and the new first row keeps its books. -/
theorem bookkeeping_preserved (cfg : TblCfg) (ok : CfgOK cfg) (pk : PairsOK cfg) (tol : Rat) (htol : 0 ≤ tol)
    (r0 : Row) (rest : List Row) (t0 d0 : Rat) (vals : List Rat)
    (hz0 : ZRow cfg t0 d0 r0) (hl : LinkedFrom cfg t0 rest) (out : List Row) (n : Nat)
    (he : insertTemps cfg tol (r0 :: rest) vals = .ok (out, n)) :
    ∃ h tail, out = h :: tail ∧ (∃ t d, Plain cfg t h ∧ Book cfg d h) ∧ List.IsChain (LinkR cfg) out :=
  insertTemps_book_full cfg ok pk tol htol r0 rest t0 d0 vals hz0 hl out n he

/-- the hypotheses are satisfiable: a two-row table over columns (T, ΔT, CP, ΔH) -/
example : let cfg : TblCfg := { nCols := 4, tI := 0, dI := 1, interp := [], pairs := [(2, 3)] }
    Plain cfg 100 [some 100, some 0, some 0, some 0] ∧ Book cfg 0 [some 100, some 0, some 0, some 0] ∧
    LinkedFrom cfg 100 [[some 80, some 20, some 2, some 40]] := by
  refine ⟨⟨rfl, rfl, ?_⟩, ⟨rfl, ?_⟩, ⟨80, rfl, ⟨by norm_num [Row.get], ?_⟩, rfl, trivial⟩⟩
  · intro p hp; simp only [List.mem_singleton] at hp; subst hp; exact ⟨0, rfl⟩
  · intro p hp; simp only [List.mem_singleton] at hp; subst hp; exact ⟨0, rfl, by norm_num [Row.get]⟩
  · intro p hp; simp only [List.mem_singleton] at hp; subst hp; exact ⟨2, rfl, by norm_num [Row.get]⟩

/-- The tolerance of the code is non-negative (side condition of `curves_preserved`). -/
theorem tol_nonneg : 0 ≤ Gen.tol := by decide +kernel

/-- Non-vacuity: `T = [110, 90, 50]`, insert 79.1 — the pinned tree's off-centre case. -/
example :
    (insertTemps ⟨3, 0, 1, [2], []⟩ Gen.tol [[some 110, some 0, some 0], [some 90, some 20, some 200], [some 50, some 40, some 1000]] [791/10]).toOption.map
      (fun r => r.1.map (fun row => (row.get 0, row.get 1, row.get 2)))
    = some [(some 110, some 0, some 0), (some 90, some 20, some 200), (some (791/10), some (109/10), some 418),
            (some 50, some (291/10), some 1000)] := by decide +kernel

end OP.C08
