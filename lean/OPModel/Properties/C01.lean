/-
  C01 — Direct-integration energy targets equal the exact thermodynamic minimum.

  `directTargets` is the model of `create_problem_table_with_t_int` +
  `problem_table_algorithm` + `set_zonal_targets` (tied to the code column by column by
  harness/opv/props/c01.py).  `deficit hot cold T` is the specification: total cold duty above
  `T` minus total hot duty above `T`, over exact rationals, for *any* temperature `T`.

  Grid hypothesis (`ChainOK` + `InRange`): the grid is strictly descending with gaps wider than
  the code's activity window `w = 10·tol`, no stream bound lies strictly inside a cell, and all
  streams lie within the grid range.  The code's own grid satisfies it whenever distinct shifted
  stream bounds are more than `w` apart (the driver evaluates it per case; the excluded region is
  exercised on the real code by the thorough tier).
-/
import OPModel.Proofs.DeficitAll
import OPModel.Gen.Constants

namespace OP.C01
open OP

/-- Qh is the largest net heat deficit above any grid temperature and is attained; Qc and Qr
    close the balance.  For every number of streams and rows. -/
theorem di_targets_on_grid (tol w : Rat) (hw : 0 ≤ w) (htw : tol ≤ w) (hot cold : List Seg)
    (t0 : Rat) (rest : List Rat)
    (hr : InRange (cold ++ hot) ((t0 :: rest).getLast (List.cons_ne_nil _ _)) t0)
    (hch : ChainOK w (cold ++ hot) t0 rest) :
    ∃ t, directTargets tol w (t0 :: rest) hot cold = .ok t ∧
      (∀ x ∈ t0 :: rest, deficit hot cold x ≤ t.qh) ∧
      (∃ x ∈ t0 :: rest, deficit hot cold x = t.qh) ∧
      t.qc = t.qh - total cold + total hot ∧
      t.qr = total hot - t.qc := by
  have hs : ∀ s ∈ cold ++ hot, s.lo ≤ s.hi := fun s h => (hr s h).1
  have hhi_h : ∀ s ∈ hot, s.hi ≤ t0 := fun s h => (hr s (List.mem_append_right _ h)).2.1
  have hhi_c : ∀ s ∈ cold, s.hi ≤ t0 := fun s h => (hr s (List.mem_append_left _ h)).2.1
  obtain ⟨pt, hpt, hc⟩ := problemTable_closed tol w hw htw hot cold t0 rest hs hch
  have ht := targets_closed hot cold t0 rest pt hc hs
  obtain ⟨hmax, hatt⟩ := minNet_spec hot cold t0 rest
  refine ⟨_, by simp only [directTargets, hpt]; exact ht, ?_, ?_, ?_, ?_⟩
  · intro x hx
    have := hmax x hx
    rw [netC_eq_deficit hot cold t0 x hhi_h hhi_c] at this
    exact this
  · obtain ⟨x, hx, e⟩ := hatt
    exact ⟨x, hx, by rw [← netC_eq_deficit hot cold t0 x hhi_h hhi_c]; exact e⟩
  · simp only
    rw [netC_eq_deficit hot cold t0 _ hhi_h hhi_c]
    unfold deficit
    rw [aboveAll_bottom cold _ (fun s h => ⟨(hr s (List.mem_append_left _ h)).1, (hr s (List.mem_append_left _ h)).2.2⟩),
      aboveAll_bottom hot _ (fun s h => ⟨(hr s (List.mem_append_right _ h)).1, (hr s (List.mem_append_right _ h)).2.2⟩)]
    ring
  · simp only
    rw [content_eq_above hot _ t0 hhi_h,
      aboveAll_bottom hot _ (fun s h => ⟨(hr s (List.mem_append_right _ h)).1, (hr s (List.mem_append_right _ h)).2.2⟩)]

/-- **The full statement of C01**: Qh is the largest net heat deficit above *any* temperature
    (not only grid points), or zero; it is attained; Qc = Qh − ΣQ_cold + ΣQ_hot; Qr = ΣQ_hot − Qc. -/
theorem di_targets_exact (tol w : Rat) (hw : 0 ≤ w) (htw : tol ≤ w) (hot cold : List Seg)
    (t0 : Rat) (rest : List Rat)
    (hr : InRange (cold ++ hot) ((t0 :: rest).getLast (List.cons_ne_nil _ _)) t0)
    (hch : ChainOK w (cold ++ hot) t0 rest) :
    ∃ t, directTargets tol w (t0 :: rest) hot cold = .ok t ∧
      (∀ x : Rat, deficit hot cold x ≤ t.qh) ∧
      (∃ x, deficit hot cold x = t.qh) ∧ 0 ≤ t.qh ∧
      t.qc = t.qh - total cold + total hot ∧
      t.qr = total hot - t.qc := by
  obtain ⟨t, ht, hmax, ⟨xa, hxa, hatt⟩, hqc, hqr⟩ := di_targets_on_grid tol w hw htw hot cold t0 rest hr hch
  have hhi_h : ∀ s ∈ hot, s.hi ≤ t0 := fun s h => (hr s (List.mem_append_right _ h)).2.1
  have hhi_c : ∀ s ∈ cold, s.hi ≤ t0 := fun s h => (hr s (List.mem_append_left _ h)).2.1
  have hch_h : ChainOK w hot t0 rest :=
    ChainOK.mono (fun s h => ⟨s, List.mem_append_right _ h, rfl, rfl⟩) rest t0 hch
  have hch_c : ChainOK w cold t0 rest :=
    ChainOK.mono (fun s h => ⟨s, List.mem_append_left _ h, rfl, rfl⟩) rest t0 hch
  have htop : deficit hot cold t0 = 0 := by
    unfold deficit
    rw [aboveAll_top cold t0 hhi_c, aboveAll_top hot t0 hhi_h]; ring
  have h0 : 0 ≤ t.qh := by
    have := hmax t0 (by simp)
    rw [htop] at this; exact this
  exact ⟨t, ht, deficit_le_of_grid w hw hot cold t0 rest hr hch t.qh hmax, ⟨xa, hatt⟩, h0, hqc, hqr⟩

/-- The activity window and tolerance of the code satisfy the side conditions of the theorems. -/
theorem window_ok : 0 ≤ Gen.activityFactor * Gen.tol ∧ Gen.tol ≤ Gen.activityFactor * Gen.tol := by
  constructor <;> decide +kernel

/-- Non-vacuity: a two-stream problem on its own grid meets `InRange` and `ChainOK`
    (H 200→120, 8000 kW and C 40→160, 6000 kW, both shifted by 10 K), and the model returns
    Qh = 0, Qc = 2000, Qr = 6000. -/
example : directTargets Gen.tol (Gen.activityFactor * Gen.tol) [190, 170, 110, 50]
    [⟨110, 190, 100, 100⟩] [⟨50, 170, 50, 50⟩] = .ok ⟨0, 2000, 6000⟩ := by decide +kernel

example : ChainOK (Gen.activityFactor * Gen.tol) ([⟨50, 170, 50, 50⟩] ++ [⟨110, 190, 100, 100⟩]) 190 [170, 110, 50] := by
  simp only [ChainOK, CellOK, List.cons_append, List.nil_append, List.mem_cons, List.not_mem_nil, or_false,
    forall_eq_or_imp, forall_eq, and_true]
  decide +kernel

end OP.C01
