/-
  C11 — Analysis is a pure function of its input.

  What can be a theorem here is small and is stated about facts regenerated from the live code on
  every run: `Gen.mutableDefaults` lists every function or method of the OpenPinch package whose
  default argument values are mutable objects (cells that persist between calls).
    * `mutable_defaults_known`: that list contains nothing beyond three read-only defaults (checked
      read-only at run time by the module-state snapshot of the harness);
    * `no_shared_state_writes`: `Gen.sharedStateWrites` — every statement inside a function of the package that
      assigns to an attribute of a class object (`Configuration.DT_CONT = …`), calls `setattr` on a class, or
      declares a `global` — is empty (seeded change C11-clamp-writes-class-attribute makes it non-empty);
    * `graph_default_not_mutable`: in particular not `get_output_graph_data`, the accumulator of the
      graph sets;
    * `history_independent`, `world_unchanged`: with that fact, in the model of the service's
      call-to-call state, the graph-set keys of every call in every history are those of a fresh
      call on the same problem, and the world is left as it was;
    * `mutable_default_leaks`: with a mutable default the same model violates the property
      (the defect repaired by fix commit d508d52), so the theorem above is not vacuous.
  Everything else the property says (input objects unchanged, earlier results unchanged, equality of
  complete results with a fresh interpreter) is decided by the oracle, which runs every history in
  a fresh interpreter.
-/
import OPModel.Model.Purity
import OPModel.Drive.C11

namespace OP.C11
open OP

def readOnlyDefaults : List String :=
  ["OpenPinch.analysis.heat_pump_targeting._prepare_heat_pump_target_inputs",
   "OpenPinch.analysis.problem_table_analysis.create_problem_table_with_t_int",
   "OpenPinch.analysis.problem_table_analysis.get_process_heat_cascade"]

/-- No function of the library has a mutable default argument other than three that are only read. -/
theorem mutable_defaults_known : ∀ f ∈ Gen.mutableDefaults, f ∈ readOnlyDefaults := by decide

/-- No function of the library writes to a class attribute or to a module-level name. -/
theorem no_shared_state_writes : Gen.sharedStateWrites = [] := by decide

theorem graph_default_not_mutable : Drive.graphDefaultMutable = false := by decide

theorem serviceCall_pure (w : PyWorld) (k : List String) :
    serviceCall false w k = (w, mergeKeys [] k) := rfl

/-- **Every call in every history returns what a fresh call on the same problem returns.** -/
theorem history_independent (w : PyWorld) (hist : List (List String)) :
    runHistory Drive.graphDefaultMutable w hist
      = hist.map fun k => (serviceCall Drive.graphDefaultMutable {} k).2 := by
  rw [graph_default_not_mutable]
  induction hist generalizing w with
  | nil => rfl
  | cons k rest ih => simp only [runHistory, serviceCall_pure, List.map_cons, ih]

/-- **No call changes the state carried between calls.** -/
theorem world_unchanged (w : PyWorld) (hist : List (List String)) :
    finalWorld Drive.graphDefaultMutable w hist = w := by
  rw [graph_default_not_mutable]
  induction hist generalizing w with
  | nil => rfl
  | cons k rest ih => simp only [finalWorld, serviceCall_pure, ih]

/-- With a mutable default the second call also returns the first problem's graph sets. -/
theorem mutable_default_leaks :
    runHistory true {} [["A/Direct Integration"], ["B/Direct Integration"]]
      ≠ [["A/Direct Integration"], ["B/Direct Integration"]] := by decide

end OP.C11
