/-
  C12 — Results are invariant under equivalent descriptions of the problem.

  The theorems are about the *specification* of the energy targets that `C01.di_targets_exact`
  proves the cascade model computes on every compatible grid: `IsTargets hot cold t` says `t.qh` is
  the attained maximum over all temperatures of the net heat deficit, and `qc`, `qr` close the
  balance.  `IsTargets` determines `t` uniquely, so any two descriptions with the same
  specification get the same targets from the model (`model_agrees`).  Proved for stream lists of
  any length:
    * permutation of hot and of cold streams;
    * a stream split at an intermediate temperature, or into parallel branches of the same range;
    * translation of all temperatures (targets unchanged; the attaining temperature — the pinch —
      moves by the shift);
    * scaling of all duties by `k > 0` (targets scale by `k`);
    * mirroring of the temperature axis (hot and cold swap, `Qh ↔ Qc`, `Qr` unchanged).
  Zone renaming / reordering, utility duties, total-site records and graph data are not covered by
  these theorems: they are decided by the metamorphic oracle on the service.
-/
import OPModel.Proofs.Metamorphic
import OPModel.Properties.C01

namespace OP.C12
open OP

/-- The cascade model returns targets meeting the specification (restating `C01.di_targets_exact`). -/
theorem model_meets_spec (tol w : Rat) (hw : 0 ≤ w) (htw : tol ≤ w) (hot cold : List Seg)
    (t0 : Rat) (rest : List Rat)
    (hr : InRange (cold ++ hot) ((t0 :: rest).getLast (List.cons_ne_nil _ _)) t0)
    (hch : ChainOK w (cold ++ hot) t0 rest) :
    ∃ t, directTargets tol w (t0 :: rest) hot cold = .ok t ∧ IsTargets hot cold t := by
  obtain ⟨t, h, hub, hatt, _, hqc, hqr⟩ := C01.di_targets_exact tol w hw htw hot cold t0 rest hr hch
  exact ⟨t, h, ⟨hub, hatt, hqc, hqr⟩⟩

/-- **Two descriptions with the same specification get the same targets from the model**, whatever
    (compatible) grids the two runs use. -/
theorem model_agrees (tol w : Rat) (hw : 0 ≤ w) (htw : tol ≤ w) (hot cold hot' cold' : List Seg)
    (t0 t0' : Rat) (rest rest' : List Rat)
    (hr : InRange (cold ++ hot) ((t0 :: rest).getLast (List.cons_ne_nil _ _)) t0)
    (hch : ChainOK w (cold ++ hot) t0 rest)
    (hr' : InRange (cold' ++ hot') ((t0' :: rest').getLast (List.cons_ne_nil _ _)) t0')
    (hch' : ChainOK w (cold' ++ hot') t0' rest')
    (hd : ∀ x, deficit hot' cold' x = deficit hot cold x) (hc : total cold' = total cold) (hh : total hot' = total hot) :
    directTargets tol w (t0' :: rest') hot' cold' = directTargets tol w (t0 :: rest) hot cold := by
  obtain ⟨t, h, hs⟩ := model_meets_spec tol w hw htw hot cold t0 rest hr hch
  obtain ⟨t', h', hs'⟩ := model_meets_spec tol w hw htw hot' cold' t0' rest' hr' hch'
  rw [h, h', (hs.congr hd hc hh).unique hs']

/-- **Permutation**: listing the streams in another order changes nothing. -/
theorem perm_invariant (hot cold hot' cold' : List Seg) (t : Targets)
    (hh : hot.Perm hot') (hc : cold.Perm cold') (h : IsTargets hot cold t) : IsTargets hot' cold' t :=
  h.congr (fun x => by unfold deficit; rw [aboveAll_perm hc.symm, aboveAll_perm hh.symm])
    (total_perm hc.symm) (total_perm hh.symm)

/-- **Serial split** of a cold stream at an intermediate temperature `m`. -/
theorem split_serial_cold (hot cold : List Seg) (lo m hi cp r : Rat) (h1 : lo ≤ m) (h2 : m ≤ hi) (t : Targets)
    (h : IsTargets hot (⟨lo, hi, cp, r⟩ :: cold) t) :
    IsTargets hot (⟨lo, m, cp, r⟩ :: ⟨m, hi, cp, r⟩ :: cold) t :=
  h.congr (fun x => by
      unfold deficit
      rw [aboveAll_cons, aboveAll_cons, aboveAll_cons, above_split_serial lo m hi cp r h1 h2]; ring)
    (by rw [total_cons, total_cons, total_cons, duty_split_serial lo m hi cp r]; ring) rfl

/-- **Serial split** of a hot stream. -/
theorem split_serial_hot (hot cold : List Seg) (lo m hi cp r : Rat) (h1 : lo ≤ m) (h2 : m ≤ hi) (t : Targets)
    (h : IsTargets (⟨lo, hi, cp, r⟩ :: hot) cold t) :
    IsTargets (⟨lo, m, cp, r⟩ :: ⟨m, hi, cp, r⟩ :: hot) cold t :=
  h.congr (fun x => by
      unfold deficit
      rw [aboveAll_cons, aboveAll_cons, aboveAll_cons, above_split_serial lo m hi cp r h1 h2]; ring)
    rfl (by rw [total_cons, total_cons, total_cons, duty_split_serial lo m hi cp r]; ring)

/-- **Parallel split** into two branches of the same range (either side). -/
theorem split_parallel_cold (hot cold : List Seg) (lo hi a b r : Rat) (t : Targets)
    (h : IsTargets hot (⟨lo, hi, a + b, r⟩ :: cold) t) :
    IsTargets hot (⟨lo, hi, a, r⟩ :: ⟨lo, hi, b, r⟩ :: cold) t :=
  h.congr (fun x => by
      unfold deficit
      rw [aboveAll_cons, aboveAll_cons, aboveAll_cons, above_split_parallel]; ring)
    (by rw [total_cons, total_cons, total_cons, duty_split_parallel]; ring) rfl

theorem split_parallel_hot (hot cold : List Seg) (lo hi a b r : Rat) (t : Targets)
    (h : IsTargets (⟨lo, hi, a + b, r⟩ :: hot) cold t) :
    IsTargets (⟨lo, hi, a, r⟩ :: ⟨lo, hi, b, r⟩ :: hot) cold t :=
  h.congr (fun x => by
      unfold deficit
      rw [aboveAll_cons, aboveAll_cons, aboveAll_cons, above_split_parallel]; ring)
    rfl (by rw [total_cons, total_cons, total_cons, duty_split_parallel]; ring)

/-- **Translation**: the targets are unchanged and every temperature at which the deficit attains
    them — every pinch — moves by the shift. -/
theorem translate_invariant (d : Rat) (hot cold : List Seg) (t : Targets) (h : IsTargets hot cold t) :
    IsTargets (hot.map (Seg.shift d)) (cold.map (Seg.shift d)) t ∧
    ∀ x, deficit hot cold x = t.qh → deficit (hot.map (Seg.shift d)) (cold.map (Seg.shift d)) (x + d) = t.qh := by
  have key : ∀ x, deficit (hot.map (Seg.shift d)) (cold.map (Seg.shift d)) (x + d) = deficit hot cold x := by
    intro x; unfold deficit; rw [aboveAll_shift, aboveAll_shift]
  refine ⟨⟨?_, ?_, ?_, ?_⟩, fun x hx => by rw [key]; exact hx⟩
  · intro x
    have := key (x - d)
    rw [sub_add_cancel] at this
    rw [this]; exact h.ub _
  · obtain ⟨x, hx⟩ := h.att
    exact ⟨x + d, by rw [key]; exact hx⟩
  · rw [total_map_eq _ (duty_shift d), total_map_eq _ (duty_shift d)]; exact h.qc
  · rw [total_map_eq _ (duty_shift d)]; exact h.qr

/-- **Scaling** all duties by `k ≥ 0` scales the three targets by `k`; the pinch stays. -/
theorem scale_linear (k : Rat) (hk : 0 ≤ k) (hot cold : List Seg) (t : Targets) (h : IsTargets hot cold t) :
    IsTargets (hot.map (Seg.scale k)) (cold.map (Seg.scale k)) ⟨k * t.qh, k * t.qc, k * t.qr⟩ := by
  have key : ∀ x, deficit (hot.map (Seg.scale k)) (cold.map (Seg.scale k)) x = k * deficit hot cold x := by
    intro x; unfold deficit; rw [aboveAll_scale, aboveAll_scale]; ring
  refine ⟨?_, ?_, ?_, ?_⟩
  · intro x; rw [key]; exact mul_le_mul_of_nonneg_left (h.ub x) hk
  · obtain ⟨x, hx⟩ := h.att
    exact ⟨x, by rw [key, hx]⟩
  · simp only; rw [total_scale, total_scale, h.qc]; ring
  · simp only; rw [total_scale, h.qr]; ring

/-- **Mirroring** the temperature axis: the mirrored cold streams act as hot streams and vice versa;
    `Qh` and `Qc` swap and `Qr` is unchanged. -/
theorem mirror_swaps (hot cold : List Seg) (hh : ∀ s ∈ hot, s.lo ≤ s.hi) (hc : ∀ s ∈ cold, s.lo ≤ s.hi)
    (t : Targets) (h : IsTargets hot cold t) :
    IsTargets (cold.map Seg.mirror) (hot.map Seg.mirror) ⟨t.qc, t.qh, t.qr⟩ := by
  have key : ∀ x, deficit (cold.map Seg.mirror) (hot.map Seg.mirror) (-x)
      = deficit hot cold x + total hot - total cold := by
    intro x; unfold deficit; rw [aboveAll_mirror hot hh, aboveAll_mirror cold hc]; ring
  refine ⟨?_, ?_, ?_, ?_⟩
  · intro x
    have := key (-x)
    rw [neg_neg] at this
    rw [this]
    have := h.ub (-x)
    simp only
    rw [h.qc]; linarith
  · obtain ⟨x, hx⟩ := h.att
    refine ⟨-x, ?_⟩
    rw [key, hx]; simp only; rw [h.qc]; ring
  · simp only
    rw [total_map_eq _ duty_mirror, total_map_eq _ duty_mirror, h.qc]; ring
  · simp only
    rw [total_map_eq _ duty_mirror, h.qr, h.qc]; ring

/-! ### non-vacuity -/

/-- H 190→110 (CP 100) against C 50→170 (CP 50): Qh 0, Qc 2000, Qr 6000 meet the specification. -/
example : ∃ t, directTargets Gen.tol (Gen.activityFactor * Gen.tol) [190, 170, 110, 50]
    [⟨110, 190, 100, 100⟩] [⟨50, 170, 50, 50⟩] = .ok t ∧ t = ⟨0, 2000, 6000⟩ := ⟨_, by decide +kernel, rfl⟩

end OP.C12
