/-
  C02 — Every reported target closes the first-law energy balance.

  Direct-integration records: corollaries of the C01 closed form.  Total-process records: sums
  of balanced records are balanced.  Total-site records: the utility-system cascade
  (`siteTargets`, model of `_get_site_utility_heat_cascade` + the `H_net_ut` read-out, tied to the
  code by harness/opv/props/c02.py) closes the balance of the summed utility duties; together with
  allocation closure of every zone (C03: Σ hot duties = Qh_z, Σ cold duties = Qc_z — a hypothesis
  here, `Closure`) this is the stream balance of the site.
-/
import OPModel.Proofs.SiteLemmas
import OPModel.Properties.C01

namespace OP.C02
open OP

/-- **Direct integration**: Qh − Qc = ΣQ_cold − ΣQ_hot, Qr = ΣQ_hot − Qc, and with non-negative
    heat-capacity flow rates all three are non-negative. -/
theorem di_balance (tol w : Rat) (hw : 0 ≤ w) (htw : tol ≤ w) (hot cold : List Seg)
    (t0 : Rat) (rest : List Rat)
    (hr : InRange (cold ++ hot) ((t0 :: rest).getLast (List.cons_ne_nil _ _)) t0)
    (hch : ChainOK w (cold ++ hot) t0 rest) (hcp : ∀ s ∈ cold ++ hot, 0 ≤ s.cp) :
    ∃ t, directTargets tol w (t0 :: rest) hot cold = .ok t ∧
      t.qh - t.qc = total cold - total hot ∧ t.qr = total hot - t.qc ∧
      0 ≤ t.qh ∧ 0 ≤ t.qc ∧ 0 ≤ t.qr := by
  obtain ⟨t, ht, hmax, ⟨xa, hatt⟩, h0, hqc, hqr⟩ := C01.di_targets_exact tol w hw htw hot cold t0 rest hr hch
  have hc : ∀ s ∈ cold, 0 ≤ s.cp ∧ s.lo ≤ s.hi :=
    fun s h => ⟨hcp s (List.mem_append_left _ h), (hr s (List.mem_append_left _ h)).1⟩
  have hh : ∀ s ∈ hot, 0 ≤ s.cp ∧ s.lo ≤ s.hi :=
    fun s h => ⟨hcp s (List.mem_append_right _ h), (hr s (List.mem_append_right _ h)).1⟩
  set bot := (t0 :: rest).getLast (List.cons_ne_nil _ _)
  -- Qc is the residual at the bottom row, Qh the deficit at some temperature
  have hbot := hmax bot
  have hdb : deficit hot cold bot = total cold - total hot := by
    unfold deficit
    rw [aboveAll_bottom cold bot (fun s h => ⟨(hr s (List.mem_append_left _ h)).1, (hr s (List.mem_append_left _ h)).2.2⟩),
      aboveAll_bottom hot bot (fun s h => ⟨(hr s (List.mem_append_right _ h)).1, (hr s (List.mem_append_right _ h)).2.2⟩)]
  have hqh_le : t.qh ≤ total cold := by
    rw [← hatt]
    unfold deficit
    have := (aboveAll_bounds cold xa hc).2
    have := (aboveAll_bounds hot xa hh).1
    linarith
  refine ⟨t, ht, by rw [hqc]; ring, hqr, h0, ?_, ?_⟩
  · rw [hqc]; rw [hdb] at hbot; linarith
  · rw [hqr, hqc]; linarith

/-- **The utility duties of a record differ by the same net amount.**  Whenever the allocation closes within
    `tol` on both sides (C03: `covering_ladder_closes_hot` / `_cold`) and the record closes the balance, the
    listed hot and cold utility duties differ from `ΣQ_cold − ΣQ_hot` by at most `tol`; with exact closure
    they differ by exactly that amount. -/
theorem utility_net_of_closure (tol : Rat) (t : Targets) (hu cu : List Rat) (totC totH : Rat)
    (hbal : t.qh - t.qc = totC - totH)
    (hh : t.qh - tol ≤ hu.sum ∧ hu.sum ≤ t.qh) (hc : t.qc - tol ≤ cu.sum ∧ cu.sum ≤ t.qc) :
    rabs ((hu.sum - cu.sum) - (totC - totH)) ≤ tol ∧
    (hu.sum = t.qh → cu.sum = t.qc → hu.sum - cu.sum = totC - totH) := by
  constructor
  · unfold rabs
    split_ifs <;> linarith [hh.1, hh.2, hc.1, hc.2]
  · intro e1 e2; rw [e1, e2]; exact hbal

/-- **Total-process record**: the sum of records that each close the balance closes the balance
    of the summed stream duties. -/
theorem tz_balance (ts : List Targets) (cs hs : List Rat) (hlen1 : cs.length = ts.length) (hlen2 : hs.length = ts.length)
    (hbal : ∀ i (h : i < ts.length), ts[i].qh - ts[i].qc = cs[i]'(by omega) - hs[i]'(by omega) ∧
      ts[i].qr = hs[i]'(by omega) - ts[i].qc) :
    (sumTargets ts).qh - (sumTargets ts).qc = cs.sum - hs.sum ∧ (sumTargets ts).qr = hs.sum - (sumTargets ts).qc := by
  obtain ⟨e1, e2, e3⟩ := sumTargets_fields ts
  rw [e1, e2, e3]
  induction ts generalizing cs hs with
  | nil =>
    have : cs = [] := List.length_eq_zero_iff.mp hlen1
    have : hs = [] := List.length_eq_zero_iff.mp hlen2
    subst_vars; simp
  | cons t ts ih =>
    cases cs with
    | nil => simp at hlen1
    | cons c cs =>
      cases hs with
      | nil => simp at hlen2
      | cons h hs =>
        simp only [List.length_cons, Nat.add_right_cancel_iff] at hlen1 hlen2
        have h0 := hbal 0 (by simp)
        simp only [List.getElem_cons_zero] at h0
        have hrest : ∀ i (hi : i < ts.length), ts[i].qh - ts[i].qc = cs[i]'(by omega) - hs[i]'(by omega) ∧
            ts[i].qr = hs[i]'(by omega) - ts[i].qc := by
          intro i hi
          have := hbal (i + 1) (by simp; omega)
          simpa using this
        obtain ⟨a, b⟩ := ih cs hs hlen1 hlen2 hrest (sumTargets_fields ts).1 (sumTargets_fields ts).2.1 (sumTargets_fields ts).2.2
        simp only [List.map_cons, List.sum_cons]
        constructor <;> linarith [h0.1, h0.2]

/-- **Total-site record**: the utility-system cascade gives Qh_TS − Qc_TS = Σ(hot utility duties) −
    Σ(cold utility duties) with both targets non-negative; and Qr_TS = ΣQr_z + ΣQh_z − Qh_TS. -/
theorem ts_balance (tol w : Rat) (hw : 0 ≤ w) (htw : tol ≤ w) (hotU coldU : List Seg) (tz : Targets)
    (t0 : Rat) (rest : List Rat)
    (hr : InRange (coldU ++ hotU) ((t0 :: rest).getLast (List.cons_ne_nil _ _)) t0)
    (hch : ChainOK w (coldU ++ hotU) t0 rest) :
    ∃ t, siteTargets tol w (t0 :: rest) hotU coldU tz = .ok t ∧
      t.qh - t.qc = total hotU - total coldU ∧ 0 ≤ t.qh ∧ 0 ≤ t.qc ∧ t.qr = tz.qr + (tz.qh - t.qh) := by
  have hs : ∀ s ∈ coldU ++ hotU, s.lo ≤ s.hi := fun s h => (hr s h).1
  have hhi_h : ∀ s ∈ hotU, s.hi ≤ t0 := fun s h => (hr s (List.mem_append_right _ h)).2.1
  have hhi_c : ∀ s ∈ coldU, s.hi ≤ t0 := fun s h => (hr s (List.mem_append_left _ h)).2.1
  obtain ⟨pt, hpt, hc⟩ := problemTable_closed tol w hw htw hotU coldU t0 rest hs hch
  set bot := (t0 :: rest).getLast (List.cons_ne_nil _ _) with hbot
  obtain ⟨m, hm⟩ : ∃ m, listMax pt.hNet = some m := by
    rw [hc.hNet]; exact ⟨_, rfl⟩
  obtain ⟨hmem, hle⟩ := listMax_spec pt.hNet m hm
  have hsh : ∀ s ∈ hotU, s.lo ≤ s.hi := fun s h => hs s (List.mem_append_right _ h)
  have hsc : ∀ s ∈ coldU, s.lo ≤ s.hi := fun s h => hs s (List.mem_append_left _ h)
  have z : netC hotU coldU t0 t0 = 0 := by
    unfold netC; rw [content_self coldU t0 hsc, content_self hotU t0 hsh]; ring
  have hhead : pt.hNet.head? = some (-(netC hotU coldU t0 t0) - minNet hotU coldU t0 rest) := by
    rw [hc.hNet]; rfl
  have hlast : pt.hNet.getLast? = some (-(netC hotU coldU t0 bot) - minNet hotU coldU t0 rest) := by
    rw [hc.hNet, getLast?_map_cons]
  have hhead_mem : (-(netC hotU coldU t0 t0) - minNet hotU coldU t0 rest) ∈ pt.hNet := by
    rw [hc.hNet]; exact List.mem_map.mpr ⟨t0, List.mem_cons_self, rfl⟩
  have hlast_mem : (-(netC hotU coldU t0 bot) - minNet hotU coldU t0 rest) ∈ pt.hNet := by
    rw [hc.hNet]; exact List.mem_map.mpr ⟨bot, List.getLast_mem _, rfl⟩
  refine ⟨{ qh := m - (-(netC hotU coldU t0 t0) - minNet hotU coldU t0 rest),
            qc := m - (-(netC hotU coldU t0 bot) - minNet hotU coldU t0 rest),
            qr := tz.qr + (tz.qh - (m - (-(netC hotU coldU t0 t0) - minNet hotU coldU t0 rest))) }, ?_, ?_, ?_, ?_, rfl⟩
  · simp only [siteTargets, siteUtilityColumn, hpt, hm, bind, Except.bind, pure, Except.pure,
      List.head?_map, List.getLast?_map, hhead, hlast, Option.map_some]
  · simp only
    rw [z, netC_eq_deficit hotU coldU t0 bot hhi_h hhi_c]
    unfold deficit
    rw [aboveAll_bottom coldU bot (fun s h => ⟨(hr s (List.mem_append_left _ h)).1, (hr s (List.mem_append_left _ h)).2.2⟩),
      aboveAll_bottom hotU bot (fun s h => ⟨(hr s (List.mem_append_right _ h)).1, (hr s (List.mem_append_right _ h)).2.2⟩)]
    ring
  · simp only; have := hle _ hhead_mem; linarith
  · simp only; have := hle _ hlast_mem; linarith

/-- Generation/use matching at one level subtracts the same duty from both sides and never goes
    negative: the net is preserved. -/
theorem match_preserves_net (qh qc : Rat) (hh : 0 ≤ qh) (hc : 0 ≤ qc) :
    (matchPair qh qc).1 - (matchPair qh qc).2 = qh - qc ∧ 0 ≤ (matchPair qh qc).1 ∧ 0 ≤ (matchPair qh qc).2 := by
  unfold matchPair
  simp only
  refine ⟨by ring, ?_, ?_⟩
  · have := min_le_left qh qc; linarith
  · have := min_le_right qh qc; linarith

end OP.C02
