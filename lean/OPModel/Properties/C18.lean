/-
  C18 — Solved heat-pump cycles obey the first and second laws.

  The thermodynamic states come from CoolProp (not modelled; the second-law and saturation-pressure
  clauses are decided by the oracle against CoolProp itself).  Proved here, for ALL state
  enthalpies and duties, about the model of the cycle's bookkeeping (`_get_metrics`,
  `build_stream_collection`; tied to the code on the metrics and on every stream duty):
    * `first_law`: condenser duty = evaporator duty + work;
    * `work_pos`: positive work whenever compression raises the enthalpy (h1 > h0) and the
      throttled fluid is not above the evaporator outlet (h3 ≤ h0);
    * `cop_relation`: COP_h = COP_r + 1 under the same conditions;
    * `streams_carry_duty`: the streams built from a monotone enthalpy profile carry exactly the
      duty of their exchanger, all non-negative;
    * `stream_sets_order_independent`: building is a function of (profile, duty) only — no state —
      so any order or repetition of requests gives the same sets;
    * `legacy_order_dependent`: the bookkeeping before fix 275087a violates this (kernel-decided
      witness: the evaporator set requested before the condenser set is 1000 times the one
      requested after it).
-/
import OPModel.Proofs.HeatPumpLemmas
import OPModel.Drive.C18
import Mathlib.Tactic.FieldSimp
import Mathlib.Tactic.Ring
import Mathlib.Tactic.Linarith

namespace OP.C18
open OP OP.HP

/-- **First law** on the reported duties. -/
theorem first_law (c : Cycle) (Q : Rat) : Q = QEvap c Q + work c Q := by
  unfold work; ring

/-- **Positive work.** -/
theorem work_pos (c : Cycle) (Q : Rat) (hQ : 0 < Q) (h30 : c.h3 ≤ c.h0) (h01 : c.h0 < c.h1) : 0 < work c Q := by
  have hq : 0 < c.h1 - c.h3 := by linarith
  have e : work c Q = Q * (c.h1 - c.h0) / (c.h1 - c.h3) := by
    unfold work QEvap mDot qCond
    rw [qEvap_of_le c h30]
    field_simp
    ring
  rw [e]
  exact div_pos (mul_pos hQ (by linarith)) hq

/-- **COP_h = COP_r + 1.** -/
theorem cop_relation (c : Cycle) (h30 : c.h3 ≤ c.h0) (h01 : c.h0 < c.h1) : copH c = copR c + 1 := by
  unfold copH copR qCond wNet
  rw [qEvap_of_le c h30]
  have : c.h1 - c.h0 ≠ 0 := by intro h; linarith
  field_simp
  ring

/-- **The streams of a (falling) enthalpy profile carry exactly the exchanger's duty**, none negative.
    (A rising profile is the same statement read backwards.) -/
theorem streams_carry_duty (profile : List Rat) (duty a z : Rat) (hd : 0 ≤ duty)
    (hp : profile.Pairwise (· ≥ ·)) (ha : profile.head? = some a) (hz : profile.getLast? = some z) (haz : z < a) :
    (streamDuties profile duty).sum = duty ∧ ∀ q ∈ streamDuties profile duty, 0 ≤ q := by
  unfold streamDuties
  rw [ha, hz]
  simp only
  have habs : rabs (a - z) = a - z := by rw [rabs_eq_abs, abs_of_pos (by linarith)]
  rw [habs]
  have hne : a - z ≠ 0 := by intro h; linarith
  constructor
  · have hsum : ∀ (k : Rat) (l : List Rat), (l.map fun d => k * d).sum = k * l.sum := by
      intro k l
      induction l with
      | nil => simp
      | cons x xs ih => simp only [List.map_cons, List.sum_cons, ih]; ring
    rw [hsum, steps_sum_desc profile hp a z ha hz]
    field_simp
  · intro q hq
    obtain ⟨d, hdm, rfl⟩ := List.mem_map.mp hq
    exact mul_nonneg (div_nonneg hd (by linarith)) (steps_nonneg profile d hdm)

/-- **Order independence**: a stream set is a function of its profile and duty alone; requesting
    other sets before, or the same set again, cannot change it. -/
theorem stream_sets_order_independent (cond evap : List Rat) (Qc Qe : Rat) :
    let condThenEvap := (streamDuties cond Qc, streamDuties evap Qe)
    let evapThenCond := (fun e c => (c, e)) (streamDuties evap Qe) (streamDuties cond Qc)
    condThenEvap = evapThenCond := rfl

/-- The bookkeeping before the fix: evaporator streams requested first are 1000 times those
    requested after the condenser streams (profile enthalpies in J/kg, cycle solved for 100 kW). -/
theorem legacy_order_dependent :
    let c : Cycle := ⟨400000, 450000, 250000, 250000⟩
    let st0 : Legacy := ⟨mDot c 100⟩
    let evapFirst := (legacyEvap st0 [250000, 400000]).2
    let afterCond := (legacyEvap (legacyCond st0 100 [450000, 250000]).1 [250000, 400000]).2
    evapFirst = [75000] ∧ afterCond = [75] := by decide +kernel

/-! ### non-vacuity -/
example : streamDuties [450000, 420000, 260000, 250000] 100 = [15, 80, 5] := by decide +kernel
example : work ⟨400000, 450000, 250000, 250000⟩ 100 = 25 ∧ copH ⟨400000, 450000, 250000, 250000⟩ = 4 := by decide +kernel

end OP.C18
