/-
  C14 — The service is total and well-formed on every valid problem.

  Totality of ~5k lines of numpy / pydantic code is not something a model of this size can carry;
  what is proved here are the structural facts behind the failures the oracle found, regenerated
  from the live package on every run (AST walk + live objects, harness/opv/lean.py):
    * `config_reads_defined`: every upper-case attribute that any module of the package reads from
      a configuration object has a default in `Configuration` (or at module level of `lib/config`),
      except four turbine-model parameters read only by the unwired `power_cogeneration_analysis`;
      (the AttributeError for P_TURBINE_BOX, repaired by 27f6728, is exactly a violation of this);
    * `every_zone_type_has_a_handler`: every zone type other than the utility zone (rejected by input
      validation by design) has a target handler in `main._TARGET_HANDLERS`;
    * the cascade model is total on its domain (`C01.di_targets_exact`, restated as `cascade_total`).
  Everything else in the property — returns for all degenerate shapes and option subsets, schema /
  JSON / finite numbers, one record per zone, temperature envelope, repeatability — is decided by the
  oracle on the service itself.
-/
import OPModel.Properties.C01
import OPModel.Gen.Constants
import OPModel.Proofs.GridLemmas

namespace OP.C14
open OP

/-- parameters of the (unwired) turbine model of `power_cogeneration_analysis` -/
def unwiredTurbineModelParams : List String := ["COMBOBOX", "LOAD", "MECH_EFF", "MIN_EFF"]

/-- Every configuration attribute the package reads is defined with a default. -/
theorem config_reads_defined :
    ∀ a ∈ Gen.configAttrsRead, a ∈ Gen.configAttrsDefined ∨ a ∈ unwiredTurbineModelParams := by decide

/-- Every analysable zone type has a target handler. -/
theorem every_zone_type_has_a_handler : ∀ z ∈ Gen.analysableZoneTypes, z ∈ Gen.targetHandlers := by decide

/-- The cascade model never fails on a compatible grid, whatever the streams (restating C01). -/
theorem cascade_total (hot cold : List Seg) (t0 : Rat) (rest : List Rat)
    (hr : InRange (cold ++ hot) ((t0 :: rest).getLast (List.cons_ne_nil _ _)) t0)
    (hch : ChainOK (Gen.activityFactor * Gen.tol) (cold ++ hot) t0 rest) :
    ∃ t, directTargets Gen.tol (Gen.activityFactor * Gen.tol) (t0 :: rest) hot cold = .ok t ∧ 0 ≤ t.qh := by
  obtain ⟨t, h, _, _, h0, _, _⟩ := C01.di_targets_exact Gen.tol (Gen.activityFactor * Gen.tol)
    C01.window_ok.1 C01.window_ok.2 hot cold t0 rest hr hch
  exact ⟨t, h, h0⟩

/-- only hot streams, no cold stream: still a result (a degenerate shape of the property) -/
example : directTargets Gen.tol (Gen.activityFactor * Gen.tol) [190, 110] [⟨110, 190, 100, 100⟩] [] = .ok ⟨0, 8000, 0⟩ := by
  decide +kernel

/-! ### reported temperatures stay inside the input envelope -/

/-- **Every row of the temperature grid is (the 6-decimal rounding of) an input temperature**: the
    grid of `create_problem_table_with_t_int` invents no temperature. -/
theorem grid_rows_are_inputs (dp : Nat) (temps : List Rat) :
    ∀ t ∈ gridOf dp temps, ∃ x ∈ temps, t = roundDp dp x := by
  unfold gridOf
  induction temps with
  | nil => intro t h; simp at h
  | cons a as ih =>
    intro t h
    simp only [List.map_cons, List.foldr_cons] at h
    rcases mem_insertDesc _ _ _ h with h | h
    · exact ⟨a, by simp, h⟩
    · obtain ⟨x, hx, e⟩ := ih t h
      exact ⟨x, List.mem_cons_of_mem _ hx, e⟩

/-- **The reported pinch temperatures are rows of the grid**: whatever the column, `pinch_temperatures`
    returns two entries of the temperature column or nothing — hence temperatures inside any envelope
    `[lo, hi]` that contains the grid. -/
theorem pinch_temps_in_envelope (tol : Rat) (T h : List Rat) (lo hi a b : Rat)
    (hT : ∀ t ∈ T, lo ≤ t ∧ t ≤ hi) (hp : pinchTemperatures tol T h = .ok (some (a, b))) :
    (a ∈ T ∧ b ∈ T) ∧ lo ≤ a ∧ a ≤ hi ∧ lo ≤ b ∧ b ≤ hi := by
  unfold pinchTemperatures at hp
  simp only at hp
  split_ifs at hp
  · split at hp
    · rename_i x y hx hy
      cases hp
      have ha := pyIndex_mem _ _ _ hx
      have hb := pyIndex_mem _ _ _ hy
      exact ⟨⟨ha, hb⟩, (hT _ ha).1, (hT _ ha).2, (hT _ hb).1, (hT _ hb).2⟩
    · cases hp
  · cases hp

/-- Non-vacuity: the grid of four shifted bounds, one of them twice. -/
example : gridOf 6 [190, 110, 170, 50, 110] = [190, 170, 110, 50] := by decide +kernel

end OP.C14
