/-
  C05 — Composite curves and problem tables are faithful to the streams.

  Theorems about `problemTable` (model of `problem_table_algorithm`, either scale) and about the
  heat-recovery shift of `get_process_heat_cascade`; rows inserted afterwards keep every curve by
  C08 (`OP.C08.curves_preserved`).  The whole of `get_process_heat_cascade` (cascade + shift +
  constant-enthalpy projection + insertion) is the model `processHeatCascade`, tied to the code
  cell by cell by harness/opv/props/c05.py.
-/
import OPModel.Proofs.CascadeTargets
import OPModel.Model.Process
import OPModel.Gen.Constants

namespace OP.C05
open OP

theorem content_bot (ss : List Seg) (bot t : Rat) (h : ∀ s ∈ ss, bot ≤ s.lo) :
    content ss bot t = belowAll ss t := by
  unfold content belowAll below ovl
  induction ss with
  | nil => simp
  | cons s ss ih =>
    simp only [List.map_cons, List.sum_cons]
    rw [ih (fun t ht => h t (List.mem_cons_of_mem _ ht)), max_eq_left (h s List.mem_cons_self)]

/-- **Composite curves are exact heat contents.**  At every row of the table built by the
    cascade (either scale), `H_hot` is the heat content of the hot streams below that
    temperature, `H_cold` the heat content of the cold streams below it plus the documented
    horizontal offset (`= Qc`, the bottom entry of the net curve), and `H_net = H_cold − H_hot`. -/
theorem curves_are_content (tol w : Rat) (hw : 0 ≤ w) (htw : tol ≤ w) (hot cold : List Seg)
    (t0 : Rat) (rest : List Rat)
    (hr : InRange (cold ++ hot) ((t0 :: rest).getLast (List.cons_ne_nil _ _)) t0)
    (hch : ChainOK w (cold ++ hot) t0 rest) :
    ∃ pt tg, problemTable tol w (t0 :: rest) hot cold = .ok pt ∧ pt.targets = .ok tg ∧
      pt.hHot = (t0 :: rest).map (fun t => belowAll hot t) ∧
      pt.hCold = (t0 :: rest).map (fun t => belowAll cold t + tg.qc) ∧
      pt.hNet = (t0 :: rest).map (fun t => belowAll cold t + tg.qc - belowAll hot t) ∧
      (∀ x ∈ pt.hNet, 0 ≤ x) ∧ (∃ x ∈ pt.hNet, x = 0) := by
  have hs : ∀ s ∈ cold ++ hot, s.lo ≤ s.hi := fun s h => (hr s h).1
  have hhi_h : ∀ s ∈ hot, s.hi ≤ t0 := fun s h => (hr s (List.mem_append_right _ h)).2.1
  have hhi_c : ∀ s ∈ cold, s.hi ≤ t0 := fun s h => (hr s (List.mem_append_left _ h)).2.1
  have hlo_h : ∀ s ∈ hot, (t0 :: rest).getLast (List.cons_ne_nil _ _) ≤ s.lo :=
    fun s h => (hr s (List.mem_append_right _ h)).2.2
  have hlo_c : ∀ s ∈ cold, (t0 :: rest).getLast (List.cons_ne_nil _ _) ≤ s.lo :=
    fun s h => (hr s (List.mem_append_left _ h)).2.2
  obtain ⟨pt, hpt, hc⟩ := problemTable_closed tol w hw htw hot cold t0 rest hs hch
  have ht := targets_closed hot cold t0 rest pt hc hs
  set bot := (t0 :: rest).getLast (List.cons_ne_nil _ _) with hbot
  have hdesc : ∀ t ∈ t0 :: rest, bot ≤ t ∧ t ≤ t0 := by
    intro t ht'
    have h1 := ChainOK.desc hw rest t0 hch
    constructor
    · -- the last element is the smallest
      rcases List.mem_cons.mp ht' with rfl | hm
      · rcases List.mem_cons.mp (List.getLast_mem (List.cons_ne_nil t rest)) with e | e
        · exact le_of_eq e
        · exact le_of_lt (h1 _ e)
      · have hpw : (t0 :: rest).Pairwise (fun a b => b < a) := by
          have := gapless hw rest t0 hch
          exact this
        exact lastLe (t0 :: rest) (List.cons_ne_nil _ _) hpw t ht'
    · rcases List.mem_cons.mp ht' with rfl | hm
      · exact le_refl _
      · exact le_of_lt (h1 t hm)
  have splitH : ∀ t ∈ t0 :: rest, content hot bot t0 - content hot t t0 = belowAll hot t := by
    intro t ht'
    obtain ⟨a, b⟩ := hdesc t ht'
    rw [← content_split hot bot t t0 a b, ← content_bot hot bot t hlo_h]; ring
  have splitC : ∀ t ∈ t0 :: rest, content cold bot t0 - content cold t t0 = belowAll cold t := by
    intro t ht'
    obtain ⟨a, b⟩ := hdesc t ht'
    rw [← content_split cold bot t t0 a b, ← content_bot cold bot t hlo_c]; ring
  obtain ⟨hmax, hatt⟩ := minNet_spec hot cold t0 rest
  refine ⟨pt, _, hpt, ht, ?_, ?_, ?_, ?_, ?_⟩
  · rw [hc.hHot]; exact List.map_congr_left splitH
  · rw [hc.hCold]
    apply List.map_congr_left
    intro t ht'
    have := splitC t ht'
    simp only; linarith
  · rw [hc.hNet]
    apply List.map_congr_left
    intro t ht'
    have h1 := splitC t ht'
    have h2 := splitH t ht'
    have hb : netC hot cold t0 bot = content cold bot t0 - content hot bot t0 := rfl
    simp only [netC] at hb ⊢
    linarith
  · intro x hx
    rw [hc.hNet] at hx
    obtain ⟨t, ht', rfl⟩ := List.mem_map.mp hx
    have := hmax t ht'
    linarith
  · obtain ⟨t, ht', e⟩ := hatt
    refine ⟨-(netC hot cold t0 t) - minNet hot cold t0 rest, ?_, by linarith⟩
    rw [hc.hNet]
    exact List.mem_map.mpr ⟨t, ht', rfl⟩
where
  gapless {w : Rat} (hw : 0 ≤ w) {ss : List Seg} : ∀ (rest : List Rat) (u : Rat), ChainOK w ss u rest →
      (u :: rest).Pairwise (fun a b => b < a) := by
    intro rest
    induction rest with
    | nil => intro u _; simp
    | cons l rest ih =>
      intro u h
      exact List.pairwise_cons.mpr ⟨ChainOK.desc hw (l :: rest) u h, ih l h.2⟩
  lastLe : ∀ (l : List Rat) (hl : l ≠ []), l.Pairwise (fun a b => b < a) → ∀ t ∈ l, l.getLast hl ≤ t := by
    intro l
    induction l with
    | nil => intro hl; exact absurd rfl hl
    | cons a l ih =>
      intro hl hp t ht
      cases l with
      | nil =>
        simp only [List.mem_singleton] at ht
        subst ht; simp
      | cons b l =>
        rw [List.getLast_cons (List.cons_ne_nil _ _)]
        have hp' := (List.pairwise_cons.mp hp).2
        rcases List.mem_cons.mp ht with rfl | hm
        · have h1 := ih (List.cons_ne_nil _ _) hp' ((b :: l).getLast (List.cons_ne_nil _ _)) (List.getLast_mem _)
          have h2 := (List.pairwise_cons.mp hp).1 _ (List.getLast_mem (List.cons_ne_nil b l))
          exact le_of_lt h2
        · exact ih (List.cons_ne_nil _ _) hp' t hm

/-- **Each curve spans exactly the total duty of its streams.** -/
theorem span_eq_duty (ss : List Seg) (bot top : Rat) (h : InRange ss bot top) :
    belowAll ss top - belowAll ss bot = total ss := by
  unfold belowAll total below duty
  induction ss with
  | nil => simp
  | cons s ss ih =>
    simp only [List.map_cons, List.sum_cons]
    have := ih (fun t ht => h t (List.mem_cons_of_mem _ ht))
    obtain ⟨h1, h2, h3⟩ := h s List.mem_cons_self
    rw [min_eq_left h2, max_eq_right (by linarith : (0 : Rat) ≤ s.hi - s.lo),
      min_eq_right (le_trans h3 h1), max_eq_left (by linarith : bot - s.lo ≤ 0)]
    linarith

/-- **The real-temperature table reports the shifted targets.**  Both cascades close the same
    first-law balance (the duties do not depend on the scale); imposing the shifted heat recovery
    by the offset `δ = Qr_real − Qr_shifted` on `H_cold`/`H_net` makes the real table's end values
    and heat recovery equal to the shifted ones. -/
theorem real_reports_shifted_targets (tr ts : Targets) (totH totC : Rat)
    (hr1 : tr.qc = tr.qh - totC + totH) (hr2 : tr.qr = totH - tr.qc)
    (hs1 : ts.qc = ts.qh - totC + totH) (hs2 : ts.qr = totH - ts.qc) :
    let δ := tr.qr - ts.qr
    tr.qh + δ = ts.qh ∧ tr.qc + δ = ts.qc ∧ totH - (tr.qc + δ) = ts.qr := by
  intro δ
  simp only [δ]
  refine ⟨by linarith, by linarith, by linarith⟩

/-- **Row bookkeeping of the fresh table**: `ΔH = ΔT·CP` for the three pairs and
    `CP_net = CP_cold − CP_hot`, row by row (by construction), for any grid. -/
theorem row_bookkeeping (tol w : Rat) (T : List Rat) (hot cold : List Seg) (pt : PT)
    (h : problemTable tol w T hot cold = .ok pt) :
    pt.dHHot = List.zipWith (· * ·) pt.dT pt.cpHot ∧ pt.dHCold = List.zipWith (· * ·) pt.dT pt.cpCold ∧
    pt.dHNet = List.zipWith (· * ·) pt.dT pt.cpNet ∧ pt.cpNet = List.zipWith (· - ·) pt.cpCold pt.cpHot ∧
    pt.dT = 0 :: deltaVals tol T := by
  unfold problemTable at h
  simp only at h
  split at h
  · cases h; exact ⟨rfl, rfl, rfl, rfl, rfl⟩
  · cases h

/-- Interval widths equal the gap to the row above whenever the gap exceeds the tolerance. -/
theorem deltaVals_gap (tol : Rat) (htol : 0 ≤ tol) : ∀ (T : List Rat), T.Pairwise (fun a b => b + tol < a) →
    deltaVals tol T = (cells T).map (fun p => p.1 - p.2) := by
  intro T
  induction T with
  | nil => intro _; rfl
  | cons a T ih =>
    intro hp
    cases T with
    | nil => rfl
    | cons b T =>
      have hab : b + tol < a := (List.pairwise_cons.mp hp).1 b List.mem_cons_self
      have := ih (List.pairwise_cons.mp hp).2
      simp only [deltaVals, cells, List.map_cons] at this ⊢
      rw [this]
      have : ¬ rabs (a - b) ≤ tol := by
        unfold rabs; split <;> linarith
      simp [this]

end OP.C05
