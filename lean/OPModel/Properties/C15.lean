/-
  C15 — Area, exchanger-count and capital-cost targets follow their definitions.

  The costing formulas (`Model/Costing.lean`) are the same syntax the driver runs with IEEE doubles
  against `OpenPinch/utils/costing.py`; here they are read over the reals.  Proved:
    * `crf_annuities_sum_to_one`: for every rate i > 0 and life n ≥ 1 (years) the capital-recovery
      factor times the discounted annuities Σ_{k=1..n} (1+i)^{-k} is exactly 1;
    * `capital_cost_formula`: the cost is N(a + b(A/N)^c) (real power);
    * `capital_cost_mono`, `annual_cost_mono`: both are non-decreasing in the area (strictly
      increasing when b, c > 0) for positive area, unit count, rate and life;
    * `area_term_pos`, `area_pos`: every interval contributes Q·R/ΔT_lm > 0 and so the area target
      is positive; `area_term_bounds`: with the proved log-mean bounds of C20 the contribution lies
      between Q·R/ΔT_max… and Q·R/ΔT_min.
  That the implementation's area target IS that sum over the right intervals (balanced curves,
  enthalpy intervals, duty-weighted resistances) is decided by the oracle, which recomputes it
  independently from the zone's streams and utility duties.
-/
import OPModel.Proofs.CostingLemmas
import OPModel.Properties.C20
import OPModel.Drive.C15
import Mathlib.Analysis.SpecialFunctions.Pow.Real
import Mathlib.Algebra.Field.GeomSum
import Mathlib.Tactic.FieldSimp
import Mathlib.Tactic.Ring
import Mathlib.Tactic.Linarith

namespace OP.C15
open OP OP.HX OP.Costing Real

/-- **The capital-recovery factor annualises exactly**: its discounted annuities sum to one. -/
theorem crf_annuities_sum_to_one (i : ℝ) (hi : 0 < i) (n : ℕ) (hn : 1 ≤ n) :
    crf realOps i (n : ℝ) * ∑ k ∈ Finset.range n, (1 / (1 + i) ^ (k + 1)) = 1 := by
  have h1 : (0 : ℝ) < 1 + i := by linarith
  have hg : crf realOps i (n : ℝ) = i * (1 + i) ^ n / ((1 + i) ^ n - 1) := by
    show i * powPos realOps (1 + i) n / (powPos realOps (1 + i) n - 1) = _
    rw [powPos_nat _ h1]
  rw [hg]
  have hpow : (1 : ℝ) < (1 + i) ^ n := one_lt_pow₀ (by linarith) (by omega)
  have hden : (1 + i) ^ n - 1 ≠ 0 := by linarith
  -- Σ_{k<n} r^{k+1} with r = 1/(1+i)
  set r := 1 / (1 + i) with hr
  have hr1 : r ≠ 1 := by
    rw [hr]; intro h; rw [div_eq_one_iff_eq (ne_of_gt h1)] at h; linarith
  have hsum : ∑ k ∈ Finset.range n, (1 / (1 + i) ^ (k + 1)) = r * ((r ^ n - 1) / (r - 1)) := by
    rw [← geom_sum_eq hr1 n, Finset.mul_sum]
    apply Finset.sum_congr rfl
    intro k _
    rw [hr, one_div, one_div, inv_pow, pow_succ, mul_comm, mul_inv]
  rw [hsum, hr]
  have hi0 : i ≠ 0 := ne_of_gt hi
  have h10 : (1 + i) ≠ 0 := ne_of_gt h1
  have hpn : (1 + i) ^ n ≠ 0 := pow_ne_zero _ h10
  have hr_sub : 1 / (1 + i) - 1 = -i / (1 + i) := by field_simp; ring
  rw [hr_sub, one_div, inv_pow]
  field_simp
  ring

/-- The cost law as the property states it: `N (a + b (A/N)^c)`. -/
theorem capital_cost_formula (A N a b c : ℝ) (hA : 0 < A) (hN : 0 < N) :
    capitalCost realOps A N a b c = N * (a + b * (A / N) ^ c) := by
  show N * a + N * b * powPos realOps (A / N) c = _
  rw [powPos_real _ _ (div_pos hA hN)]; ring

/-- **Capital cost does not decrease with area** (strictly increases when `b, c > 0`). -/
theorem capital_cost_mono (A A' N a b c : ℝ) (hA : 0 < A) (hAA : A ≤ A') (hN : 0 < N) (hb : 0 ≤ b) (hc : 0 ≤ c) :
    capitalCost realOps A N a b c ≤ capitalCost realOps A' N a b c := by
  rw [capital_cost_formula A N a b c hA hN, capital_cost_formula A' N a b c (lt_of_lt_of_le hA hAA) hN]
  have h1 : (A / N) ^ c ≤ (A' / N) ^ c :=
    Real.rpow_le_rpow (le_of_lt (div_pos hA hN)) (div_le_div_of_nonneg_right hAA (le_of_lt hN)) hc
  have := mul_le_mul_of_nonneg_left h1 hb
  exact mul_le_mul_of_nonneg_left (by linarith) (le_of_lt hN)

theorem capital_cost_strict_mono (A A' N a b c : ℝ) (hA : 0 < A) (hAA : A < A') (hN : 0 < N) (hb : 0 < b) (hc : 0 < c) :
    capitalCost realOps A N a b c < capitalCost realOps A' N a b c := by
  rw [capital_cost_formula A N a b c hA hN, capital_cost_formula A' N a b c (lt_trans hA hAA) hN]
  have h1 : (A / N) ^ c < (A' / N) ^ c :=
    Real.rpow_lt_rpow (le_of_lt (div_pos hA hN)) (div_lt_div_of_pos_right hAA hN) hc
  have := mul_lt_mul_of_pos_left h1 hb
  exact mul_lt_mul_of_pos_left (by linarith) hN

/-- **The annualised cost does not decrease with area.** -/
theorem annual_cost_mono (A A' N a b c i : ℝ) (n : ℕ) (hA : 0 < A) (hAA : A ≤ A') (hN : 0 < N) (hb : 0 ≤ b) (hc : 0 ≤ c)
    (hi : 0 < i) (hn : 1 ≤ n) :
    annualCost realOps (capitalCost realOps A N a b c) i n ≤ annualCost realOps (capitalCost realOps A' N a b c) i n := by
  show capitalCost realOps A N a b c * crf realOps i n ≤ capitalCost realOps A' N a b c * crf realOps i n
  exact mul_le_mul_of_nonneg_right (capital_cost_mono A A' N a b c hA hAA hN hb hc) (le_of_lt (crf_pos i hi n hn))

/-- **Every enthalpy interval adds a positive area.** -/
theorem area_term_pos (Q R L : ℝ) (hQ : 0 < Q) (hR : 0 < R) (hL : 0 < L) : 0 < areaTerm realOps Q R L := by
  rw [areaTerm_real Q R L (ne_of_gt hR) (ne_of_gt hL)]
  exact div_pos (mul_pos hQ hR) hL

/-- **The area target — the sum over the intervals — is positive** (at least one interval). -/
theorem area_pos (terms : List (ℝ × ℝ × ℝ)) (hne : terms ≠ [])
    (h : ∀ t ∈ terms, 0 < t.1 ∧ 0 < t.2.1 ∧ 0 < t.2.2) :
    0 < (terms.map fun t => areaTerm realOps t.1 t.2.1 t.2.2).sum := by
  induction terms with
  | nil => exact absurd rfl hne
  | cons t ts ih =>
    simp only [List.map_cons, List.sum_cons]
    have ht := h t (by simp)
    have hp := area_term_pos t.1 t.2.1 t.2.2 ht.1 ht.2.1 ht.2.2
    by_cases hts : ts = []
    · subst hts; simpa using hp
    · have := ih hts (fun t' ht' => h t' (by simp [ht']))
      linarith

/-- With the log-mean between the smaller driving force and the arithmetic mean (C20.lmtd_bounds),
    an interval's area lies between `Q R / mean` and `Q R / ΔT_min`. -/
theorem area_term_bounds (Q R a b : ℝ) (hQ : 0 < Q) (hR : 0 < R) (ha : 0 < a) (hb : 0 < b) (hab : b < a) :
    Q * R / ((a + b) / 2) ≤ areaTerm realOps Q R (lmtd realOps a b) ∧
    areaTerm realOps Q R (lmtd realOps a b) ≤ Q * R / b := by
  obtain ⟨h1, h2, _⟩ := C20.lmtd_bounds a b ha hb hab
  have hLpos : 0 < lmtd realOps a b := lt_of_lt_of_le hb h1
  rw [areaTerm_real Q R _ (ne_of_gt hR) (ne_of_gt hLpos)]
  have hQR : 0 < Q * R := mul_pos hQ hR
  constructor
  · exact div_le_div_of_nonneg_left (le_of_lt hQR) hLpos h2
  · exact div_le_div_of_nonneg_left (le_of_lt hQR) hb h1

end OP.C15
