/-
  C07 — Pocket-free GCC is the greatest monotone curve under the GCC.

  `gccWithoutPockets` is the code-shaped model of `get_GCC_without_pockets` (explicit row
  indices, exit-index search, flatten range, `i += n_added·sgn`, Python loop bound as fuel),
  tied to the code on T / H_net / H_net_np by harness/opv/props/c07.py; `loadProfiles` models
  `get_seperated_gcc_heat_load_profiles`.

  Proved here, for all curves: the sweep never alters the grand composite curve itself (nor any
  other interpolated column) as a function of temperature, and the load profiles decompose the
  curve exactly.  That `H_net_np` *is* the running minimum is NOT a theorem about this code-shaped
  model; it is decided by the exact-Fraction oracle on the implementation plus the
  correspondence (see MANIFEST level note).
-/
import OPModel.Proofs.PocketCurve
import OPModel.Proofs.Profiles
import OPModel.Proofs.RunMin
import OPModel.Proofs.PocketExit
import OPModel.Drive.C07

namespace OP.C07
open OP

/-- **The GCC is unchanged.**  For every table whose temperature column and column `c`
    (any interpolated column other than `H_net_np`, in particular `H_net`) are numeric and
    strictly descending, whatever pockets the curve has: if pocket removal returns, column `c`
    of the result is numeric, strictly descending, and is the same polyline at every rational
    temperature — however many closing temperatures were inserted. -/
theorem gcc_unchanged (cfg : TblCfg) (ok : CfgOK cfg) (tol : Rat) (htol : 0 ≤ tol)
    (cH cNP c : Nat) (hc : c ∈ cfg.interp) (h1 : cNP ≠ c) (h2 : cNP ≠ cfg.tI)
    (rows : List Row) (p0 : Pt) (P : List Pt) (h : CurveInv cfg c rows p0 P)
    (out : List Row) (he : gccWithoutPockets cfg tol cH cNP rows = .ok out) :
    SameCurve cfg c out p0 P := by
  unfold gccWithoutPockets at he
  -- the initial copy H_np := H_net leaves column c alone
  have h0 : CurveInv cfg c (rows.map fun r => r.put cNP (r.get cH)) p0 P := by
    refine ⟨?_, h.2⟩
    rw [List.map_map, ← h.1]
    apply List.map_congr_left
    intro r _
    simp [cellPt, Row.get_put _ _ _ _ h1, Row.get_put _ _ _ _ h2]
  obtain ⟨hs, _, he⟩ := Except.bind_ok he
  by_cases hv : (pinchIdx tol hs).valid = true
  · simp only [hv, Bool.not_true, Bool.false_eq_true, if_false] at he
    obtain ⟨s1, e1, he⟩ := Except.bind_ok he
    obtain ⟨s2, e2, he⟩ := Except.bind_ok he
    cases he
    have hflat : CurveInv cfg c (flatten (rows.map fun r => r.put cNP (r.get cH)) cNP
        ((pinchIdx tol hs).rowH + 1) ((pinchIdx tol hs).rowC - 1) 0) p0 P :=
      ⟨by rw [flatten_cellPt cfg c cNP h1 h2]; exact h0.1, h0.2⟩
    obtain ⟨q0, Q, hi1, hp1⟩ :=
      removePocketsSide_curve cfg ok tol htol c hc cH cNP h1 h2 true _ p0 P hflat s1 e1
    exact sameCurve_trans hp1
      (removePocketsSide_curve cfg ok tol htol c hc cH cNP h1 h2 false s1 q0 Q hi1 s2 e2)
  · have : (pinchIdx tol hs).valid = false := by simpa using hv
    simp only [this, Bool.not_false, if_true] at he
    cases he
    exact sameCurve_refl h0

/-- The generated layout puts `H_net` among the interpolated columns and keeps `H_net_np`
    distinct from `H_net` and `T` (side conditions of `gcc_unchanged` for the code's columns). -/
theorem gen_columns_ok :
    Gen.columns.idxOf Gen.col_H_NET ∈ Drive.genCfg.interp ∧
    Gen.columns.idxOf Gen.col_H_NET_NP ≠ Gen.columns.idxOf Gen.col_H_NET ∧
    Gen.columns.idxOf Gen.col_H_NET_NP ≠ Drive.genCfg.tI := by
  refine ⟨?_, ?_, ?_⟩ <;> decide +kernel

/-- **The load profiles are monotone.**  For any curve, the net cooling profile (`H_hot_net`)
    is non-increasing from 0 downwards through the table, and the net heating profile
    (`H_cold_net`) is non-increasing towards its last entry. -/
theorem profiles_monotone (tol : Rat) (H : List Rat) :
    (loadProfiles tol H).1.Pairwise (· ≥ ·) ∧ (loadProfiles tol H).2.Pairwise (· ≥ ·) := by
  unfold loadProfiles
  constructor
  · -- hot: negated cumulative sum of non-negative increments
    apply List.pairwise_map.mpr
    have := cumsumFrom_mono ((0 :: deltaVals tol H).map fun x => if x ≤ 0 then -x else 0)
      (by intro x hx; obtain ⟨d, _, rfl⟩ := List.mem_map.mp hx; split_ifs <;> linarith) 0
    exact this.imp (fun h => by linarith)
  · apply List.pairwise_map.mpr
    have := cumsumFrom_anti ((0 :: deltaVals tol H).map fun x => if x ≤ 0 then 0 else -x)
      (by intro x hx; obtain ⟨d, _, rfl⟩ := List.mem_map.mp hx; split_ifs <;> linarith) 0
    exact this.imp (fun h => by linarith)

/-- The cooling profile starts at zero and the heating profile ends at zero. -/
theorem profiles_ends (tol : Rat) (H : List Rat) :
    (loadProfiles tol H).1.head? = some 0 ∧ (loadProfiles tol H).2.getLast? = some 0 := by
  unfold loadProfiles
  constructor
  · simp [cumsum, cumsumFrom]
  · simp only [List.getLast?_map]
    cases h : (cumsum ((0 :: deltaVals tol H).map fun x => if x ≤ 0 then 0 else -x)).getLast? with
    | none => simp [cumsum, cumsumFrom] at h
    | some v => simp

/-- Non-vacuity and a concrete curve with a pocket above the pinch (columns T, ΔT, H_net, H_net_np):
    `T = [300,250,200,150,100]`, `H = [500,600,550,0,100]` — the pinned test's curve; the pocket
    closes at 195.4545… and is flattened to 500. -/
example :
    (gccWithoutPockets ⟨4, 0, 1, [2, 3], []⟩ Gen.tol 2 3
      [[some 300, none, some 500, none], [some 250, none, some 600, none], [some 200, none, some 550, none],
       [some 150, none, some 0, none], [some 100, none, some 100, none]]).toOption.map
      (fun out => out.map fun r => (r.get 0, r.get 3))
    = some [(some 300, some 500), (some 250, some 500), (some 200, some 500), (some (2150/11), some 500),
            (some 150, some 0), (some 100, some 100)] := by decide +kernel


/-! ### the specification layer: running minima are the greatest monotone curves under the GCC -/

/-- **The running minimum of a column is non-increasing, lies under the column, and starts where the
    column starts.** -/
theorem runMin_under_and_monotone (h : Rat) (t : List Rat) :
    (runMin (h :: t)).head? = some h ∧ List.Forall₂ (· ≤ ·) (runMin (h :: t)) (h :: t) ∧
    (runMin (h :: t)).Pairwise (· ≥ ·) := by
  obtain ⟨h1, h2, h3⟩ := runMinFrom_spec h t
  simp only [runMin]
  exact ⟨rfl, List.Forall₂.cons (le_refl h) h1, List.Pairwise.cons (fun x hx => h2 x hx) h3⟩

/-- **… and it is the greatest such column**: every non-increasing column that lies under the GCC
    row by row lies under the running minimum.  (`npSpec` is built from these running minima read
    towards the pinch; the driver checks on every tolerance-clean case that the code-shaped
    `gccWithoutPockets` returns exactly `npSpec` of its own rows.) -/
theorem runMin_greatest (l g : List Rat) (hg : List.Forall₂ (· ≤ ·) g l) (hmono : g.Pairwise (· ≥ ·)) :
    List.Forall₂ (· ≤ ·) g (runMin l) := by
  cases hg with
  | nil => simp [runMin]
  | cons hah hrest =>
    rename_i a h g' t
    simp only [runMin]
    refine List.Forall₂.cons hah (runMinFrom_greatest h t g' hrest (List.pairwise_cons.mp hmono).2 ?_)
    intro x hx
    exact le_trans ((List.pairwise_cons.mp hmono).1 x hx) hah

/-- **The exit search is exact and runs to the pinch row inclusive.**  `_pocket_exit_index` started at
    row `i0` (opening value `h0`) with `n` rows to the pinch returns either the row just before the
    FIRST row `k' ∈ 1..n` steps away (the pinch row is step `n`) whose value has dropped to `h0 - tol`
    or below, every row passed over staying above `h0 - tol`; or, when no row up to and including the
    pinch row drops, the pinch row itself.  (Seeded change C07-exit-search-skips-pinch-row shortens the
    range by one: this statement is then false of the code.) -/
theorem exit_search_spec (tol : Rat) (rows : List Row) (cH : Nat) (i0 pinch : Int) (above : Bool) (h0 : Rat) (e : Int)
    (hh : cellAt rows cH i0 = .ok h0) (h : pocketExit tol rows cH i0 pinch above = .ok e) :
    let n := (if above then pinch - i0 else i0 - pinch).toNat
    (∃ k', 1 ≤ k' ∧ k' ≤ n ∧ e = stepRow above i0 k' - (if above then 1 else -1) ∧
        (∃ hj, cellAt rows cH (stepRow above i0 k') = .ok hj ∧ hj + tol ≤ h0) ∧
        ∀ m, 1 ≤ m → m < k' → ∃ hj, cellAt rows cH (stepRow above i0 m) = .ok hj ∧ h0 < hj + tol) ∨
    (e = pinch ∧ ∀ m, 1 ≤ m → m ≤ n → ∃ hj, cellAt rows cH (stepRow above i0 m) = .ok hj ∧ h0 < hj + tol) := by
  intro n
  unfold pocketExit at h
  simp only [hh, bind, Except.bind] at h
  rcases pocketExit_go_spec tol rows cH i0 pinch above h0 n 1 e h with ⟨k', h1, h2, he, hd, hb⟩ | ⟨he, hall⟩
  · exact Or.inl ⟨k', h1, by omega, he, hd, hb⟩
  · exact Or.inr ⟨he, fun m h1 h2 => hall m h1 (by omega)⟩

/-- **The breakpoint is exactly where the pocket closes.**  The temperature `closeInsert` inserts —
    `linear_interpolation(H[i₀], H[e], H[e±1], T[e], T[e±1])` — is the point of the GCC segment between
    rows `e` and `e ± 1` at which the curve takes the pocket's opening value `h0` again, and it lies
    between the two rows whenever `h0` lies between their enthalpies (which is how `_pocket_exit_index`
    chooses `e`). -/
theorem closing_temperature_is_where_pocket_closes (h0 he he1 te te1 t0 : Rat) (hT : te ≠ te1)
    (h : linearInterpolation h0 he he1 te te1 = .ok t0) :
    he + (he1 - he) * (t0 - te) / (te1 - te) = h0 ∧
    (he1 ≤ h0 → h0 ≤ he → (min te te1 ≤ t0 ∧ t0 ≤ max te te1)) := by
  unfold linearInterpolation at h
  split_ifs at h with hx
  simp only [Except.ok.injEq] at h
  have hd : he - he1 ≠ 0 := sub_ne_zero.mpr hx
  have hdT : te1 - te ≠ 0 := sub_ne_zero.mpr (Ne.symm hT)
  have e : t0 - te = (te - te1) * (h0 - he) / (he - he1) := by
    rw [← h]; field_simp; ring
  constructor
  · rw [e]; field_simp; ring
  · intro h1 h2
    -- t0 = te + λ (te1 − te) with λ = (he − h0)/(he − he1) ∈ [0, 1]
    have hpos : 0 < he - he1 := by
      rcases lt_or_gt_of_ne hx with h' | h'
      · linarith
      · linarith
    set lam := (he - h0) / (he - he1) with hl
    have hl0 : 0 ≤ lam := div_nonneg (by linarith) (le_of_lt hpos)
    have hl1 : lam ≤ 1 := by rw [hl]; exact div_le_one_of_le₀ (by linarith) (le_of_lt hpos)
    have et : t0 = te + lam * (te1 - te) := by
      have : t0 = te + (te - te1) * (h0 - he) / (he - he1) := by linarith [e]
      rw [this, hl]; field_simp; ring
    rcases le_total te te1 with hle | hle
    · rw [min_eq_left hle, max_eq_right hle, et]
      constructor
      · nlinarith
      · nlinarith
    · rw [min_eq_right hle, max_eq_left hle, et]
      constructor
      · nlinarith
      · nlinarith

/-- the specification on a curve with a pocket on each side of the pinch -/
example : npSpec (1 / 1000000) [400, 600, 200, 400, 100, 0, 300, 100, 500] = [400, 400, 200, 200, 100, 0, 100, 100, 500] := by
  decide +kernel

end OP.C07
