/-
  C04 — Utility profiles are thermodynamically feasible and lowest-grade-first.

  Specification side, independent of the code (this replaces the "independent LP" of the
  statement by a proved closed form): for ANY monotone pocket-free load profile `NP` and ANY
  ladder of isothermal utility levels, the ladder allocation `d_j = NP(L_j) − NP(L_{j−1})` is
  feasible at every temperature, non-negative, and each `d_j` is the largest duty that keeps
  feasibility given the lower-grade duties.  Code side: the assignment model (`assignUtility`)
  is tied to the code and its bounds are proved under C03 (`OP.C03.duties_nonneg_and_bounded`,
  `unreachable_gets_zero`, re-exported here); that the code's duties EQUAL this ladder is not a
  theorem — the harness compares the implementation with an independently computed
  lowest-grade-first optimum on every ladder of isothermal levels and checks
  `0 ≤ H_net_ut ≤ H_net_actual` on every row.
-/
import OPModel.Properties.C03
import Mathlib.Tactic.Ring

namespace OP.C04
open OP

/-- Lowest-grade-first ladder: each level takes what the profile offers between the previous
    level and itself (`acc` = profile value already covered). -/
def ladderFrom (NP : Rat → Rat) (acc : Rat) : List Rat → List Rat
  | [] => []
  | L :: Ls => (NP L - acc) :: ladderFrom NP (NP L) Ls

/-- Utility heat located at or below temperature `T` (isothermal levels release all their duty at
    their level). -/
def heatBelow (T : Rat) : List Rat → List Rat → Rat
  | L :: Ls, d :: ds => (if L ≤ T then d else 0) + heatBelow T Ls ds
  | _, _ => 0

/-- **Feasible at every temperature**: the ladder never places more utility heat at or below `T`
    than the process can absorb there. -/
theorem ladder_feasible (NP : Rat → Rat) (hmono : ∀ a b, a ≤ b → NP a ≤ NP b) :
    ∀ (Ls : List Rat) (acc : Rat), Ls.Pairwise (· < ·) → (∀ L ∈ Ls, acc ≤ NP L) →
      ∀ T, acc + heatBelow T Ls (ladderFrom NP acc Ls) ≤ max acc (NP T) := by
  intro Ls
  induction Ls with
  | nil => intro acc _ _ T; simp [heatBelow, ladderFrom]
  | cons L Ls ih =>
    intro acc hp hacc T
    have hp' := (List.pairwise_cons.mp hp).2
    have hL := (List.pairwise_cons.mp hp).1
    simp only [ladderFrom, heatBelow]
    have hrec := ih (NP L) hp' (fun L' hL' => hmono L L' (le_of_lt (hL L' hL'))) T
    by_cases hT : L ≤ T
    · rw [if_pos hT]
      have h1 : NP L ≤ NP T := hmono L T hT
      have : max (NP L) (NP T) = NP T := max_eq_right h1
      rw [this] at hrec
      have : acc + (NP L - acc + heatBelow T Ls (ladderFrom NP (NP L) Ls)) = NP L + heatBelow T Ls (ladderFrom NP (NP L) Ls) := by ring
      rw [this]
      exact le_trans hrec (le_max_right _ _)
    · rw [if_neg hT]
      -- no higher level is at or below T either
      have hzero : ∀ (Ms : List Rat) (a : Rat), (∀ M ∈ Ms, T < M) → heatBelow T Ms (ladderFrom NP a Ms) = 0 := by
        intro Ms
        induction Ms with
        | nil => intro a _; rfl
        | cons M Ms ihM =>
          intro a hM
          simp only [ladderFrom, heatBelow]
          rw [if_neg (not_le.mpr (hM M List.mem_cons_self)), ihM _ (fun x hx => hM x (List.mem_cons_of_mem _ hx))]
          ring
      rw [hzero Ls (NP L) (fun M hM => lt_trans (not_le.mp hT) (hL M hM))]
      simp only [zero_add, add_zero]
      exact le_max_left _ _

/-- Duties are non-negative. -/
theorem ladder_nonneg (NP : Rat → Rat) (hmono : ∀ a b, a ≤ b → NP a ≤ NP b) :
    ∀ (Ls : List Rat) (acc : Rat), Ls.Pairwise (· < ·) → (∀ L ∈ Ls, acc ≤ NP L) →
      ∀ d ∈ ladderFrom NP acc Ls, 0 ≤ d := by
  intro Ls
  induction Ls with
  | nil => intro acc _ _ d hd; cases hd
  | cons L Ls ih =>
    intro acc hp hacc d hd
    simp only [ladderFrom, List.mem_cons] at hd
    rcases hd with rfl | hd
    · have := hacc L List.mem_cons_self; linarith
    · exact ih (NP L) (List.pairwise_cons.mp hp).2
        (fun L' hL' => hmono L L' (le_of_lt ((List.pairwise_cons.mp hp).1 L' hL'))) d hd

/-- **Each level carries the largest feasible duty**: with the lower-grade duties fixed (they
    cover `acc`), any duty `d'` for level `L` that respects feasibility at `T = L` is at most the
    ladder's duty. -/
theorem ladder_maximal (NP : Rat → Rat) (acc L d' : Rat) (hfeas : acc + d' ≤ NP L) :
    d' ≤ (ladderFrom NP acc [L]).headD 0 := by
  simp only [ladderFrom, List.headD_cons]
  linarith

/-- Bounds of the code's assignment (from C03), restated for this property. -/
theorem assignment_bounds (tol : Rat) (htol : 0 ≤ tol) (T H : List Rat) (isHot : Bool) (limit M : Rat)
    (hM : ∀ h ∈ H, h ≤ M) (hM0 : 0 ≤ M) (us : List ULevel) :
    (∀ d ∈ assignLoop tol T H isHot limit 0 us, 0 ≤ d) ∧ (assignLoop tol T H isHot limit 0 us).sum ≤ M :=
  C03.duties_nonneg_and_bounded tol htol T H isHot limit M hM hM0 us

/-- Non-vacuity: profile `NP(T) = max 0 (T − 100)·10` with levels 150, 200, 260. -/
example : ladderFrom (fun t => max 0 ((t - 100) * 10)) 0 [150, 200, 260] = [500, 500, 600] := by decide +kernel

end OP.C04
