/-
  C04 — Utility profiles are thermodynamically feasible and lowest-grade-first.

  Specification side, independent of the code (this replaces the "independent LP" of the
  statement by a proved closed form): for ANY monotone pocket-free load profile `NP` and ANY
  ladder of isothermal utility levels, the ladder allocation `d_j = NP(L_j) − NP(L_{j−1})` is
  feasible at every temperature, non-negative, and each `d_j` is the largest duty that keeps
  feasibility given the lower-grade duties.  Code side: the assignment model (`assignUtility`)
  is tied to the code and its bounds are proved under C03 (`OP.C03.duties_nonneg_and_bounded`,
  `unreachable_gets_zero`, re-exported here).  Code-shaped feasibility: whenever a utility receives a
  duty, the duty assigned so far stays within the load the profile holds at a row its SUPPLY level
  reaches (`assign_respects_supply_level`, any utilities, any profile); and an isothermal level on a
  strictly descending grid takes exactly the largest unassigned load its level reaches
  (`isothermal_level_takes_largest`), which is the ladder step `NP(L) − acc` of the specification.
  Not a theorem: the target-temperature side of a GLIDING utility's profile (the `Q_tt` limit) —
  the harness checks `0 ≤ H_net_ut ≤ H_net_actual` on every row and compares the implementation
  with an independently computed lowest-grade-first optimum on every ladder of isothermal levels.
-/
import OPModel.Properties.C03
import OPModel.Proofs.UtilityFeasible
import Mathlib.Tactic.Ring

namespace OP.C04
open OP

/-- Lowest-grade-first ladder: each level takes what the profile offers between the previous
    level and itself (`acc` = profile value already covered). -/
def ladderFrom (NP : Rat → Rat) (acc : Rat) : List Rat → List Rat
  | [] => []
  | L :: Ls => (NP L - acc) :: ladderFrom NP (NP L) Ls

/-- Utility heat located at or below temperature `T` (isothermal levels release all their duty at
    their level). -/
def heatBelow (T : Rat) : List Rat → List Rat → Rat
  | L :: Ls, d :: ds => (if L ≤ T then d else 0) + heatBelow T Ls ds
  | _, _ => 0

/-- **Feasible at every temperature**: the ladder never places more utility heat at or below `T`
    than the process can absorb there. -/
theorem ladder_feasible (NP : Rat → Rat) (hmono : ∀ a b, a ≤ b → NP a ≤ NP b) :
    ∀ (Ls : List Rat) (acc : Rat), Ls.Pairwise (· < ·) → (∀ L ∈ Ls, acc ≤ NP L) →
      ∀ T, acc + heatBelow T Ls (ladderFrom NP acc Ls) ≤ max acc (NP T) := by
  intro Ls
  induction Ls with
  | nil => intro acc _ _ T; simp [heatBelow, ladderFrom]
  | cons L Ls ih =>
    intro acc hp hacc T
    have hp' := (List.pairwise_cons.mp hp).2
    have hL := (List.pairwise_cons.mp hp).1
    simp only [ladderFrom, heatBelow]
    have hrec := ih (NP L) hp' (fun L' hL' => hmono L L' (le_of_lt (hL L' hL'))) T
    by_cases hT : L ≤ T
    · rw [if_pos hT]
      have h1 : NP L ≤ NP T := hmono L T hT
      have : max (NP L) (NP T) = NP T := max_eq_right h1
      rw [this] at hrec
      have : acc + (NP L - acc + heatBelow T Ls (ladderFrom NP (NP L) Ls)) = NP L + heatBelow T Ls (ladderFrom NP (NP L) Ls) := by ring
      rw [this]
      exact le_trans hrec (le_max_right _ _)
    · rw [if_neg hT]
      -- no higher level is at or below T either
      have hzero : ∀ (Ms : List Rat) (a : Rat), (∀ M ∈ Ms, T < M) → heatBelow T Ms (ladderFrom NP a Ms) = 0 := by
        intro Ms
        induction Ms with
        | nil => intro a _; rfl
        | cons M Ms ihM =>
          intro a hM
          simp only [ladderFrom, heatBelow]
          rw [if_neg (not_le.mpr (hM M List.mem_cons_self)), ihM _ (fun x hx => hM x (List.mem_cons_of_mem _ hx))]
          ring
      rw [hzero Ls (NP L) (fun M hM => lt_trans (not_le.mp hT) (hL M hM))]
      simp only [zero_add, add_zero]
      exact le_max_left _ _

/-- Duties are non-negative. -/
theorem ladder_nonneg (NP : Rat → Rat) (hmono : ∀ a b, a ≤ b → NP a ≤ NP b) :
    ∀ (Ls : List Rat) (acc : Rat), Ls.Pairwise (· < ·) → (∀ L ∈ Ls, acc ≤ NP L) →
      ∀ d ∈ ladderFrom NP acc Ls, 0 ≤ d := by
  intro Ls
  induction Ls with
  | nil => intro acc _ _ d hd; cases hd
  | cons L Ls ih =>
    intro acc hp hacc d hd
    simp only [ladderFrom, List.mem_cons] at hd
    rcases hd with rfl | hd
    · have := hacc L List.mem_cons_self; linarith
    · exact ih (NP L) (List.pairwise_cons.mp hp).2
        (fun L' hL' => hmono L L' (le_of_lt ((List.pairwise_cons.mp hp).1 L' hL'))) d hd

/-- **Each level carries the largest feasible duty**: with the lower-grade duties fixed (they
    cover `acc`), any duty `d'` for level `L` that respects feasibility at `T = L` is at most the
    ladder's duty. -/
theorem ladder_maximal (NP : Rat → Rat) (acc L d' : Rat) (hfeas : acc + d' ≤ NP L) :
    d' ≤ (ladderFrom NP acc [L]).headD 0 := by
  simp only [ladderFrom, List.headD_cons]
  linarith

/-- Bounds of the code's assignment (from C03), restated for this property. -/
theorem assignment_bounds (tol : Rat) (htol : 0 ≤ tol) (T H : List Rat) (isHot : Bool) (limit M : Rat)
    (hM : ∀ h ∈ H, h ≤ M) (hM0 : 0 ≤ M) (us : List ULevel) :
    (∀ d ∈ assignLoop tol T H isHot limit 0 us, 0 ≤ d) ∧ (assignLoop tol T H isHot limit 0 us).sum ≤ M :=
  C03.duties_nonneg_and_bounded tol htol T H isHot limit M hM hM0 us

/-- **No utility supplies heat below (removes heat above) the level at which the process can
    exchange it — code-shaped.**  For ANY profile, ANY utilities (isothermal or gliding) in the
    loop's processing order and ANY start: if the `k`-th utility receives a duty, then the duty
    assigned so far — to it and to every utility processed before it — is at most the load `r.2`
    of some row `r` of the profile that its supply level reaches (hot: `T_r ≤ t_supply + tol`;
    cold: `T_r ≥ t_supply − tol`). -/
theorem assign_respects_supply_level (tol : Rat) (T H : List Rat) (isHot : Bool) (limit qA : Rat)
    (us : List ULevel) (k : Nat) (hk : k < us.length) :
    (assignLoop tol T H isHot limit qA us)[k]? = some 0 ∨
      ∃ r ∈ T.zip H, Reaches tol isHot us[k] r ∧
        qA + ((assignLoop tol T H isHot limit qA us).take (k + 1)).sum ≤ r.2 :=
  assignLoop_reaches tol T H isHot limit us qA k hk

/-- **Each isothermal level carries the largest duty — code-shaped.**  On a strictly descending
    grid an isothermal utility's duty is zero (nothing within reach) or equals the largest
    potential `H_row − assigned` over the valid intervals its level reaches: no smaller (second
    part) and no larger (first part). -/
theorem isothermal_level_takes_largest (tol : Rat) (T H : List Rat) (u : ULevel) (isHot : Bool) (qA : Rat)
    (hiso : u.tt = u.ts) (hlen : T.length = H.length) (hdesc : T.Pairwise (· > ·)) :
    maximiseUtilityDuty tol T H u isHot qA = 0 ∨
      ((∃ c ∈ candidates tol T H u isHot qA, maximiseUtilityDuty tol T H u isHot qA ≤ c.qPot) ∧
       ∀ c ∈ candidates tol T H u isHot qA, c.qPot ≤ maximiseUtilityDuty tol T H u isHot qA) := by
  rcases maximise_le_candidate tol T H u isHot qA with h | h
  · exact Or.inl h
  · cases isHot with
    | true =>
      rcases maximise_isothermal_hot tol T H u qA hiso hlen hdesc with h' | h'
      · exact Or.inl h'
      · exact Or.inr ⟨h, h'⟩
    | false =>
      rcases maximise_isothermal_cold tol T H u qA hiso hlen hdesc with h' | h'
      · exact Or.inl h'
      · exact Or.inr ⟨h, h'⟩

/-- **Return-temperature side of a gliding utility — code-shaped.**  A utility that glides linearly
    from supply to target and is given the duty `d = _maximise_utility_duty(…)` still has to release
    `d · (T_row − t_target) / |t_target − t_supply|` beyond a row lying past its target temperature.
    For EVERY valid interval past the target (`tol < −dtTar`, hot: `−dtTar = T_lower − t_target`;
    cold: `t_target − T_upper`) that share fits the load `qCur` the profile still holds at that row:
    `d · (−dtTar) ≤ qCur · |t_target − t_supply|`.  (With `Q_tt.max()` in place of `.min()` — seeded
    change C09-glide-cap-max — this statement is false of the code.) -/
theorem gliding_level_respects_return_limit (tol : Rat) (htol : 0 ≤ tol) (T H : List Rat) (u : ULevel)
    (isHot : Bool) (qA : Rat) (c : Cand) (hc : c ∈ candidates tol T H u isHot qA) (hpast : tol < -c.dtTar) :
    maximiseUtilityDuty tol T H u isHot qA * (-c.dtTar) ≤ c.qCur * rabs (u.tt - u.ts) ∨
    maximiseUtilityDuty tol T H u isHot qA = 0 :=
  maximise_return_limit tol T H u isHot qA c hc hpast htol

/-- Non-vacuity: a loop gliding 210 → 120 on the profile 500 → 300 → 0 over 200/150/100 with a further
    row at 130: the interval ending at 130 lies past nothing (130 > 120 is past the target), and the
    duty is capped by what the profile holds there. -/
example : maximiseUtilityDuty Gen.tol [200, 150, 130, 100] [500, 300, 40, 0] ⟨210, 120⟩ true 0 = 360 ∧
    (candidates Gen.tol [200, 150, 130, 100] [500, 300, 40, 0] ⟨210, 120⟩ true 0).map (fun c => (c.qCur, c.dtTar))
      = [(300, -30), (40, -10), (0, 20)] := by
  constructor <;> decide +kernel

/-- Non-vacuity (heating profile 500 → 300 → 0 over 200/150/100): an isothermal level at 160 takes
    the 300 it reaches and the level at 210 the rest; a loop gliding 210 → 120 may take all 500. -/
example : assignLoop Gen.tol [200, 150, 100] [500, 300, 0] true 500 0 [⟨160, 160⟩, ⟨210, 210⟩] = [300, 200] ∧
    assignLoop Gen.tol [200, 150, 100] [500, 300, 0] true 500 0 [⟨210, 120⟩, ⟨260, 260⟩] = [500, 0] := by
  constructor <;> decide +kernel

/-- Non-vacuity: profile `NP(T) = max 0 (T − 100)·10` with levels 150, 200, 260. -/
example : ladderFrom (fun t => max 0 ((t - 100) * 10)) 0 [150, 200, 260] = [500, 500, 600] := by decide +kernel

end OP.C04
