/-
  C03 — Multi-utility targeting allocates exactly the target duty.

  `targetUtility` / `assignUtility` / `maximiseUtilityDuty` model `_target_utility`,
  `_assign_utility`, `_maximise_utility_duty` (tied to the code on 1500+ synthetic profiles × utility
  ladders per run by harness/opv/props/c03model.py).  Proved for all profiles and ladders: duties
  are non-negative, never exceed the profile, unreachable utilities get nothing, and — on the
  either side — a ladder that ends with a utility lying wholly beyond the segment (what the default
  utilities are) closes the allocation within `tol` (`covering_ladder_closes_hot` / `_cold`).
  That such a utility EXISTS after the data preparation is `hot_cover_exists` (model of
  `_find_extreme_process_temperatures` / `_complete_utility_data` / `_add_default_utilities`, tied to the
  code by the `defaults` correspondence): some active hot utility's whole shifted band lies at or above
  every cold stream's shifted target.  The mirror statement for the cold side is FALSE of the code —
  `cold_cover_fails_witness`, kernel-decided: the sufficiency test subtracts the contribution of a cold
  utility although a cold utility is shifted UP (known finding C03-cold-sufficiency-sign) — so the
  unconditional statement "the duties always sum to Qh / Qc" is not claimed as a theorem.
-/
import OPModel.Proofs.UtilityFeasible
import OPModel.Proofs.DefaultsLemmas
import OPModel.Gen.Constants

namespace OP.C03
open OP

/-- **Duties are non-negative and never exceed the profile**: for every segment, every ladder
    and either side, whatever was assigned before. -/
theorem duties_nonneg_and_bounded (tol : Rat) (htol : 0 ≤ tol) (T H : List Rat) (isHot : Bool) (limit M : Rat)
    (hM : ∀ h ∈ H, h ≤ M) (hM0 : 0 ≤ M) (us : List ULevel) :
    (∀ d ∈ assignLoop tol T H isHot limit 0 us, 0 ≤ d) ∧ (assignLoop tol T H isHot limit 0 us).sum ≤ M := by
  obtain ⟨a, b⟩ := assignLoop_bounds tol htol T H isHot limit M hM us 0 hM0
  exact ⟨a, by linarith⟩

/-- **A utility that cannot reach the segment gets nothing**: if its supply level is more than
    `tol` colder than every row of a heating segment (hotter, for a cooling segment), the maximum
    duty is 0 — no interval passes the supply test. -/
theorem unreachable_gets_zero (tol : Rat) (T H : List Rat) (u : ULevel) (isHot : Bool) (qA : Rat)
    (h : ∀ t ∈ T, if isHot then u.ts - t < -tol else t - u.ts < -tol) :
    maximiseUtilityDuty tol T H u isHot qA = 0 := by
  unfold maximiseUtilityDuty
  split_ifs with hl
  · rfl
  · have : candidates tol T H u isHot qA = [] := by
      unfold candidates
      apply List.filterMap_eq_nil_iff.mpr
      intro ⟨⟨tU, hU⟩, ⟨tL, hL⟩⟩ hmem
      have hsub : ∀ (l : List (Rat × Rat)) (a b : Rat × Rat), (a, b) ∈ candidates.cells' l → a ∈ l ∧ b ∈ l := by
        intro l
        induction l with
        | nil => intro a b h; simp [candidates.cells'] at h
        | cons x l ih =>
          cases l with
          | nil => intro a b h; simp [candidates.cells'] at h
          | cons y l =>
            intro a b h
            simp only [candidates.cells', List.mem_cons] at h
            rcases h with h | h
            · obtain ⟨rfl, rfl⟩ := Prod.mk.inj h
              exact ⟨List.mem_cons_self, List.mem_cons_of_mem _ List.mem_cons_self⟩
            · obtain ⟨p, q⟩ := ih a b h
              exact ⟨List.mem_cons_of_mem _ p, List.mem_cons_of_mem _ q⟩
      obtain ⟨mU, mL⟩ := hsub _ _ _ hmem
      have hU' := h tU (List.of_mem_zip mU).1
      have hL' := h tL (List.of_mem_zip mL).1
      cases isHot
      · simp only [Bool.false_eq_true, if_false] at hU' hL' ⊢
        rw [if_neg]
        intro hh
        linarith [hh.2.1]
      · simp only [if_true] at hU' hL' ⊢
        rw [if_neg]
        intro hh
        linarith [hh.2.1]
    rw [this]

/-- **A ladder that ends with a covering hot utility allocates exactly the target** (within `tol`):
    for every heating segment with a non-increasing load profile from `limit = Qh` at the top to
    less at the pinch, every ladder `pre` of utilities of any kind, and a last utility whose supply
    and target levels are at least as hot as every row — the duties add up to `limit`, up to the
    `tol` the loop itself stops at. -/
theorem covering_ladder_closes_hot (tol : Rat) (htol : 0 ≤ tol) (T H : List Rat) (pre : List ULevel) (uc : ULevel) (limit : Rat)
    (hcov : ∀ t ∈ T, t ≤ uc.tt ∧ -tol ≤ uc.ts - t)
    (hlen : T.length = H.length) (hmono : H.Pairwise (· ≥ ·)) (hhead : H.head? = some limit)
    (hlast : ∃ z, H.getLast? = some z ∧ z < limit) (h0 : 0 ≤ limit) :
    limit - tol ≤ (assignLoop tol T H true limit 0 (pre ++ [uc])).sum ∧
    (assignLoop tol T H true limit 0 (pre ++ [uc])).sum ≤ limit := by
  have := assignLoop_closes_hot tol htol T H uc limit hcov hlen hmono hhead hlast pre 0 h0
  simpa using this

/-- **Any ladder that CONTAINS a utility lying at or above the level where the heating demand starts closes
    the hot allocation** — wherever that utility stands in the processing order and whatever comes before or
    after it.  `m` is a level at or below which every decreasing interval of the profile starts (rows above
    the hottest shifted cold target carry no heating demand); the utility's shifted band `[tt, ts]` lies at or
    above `m` — which is what `hot_cover_exists` provides with `m = HU_T_min`. -/
theorem ladder_with_cover_closes_hot (tol : Rat) (htol : 0 ≤ tol) (T H : List Rat) (pre post : List ULevel) (uc : ULevel)
    (limit m : Rat) (hm : m ≤ uc.tt) (hts : uc.tt ≤ uc.ts)
    (hstart : ∀ c ∈ candidates.cells' (T.zip H), c.1.2 ≠ c.2.2 → c.1.1 ≤ m)
    (hlen : T.length = H.length) (hdesc : T.Pairwise (· > ·)) (hmono : H.Pairwise (· ≥ ·))
    (hhead : H.head? = some limit) (hlast : ∃ z, H.getLast? = some z ∧ z < limit) (h0 : 0 ≤ limit) :
    limit - tol ≤ (assignLoop tol T H true limit 0 (pre ++ uc :: post)).sum ∧
    (assignLoop tol T H true limit 0 (pre ++ uc :: post)).sum ≤ limit := by
  have := assignLoop_closes_of_cover_mid tol htol T H true uc limit (le_head_of_desc H limit hmono hhead)
    (fun qA hq => maximise_covering_hot_from tol htol T H uc qA limit m hm hts hstart hlen hdesc hmono hhead hlast hq)
    post pre 0 h0
  simpa using this

/-- **… and on the cooling side**: a cold utility whose shifted band lies at or below the level `m` at or above
    which every non-flat interval of the cooling profile ends closes the cold allocation, wherever it stands.
    (Unlike on the hot side the data preparation does NOT always provide such a utility:
    `cold_cover_fails_witness`.) -/
theorem ladder_with_cover_closes_cold (tol : Rat) (htol : 0 ≤ tol) (T H : List Rat) (pre post : List ULevel) (uc : ULevel)
    (limit m : Rat) (hm : uc.tt ≤ m) (hts : uc.ts ≤ uc.tt)
    (hstart : ∀ c ∈ candidates.cells' (T.zip H), c.1.2 ≠ c.2.2 → m ≤ c.2.1)
    (hlen : T.length = H.length) (hdesc : T.Pairwise (· > ·)) (hmono : H.Pairwise (· ≤ ·))
    (hlastv : H.getLast? = some limit) (hhead : ∃ z, H.head? = some z ∧ z < limit) (h0 : 0 ≤ limit) :
    limit - tol ≤ (assignLoop tol T H false limit 0 (pre ++ uc :: post)).sum ∧
    (assignLoop tol T H false limit 0 (pre ++ uc :: post)).sum ≤ limit := by
  have := assignLoop_closes_of_cover_mid tol htol T H false uc limit (le_last_of_asc H limit hmono hlastv)
    (fun qA hq => maximise_covering_cold_from tol htol T H uc qA limit m hm hts hstart hlen hdesc hmono hlastv hhead hq)
    post pre 0 h0
  simpa using this

/-- Non-vacuity: a hot stream supplied at 300 above the hottest cold target (205): the heating profile is flat
    from 300 to 205; steam at 203.5 … 203.4 on the table scale does not reach it, the default utility at
    205 … 205.1 does, whatever the order. -/
example : assignLoop Gen.tol [300, 205, 150, 100] [324, 324, 100, 0] true 324 0 [⟨2035 / 10, 2034 / 10⟩, ⟨2051 / 10, 205⟩] = [100, 224] ∧
    assignLoop Gen.tol [300, 205, 150, 100] [324, 324, 100, 0] true 324 0 [⟨2051 / 10, 205⟩, ⟨2035 / 10, 2034 / 10⟩] = [324, 0] := by
  constructor <;> decide +kernel

/-- **… and likewise on the cooling side**: non-decreasing profile (read downwards) ending at
    `limit = Qc`, last utility at least as cold as every row in supply and target level. -/
theorem covering_ladder_closes_cold (tol : Rat) (htol : 0 ≤ tol) (T H : List Rat) (pre : List ULevel) (uc : ULevel) (limit : Rat)
    (hcov : ∀ t ∈ T, uc.tt ≤ t ∧ -tol ≤ t - uc.ts)
    (hlen : T.length = H.length) (hmono : H.Pairwise (· ≤ ·)) (hlastv : H.getLast? = some limit)
    (hhead : ∃ z, H.head? = some z ∧ z < limit) (h0 : 0 ≤ limit) :
    limit - tol ≤ (assignLoop tol T H false limit 0 (pre ++ [uc])).sum ∧
    (assignLoop tol T H false limit 0 (pre ++ [uc])).sum ≤ limit := by
  have := assignLoop_closes_cold tol htol T H uc limit hcov hlen hmono hlastv hhead pre 0 h0
  simpa using this

/-- the hypotheses are met by the example ladder below (the 260-level covers the segment) -/
example : (assignLoop Gen.tol [200, 150, 100] [900, 400, 0] true 900 0 ([⟨160, 1599/10⟩] ++ [⟨260, 2599/10⟩])).sum = 900 := by
  decide +kernel

/-- **A covering hot utility always exists after the data preparation.**  For any cold streams, any
    supplied utilities (isothermal, gliding, of any type, with or without target / contribution) and
    any `DT_CONT`, `DT_PHASE_CHANGE ≥ 0`: the prepared list contains an active hot utility whose whole
    SHIFTED band — `min(t_supply, t_target) − dt_cont` is its lower end — lies at or above the shifted
    target of every cold stream.  (This is the hypothesis `hcov` of `covering_ladder_closes_hot`.) -/
theorem hot_cover_exists (dtc dpc : Rat) (hdpc : 0 ≤ dpc) (hotT coldT : List Rat) (us : List (UIn × Bool)) :
    ∃ u ∈ prepareUtilities dtc dpc hotT coldT us, u.hot = true ∧ u.active = true ∧
      ∀ x ∈ coldT, x ≤ min u.ts u.tt - u.dt := by
  unfold prepareUtilities
  simp only
  by_cases h : (us.map fun p => completeOne dtc dpc p.2 p.1).any (suppressesHU (huTmin coldT)) = true
  · obtain ⟨u, hu, hs⟩ := List.any_eq_true.mp h
    unfold suppressesHU at hs
    simp only [Bool.and_eq_true, decide_eq_true_eq] at hs
    refine ⟨u, ?_, hs.1.1, hs.1.2, fun x hx => le_trans (huTmin_ge coldT x hx) hs.2⟩
    exact List.mem_append_left _ (List.mem_append_left _ hu)
  · refine ⟨defaultUtility true (huTmin coldT) dtc dpc, ?_, rfl, rfl, ?_⟩
    · rw [if_neg h]
      exact List.mem_append_left _ (List.mem_append_right _ (by simp))
    · intro x hx
      have := huTmin_ge coldT x hx
      simp only [defaultUtility, if_true, mul_one]
      have e : min (huTmin coldT + (dtc + dpc)) (huTmin coldT + dtc) = huTmin coldT + dtc := by
        apply min_eq_right; linarith
      rw [e]; linarith

/-- **The mirror statement fails on the cold side** (kernel-decided): cooling water at 32 °C with a
    contribution of 10 K and one hot stream cooled to a shifted 35 °C — the preparation keeps the
    cooling water (shifted band 42 … 42.1), adds NO default cold utility, and no cold utility of the
    prepared list lies at or below the hot stream's shifted target. -/
theorem cold_cover_fails_witness :
    prepareUtilities 5 (1 / 10) [35] [] [(⟨false, true, true, 32, some 32, some 10⟩, false)]
      = [⟨false, true, true, 32, 321 / 10, 10⟩, ⟨true, false, true, -1000000000 + (5 + 1 / 10), -1000000000 + 5, 5⟩] ∧
    ¬ (32 : Rat) + 10 ≤ 35 := by
  constructor <;> decide +kernel

/-- The code's tolerance is non-negative. -/
theorem tol_nonneg : 0 ≤ Gen.tol := by decide +kernel

/-- Non-vacuity / concrete ladder: heating profile `[900, 400, 0]` at `T = [200, 150, 100]`, an
    isothermal-like level at 160 (reaches only the lower interval) and one at 260: the cheaper
    level takes 400, the hotter one the remaining 500. -/
example : assignUtility Gen.tol [200, 150, 100] [900, 400, 0] [⟨260, 2599/10⟩, ⟨160, 1599/10⟩] 2 true
    = .ok [500, 400] := by decide +kernel

end OP.C03
