/-
  Model of the default-utility decision of the data preparation
  (`OpenPinch/analysis/data_preparation.py`: `_find_extreme_process_temperatures`,
  `_complete_utility_data`, `_add_default_utilities`, `_create_default_utility`).
  Temperatures of streams are the SHIFTED bounds the code reads (`t_max_star` of cold streams,
  `t_min_star` of hot streams); utilities carry real temperatures and their own contribution.
-/
import OPModel.Model.Basic

namespace OP

/-- a utility as entered: `tt`, `dt` may be unspecified -/
structure UIn where
  hot    : Bool            -- type "Hot" or "Both"
  cold   : Bool            -- type "Cold" or "Both"
  active : Bool
  ts     : Rat
  tt     : Option Rat
  dt     : Option Rat
  deriving Repr, DecidableEq

/-- a utility after completion -/
structure UOut where
  hot    : Bool
  cold   : Bool
  active : Bool
  ts     : Rat
  tt     : Rat
  dt     : Rat
  deriving Repr, DecidableEq

/-- `HU_T_min`: highest shifted target of a cold stream (start value −1e9). -/
def huTmin (coldTmaxStar : List Rat) : Rat :=
  coldTmaxStar.foldl (fun m x => if m < x then x else m) (-1000000000)

/-- `CU_T_max`: lowest shifted target of a hot stream (start value 1e9). -/
def cuTmax (hotTminStar : List Rat) : Rat :=
  hotTminStar.foldl (fun m x => if x < m then x else m) 1000000000

/-- completion of one utility: missing / equal target → `ts ∓ DT_PHASE_CHANGE` (minus only for type
    "Hot"), missing contribution → `DT_CONT` -/
def completeOne (dtc dpc : Rat) (hotOnly : Bool) (u : UIn) : UOut :=
  let tt := match u.tt with
    | some t => if t = u.ts then u.ts + (if hotOnly then -dpc else dpc) else t
    | none => u.ts + (if hotOnly then -dpc else dpc)
  { hot := u.hot, cold := u.cold, active := u.active, ts := u.ts, tt := tt, dt := u.dt.getD dtc }

/-- the code's test that a supplied utility makes the default hot utility unnecessary -/
def suppressesHU (h : Rat) (u : UOut) : Bool := u.hot && u.active && decide (h ≤ min u.ts u.tt - u.dt)

/-- the code's test for the default cold utility (note the sign of `dt`) -/
def suppressesCU (c : Rat) (u : UOut) : Bool := u.cold && u.active && decide (max u.ts u.tt - u.dt ≤ c)

/-- `_create_default_utility` -/
def defaultUtility (isHot : Bool) (T dtc dpc : Rat) : UOut :=
  let a : Rat := if isHot then 1 else -1
  { hot := isHot, cold := !isHot, active := true, ts := T + (dtc + dpc) * a, tt := T + dtc * a, dt := dtc }

/-- the utilities the preparation hands on: completed inputs, then the defaults that are needed.
    `hotOnly[i]` says whether input `i` has type exactly "Hot". -/
def prepareUtilities (dtc dpc : Rat) (hotTminStar coldTmaxStar : List Rat) (us : List (UIn × Bool)) : List UOut :=
  let h := huTmin coldTmaxStar
  let c := cuTmax hotTminStar
  let done := us.map fun p => completeOne dtc dpc p.2 p.1
  done ++ (if done.any (suppressesHU h) then [] else [defaultUtility true h dtc dpc])
       ++ (if done.any (suppressesCU c) then [] else [defaultUtility false c dtc dpc])

end OP
