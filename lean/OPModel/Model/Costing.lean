/-
  Model of `OpenPinch/utils/costing.py` and of the interval term of `get_area_targets`, written over
  the same abstract arithmetic `HX.Ops` as the heat-exchanger formulas: run with IEEE doubles by
  the driver, reasoned about over the reals in `Properties/C15.lean`.
  Python's `x ** c` (x > 0) is modelled as `exp (c · log x)`.
-/
import OPModel.Model.HX

namespace OP.Costing
open OP.HX

variable {α : Type} (o : Ops α)

def powPos (x c : α) : α := o.exp (o.mul c (o.log x))

/-- `compute_capital_recovery_factor(i, n) = i (1+i)^n / ((1+i)^n − 1)` -/
def crf (i n : α) : α :=
  let g := powPos o (o.add o.one i) n
  o.div (o.mul i g) (o.sub g o.one)

/-- `compute_capital_cost(A, N, a, b, c) = N a + N b (A/N)^c` -/
def capitalCost (A N a b c : α) : α :=
  o.add (o.mul N a) (o.mul (o.mul N b) (powPos o (o.div A N) c))

/-- `compute_annual_capital_cost` -/
def annualCost (cc i n : α) : α := o.mul cc (crf o i n)

/-- one enthalpy interval of the area target: `Q / (U · ΔT_lm)` with `U = 1/R` -/
def areaTerm (Q R L : α) : α := o.div Q (o.mul (o.div o.one R) L)

end OP.Costing
