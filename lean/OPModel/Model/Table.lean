/-
  Model of `ProblemTable.insert_temperature_interval` and its helpers
  (`OpenPinch/classes/problem_table.py`, after the two `fix:` commits on `_build_mid_block`
  and `_build_top_or_bottom_block`).

  A table is a list of rows from the hottest temperature down; a row is a list of cells over
  the table's columns; a cell is `none` for NaN.  The model is defined for tables whose
  temperature column is populated and strictly descending (the table invariant): numpy's
  `argsort` re-ordering of the placeholder rows then coincides with the direct construction
  below.  `needInsert`, `categorise`, `dedupeMono`, `bucket` transcribe `_Ts_needing_insertion`,
  `_categorise_insertion_targets`, `_dedupe_monotonic`, `_group_middle_inserts`; `topBlock`,
  `bottomBlock` transcribe `_build_top_or_bottom_block` (with `_populate_from_neighbor`);
  `midBlock` transcribes `_build_mid_block` (`_initialise_insert_rows`,
  `_interpolate_heat_columns`, `_adjust_bottom_row`, `_update_heat_capacity_pairs`).
-/
import OPModel.Model.Basic

namespace OP

abbrev Cell := Option Rat
abbrev Row := List Cell

/-- Column layout: index of `T`, of `ΔT`, of the interpolated columns, of the (CP, ΔH) pairs. -/
structure TblCfg where
  nCols  : Nat
  tI     : Nat
  dI     : Nat
  interp : List Nat
  pairs  : List (Nat × Nat)
  deriving Repr

namespace Row

def get (r : Row) (i : Nat) : Cell := (r[i]?).join

def put (r : Row) (i : Nat) (v : Cell) : Row := r.set i v

end Row

/-- NaN-propagating product (`nan * x = nan`). -/
def mulCell : Cell → Cell → Cell
  | some a, some b => some (a * b)
  | _, _ => none

/-- Temperature of a row (`none` if the cell is NaN or missing). -/
def Row.temp (cfg : TblCfg) (r : Row) : Cell := r.get cfg.tI

/-- `ΔH := ΔT · CP` for the three heat-capacity pairs (`_update_heat_capacity_pairs` on one row). -/
def recomputeDH (cfg : TblCfg) (r : Row) : Row :=
  cfg.pairs.foldl (fun r p => r.put p.2 (mulCell (r.get cfg.dI) (r.get p.1))) r

/-! ### which temperatures are inserted where -/

/-- `_Ts_needing_insertion`: keep the requested values farther than `tol` from every row. -/
def needInsert (tol : Rat) (Ts : List Rat) (vals : List Rat) : List Rat :=
  vals.filter fun v => Ts.all fun t => decide (tol < rabs (t - v))

/-- `np.sort(x)[::-1]`. -/
def sortDesc (xs : List Rat) : List Rat := xs.mergeSort (fun a b => decide (b ≤ a))

/-- `_dedupe_monotonic`: drop values within `tol` of the last kept one. -/
def dedupeMono (tol : Rat) : List Rat → List Rat
  | [] => []
  | x :: xs => x :: go x xs
where
  go (last : Rat) : List Rat → List Rat
    | [] => []
    | y :: ys => if tol < rabs (last - y) then y :: go y ys else go last ys

/-- Values that `_categorise_insertion_targets` files under the interval whose lower row has
    temperature `lo` and upper row `hi` (`searchsorted` on a descending column + `inside`),
    ordered and de-duplicated as `_group_middle_inserts` does. -/
def bucket (tol : Rat) (hi lo : Rat) (mid : List Rat) : List Rat :=
  dedupeMono tol (sortDesc (mid.filter fun v =>
    decide (lo ≤ v) && !decide (hi ≤ v) && decide (v < hi - tol) && decide (lo + tol < v)))

/-! ### building rows -/

/-- `_populate_from_neighbor(copy_interpolation=True, zero_non_interpolation=True)` on a NaN row. -/
def edgeRow (cfg : TblCfg) (nb : Row) (t : Rat) (dt : Rat) : Row :=
  (List.range cfg.nCols).map fun c =>
    if c = cfg.tI then some t
    else if c = cfg.dI then some dt
    else if cfg.interp.contains c then nb.get c
    else (nb.get c).map fun _ => 0

/-- Rows built outwards from the neighbour `nb` for temperatures listed from the nearest to the
    farthest; `dt` of each is its distance to the previous one. -/
def edgeChain (cfg : TblCfg) (nb : Row) (prevT : Rat) : List Rat → List Row
  | [] => []
  | t :: ts =>
    let r := edgeRow cfg nb t (rabs (t - prevT))
    r :: edgeChain cfg r t ts

/-- The ΔT shift at the end of the top branch of `_build_top_or_bottom_block` (rows ascending):
    every row takes the ΔT of the row above it, the hottest row takes 0. -/
def shiftDT (cfg : TblCfg) : List Row → List Row
  | [] => []
  | [r] => [r.put cfg.dI (some 0)]
  | r1 :: r2 :: rest => r1.put cfg.dI (r2.get cfg.dI) :: shiftDT cfg (r2 :: rest)

/-- The top block of `_build_top_or_bottom_block` for temperatures `tops` (descending, all above
    the table) and the adjusted old top row.  After the ΔT shift every row carries the gap to the
    row above it and the new first row 0 — except that a *single* new top row keeps
    `T_new − T_old` (the loop's `i == 0` branch), which the pinned test requires. -/
def topBlock (cfg : TblCfg) (nb : Row) (nbT : Rat) (tops : List Rat) : List Row × Row :=
  match tops.reverse with
  | [] => ([], nb)
  | a0 :: asc =>
    let built := edgeChain cfg nb nbT (a0 :: asc)               -- ascending, dT = gap to the row below
    let shifted := if built.length ≤ 1 then built else shiftDT cfg built
    (shifted.reverse, nb.put cfg.dI (some (a0 - nbT)))

/-- The bottom block (descending, all below the table), built downwards from the old bottom row. -/
def bottomBlock (cfg : TblCfg) (nb : Row) (nbT : Rat) (bots : List Rat) : List Row :=
  edgeChain cfg nb nbT bots

/-- One new row of a middle block before its ΔT/ΔH: non-interpolated columns copied from the
    lower row, interpolated columns by `_interpolate_heat_columns`. -/
def midRow (cfg : TblCfg) (tol : Rat) (up lo : Row) (upT loT : Rat) (t : Rat) : Row :=
  (List.range cfg.nCols).map fun c =>
    if c = cfg.tI then some t
    else if c = cfg.dI then none
    else if cfg.interp.contains c then
      if rabs (upT - loT) ≤ tol then lo.get c
      else
        match lo.get c, up.get c with
        | none, _ => none
        | some b, none => some b
        | some b, some a => some (b + (t - loT) / (upT - loT) * (a - b))
    else lo.get c

/-- ΔT of the new rows: gap to the row above (`temps_chain[i] - temps_chain[i+1]`). -/
def withGaps (cfg : TblCfg) (prevT : Rat) : List (Rat × Row) → List Row
  | [] => []
  | (t, r) :: rest => recomputeDH cfg (r.put cfg.dI (some (prevT - t))) :: withGaps cfg t rest

/-- `_build_mid_block`: new rows and the adjusted upper and lower neighbours. -/
def midBlock (cfg : TblCfg) (tol : Rat) (up lo : Row) (upT loT : Rat) (temps : List Rat) :
    Row × List Row × Row :=
  match temps.getLast? with
  | none => (up, [], lo)
  | some lastT =>
    let news := withGaps cfg upT (temps.map fun t => (t, midRow cfg tol up lo upT loT t))
    let lo' := recomputeDH cfg (lo.put cfg.dI (some (lastT - loT)))
    (recomputeDH cfg up, news, lo')

/-- Walk down the original rows; `up` is the current (possibly already adjusted) upper row. -/
def walk (cfg : TblCfg) (tol : Rat) (mid : List Rat) (up : Row) (upT : Rat) : List (Row × Rat) → List Row
  | [] => [up]
  | (lo, loT) :: rest =>
    let (up', news, lo') := midBlock cfg tol up lo upT loT (bucket tol upT loT mid)
    up' :: news ++ walk cfg tol mid lo' loT rest

/-- Temperatures of all rows, or `none` if a cell is NaN. -/
def temps (cfg : TblCfg) (rows : List Row) : Option (List Rat) := rows.mapM (Row.temp cfg)

def strictlyDesc : List Rat → Bool
  | a :: b :: rest => decide (b < a) && strictlyDesc (b :: rest)
  | _ => true

/-- `insert_temperature_interval(T_ls)`: the new table and the number of rows added. -/
def insertTemps (cfg : TblCfg) (tol : Rat) (rows : List Row) (vals : List Rat) : Except Err (List Row × Nat) :=
  match temps cfg rows with
  | none => .error .valueError
  | some Ts =>
    match rows, Ts with
    | r0 :: restRows, t0 :: restTs =>
      if !strictlyDesc Ts then .error .badOp else
      let tLast := (t0 :: restTs).getLast (List.cons_ne_nil _ _)
      let rLast := (r0 :: restRows).getLast (List.cons_ne_nil _ _)
      let need := needInsert tol Ts vals
      let tops := dedupeMono tol (sortDesc (need.filter fun v => decide (t0 < v)))
      let bots := dedupeMono tol (sortDesc (need.filter fun v => decide (v < tLast)))
      let mid := need.filter fun v => !(decide (t0 < v)) && !(decide (v < tLast))
      let (topRows, r0') := topBlock cfg r0 t0 tops
      let body := walk cfg tol mid r0' t0 (restRows.zip restTs)
      let botRows := bottomBlock cfg rLast tLast bots
      let out := topRows ++ body ++ botRows
      .ok (out, out.length - rows.length)
    | _, _ => .error .valueError

/-- A history of calls (each call a list of temperatures); returns the counts and the final table. -/
def insertMany (cfg : TblCfg) (tol : Rat) (rows : List Row) : List (List Rat) → Except Err (List Nat × List Row)
  | [] => .ok ([], rows)
  | req :: reqs => do
    let (rows', c) ← insertTemps cfg tol rows req
    let (cs, final) ← insertMany cfg tol rows' reqs
    pure (c :: cs, final)

end OP
