/-
  Model of the segmentation of a grand-composite series into runs
  (`_segment_bounds`, `_iter_gcc_segment_slices`, `_classify_segment` in
  `OpenPinch/analysis/graph_data.py`).  Code-shaped: explicit indices, the inner `while` as a
  recursion with fuel.
-/
import OPModel.Model.Basic

namespace OP

inductive SegClass where
  | cold | hot | vert
  deriving DecidableEq, Repr, Inhabited

/-- `_classify_segment(x[j] - x[j+1], …)`: enthalpy falling with falling temperature is a cold
    (heat-sink) run, rising a hot run, within `vtol` a vertical one. -/
def classify (vtol d : Rat) : SegClass :=
  if rabs d ≤ vtol then .vert else if 0 < d then .cold else .hot

def diffAt (x : Array Rat) (j : Nat) : Rat := x[j]! - x[j + 1]!

/-- `_segment_bounds`: first and last index of the non-flat extent. -/
def segStart (tol : Rat) (x : Array Rat) : Nat :=
  ((List.range (x.size - 1)).find? fun i => decide (tol < rabs (x[i]! - x[i + 1]!))).getD 0

def segEnd (tol : Rat) (x : Array Rat) : Nat :=
  (((List.range (x.size - 1)).map fun k => x.size - 1 - k).find? fun i => decide (tol < rabs (x[i]! - x[i - 1]!))).getD (x.size - 1)

/-- inner loop: advance `next_j` while it is below `e` and the step there has class `cls` -/
def runEnd (vtol : Rat) (x : Array Rat) (cls : SegClass) (e : Nat) : Nat → Nat → Nat
  | 0, nj => nj
  | fuel + 1, nj =>
    if nj < e then
      if classify vtol (diffAt x nj) = cls then runEnd vtol x cls e fuel (nj + 1) else nj
    else nj

/-- outer loop: the runs `(class, first index, last index)` from `j` to `e` -/
def slices (vtol : Rat) (x : Array Rat) (e : Nat) : Nat → Nat → List (SegClass × Nat × Nat)
  | 0, _ => []
  | fuel + 1, j =>
    if j < e then
      let cls := classify vtol (diffAt x j)
      let nj := runEnd vtol x cls e (e - j) (j + 1)
      (cls, j, nj) :: slices vtol x e fuel nj
    else []

def gccSlices (tol vtol : Rat) (x : Array Rat) : Nat × Nat × List (SegClass × Nat × Nat) :=
  let s := segStart tol x
  let e := segEnd tol x
  (s, e, slices vtol x e (e - s + 1) s)

end OP
