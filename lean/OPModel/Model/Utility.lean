/-
  Model of `OpenPinch/analysis/utility_targeting.py`: `_target_utility`, `_assign_utility`,
  `_maximise_utility_duty` (after the `fix:` commit that stops the cold window from wrapping
  around when the cold pinch is the first row).  Array slices are list `take`/`drop`.
-/
import OPModel.Model.Basic
import OPModel.Model.Cascade

namespace OP

/-- A utility as the assignment sees it: supply / target level on the table's scale
    (hot: `(t_max*, t_min*)`, cold: `(t_min*, t_max*)`). -/
structure ULevel where
  ts : Rat
  tt : Rat
  deriving Repr, DecidableEq

/-- One interval of the segment as `_maximise_utility_duty` sees it. -/
structure Cand where
  qPot  : Rat
  qCur  : Rat
  dtTar : Rat
  deriving Repr

/-- The valid intervals (`valid_mask`) with their potential duty and target-temperature margin. -/
def candidates (tol : Rat) (T H : List Rat) (u : ULevel) (isHot : Bool) (qAssigned : Rat) : List Cand :=
  let rows := T.zip H
  (cells' rows).filterMap fun ((tU, hU), (tL, hL)) =>
    -- upper row (tU,hU), lower row (tL,hL)
    let (curT, curH, adjH, supT) := if isHot then (tL, hL, hU, tU) else (tU, hU, hL, tL)
    let qPot := adjH - qAssigned
    let dtTar := if isHot then u.tt - curT else curT - u.tt
    let dtSup := if isHot then u.ts - supT else supT - u.ts
    if adjH ≠ curH ∧ -tol ≤ dtSup ∧ tol < qPot then some { qPot := qPot, qCur := curH - qAssigned, dtTar := dtTar } else none
where
  cells' : List (Rat × Rat) → List ((Rat × Rat) × (Rat × Rat))
    | a :: b :: rest => (a, b) :: cells' (b :: rest)
    | _ => []

/-- `_maximise_utility_duty`. -/
def maximiseUtilityDuty (tol : Rat) (T H : List Rat) (u : ULevel) (isHot : Bool) (qAssigned : Rat) : Rat :=
  if T.length < 2 then 0
  else
    match candidates tol T H u isHot qAssigned with
    | [] => 0
    | c :: cs =>
      let all := c :: cs
      let dtMax := cs.foldl (fun m x => max m x.dtTar) c.dtTar
      if dtMax < 0 then 0
      else
        let qTs := cs.foldl (fun m x => max m x.qPot) c.qPot
        let span := rabs (u.tt - u.ts)
        let qTt : Option Rat := all.foldl (fun acc x =>
          if tol < -x.dtTar then
            let v := x.qCur / (-x.dtTar) * span
            match acc with | none => some v | some a => some (min a v)
          else acc) none
        match qTt with
        | none => qTs
        | some v => min qTs v

/-- The loop of `_assign_utility` over the utilities in processing order; returns the duties
    (0 for a utility that is skipped or never reached). -/
def assignLoop (tol : Rat) (T H : List Rat) (isHot : Bool) (limit : Rat) : Rat → List ULevel → List Rat
  | _, [] => []
  | qA, u :: us =>
    let q := maximiseUtilityDuty tol T H u isHot qA
    let (d, qA') := if tol < q then (q, qA + q) else (0, qA)
    if rabs (limit - qA') < tol then d :: us.map (fun _ => 0)
    else d :: assignLoop tol T H isHot limit qA' us

/-- `_assign_utility`: duties in the order of `u_ls`. -/
def assignUtility (tol : Rat) (T H : List Rat) (us : List ULevel) (pinchRow : Nat) (isHot : Bool) : Except Err (List Rat) :=
  let (Tseg, Hseg) := if isHot then (T.take (pinchRow + 1), H.take (pinchRow + 1))
                      else (T.drop (pinchRow - 1), H.drop (pinchRow - 1))
  let limit? := if isHot then Hseg.head? else Hseg.getLast?
  match limit? with
  | none => .error .indexError
  | some limit =>
    if isHot then .ok (assignLoop tol Tseg Hseg true limit 0 us.reverse).reverse
    else .ok (assignLoop tol Tseg Hseg false limit 0 us)

/-- `_target_utility` for one side: sign normalisation, the `abs(H[end]) > tol` guard. -/
def targetUtility (tol : Rat) (T H : List Rat) (us : List ULevel) (hotRow coldRow : Nat) (isHot : Bool) : Except Err (List Rat) :=
  if us.isEmpty then .ok []
  else
    let H' := match listMin H with
      | some m => if m < -tol then H.map (fun x => -x) else H
      | none => H
    let endV := if isHot then H'.head? else H'.getLast?
    match endV with
    | none => .error .indexError
    | some e =>
      if tol < rabs e then assignUtility tol T H' us (if isHot then hotRow else coldRow) isHot
      else .ok (us.map fun _ => 0)

end OP
