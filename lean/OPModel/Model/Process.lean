/-
  Model of `get_process_heat_cascade` (`OpenPinch/analysis/problem_table_analysis.py`):
  cascade on either scale, `_shift_pt_to_set_heat_recovery`,
  `_insert_temperature_interval_into_pt_at_constant_h` with `_get_T_start_on_opposite_cc`
  and `linear_interpolation`, using the insertion model of `Model/Table.lean`.
-/
import OPModel.Model.Cascade
import OPModel.Model.Table

namespace OP

/-- Positions of the cascade's columns inside a full table row. -/
structure PTCols where
  t : Nat
  dT : Nat
  cpHot : Nat
  dHHot : Nat
  hHot : Nat
  cpCold : Nat
  dHCold : Nat
  hCold : Nat
  cpNet : Nat
  dHNet : Nat
  hNet : Nat
  rcpHot : Nat
  rcpCold : Nat
  deriving Repr

/-- The table `ProblemTable` holds after `problem_table_algorithm`: cascade columns filled, all
    other columns NaN. -/
def PT.toRows (pt : PT) (n : Nat) (k : PTCols) : List Row :=
  (List.range pt.T.length).map fun i =>
    let cell (xs : List Rat) : Cell := xs[i]?
    let base : Row := List.replicate n none
    ((((((((((((base.put k.t (cell pt.T)).put k.dT (cell pt.dT)).put k.cpHot (cell pt.cpHot)).put k.dHHot (cell pt.dHHot)).put
      k.hHot (cell pt.hHot)).put k.cpCold (cell pt.cpCold)).put k.dHCold (cell pt.dHCold)).put k.hCold (cell pt.hCold)).put
      k.cpNet (cell pt.cpNet)).put k.dHNet (cell pt.dHNet)).put k.hNet (cell pt.hNet)).put k.rcpHot (cell pt.rcpHot)).put
      k.rcpCold (cell pt.rcpCold)

/-- `linear_interpolation(xi, x1, x2, y1, y2)`. -/
def linearInterpolation (xi x1 x2 y1 y2 : Rat) : Except Err Rat :=
  if x1 = x2 then .error .valueError
  else
    let m := (y1 - y2) / (x1 - x2)
    let c := y1 - m * x1
    .ok (m * xi + c)

/-- Indices `i` with `cc[i] ≥ tol` and `cc[i+1] ≤ -tol`. -/
def transitions (tol : Rat) : Nat → List Rat → List Nat
  | i, a :: b :: rest => (if tol ≤ a ∧ b ≤ -tol then [i] else []) ++ transitions tol (i + 1) (b :: rest)
  | _, _ => []

/-- `_get_T_start_on_opposite_cc`. -/
def tStartOnOppositeCC (tol : Rat) (T cc : List Rat) (h0 : Rat) : Except Err (Option Rat) :=
  let d := cc.map (· - h0)
  if d.length < 2 then .ok none
  else if d.any (fun x => decide (rabs x < tol)) then .ok none
  else
    match transitions tol 0 d with
    | [i] =>
      match cc[i]?, cc[i+1]?, T[i]?, T[i+1]? with
      | some c1, some c2, some t1, some t2 => (linearInterpolation h0 c1 c2 t1 t2).map some
      | _, _, _, _ => .error .indexError
    | _ => .ok none

/-- `get_process_heat_cascade(hot, cold, all, is_shifted, known_heat_recovery)` on a given grid. -/
def processHeatCascade (cfg : TblCfg) (k : PTCols) (tol w : Rat) (T : List Rat) (hot cold : List Seg)
    (knownHR : Option Rat) : Except Err (List Row) := do
  let pt0 ← problemTable tol w T hot cold
  let hrTarget ← match pt0.hHot.head?, pt0.hNet.getLast? with
    | some a, some b => Except.ok (a - b)
    | _, _ => Except.error Err.indexError
  let pt := match knownHR with
    | some hr =>
      let delta := hrTarget - hr
      { pt0 with hCold := pt0.hCold.map (· + delta), hNet := pt0.hNet.map (· + delta) }
    | none => pt0
  let rows := pt.toRows cfg.nCols k
  if tol < hrTarget then
    let a ← match pt.hHot.head? with
      | some h => if 0 < h then tStartOnOppositeCC tol pt.T pt.hCold h else .ok none
      | none => Except.error Err.indexError
    let b ← match pt.hCold.getLast? with
      | some h => if 0 < h then tStartOnOppositeCC tol pt.T pt.hHot h else .ok none
      | none => Except.error Err.indexError
    let tNew := a.toList ++ b.toList
    if tNew.isEmpty then pure rows
    else (insertTemps cfg tol rows tNew).map (·.1)
  else pure rows

end OP
