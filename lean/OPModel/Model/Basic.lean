/-
  Basic helpers of the executable model: exact rationals, Python-style errors,
  parsing/printing of the line protocol.  Core Lean only (no Mathlib) so that
  the driver links as a native executable.
-/
namespace OP

/-- The Python exceptions the modelled code can raise, as a small enum. -/
inductive Err where
  | attributeError | zeroDivision | keyError | indexError | valueError | typeError | badOp
  deriving Repr, DecidableEq, Inhabited

def Err.tag : Err → String
  | .attributeError => "AttributeError"
  | .zeroDivision => "ZeroDivisionError"
  | .keyError => "KeyError"
  | .indexError => "IndexError"
  | .valueError => "ValueError"
  | .typeError => "TypeError"
  | .badOp => "BadOp"

def rabs (x : Rat) : Rat := if x < 0 then -x else x

/-- Guarded division: Python raises `ZeroDivisionError`; Lean's `x / 0 = 0` is never used. -/
def rdiv (a b : Rat) : Except Err Rat := if b = 0 then .error .zeroDivision else .ok (a / b)

/-- Round half to even to an integer (numpy `round`, Python `round`). -/
def roundHalfEven (x : Rat) : Int :=
  let f := x.floor
  let r := x - (f : Rat)
  if r < (1 : Rat) / 2 then f
  else if (1 : Rat) / 2 < r then f + 1
  else if f % 2 = 0 then f else f + 1

def pow10 (dp : Nat) : Rat := ((10 ^ dp : Nat) : Rat)

def roundDp (dp : Nat) (x : Rat) : Rat := (roundHalfEven (x * pow10 dp) : Rat) / pow10 dp

/-! ### line protocol -/

def parseInt? (s : String) : Option Int := s.toInt?

def parseRat? (s : String) : Option Rat :=
  match s.splitOn "/" with
  | [n] => (parseInt? n).map fun i => (i : Rat)
  | [n, d] =>
    match parseInt? n, d.toNat? with
    | some i, some k => if k = 0 then none else some ((i : Rat) / (k : Rat))
    | _, _ => none
  | _ => none

def showRat (x : Rat) : String :=
  if x.den = 1 then toString x.num else s!"{x.num}/{x.den}"

def showOptRat : Option Rat → String
  | none => "nan"
  | some x => showRat x

def parseOptRat? (s : String) : Option (Option Rat) :=
  if s = "nan" then some none else (parseRat? s).map some

def showRats (xs : List Rat) : String := " ".intercalate (xs.map showRat)

def parseRats? (ts : List String) : Option (List Rat) := ts.mapM parseRat?

end OP

namespace OP

/-- Split a token list at every `"|"` token (empty groups dropped). -/
def splitGroupsAux : List String → List String → List (List String)
  | cur, [] => [cur.reverse]
  | cur, t :: rest =>
    if t = "|" then cur.reverse :: splitGroupsAux [] rest else splitGroupsAux (t :: cur) rest

def splitGroups (ts : List String) : List (List String) :=
  (splitGroupsAux [] ts).filter (· ≠ [])

def tokens (line : String) : List String :=
  ((line.splitOn " ").map (fun (s : String) => s.trimAscii.toString)).filter (· ≠ "")

end OP
