/-
  Model of the bookkeeping of `SimpleHeatPumpCycle` (`OpenPinch/classes/simple_heat_pump.py`) around
  the CoolProp state calls: `_get_metrics` on the four state enthalpies (J/kg) and the scaling of a
  T-h profile into streams in `build_stream_collection` (after fix 275087a: each profile is scaled
  to the duty of its own exchanger).  The thermodynamic states themselves come from CoolProp and are
  inputs here.
-/
import OPModel.Model.Basic

namespace OP.HP

structure Cycle where
  h0 : Rat   -- evaporator outlet / compressor inlet
  h1 : Rat   -- compressor discharge
  h2 : Rat   -- condenser outlet
  h3 : Rat   -- expansion-valve outlet
  deriving Repr

def wNet (c : Cycle) : Rat := (c.h1 - c.h0) / 1000
def qEvap (c : Cycle) : Rat := max (c.h0 - c.h3) 0 / 1000
def qCond (c : Cycle) : Rat := (c.h1 - c.h3) / 1000
def mDot (c : Cycle) (Q : Rat) : Rat := Q / qCond c
def QEvap (c : Cycle) (Q : Rat) : Rat := mDot c Q * qEvap c
def work (c : Cycle) (Q : Rat) : Rat := Q - QEvap c Q
def copH (c : Cycle) : Rat := qCond c / wNet c
def copR (c : Cycle) : Rat := qEvap c / wNet c

/-- enthalpy steps of a profile -/
def steps : List Rat → List Rat
  | a :: b :: rest => rabs (a - b) :: steps (b :: rest)
  | _ => []

/-- `_build_streams`: the duty of each stream of a profile scaled to `duty` -/
def streamDuties (profile : List Rat) (duty : Rat) : List Rat :=
  match profile.head?, profile.getLast? with
  | some a, some z => (steps profile).map fun d => duty / rabs (a - z) * d
  | _, _ => []

/-- the bookkeeping before the fix: one mass-flow cell, set by `solve` per kJ/kg and overwritten per
    J/kg whenever condenser streams are built; evaporator streams use whatever is current -/
structure Legacy where
  mDot : Rat

def legacyCond (st : Legacy) (Qcond : Rat) (profile : List Rat) : Legacy × List Rat :=
  match profile.head?, profile.getLast? with
  | some a, some z =>
    let m := Qcond / rabs (a - z)
    ({ mDot := m }, (steps profile).map fun d => m * d)
  | _, _ => (st, [])

def legacyEvap (st : Legacy) (profile : List Rat) : Legacy × List Rat :=
  (st, (steps profile).map fun d => st.mDot * d)

end OP.HP
