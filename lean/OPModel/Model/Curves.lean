/-
  Model of `clean_composite_curve_ends`, `clean_composite_curve` (`OpenPinch/utils/miscellaneous.py`,
  after the `rtol=0` fix and the removal of repeated points) and of `_rdp` (`OpenPinch/utils/stream_linearisation.py`, after the 2-D
  cross-product fix).  Perpendicular distances are compared through their squares, so no square
  root is needed: `|cross| / len > eps  ⇔  cross² > eps²·len²` (for `eps ≥ 0`, `len > 0`).
-/
import OPModel.Model.Basic

namespace OP

/-! ### clean_composite_curve -/

def mean (xs : List Rat) : Rat := xs.foldl (· + ·) 0 / (xs.length : Rat)

/-- `ndarray.var()` (population variance). -/
def variance (xs : List Rat) : Rat :=
  let m := mean xs
  (xs.map fun x => (x - m) * (x - m)).foldl (· + ·) 0 / (xs.length : Rat)

/-- `clean_composite_curve_ends(y, x)`: indices `[start, end]` kept, or `none` for the empty result. -/
def cleanEndsIdx (tol : Rat) (x : List Rat) : Except Err (Option (Nat × Nat)) :=
  match x.head?, x.getLast? with
  | some x0, some xl =>
    if x.all (fun v => decide (rabs v ≤ tol)) || decide (rabs (variance x) < tol) then .ok none
    else
      match x.findIdx? (fun v => !decide (rabs (v - x0) ≤ tol)), (x.reverse.findIdx? (fun v => !decide (rabs (v - xl) ≤ tol))) with
      | some f, some r => .ok (some (f - 1, x.length - 1 - r + 1))
      | _, _ => .error .indexError
  | _, _ => .error .indexError          -- empty input: `x_vals[0]` raises

/-- The middle loop of `clean_composite_curve`: keep interior point `i` unless it is collinear
    (within `tol`, vertically) with its ORIGINAL neighbours. -/
def keepInterior (tol : Rat) : List (Rat × Rat) → List (Rat × Rat)
  | (x1, y1) :: (x2, y2) :: (x3, y3) :: rest =>
    let tail := keepInterior tol ((x2, y2) :: (x3, y3) :: rest)
    if x1 = x3 then (if x1 ≠ x2 then (x2, y2) :: tail else tail)
    else
      let yi := y1 + (y3 - y1) * (x2 - x1) / (x3 - x1)
      if tol < rabs (y2 - yi) then (x2, y2) :: tail else tail
  | _ => []

/-- Remove a point that repeats its predecessor exactly (`distinct` in the code). -/
def dedupAdj : List (Rat × Rat) → List (Rat × Rat)
  | a :: b :: rest => if b.1 = a.1 ∧ b.2 = a.2 then dedupAdj (a :: rest) else a :: dedupAdj (b :: rest)
  | l => l
termination_by l => l.length

/-- `clean_composite_curve(y_array, x_array)` → kept `(x, y)` points. -/
def cleanCurve (tol : Rat) (y x : List Rat) : Except Err (List (Rat × Rat)) := do
  match ← cleanEndsIdx tol x with
  | none => pure []
  | some (s, e) =>
    let pts0 := ((x.zip y).drop s).take (e + 1 - s)
    if pts0.length ≤ 2 then pure pts0
    else
    let pts := dedupAdj pts0
    if pts.length ≤ 2 then pure pts
    else
      match pts.head?, pts.getLast? with
      | some first, some last =>
        let kept := first :: keepInterior tol pts ++ [last]
        -- drop a first / last point whose x is within tol of its neighbour
        let kept1 := match kept with
          | a :: b :: rest => if rabs (a.1 - b.1) < tol then b :: rest else a :: b :: rest
          | l => l
        let kept2 := match kept1.reverse with
          | a :: b :: rest => if rabs (a.1 - b.1) < tol then (b :: rest).reverse else kept1
          | _ => kept1
        pure kept2
      | _, _ => Except.error Err.indexError

/-! ### Ramer–Douglas–Peucker -/

abbrev P2 := Rat × Rat

/-- z-component of the cross product of `(b - a)` and `(p - a)`. -/
def crossZ (a b p : P2) : Rat := (b.1 - a.1) * (p.2 - a.2) - (b.2 - a.2) * (p.1 - a.1)

def len2 (a b : P2) : Rat := (b.1 - a.1) * (b.1 - a.1) + (b.2 - a.2) * (b.2 - a.2)

/-- The interior point of `(start, end)` farthest from the chord: first index attaining the
    maximum of `|cross|` (strict `>` in the scan), with that maximum. -/
def farthest (pts : Array P2) (s e : Nat) : Nat × Rat :=
  (List.range (e - s - 1)).foldl (fun (acc : Nat × Rat) k =>
    let i := s + 1 + k
    let d := rabs (crossZ pts[s]! pts[e]! pts[i]!)
    if acc.2 < d then (i, d) else acc) (s, 0)

/-- Indices kept between `s` and `e` (both kept by the caller), by recursion on the range. -/
def rdpRange (pts : Array P2) (eps : Rat) : Nat → Nat → Nat → List Nat
  | 0, _, _ => []
  | fuel + 1, s, e =>
    if e ≤ s + 1 then []
    else if len2 pts[s]! pts[e]! = 0 then (List.range (e - s - 1)).map (s + 1 + ·)   -- `continue`: nothing dropped
    else
      let (i, d) := farthest pts s e
      if eps * eps * len2 pts[s]! pts[e]! < d * d then
        rdpRange pts eps fuel s i ++ [i] ++ rdpRange pts eps fuel i e
      else []

/-- `_rdp(curve, epsilon)`: indices of the kept points. -/
def rdp (pts : Array P2) (eps : Rat) : List Nat :=
  if pts.size = 0 then []
  else if pts.size = 1 then [0]
  else [0] ++ rdpRange pts eps pts.size 0 (pts.size - 1) ++ [pts.size - 1]

end OP
