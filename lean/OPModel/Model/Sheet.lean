/-
  Model of `_sanitize_sheet_name` / `_unique_sheet_name` (`OpenPinch/utils/export.py`) and of the
  `PinchProblem` load/target cache (`OpenPinch/classes/pinch_problem.py`, after the `fix:` commit
  that clears the cache in `load`).  Strings are lists of characters.
-/
import OPModel.Model.Basic

namespace OP.Sheet

abbrev Str := List Char

/-- The characters the regex `[:/?*\\\[\]]` replaces. -/
def forbidden : List Char := [':', '/', '?', '*', '\\', '[', ']']

/-- ASCII whitespace removed by `str.strip()` (the model covers ASCII labels). -/
def isWs (c : Char) : Bool := c = ' ' || c = '\t' || c = '\n' || c = '\r' || c = '\x0b' || c = '\x0c'

def rstripP (p : Char → Bool) (s : Str) : Str := (s.reverse.dropWhile p).reverse

/-- `_sanitize_sheet_name`. -/
def sanitize (name : Str) : Str :=
  let r := name.map fun c => if forbidden.contains c then '_' else c
  let s := rstripP isWs (r.dropWhile isWs)
  let t := rstripP (· = '\'') s
  if t.isEmpty then "Sheet".toList else t

/-- `f" ({idx})"`. -/
def suffix (idx : Nat) : Str := " (".toList ++ (Nat.repr idx).toList ++ ")".toList

/-- The `for idx in range(2, 1000)` search. -/
def findAlt (cand : Str) (used : List Str) : Nat → Nat → Option Str
  | 0, _ => none
  | fuel + 1, idx =>
    let suf := suffix idx
    let trimmed := if cand.length + suf.length > 31 then cand.take (31 - suf.length) else cand
    let alt := trimmed ++ suf
    if used.contains alt then findAlt cand used fuel (idx + 1) else some alt

/-- `_unique_sheet_name(base, used)`: the name and the updated `used` set. -/
def uniqueName (base : Str) (used : List Str) : Except Err (Str × List Str) :=
  let cleaned := sanitize base
  let cand := if (cleaned.take 31).isEmpty then "Sheet".toList else cleaned.take 31
  if !used.contains cand then .ok (cand, cand :: used)
  else
    match findAlt cand used 998 2 with
    | some alt => .ok (alt, alt :: used)
    | none => .error .valueError

/-- Allocate names for a list of labels in order. -/
def allocate : List Str → List Str → Except Err (List Str)
  | [], _ => .ok []
  | l :: ls, used => do
    let (n, used') ← uniqueName l used
    let rest ← allocate ls used'
    pure (n :: rest)

/-! ### the wrapper's cache and project name

  Model of `PinchProblem.load` / `target` (`OpenPinch/classes/pinch_problem.py`, after the `fix:`
  commits that clear the cached result and the project name on every load).  A problem is a number;
  a project name is `none` for the default `'Untitled'` and `some k` for the stem of file `k`. -/

/-- Where a problem is loaded from. -/
inductive Src where
  | model            -- a validated model in memory
  | file (k : Nat)   -- a JSON file / workbook / CSV directory; its stem becomes the project name
  | pair             -- a (streams.csv, utilities.csv) pair
  deriving Repr, DecidableEq

/-- What `target` reports: which problem, analysed under which project name. -/
abbrev Res := Nat × Option Nat

structure Wrapper where
  loaded : Option Nat := none
  name   : Option Nat := none
  cached : Option Res := none
  deriving Repr, DecidableEq

inductive WOp where
  | load (i : Nat) (src : Src) | target
  deriving Repr

/-- `load` clears cache and project name, then stores the problem (a path also sets the project
    name); `target` fills and returns the cache (`none`: RuntimeError, nothing loaded). -/
def wstep (w : Wrapper) : WOp → Wrapper × Option Res
  | .load i src =>
    let w0 : Wrapper := { loaded := w.loaded, name := none, cached := none }
    match src with
    | .model => ({ w0 with loaded := some i }, none)
    | .pair => ({ w0 with loaded := some i }, none)
    | .file k => ({ w0 with loaded := some i, name := some k }, none)
  | .target =>
    match w.cached with
    | some r => (w, some r)
    | none =>
      match w.loaded with
      | some i => ({ w with cached := some (i, w.name) }, some (i, w.name))
      | none => (w, none)

/-- The same machine as the code was before the project-name `fix:` commit: `load` kept the name of
    a previously loaded file for file-less sources. -/
def wstepLegacy (w : Wrapper) : WOp → Wrapper × Option Res
  | .load i src =>
    let w0 : Wrapper := { loaded := w.loaded, name := w.name, cached := none }
    match src with
    | .model => ({ w0 with loaded := some i }, none)
    | .pair => ({ w0 with loaded := some i }, none)
    | .file k => ({ w0 with loaded := some i, name := some k }, none)
  | .target => wstep w .target

end OP.Sheet
