/-
  Model of `OpenPinch/classes/stream.py` (class `Stream`): the attribute state
  machine.  Every public setter that recomputes derived attributes is an `Op`;
  `step` transcribes `_update_attributes`, `set_heat_flow`,
  `_calc_utility_cost`, `_calc_htr_and_cp_product`,
  `_set_hot_stream_min_max_temperatures`, `_set_cold_stream_min_max_temperatures`
  statement by statement over exact rationals.  Attributes that Python creates
  lazily (`_CP`, `_t_min`, …) are `Option`s; reading one that is unset is the
  `AttributeError` the real code raises.
-/
import OPModel.Model.Basic
import OPModel.Gen.Constants

namespace OP

inductive Kind where
  | hot | cold
  deriving DecidableEq, Repr, Inhabited

def Kind.tag : Kind → String
  | .hot => "Hot"
  | .cold => "Cold"

structure Stream where
  typ    : Option Kind := none
  ts     : Option Rat
  tt     : Option Rat
  dt     : Rat
  q      : Rat
  htc    : Rat
  htr    : Rat
  price  : Rat
  cp     : Option Rat := none
  rcp    : Option Rat := none
  utCost : Option Rat := none
  tmin   : Option Rat := none
  tmax   : Option Rat := none
  tminS  : Option Rat := none
  tmaxS  : Option Rat := none
  deriving Repr, Inhabited

namespace Stream

/-- `_set_hot_stream_min_max_temperatures` (reads `_t_supply`, `_t_target`, `_dt_cont`). -/
def setHot (s : Stream) (ts tt : Rat) : Stream :=
  { s with tmin := some tt, tmax := some ts,
           tminS := some (tt - s.dt), tmaxS := some (ts - s.dt),
           typ := some .hot }

/-- `_set_cold_stream_min_max_temperatures`. -/
def setCold (s : Stream) (ts tt : Rat) : Stream :=
  { s with tmin := some ts, tmax := some tt,
           tminS := some (ts + s.dt), tmaxS := some (tt + s.dt),
           typ := some .cold }

/-- `_calc_utility_cost`. -/
def calcUtCost (s : Stream) : Stream := { s with utCost := some (s.q / 1000 * s.price) }

/-- `_calc_htr_and_cp_product`; `_CP` must exist when `htc ≠ 0`. -/
def calcHtr (s : Stream) : Stream × Option Err :=
  if s.htc = 0 then (s, none)
  else
    let s1 := { s with htr := 1 / s.htc }
    if 0 < s.htc then
      match s1.cp with
      | some cp => ({ s1 with rcp := some (cp * s1.htr) }, none)
      | none => (s1, some .attributeError)
    else ({ s1 with rcp := some 0 }, none)

def setCp (s : Stream) (cp : Rat) : Stream := { s with cp := some cp }

/-- The orientation step of `_update_attributes` (first `if/elif/else`). -/
def orient (iso : Rat) (s : Stream) (ts tt : Rat) : Stream :=
  if tt < ts then setHot s ts tt
  else if ts < tt then setCold s ts tt
  else if 0 ≤ s.q then setCold { s with tt := some (ts + iso) } ts (ts + iso)
  else setHot { s with tt := some (ts - iso), q := -s.q } ts (ts - iso)

/-- `_update_attributes`. Returns the (possibly partially updated) state and the exception, if any. -/
def update (iso : Rat) (s : Stream) : Stream × Option Err :=
  match s.ts, s.tt with
  | some ts, some tt =>
    let s1 := orient iso s ts tt
    match s1.tmax, s1.tmin with
    | some hi, some lo =>
      if hi - lo = 0 then (s1, some .zeroDivision)
      else
        let s2 := s1.setCp (s1.q / (hi - lo))
        calcHtr (calcUtCost s2)
    | _, _ => (s1, some .attributeError)
  | _, _ => (s, none)

/-- Constructor `Stream(...)` with numeric `dt_cont`, `heat_flow`, `htc`, `price`. -/
def new (iso : Rat) (ts tt : Option Rat) (dt q htc price : Rat) : Stream × Option Err :=
  let h := if htc = 0 then 1 else htc
  update iso { ts := ts, tt := tt, dt := dt, q := q, htc := h, htr := 1 / h, price := price }

inductive Op where
  | setTs (v : Rat) | setTt (v : Rat) | setDt (v : Rat) | setQ (v : Rat) | setHtc (v : Rat)
  | setHeatFlow (v : Rat)
  deriving Repr

/-- `set_heat_flow`. -/
def setHeatFlow (s : Stream) (v : Rat) : Stream × Option Err :=
  let s1 := calcUtCost { s with q := v }
  match s1.ts, s1.tt with
  | some ts, some tt =>
    if 0 < rabs (ts - tt) then
      let cp := v / rabs (ts - tt)
      ({ s1 with cp := some cp, rcp := some (s1.htr * cp) }, none)
    else (s1, none)
  | _, _ => (s1, none)

def step (iso : Rat) (s : Stream) : Op → Stream × Option Err
  | .setTs v => update iso { s with ts := some v }
  | .setTt v => update iso { s with tt := some v }
  | .setDt v => update iso { s with dt := v }
  | .setQ v => update iso { s with q := v }
  | .setHtc v => update iso { s with htc := v }
  | .setHeatFlow v => setHeatFlow s v

/-- Run a history; an exception aborts the run (as an uncaught exception would). -/
def run (iso : Rat) (s : Stream) : List Op → Stream × Option Err
  | [] => (s, none)
  | op :: ops =>
    match step iso s op with
    | (s', none) => run iso s' ops
    | (s', some e) => (s', some e)

/-! ### line protocol -/

def parseOp? : List String → Option Op
  | ["ts", v] => (parseRat? v).map .setTs
  | ["tt", v] => (parseRat? v).map .setTt
  | ["dt", v] => (parseRat? v).map .setDt
  | ["q", v] => (parseRat? v).map .setQ
  | ["htc", v] => (parseRat? v).map .setHtc
  | ["shf", v] => (parseRat? v).map .setHeatFlow
  | _ => none

def «show» (s : Stream) : String :=
  let k := match s.typ with | none => "None" | some k => k.tag
  s!"type={k} ts={showOptRat s.ts} tt={showOptRat s.tt} dt={showRat s.dt} q={showRat s.q} htc={showRat s.htc} htr={showRat s.htr} cp={showOptRat s.cp} rcp={showOptRat s.rcp} ut={showOptRat s.utCost} tmin={showOptRat s.tmin} tmax={showOptRat s.tmax} tmins={showOptRat s.tminS} tmaxs={showOptRat s.tmaxS}"

end Stream
end OP
