/-
  Model of `OpenPinch/utils/heat_exchanger.py`: the ε–NTU relations, their inverses, the
  multi-pass conversions and the log-mean temperature difference.  Every formula is written
  once, over an abstract record of arithmetic operations `Ops α`, and instantiated twice: with
  IEEE doubles (`Float`, executable, run by the driver and compared with the code) and with the
  real numbers (in `Proofs/HXReal.lean`, where the theorems live).  What is proved and what is
  run is therefore the same syntax.
-/
import OPModel.Model.Basic

namespace OP.HX

structure Ops (α : Type) where
  add : α → α → α
  sub : α → α → α
  mul : α → α → α
  div : α → α → α
  neg : α → α
  exp : α → α
  log : α → α
  sqrt : α → α
  one : α
  two : α

variable {α : Type} (o : Ops α)

/-- Counter flow, `c ≠ 1`: `(1 - e^{-N(1-c)}) / (1 - c e^{-N(1-c)})`. -/
def effCF (N c : α) : α :=
  let e := o.exp (o.neg (o.mul N (o.sub o.one c)))
  o.div (o.sub o.one e) (o.sub o.one (o.mul c e))

/-- Counter flow, `c = 1`: `N / (1 + N)`. -/
def effCF1 (N : α) : α := o.div N (o.add o.one N)

/-- Parallel flow: `(1 - e^{-N(1+c)}) / (1 + c)`. -/
def effPF (N c : α) : α :=
  o.div (o.sub o.one (o.exp (o.neg (o.mul N (o.add o.one c))))) (o.add o.one c)

/-- Cross flow, Cmax unmixed: `1 - exp(-(1/c)(1 - e^{-N c}))`. -/
def effCmax (N c : α) : α :=
  o.sub o.one (o.exp (o.mul (o.div (o.neg o.one) c) (o.sub o.one (o.exp (o.neg (o.mul N c))))))

/-- Cross flow, Cmin unmixed: `(1/c)(1 - exp(-c(1 - e^{-N})))`. -/
def effCmin (N c : α) : α :=
  o.mul (o.div o.one c) (o.sub o.one (o.exp (o.mul (o.neg c) (o.sub o.one (o.exp (o.neg N))))))

/-- Condensing / evaporating (and the `c = 0` limit of every arrangement): `1 - e^{-N}`. -/
def effCond (N : α) : α := o.sub o.one (o.exp (o.neg N))

/-- `Coth(R) = (e^{2R} + 1)/(e^{2R} - 1)`. -/
def coth (R : α) : α :=
  o.div (o.add (o.exp (o.mul o.two R)) o.one) (o.sub (o.exp (o.mul o.two R)) o.one)

/-- One shell pass, even tube passes: `2 / (1 + c + d coth(N d / 2))`, `d = sqrt(1 + c²)`. -/
def effShell (N c : α) : α :=
  let d := o.sqrt (o.add o.one (o.mul c c))
  o.div o.two (o.add (o.add o.one c) (o.mul d (coth o (o.div (o.mul N d) o.two))))

/-- Inverses. -/
def ntuCF (eff c : α) : α :=
  o.mul (o.div o.one (o.sub o.one c)) (o.log (o.div (o.sub o.one (o.mul eff c)) (o.sub o.one eff)))

def ntuCF1 (eff : α) : α := o.div eff (o.sub o.one eff)

def ntuPF (eff c : α) : α :=
  o.div (o.neg (o.log (o.sub o.one (o.mul eff (o.add o.one c))))) (o.add o.one c)

def ntuCmax (eff c : α) : α :=
  o.mul (o.div (o.neg o.one) c) (o.log (o.add o.one (o.mul c (o.log (o.sub o.one eff)))))

def ntuCmin (eff c : α) : α :=
  o.neg (o.log (o.add o.one (o.mul (o.div o.one c) (o.log (o.sub o.one (o.mul eff c))))))

def ntuCond (eff : α) : α := o.neg (o.log (o.sub o.one eff))

def ntuShell (eff c : α) : α :=
  let d := o.sqrt (o.add o.one (o.mul c c))
  let d1 := o.sub (o.add o.one c) d
  let d2 := o.add (o.add o.one c) d
  o.mul (o.div o.one d) (o.log (o.div (o.sub o.two (o.mul eff d1)) (o.sub o.two (o.mul eff d2))))

/-- `compute_LMTD_from_dts` away from the equal branch: `(a - b) / log(a / b)`. -/
def lmtd (a b : α) : α := o.div (o.sub a b) (o.log (o.div a b))

/-- The equal branch: the arithmetic mean. -/
def lmtdEq (a b : α) : α := o.div (o.add a b) o.two

/-! ### the executable instance -/

def floatOps : Ops Float where
  add := (· + ·)
  sub := (· - ·)
  mul := (· * ·)
  div := (· / ·)
  neg := fun x => -x
  exp := Float.exp
  log := Float.log
  sqrt := Float.sqrt
  one := 1.0
  two := 2.0

/-- The eight arrangements the library names. -/
inductive Arr where
  | CF | PF | CrFUU | CrFMM | CrFMUmax | CrFMUmin | ShellTube | CondEvap
  deriving DecidableEq, Repr, Inhabited

def Arr.ofString? : String → Option Arr
  | "CF" => some .CF | "PF" => some .PF | "CrFUU" => some .CrFUU | "CrFMM" => some .CrFMM
  | "CrFMUmax" => some .CrFMUmax | "CrFMUmin" => some .CrFMUmin | "ShellTube" => some .ShellTube
  | "CondEvap" => some .CondEvap | _ => none

/-- `MultiPassEff`. -/
def multiPassEff (eff c : Float) (p : Nat) : Float :=
  if c != 1.0 then
    let r := Float.pow ((1.0 - eff * c) / (1.0 - eff)) p.toFloat
    (r - 1.0) / (r - c)
  else p.toFloat * eff / (1.0 + eff * (p.toFloat - 1.0))

/-- `MultiPassNTU`. -/
def multiPassNTU (effp c : Float) (p : Nat) : Float :=
  if c != 1.0 then
    let r := Float.pow ((1.0 - effp * c) / (1.0 - effp)) (1.0 / p.toFloat)
    (r - 1.0) / (r - c)
  else effp / (p.toFloat - effp * (p.toFloat - 1.0))

/-- `HX_Eff` for the arrangements with a closed form (single pass value, then multi-pass). -/
def hxEff (a : Arr) (ntu c : Float) (p : Nat) : Option Float :=
  let n := ntu / p.toFloat
  let single : Option Float :=
    if n > 0.0 && c >= 0.0 then
      match a with
      | .CF => some (if c != 1.0 && c * Float.exp (-n * (1.0 - c)) != 1.0 then effCF floatOps n c else effCF1 floatOps n)
      | .PF => some (effPF floatOps n c)
      | .CrFMUmax => some (if c == 0.0 then effCond floatOps n else effCmax floatOps n c)
      | .CrFMUmin => some (if c == 0.0 then effCond floatOps n else effCmin floatOps n c)
      | .ShellTube => some (effShell floatOps n c)
      | .CondEvap => some (effCond floatOps n)
      | _ => none
    else some 0.0
  single.map fun e => if p > 1 then multiPassEff e c p else e

/-- `HX_NTU` for the arrangements with a closed-form inverse. -/
def hxNTU (a : Arr) (eff c : Float) (p : Nat) : Option Float :=
  let e := if p > 1 then multiPassNTU eff c p else eff
  let single : Option Float :=
    if e > 0.0 && e < 1.0 then
      match a with
      | .CF => some (if c != 1.0 then ntuCF floatOps e c else ntuCF1 floatOps e)
      | .PF => some (ntuPF floatOps e c)
      | .CrFMUmax => some (if c == 0.0 then ntuCond floatOps e else ntuCmax floatOps e c)
      | .CrFMUmin => some (if c == 0.0 then ntuCond floatOps e else ntuCmin floatOps e c)
      | .ShellTube => some (ntuShell floatOps e c)
      | .CondEvap => some (ntuCond floatOps e)
      | _ => none
    else some 0.0
  single.map (· * p.toFloat)

end OP.HX
