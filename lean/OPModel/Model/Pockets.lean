/-
  Model of `get_GCC_without_pockets`, `_remove_pockets_on_one_side_of_the_pinch`,
  `_pocket_exit_index` and `get_seperated_gcc_heat_load_profiles`
  (`OpenPinch/analysis/gcc_manipulation.py`, after the `fix:` commit that advances the sweep's
  own pinch row).  Code-shaped: explicit row indices, the exit-index search, the flatten range,
  the jump `i += n_added·sgn`, and the Python loop bound `range(i, pinch_loc, sgn)` as fuel.
-/
import OPModel.Model.Table
import OPModel.Model.Pinch
import OPModel.Model.Process

namespace OP

/-- Numeric cell of row `i` (Python index, no wrap-around is ever used by the sweep). -/
def cellAt (rows : List Row) (c : Nat) (i : Int) : Except Err Rat :=
  if i < 0 then .error .indexError
  else match rows[i.toNat]? with
    | some r => match r.get c with
      | some v => .ok v
      | none => .error .valueError
    | none => .error .indexError

/-- `_pocket_exit_index`. -/
def pocketExit (tol : Rat) (rows : List Row) (cH : Nat) (i0 pinch : Int) (above : Bool) : Except Err Int := do
  let h0 ← cellAt rows cH i0
  let n := (if above then pinch - i0 else i0 - pinch).toNat
  let rec go : Nat → Nat → Except Err Int
    | 0, _ => .ok pinch
    | fuel + 1, k => do
      let j : Int := if above then i0 + (k : Int) else i0 - (k : Int)
      let hj ← cellAt rows cH j
      if hj + tol ≤ h0 then .ok (if above then j - 1 else j + 1) else go fuel (k + 1)
  go n 1

/-- Set `H_np` of rows `lo .. hi` (inclusive) to `v`. -/
def flatten (rows : List Row) (cNP : Nat) (lo hi : Int) (v : Rat) : List Row :=
  (rows.zipIdx).map fun (r, k) => if lo ≤ (k : Int) ∧ (k : Int) ≤ hi then r.put cNP (some v) else r

structure Sweep where
  rows  : List Row
  hotP  : Int
  coldP : Int
  deriving Repr

/-- Insert the temperature at which the pocket that starts at `i0` closes between rows `e` and
    `e + sgn` (unless the pocket runs to the pinch). -/
def closeInsert (cfg : TblCfg) (tol : Rat) (cH : Nat) (above : Bool) (rows : List Row) (i0 e pinch : Int) :
    Except Err (List Row × Nat) :=
  if e ≠ pinch then do
    let sgn : Int := if above then 1 else -1
    let h0 ← cellAt rows cH i0
    let he ← cellAt rows cH e
    let he1 ← cellAt rows cH (e + sgn)
    let te ← cellAt rows cfg.tI e
    let te1 ← cellAt rows cfg.tI (e + sgn)
    let t0 ← linearInterpolation h0 he he1 te te1
    insertTemps cfg tol rows [t0]
  else pure (rows, 0)

/-- Rows after handling a pocket that starts at `i0` and exits at `e`: insert the closing
    temperature, then flatten. Returns the rows and the number of rows added. -/
def pocketRows (cfg : TblCfg) (tol : Rat) (cH cNP : Nat) (above : Bool) (rows : List Row) (i0 e pinch : Int) :
    Except Err (List Row × Nat) := do
  let r ← closeInsert cfg tol cH above rows i0 e pinch
  let i0' : Int := if above then i0 else i0 + (r.2 : Int)
  let h0 ← cellAt r.1 cH i0'
  -- below the pinch the exit row itself is flattened when no closing row was inserted
  let lo : Int := if r.2 = 0 ∧ e ≠ pinch then e else e + 1
  pure (if above then flatten r.1 cNP (i0' + 1) e h0 else flatten r.1 cNP lo (i0' - 1) h0, r.2)

/-- The pocket branch of one iteration. -/
def pocketStep (cfg : TblCfg) (tol : Rat) (cH cNP : Nat) (above : Bool) (st : Sweep) (i pinch : Int) :
    Except Err (Sweep × Int × Int) := do
  let e ← pocketExit tol st.rows cH i pinch above
  let r ← pocketRows cfg tol cH cNP above st.rows i e pinch
  let nI : Int := r.2
  pure (if above then { rows := r.1, hotP := st.hotP + nI, coldP := st.coldP + nI }
        else { rows := r.1, hotP := st.hotP, coldP := st.coldP },
        e + nI * (if above then 1 else -1), if above then pinch + nI else pinch)

/-- One iteration of the sweep: new state, new `i`, new (advanced) `pinch_loc`. -/
def sweepStep (cfg : TblCfg) (tol : Rat) (cH cNP : Nat) (above : Bool) (st : Sweep) (i pinch : Int) :
    Except Err (Sweep × Int × Int) := do
  let hi ← cellAt st.rows cH i
  let hn ← cellAt st.rows cH (i + (if above then 1 else -1))
  if hi < hn - tol then pocketStep cfg tol cH cNP above st i pinch
  else pure (st, i + (if above then 1 else -1), pinch)

/-- The `for _ in range(i, pinch_loc, sgn)` loop (fuel = the Python loop bound). -/
def sweepLoop (cfg : TblCfg) (tol : Rat) (cH cNP : Nat) (above : Bool) :
    Nat → Sweep → Int → Int → Except Err Sweep
  | 0, st, _, _ => .ok st
  | fuel + 1, st, i, pinch => do
    let r ← sweepStep cfg tol cH cNP above st i pinch
    if (r.2.2 - r.2.1) * (if above then 1 else -1) ≤ 0 then .ok r.1
    else sweepLoop cfg tol cH cNP above fuel r.1 r.2.1 r.2.2

/-- `_remove_pockets_on_one_side_of_the_pinch`. -/
def removePocketsSide (cfg : TblCfg) (tol : Rat) (cH cNP : Nat) (above : Bool) (st : Sweep) : Except Err Sweep := do
  let i : Int := if above then 0 else (st.rows.length : Int) - 1
  let pinch := if above then st.hotP else st.coldP
  let hi ← cellAt st.rows cH i
  if hi < tol then pure st
  else sweepLoop cfg tol cH cNP above (if above then pinch - i else i - pinch).toNat st i pinch

/-- `get_GCC_without_pockets`. -/
def gccWithoutPockets (cfg : TblCfg) (tol : Rat) (cH cNP : Nat) (rows : List Row) : Except Err (List Row) := do
  let rows0 := rows.map fun r => r.put cNP (r.get cH)
  let hs ← rows0.mapM fun r => match r.get cH with | some v => Except.ok v | none => Except.error Err.valueError
  let p := pinchIdx tol hs
  if !p.valid then .ok rows0
  else
    let rows1 := flatten rows0 cNP (p.rowH + 1) (p.rowC - 1) 0
    let s1 ← removePocketsSide cfg tol cH cNP true { rows := rows1, hotP := p.rowH, coldP := p.rowC }
    let s2 ← removePocketsSide cfg tol cH cNP false s1
    .ok s2.rows

/-! ### the specification: running minima towards the pinch -/

def runMinFrom : Rat → List Rat → List Rat
  | _, [] => []
  | m, h :: t => min m h :: runMinFrom (min m h) t

/-- running minimum of a column read from its first entry on -/
def runMin : List Rat → List Rat
  | [] => []
  | h :: t => h :: runMinFrom h t

/-- What `H_net_np` should be on a table whose closing temperatures are rows: above the hot pinch the
    running minimum from the top, zero between the pinches, below the cold pinch the running minimum
    from the bottom; the curve itself when no pinch is reported. -/
def npSpec (tol : Rat) (H : List Rat) : List Rat :=
  let p := pinchIdx tol H
  if !p.valid then H
  else runMin (H.take (p.rowH.toNat + 1)) ++ List.replicate (p.rowC.toNat - p.rowH.toNat - 1) 0
    ++ ((runMin (H.drop p.rowC.toNat).reverse).reverse).drop (if p.rowC = p.rowH then 1 else 0)

/-- every two values of the column are equal or at least `tol` apart, and no value lies strictly
    between 0 and `tol`: then the sweep's tolerance tests are exact comparisons -/
def tolClean (tol : Rat) (H : List Rat) : Bool :=
  H.all fun a => (a = 0 || decide (tol ≤ rabs a)) && H.all fun b => a = b || decide (tol ≤ rabs (a - b))

/-- `get_seperated_gcc_heat_load_profiles(H, is_process_stream=True)`: (H_hot_net, H_cold_net). -/
def loadProfiles (tol : Rat) (H : List Rat) : List Rat × List Rat :=
  let d := 0 :: deltaVals tol H
  let hotP := (cumsum (d.map fun x => if x ≤ 0 then -x else 0)).map (fun x => -x)
  let coldC := cumsum (d.map fun x => if x ≤ 0 then 0 else -x)
  let hutMax := match coldC.getLast? with | some v => -v | none => 0
  (hotP, coldC.map (· + hutMax))

end OP
