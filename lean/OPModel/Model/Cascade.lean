/-
  Model of `OpenPinch/analysis/problem_table_analysis.py`:
  `create_problem_table_with_t_int` (grid), `_sum_mcp_between_temperature_boundaries`
  (activity window and CP sums), `problem_table_algorithm` (vectorised cascade),
  `get_heat_recovery_target_from_pt`, `set_zonal_targets`, and
  `delta_with_zero_at_start` / `delta_vals` of `utils/miscellaneous.py`.
  Numpy vectors are lists; rows run from the hottest temperature down.
-/
import OPModel.Model.Basic
import OPModel.Model.Stream

namespace OP

/-- A stream on one temperature scale: bounds, heat-capacity flow rate, resistance × CP. -/
structure Seg where
  lo  : Rat
  hi  : Rat
  cp  : Rat
  rcp : Rat := 0
  deriving Repr, DecidableEq, Inhabited

/-- What `problem_table_algorithm` reads from a `Stream` on the chosen scale. -/
def Stream.toSeg (s : Stream) (shifted : Bool) : Option Seg :=
  match (if shifted then s.tminS else s.tmin), (if shifted then s.tmaxS else s.tmax), s.cp, s.rcp with
  | some lo, some hi, some cp, some rcp => some { lo := lo, hi := hi, cp := cp, rcp := rcp }
  | _, _, _, _ => none

/-! ### grid -/

/-- Insert into a strictly descending list, dropping exact duplicates (`sorted(set(...), reverse=True)`). -/
def insertDesc (x : Rat) : List Rat → List Rat
  | [] => [x]
  | y :: ys => if y < x then x :: y :: ys else if x = y then y :: ys else y :: insertDesc x ys

/-- `create_problem_table_with_t_int`: round to `dp` decimals, de-duplicate, sort descending. -/
def gridOf (dp : Nat) (temps : List Rat) : List Rat :=
  (temps.map (roundDp dp)).foldr insertDesc []

/-! ### interval sums -/

/-- The activity test of `_sum_mcp_between_temperature_boundaries` for the interval `(l, u)`;
    `w = 10·tol`. -/
def active (w : Rat) (s : Seg) (l u : Rat) : Bool :=
  decide (l + w < s.hi) && decide (s.lo < u - w)

def cpSum (w : Rat) (ss : List Seg) (l u : Rat) : Rat :=
  (ss.map fun s => if active w s l u then s.cp else 0).sum

def rcpSum (w : Rat) (ss : List Seg) (l u : Rat) : Rat :=
  (ss.map fun s => if active w s l u then s.rcp else 0).sum

/-- Consecutive (upper, lower) temperature pairs. -/
def cells : List Rat → List (Rat × Rat)
  | u :: l :: rest => (u, l) :: cells (l :: rest)
  | _ => []

/-- `delta_vals`: differences with `|d| ≤ tol` flushed to zero. -/
def deltaVals (tol : Rat) (T : List Rat) : List Rat :=
  (cells T).map fun (u, l) => let d := u - l; if rabs d ≤ tol then 0 else d

/-- `np.cumsum`. -/
def cumsumFrom (acc : Rat) : List Rat → List Rat
  | [] => []
  | x :: xs => (acc + x) :: cumsumFrom (acc + x) xs

def cumsum (xs : List Rat) : List Rat := cumsumFrom 0 xs

/-- Minimum of a non-empty list (`ndarray.min`). -/
def listMin : List Rat → Option Rat
  | [] => none
  | x :: xs => some (xs.foldl min x)

def listMax : List Rat → Option Rat
  | [] => none
  | x :: xs => some (xs.foldl max x)

/-- The columns written by `problem_table_algorithm`. -/
structure PT where
  T      : List Rat
  dT     : List Rat
  cpHot  : List Rat
  dHHot  : List Rat
  hHot   : List Rat
  cpCold : List Rat
  dHCold : List Rat
  hCold  : List Rat
  cpNet  : List Rat
  dHNet  : List Rat
  hNet   : List Rat
  rcpHot : List Rat
  rcpCold : List Rat
  deriving Repr

/-- `problem_table_algorithm(pt, hot, cold, is_shifted)` on a table that holds the column `T`. -/
def problemTable (tol w : Rat) (T : List Rat) (hot cold : List Seg) : Except Err PT :=
  let cs := cells T
  let cpHot := 0 :: cs.map (fun (u, l) => cpSum w hot l u)
  let cpCold := 0 :: cs.map (fun (u, l) => cpSum w cold l u)
  let rcpHot := 0 :: cs.map (fun (u, l) => rcpSum w hot l u)
  let rcpCold := 0 :: cs.map (fun (u, l) => rcpSum w cold l u)
  let dT := 0 :: deltaVals tol T
  let dHHot := List.zipWith (· * ·) dT cpHot
  let cumHot := cumsum dHHot
  let dHCold := List.zipWith (· * ·) dT cpCold
  let cumCold := cumsum dHCold
  let cpNet := List.zipWith (· - ·) cpCold cpHot
  let dHNet := List.zipWith (· * ·) dT cpNet
  let hNet0 := (cumsum dHNet).map (fun x => -x)
  match T, listMin hNet0, hNet0.getLast?, cumHot.getLast?, cumCold.getLast? with
  | _ :: _, some minH, some lastNet, some lastHot, some lastCold =>
    let shift := lastNet - minH
    .ok { T := T, dT := dT, cpHot := cpHot, dHHot := dHHot, cpCold := cpCold, dHCold := dHCold,
          cpNet := cpNet, dHNet := dHNet, rcpHot := rcpHot, rcpCold := rcpCold,
          hHot := cumHot.map (fun x => lastHot - x),
          hCold := cumCold.map (fun x => lastCold + shift - x),
          hNet := hNet0.map (fun x => x - minH) }
  | _, _, _, _, _ => .error .indexError

/-- `set_zonal_targets` / `get_heat_recovery_target_from_pt`: (Qh, Qc, Qr). -/
structure Targets where
  qh : Rat
  qc : Rat
  qr : Rat
  deriving Repr, DecidableEq

def PT.targets (pt : PT) : Except Err Targets :=
  match pt.hNet.head?, pt.hNet.getLast?, pt.hHot.head? with
  | some a, some b, some c => .ok { qh := a, qc := b, qr := c - b }
  | _, _, _ => .error .indexError

/-- Direct-integration targets of a stream set on a given grid. -/
def directTargets (tol w : Rat) (T : List Rat) (hot cold : List Seg) : Except Err Targets :=
  (problemTable tol w T hot cold).bind PT.targets

end OP

namespace OP

/-! ### executable form of the grid hypothesis of the C01/C05 theorems -/

def cellOKb (w : Rat) (ss : List Seg) (l u : Rat) : Bool :=
  decide (w < u - l) && ss.all fun s =>
    (decide (s.lo ≤ l) || decide (u ≤ s.lo)) && (decide (s.hi ≤ l) || decide (u ≤ s.hi)) && decide (s.lo ≤ s.hi)

def chainOKb (w : Rat) (ss : List Seg) : Rat → List Rat → Bool
  | _, [] => true
  | u, l :: rest => cellOKb w ss l u && chainOKb w ss l rest

def inRangeb (ss : List Seg) (bot top : Rat) : Bool :=
  ss.all fun s => decide (s.lo ≤ s.hi) && decide (s.hi ≤ top) && decide (bot ≤ s.lo)

/-- Does the grid meet the hypotheses (`ChainOK`, `InRange`) of `di_targets_exact`? -/
def gridOKb (w : Rat) (T : List Rat) (hot cold : List Seg) : Bool :=
  match T with
  | [] => false
  | t0 :: rest =>
    chainOKb w (cold ++ hot) t0 rest && inRangeb (cold ++ hot) ((t0 :: rest).getLast (List.cons_ne_nil _ _)) t0

end OP
