/-
  Model of the site-level bookkeeping of `OpenPinch/analysis/indirect_integration_entry.py`:
  `_sum_subzone_targets` (zone sums), `_get_site_utility_heat_cascade` with the total-site
  Qh/Qc read-out (`H_net_ut` first/last row), the heat-recovery formula, and
  `_match_utility_gen_and_use_at_same_level`.
-/
import OPModel.Model.Cascade

namespace OP

/-- `_sum_subzone_targets`: value-wise sum of the zones' direct-integration targets. -/
def sumTargets (ts : List Targets) : Targets :=
  ts.foldl (fun a t => { qh := a.qh + t.qh, qc := a.qc + t.qc, qr := a.qr + t.qr }) { qh := 0, qc := 0, qr := 0 }

/-- Per-utility sums over zones (utility `j` of every zone is the same utility). -/
def sumDuties : List (List Rat) → List Rat
  | [] => []
  | d :: ds => ds.foldl (fun acc x => List.zipWith (· + ·) acc x) d

/-- `_get_site_utility_heat_cascade`: the column `H_net_ut = max(H_net) − H_net` of the cascade of
    {hot utilities as hot streams, cold utilities as cold streams}. -/
def siteUtilityColumn (tol w : Rat) (T : List Rat) (hotU coldU : List Seg) : Except Err (List Rat) := do
  let pt ← problemTable tol w T hotU coldU
  match listMax pt.hNet with
  | some m => pure (pt.hNet.map fun h => m - h)
  | none => Except.error Err.indexError

/-- Total-site targets: Qh, Qc from the ends of `H_net_ut`; Qr = ΣQr_z + (ΣQh_z − Qh_TS). -/
def siteTargets (tol w : Rat) (T : List Rat) (hotU coldU : List Seg) (tz : Targets) : Except Err Targets := do
  let ut ← siteUtilityColumn tol w T hotU coldU
  match ut.head?, ut.getLast? with
  | some a, some b => pure { qh := a, qc := b, qr := tz.qr + (tz.qh - a) }
  | _, _ => Except.error Err.indexError

/-- `_match_utility_gen_and_use_at_same_level` on one hot/cold pair at the same level. -/
def matchPair (qh qc : Rat) : Rat × Rat :=
  let q := min qh qc
  (qh - q, qc - q)

end OP
