/-
  Model of the one piece of state the service threads between calls: the accumulator of
  `get_output_graph_data(zone, graph_sets=…)`.  A Python default-argument value is a cell owned by
  the function object; when it is a mutable container and the function mutates it, the cell
  carries state from one call to the next.  `mutableDefault` says which of the two the code has
  (regenerated from the live function objects: `Gen.mutableDefaults`).
  A problem is abstracted to the keys of its target records (`<zone>/<target type>`).
-/
import OPModel.Model.Basic

namespace OP

structure PyWorld where
  graphDefault : List String := []
  deriving Repr, DecidableEq

/-- `graph_sets[key] = …` for each key, on an insertion-ordered dict -/
def mergeKeys (acc new : List String) : List String :=
  new.foldl (fun a k => if a.contains k then a else a ++ [k]) acc

/-- one service call: the graph-set keys of the returned result, and the world afterwards -/
def serviceCall (mutableDefault : Bool) (w : PyWorld) (keys : List String) : PyWorld × List String :=
  if mutableDefault then
    let acc := mergeKeys w.graphDefault keys
    ({ graphDefault := acc }, acc)
  else (w, mergeKeys [] keys)

def runHistory (md : Bool) : PyWorld → List (List String) → List (List String)
  | _, [] => []
  | w, k :: rest => let r := serviceCall md w k; r.2 :: runHistory md r.1 rest

def finalWorld (md : Bool) : PyWorld → List (List String) → PyWorld
  | w, [] => w
  | w, k :: rest => finalWorld md (serviceCall md w k).1 rest

end OP
