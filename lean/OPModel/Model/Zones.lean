/-
  Model of the zone-tree construction without a user tree
  (`_validate_zone_tree_structure`, second half, after the label pre-pass fix;
  `_get_process_streams_in_each_subzone`; `Zone.import_hot_and_cold_streams_from_sub_zones`).

  The nested `children` dictionaries of the code are flattened to the list of node paths below
  the root (the root is the empty path); a dictionary lookup `name in current["children"]` is
  membership of `path ++ [name]`.  Labels arrive already split into components and in the code's
  processing order (sorted by `(zone, name)`); the split and the sort are glue done by the harness.
-/
import OPModel.Model.Basic

namespace OP

abbrev ZPath := List String

def oName (n : Nat) : String := "O" ++ Nat.repr n

def addNode (paths : List ZPath) (q : ZPath) : List ZPath :=
  if paths.contains q then paths else paths ++ [q]

/-- the non-empty prefixes of a label, shortest first — the nodes visited by the `for z_name in z_path` walk -/
def prefixesOf (p : ZPath) : List ZPath := (List.range p.length).map fun k => p.take (k + 1)

def addLabel (paths : List ZPath) (l : ZPath) : List ZPath := (prefixesOf l).foldl addNode paths

/-- first loop: every zone named by a label exists before any unit-operation leaf is generated -/
def prePass (labels : List ZPath) : List ZPath := labels.foldl addLabel []

/-- `while subzone_name in current["children"]: zone_counters[zone_key] += 1`; `fuel` bounds the loop. -/
def freshO (paths : List ZPath) (comps : ZPath) : Nat → Nat → Option Nat
  | 0, _ => none
  | fuel + 1, c => if paths.contains (comps ++ [oName c]) then freshO paths comps fuel (c + 1) else some c

structure ZBuild where
  paths : List ZPath := []
  counters : List (ZPath × Nat) := []
  zones : List ZPath := []          -- zone given to each stream, in processing order
  deriving Repr

def counterOf (cs : List (ZPath × Nat)) (k : ZPath) : Nat :=
  match cs.find? (fun e => e.1 == k) with
  | some e => e.2
  | none => 0

def setCounter (cs : List (ZPath × Nat)) (k : ZPath) (v : Nat) : List (ZPath × Nat) :=
  (k, v) :: cs.filter (fun e => !(e.1 == k))

/-- second loop body: one stream with label `comps` gets the leaf `comps/O<n>` -/
def placeStream (st : ZBuild) (comps : ZPath) : Except Err ZBuild :=
  match freshO st.paths comps (st.paths.length + 1) (counterOf st.counters comps + 1) with
  | none => .error .badOp          -- never taken: `freshO_some`
  | some c =>
    .ok { paths := st.paths ++ [comps ++ [oName c]],
          counters := setCounter st.counters comps c,
          zones := st.zones ++ [comps ++ [oName c]] }

def placeAll : List ZPath → ZBuild → Except Err ZBuild
  | [], st => .ok st
  | l :: rest, st =>
    match placeStream st l with
    | .ok st' => placeAll rest st'
    | .error e => .error e

def buildZones (labels : List ZPath) : Except Err ZBuild :=
  placeAll labels { paths := prePass labels }

/-! ### placing the streams and collecting them upwards -/

def isPre (z q : ZPath) : Bool := z.isPrefixOf q

/-- child zones of `z` -/
def kidsOf (paths : List ZPath) (z : ZPath) : List ZPath :=
  paths.filter fun q => q.length == z.length + 1 && isPre z q

/-- streams (by index) whose rewritten zone is exactly `z` -/
def direct (zones : List ZPath) (z : ZPath) : List Nat :=
  (List.range zones.length).filter fun i => zones[i]! == z

/-- streams held by zone `z` after `import_hot_and_cold_streams_from_sub_zones`: a zone with
    sub-zones rebuilds its collections from them, a leaf keeps what was placed in it. -/
def content (paths zones : List ZPath) : Nat → ZPath → List Nat
  | 0, _ => []
  | fuel + 1, z =>
    let ks := kidsOf paths z
    if ks.isEmpty then direct zones z else ks.flatMap (content paths zones fuel)

end OP

namespace OP

/-! ### with a user zone tree (`_rewrite_stream_zones_from_tree`, after fix 3f9e38c)

  The tree is the list of its node paths from the root (`path_to_node.keys()`); `none` as a zone
  means the label named no node and was left as it was (the stream is then placed nowhere). -/

/-- resolution of a label: the full path, the path below the root, or the only path ending with it -/
def resolveLabel (paths : List ZPath) (root : String) (comps : ZPath) : Option ZPath :=
  if paths.contains comps then some comps
  else if paths.contains (root :: comps) then some (root :: comps)
  else
    match paths.filter (fun p => decide (comps.length ≤ p.length) && comps.isSuffixOf p) with
    | [p] => some p
    | _ => none

def hasKids (paths : List ZPath) (z : ZPath) : Bool := !(kidsOf paths z).isEmpty

/-- `base`, `base_2`, `base_3`, … -/
def childName (base : String) (counter : Nat) : String :=
  if counter = 1 then base else base ++ "_" ++ Nat.repr counter

/-- `while process_name in sibling_names or process_name == node.name: counter += 1; …` -/
def freshChild (paths : List ZPath) (node : ZPath) (nodeName base : String) : Nat → Nat → Option String
  | 0, _ => none
  | fuel + 1, c =>
    if paths.contains (node ++ [childName base c]) || childName base c == nodeName
    then freshChild paths node nodeName base fuel (c + 1) else some (childName base c)

structure TBuild where
  paths : List ZPath
  zones : List (Option ZPath) := []
  deriving Repr

/-- one stream: label components and stream name -/
def rewriteOne (root : String) (st : TBuild) (comps : ZPath) (sname : String) : Except Err TBuild :=
  if comps.isEmpty then .ok { st with zones := st.zones ++ [none] }
  else
    match resolveLabel st.paths root comps with
    | none => .ok { st with zones := st.zones ++ [none] }
    | some r =>
      if decide (1 < r.length) && !hasKids st.paths r then .ok { st with zones := st.zones ++ [some r] }
      else
        let nodeName := r.getLast?.getD ""
        let base := if sname = "" then nodeName ++ "_Process" else sname
        match freshChild st.paths r nodeName base (st.paths.length + 2) 1 with
        | none => .error .badOp          -- never taken: `freshChild_some`
        | some nm => .ok { paths := st.paths ++ [r ++ [nm]], zones := st.zones ++ [some (r ++ [nm])] }

def rewriteAll (root : String) : List (ZPath × String) → TBuild → Except Err TBuild
  | [], st => .ok st
  | (c, n) :: rest, st =>
    match rewriteOne root st c n with
    | .ok st' => rewriteAll root rest st'
    | .error e => .error e

end OP
