/-
  Model of `OpenPinch/classes/stream_collection.py` (class `StreamCollection`).
  Members are objects with identity (`Obj.id`), a name and the attributes the
  sort keys read.  `_streams` is a Python dict: insertion ordered, assignment
  to an existing key replaces the value in place.  The lazy sort cache and its
  dirty flag are part of the state.
-/
import OPModel.Model.Basic

namespace OP

structure Obj where
  id   : Nat
  name : String
  ts   : Rat
  tt   : Rat
  deriving Repr, DecidableEq, Inhabited

/-- The sort keys the library uses: `t_supply`, `t_target`, `["t_target","t_supply"]`, `["t_supply","t_target"]`. -/
inductive SortKey where
  | ts | tt | ttTs | tsTt
  deriving Repr, DecidableEq, Inhabited

/-- `key a ≤ key b` for the selected key (tuples compare lexicographically). -/
def SortKey.le (k : SortKey) (a b : Obj) : Bool :=
  match k with
  | .ts => decide (a.ts ≤ b.ts)
  | .tt => decide (a.tt ≤ b.tt)
  | .ttTs => decide (a.tt < b.tt) || (decide (a.tt = b.tt) && decide (a.ts ≤ b.ts))
  | .tsTt => decide (a.ts < b.ts) || (decide (a.ts = b.ts) && decide (a.tt ≤ b.tt))

/-- `sorted(values, key=…, reverse=rev)`: stable; with `reverse=True` ties keep their original order too. -/
def sortObjs (k : SortKey) (rev : Bool) (xs : List Obj) : List Obj :=
  if rev then xs.mergeSort (fun a b => k.le b a) else xs.mergeSort (fun a b => k.le a b)

structure Coll where
  entries : List (String × Obj) := []
  key     : SortKey := .ts
  rev     : Bool := true
  cache   : List Obj := []
  dirty   : Bool := true
  deriving Repr, Inhabited

namespace Coll

def keys (c : Coll) : List String := c.entries.map (·.1)
def values (c : Coll) : List Obj := c.entries.map (·.2)
def hasKey (c : Coll) (k : String) : Bool := c.keys.contains k

/-- `d[k] = v` on an insertion-ordered dict. -/
def dictSet : List (String × Obj) → String → Obj → List (String × Obj)
  | [], k, v => [(k, v)]
  | (k', v') :: rest, k, v => if k' = k then (k, v) :: rest else (k', v') :: dictSet rest k v

/-- The `while prevent_overwrite and key in self._streams` loop; `fuel` bounds the counter. -/
def freshKey (ks : List String) (orig : String) : Nat → Nat → Option String
  | 0, _ => none
  | fuel + 1, counter =>
    let cand := orig ++ "_" ++ Nat.repr counter
    if ks.contains cand then freshKey ks orig fuel (counter + 1) else some cand

/-- `add(stream, key, prevent_overwrite)`. -/
def add (c : Coll) (o : Obj) (key : Option String) (prevent : Bool) : Except Err Coll :=
  let k0 := key.getD o.name
  if prevent && c.hasKey k0 then
    match freshKey c.keys k0 (c.entries.length + 1) 1 with
    | some k => .ok { c with entries := c.entries ++ [(k, o)], dirty := true }
    | none => .error .badOp
  else .ok { c with entries := dictSet c.entries k0 o, dirty := true }

/-- `add_many(streams, keys=None, prevent_overwrite)`. -/
def addMany (c : Coll) (os : List Obj) (prevent : Bool) : Except Err Coll :=
  os.foldlM (fun c o => c.add o none prevent) c

/-- `remove(name)`. -/
def remove (c : Coll) (k : String) : Except Err Coll :=
  if c.hasKey k then .ok { c with entries := c.entries.filter (·.1 ≠ k), dirty := true }
  else .error .keyError

/-- `replace(stream_dict)`: rebuilt keyed by `stream.name`. -/
def replace (c : Coll) (os : List Obj) : Coll :=
  { c with entries := os.foldl (fun d o => dictSet d o.name o) [], dirty := true }

def setSortKey (c : Coll) (k : SortKey) (rev : Bool) : Coll :=
  { c with key := k, rev := rev, dirty := true }

/-- `_ensure_sorted`. -/
def ensureSorted (c : Coll) : Coll :=
  if c.dirty then { c with cache := sortObjs c.key c.rev c.values, dirty := false } else c

/-- `__iter__`: returns the new state (cache filled) and the iteration order. -/
def iter (c : Coll) : Coll × List Obj :=
  let c' := c.ensureSorted
  (c', c'.cache)

def len (c : Coll) : Nat := c.entries.length

/-- `get_index(stream)`; `s == stream` is identity for `Stream` (no `__eq__`). -/
def getIndex (c : Coll) (o : Obj) : Coll × Except Err Nat :=
  let c' := c.ensureSorted
  match c'.cache.findIdx? (fun x => x.id = o.id) with
  | some i => (c', .ok i)
  | none => (c', .error .valueError)

/-- `__getitem__(int)` with Python negative indexing. -/
def getItemInt (c : Coll) (i : Int) : Coll × Except Err Obj :=
  let c' := c.ensureSorted
  let n : Int := c'.cache.length
  let j := if i < 0 then i + n else i
  if 0 ≤ j ∧ j < n then
    match c'.cache[j.toNat]? with
    | some o => (c', .ok o)
    | none => (c', .error .indexError)
  else (c', .error .indexError)

def getItemStr (c : Coll) (k : String) : Except Err Obj :=
  match c.entries.find? (·.1 = k) with
  | some (_, o) => .ok o
  | none => .error .keyError

/-- `__add__`: a fresh collection (default sort key) holding every member of both, renamed on clash. -/
def concat (a b : Coll) : Except Err Coll := do
  let c ← ({} : Coll).addMany a.values true
  c.addMany b.values true

/-- The operations of a history on one collection (C19's quantifier). -/
inductive COp where
  | add (o : Obj) (key : Option String) (prevent : Bool)
  | addMany (os : List Obj) (prevent : Bool)
  | remove (k : String)
  | replace (os : List Obj)
  | setSortKey (k : SortKey) (rev : Bool)
  | iter
  | getIndex (o : Obj)
  | getItem (i : Int)
  deriving Repr

/-- State after one operation; an operation that raises leaves the collection as it was. -/
def applyOp (c : Coll) : COp → Coll
  | .add o key p => match c.add o key p with | .ok c' => c' | .error _ => c
  | .addMany os p => match c.addMany os p with | .ok c' => c' | .error _ => c
  | .remove k => match c.remove k with | .ok c' => c' | .error _ => c
  | .replace os => c.replace os
  | .setSortKey k r => c.setSortKey k r
  | .iter => c.iter.1
  | .getIndex o => (c.getIndex o).1
  | .getItem i => (c.getItemInt i).1

end Coll
end OP
