/-
  Model of `ProblemTable.pinch_idx` / `pinch_temperatures`
  (`OpenPinch/classes/problem_table.py`).  Rows are integers because the code
  produces `n - 1` and `0` even for the empty column.
-/
import OPModel.Model.Basic

namespace OP

/-- `np.abs(h) < tol`. -/
def isZero (tol x : Rat) : Bool := decide (rabs x < tol)

/-- `np.flatnonzero(mask)[0]`. -/
def firstIdx (p : Rat → Bool) (xs : List Rat) : Option Nat := xs.findIdx? p

/-- `np.flatnonzero(mask)[-1]`. -/
def lastIdx (p : Rat → Bool) (xs : List Rat) : Option Nat :=
  (firstIdx p xs.reverse).map fun i => xs.length - 1 - i

structure PinchLoc where
  rowH  : Int
  rowC  : Int
  valid : Bool
  deriving Repr, DecidableEq

/-- `row_h` in the branch `has_zero and not all_zero`. -/
def hotRow (tol : Rat) (h : List Rat) : Int :=
  let n : Int := h.length
  match firstIdx (isZero tol) h with
  | some 0 => (match firstIdx (fun x => !(isZero tol x)) h with | some j => (j : Int) - 1 | none => n - 1)
  | some (f + 1) => ((f + 1 : Nat) : Int)
  | none => n - 1

/-- `row_c` in the branch `has_zero and not all_zero`. -/
def coldRow (tol : Rat) (h : List Rat) : Int :=
  let n : Int := h.length
  match lastIdx (isZero tol) h with
  | some l =>
    if (l : Int) < n - 1 then (l : Int)
    else (match firstIdx (fun x => !(isZero tol x)) h.reverse with | some k => n - (k : Int) | none => 0)
  | none => 0

/-- `pinch_idx`: hot and cold pinch rows and the validity flag. -/
def pinchIdx (tol : Rat) (h : List Rat) : PinchLoc :=
  let n : Int := h.length
  if h.any (isZero tol) && !(h.all (isZero tol)) then
    { rowH := hotRow tol h, rowC := coldRow tol h, valid := decide (hotRow tol h ≤ coldRow tol h) }
  else
    { rowH := n - 1, rowC := 0, valid := decide (n - 1 ≤ 0) }

/-- Python indexing `T[i]` with negative indices; `none` is `IndexError`. -/
def pyIndex (xs : List Rat) (i : Int) : Option Rat :=
  let n : Int := xs.length
  let j := if i < 0 then i + n else i
  if 0 ≤ j ∧ j < n then xs[j.toNat]? else none

/-- `pinch_temperatures`: `(T[row_h], T[row_c])` when valid, `(None, None)` otherwise. -/
def pinchTemperatures (tol : Rat) (T h : List Rat) : Except Err (Option (Rat × Rat)) :=
  let p := pinchIdx tol h
  if p.valid then
    match pyIndex T p.rowH, pyIndex T p.rowC with
    | some a, some b => .ok (some (a, b))
    | _, _ => .error .indexError
  else .ok none

end OP
