import OPModel.Model.Sheet
namespace OP.Drive
open OP OP.Sheet

def hexVal (c : Char) : Option Nat :=
  if '0' ≤ c ∧ c ≤ '9' then some (c.toNat - '0'.toNat)
  else if 'a' ≤ c ∧ c ≤ 'f' then some (c.toNat - 'a'.toNat + 10) else none

def decHex : List Char → Option (List Char)
  | [] => some []
  | a :: b :: c :: d :: rest =>
    match hexVal a, hexVal b, hexVal c, hexVal d, decHex rest with
    | some a, some b, some c, some d, some r => some (Char.ofNat (a * 4096 + b * 256 + c * 16 + d) :: r)
    | _, _, _, _, _ => none
  | _ => none

def hexDigit (n : Nat) : Char := if n < 10 then Char.ofNat (n + '0'.toNat) else Char.ofNat (n - 10 + 'a'.toNat)

def encHex (s : List Char) : String :=
  if s.isEmpty then "-" else
  String.ofList (s.flatMap fun c => let n := c.toNat; [hexDigit (n / 4096 % 16), hexDigit (n / 256 % 16), hexDigit (n / 16 % 16), hexDigit (n % 16)])

/-- `sheets <hex label>…` → `ok <hex name>…` (labels / names as 4-hex-digit code points, `-` = empty). -/
def sheets (args : List String) : String :=
  match args.mapM (fun a => if a = "-" then some [] else decHex a.toList) with
  | some labels =>
    -- per-label errors are reported in place, as the harness does
    let rec go (ls : List Str) (used : List Str) : List String :=
      match ls with
      | [] => []
      | l :: rest =>
        match uniqueName l used with
        | .ok (n, used') => encHex n :: go rest used'
        | .error e => s!"err {e.tag}" :: go rest used
    "ok " ++ " ".intercalate (go labels [])
  | none => "bad-op"

/-- `wrapper load i m | load i f k | load i p | target | …` → results joined by ` ; `. -/
def wrapper (args : List String) : String :=
  let ops := splitGroups args
  let load (acc : Wrapper × List String) (i : String) (src : Option Src) : Wrapper × List String :=
    match i.toNat?, src with
    | some i, some s => ((wstep acc.1 (.load i s)).1, acc.2 ++ ["ok"])
    | _, _ => (acc.1, acc.2 ++ ["bad-op"])
  let (_, outs) := ops.foldl (fun (acc : Wrapper × List String) g =>
    match g with
    | ["load", i, "m"] => load acc i (some .model)
    | ["load", i, "p"] => load acc i (some .pair)
    | ["load", i, "f", k] => load acc i (k.toNat?.map .file)
    | ["target"] =>
      let (w', r) := wstep acc.1 .target
      (w', acc.2 ++ [match r with
        | some (k, some n) => s!"result {k} {n}"
        | some (k, none) => s!"result {k} U"
        | none => "err RuntimeError"])
    | _ => (acc.1, acc.2 ++ ["bad-op"])) (({} : Wrapper), [])
  " ; ".intercalate outs

end OP.Drive
