import OPModel.Model.Cascade
import OPModel.Gen.Constants
namespace OP.Drive
open OP

def showCol (name : String) (xs : List Rat) : String := name ++ "=" ++ ",".intercalate (xs.map showRat)

def PT.show (pt : PT) : String :=
  " ".intercalate [showCol "T" pt.T, showCol "dT" pt.dT, showCol "cpHot" pt.cpHot, showCol "dHHot" pt.dHHot,
    showCol "hHot" pt.hHot, showCol "cpCold" pt.cpCold, showCol "dHCold" pt.dHCold, showCol "hCold" pt.hCold,
    showCol "cpNet" pt.cpNet, showCol "dHNet" pt.dHNet, showCol "hNet" pt.hNet,
    showCol "rcpHot" pt.rcpHot, showCol "rcpCold" pt.rcpCold]

/-- Build a `Stream` through the C19 model (constructor only) from `ts tt q dt htc`. -/
def mkStream (ts : List String) : Option Stream :=
  match ts.mapM parseRat? with
  | some [a, b, q, dt, htc] =>
    match Stream.new Gen.isoOffset (some a) (some b) dt q htc 0 with
    | (s, none) => some s
    | _ => none
  | _ => none

structure CascIn where
  shifted : Bool
  hot : List Stream := []
  cold : List Stream := []
  extra : List Rat := []

def parseCasc (args : List String) : Option CascIn :=
  match splitGroups args with
  | [sh] :: groups =>
    groups.foldlM (fun (acc : CascIn) g =>
      match g with
      | "H" :: rest => (mkStream rest).map fun s => { acc with hot := acc.hot ++ [s] }
      | "C" :: rest => (mkStream rest).map fun s => { acc with cold := acc.cold ++ [s] }
      | "X" :: rest => (parseRats? rest).map fun xs => { acc with extra := acc.extra ++ xs }
      | _ => none) { shifted := sh = "1" }
  | _ => none

/-- Grid temperatures contributed by the streams themselves on the chosen scale. -/
def streamTemps (shifted : Bool) (ss : List Stream) : Option (List Rat) :=
  ss.foldlM (fun acc s =>
    match (if shifted then s.tminS else s.tmin), (if shifted then s.tmaxS else s.tmax) with
    | some a, some b => some (acc ++ [a, b])
    | _, _ => none) []

/-- `cascade <shifted> | H ts tt q dt htc | C … | X extra grid temperatures`
    → every column of the problem table and the targets. -/
def cascade (args : List String) : String :=
  match parseCasc args with
  | none => "bad-op"
  | some inp =>
    match streamTemps inp.shifted (inp.hot ++ inp.cold), inp.hot.mapM (·.toSeg inp.shifted), inp.cold.mapM (·.toSeg inp.shifted) with
    | some ts, some hot, some cold =>
      let T := gridOf Gen.gridDp (ts ++ inp.extra)
      match problemTable Gen.tol (Gen.activityFactor * Gen.tol) T hot cold with
      | .ok pt =>
        match pt.targets with
        | .ok t =>
          let g := if gridOKb (Gen.activityFactor * Gen.tol) T hot cold then "1" else "0"
          s!"ok gok={g} qh={showRat t.qh} qc={showRat t.qc} qr={showRat t.qr} {PT.show pt}"
        | .error e => s!"err {e.tag}"
      | .error e => s!"err {e.tag}"
    | _, _, _ => "err AttributeError"

end OP.Drive
