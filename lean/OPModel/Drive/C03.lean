import OPModel.Model.Utility
import OPModel.Gen.Constants
namespace OP.Drive
open OP

/-- `assign <hot|cold> <hot_row> <cold_row> | T… | H… | U ts tt | U ts tt …` → duties in list order. -/
def assign (args : List String) : String :=
  match splitGroups args with
  | [side, hr, cr] :: ts :: hs :: us =>
    match hr.toNat?, cr.toNat?, parseRats? ts, parseRats? hs,
      us.mapM (fun g => match g with
        | ["U", a, b] => match parseRat? a, parseRat? b with
          | some a, some b => some ({ ts := a, tt := b } : ULevel)
          | _, _ => none
        | _ => none) with
    | some hr, some cr, some T, some H, some us =>
      match targetUtility Gen.tol T H us hr cr (side = "hot") with
      | .ok ds => "ok " ++ showRats ds
      | .error e => s!"err {e.tag}"
    | _, _, _, _, _ => "bad-op"
  | _ => "bad-op"
end OP.Drive
