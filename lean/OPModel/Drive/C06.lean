import OPModel.Model.Pinch
import OPModel.Gen.Constants
namespace OP.Drive
open OP

/-- `pinch <h…>` → `rowH rowC valid`;  `pincht <T…> | <h…>` → temperatures. -/
def pinch (args : List String) : String :=
  match parseRats? args with
  | some h =>
    let p := pinchIdx Gen.tol h
    s!"{p.rowH} {p.rowC} {if p.valid then 1 else 0}"
  | none => "bad-op"

def pincht (args : List String) : String :=
  match splitGroups args with
  | [ts, hs] =>
    match parseRats? ts, parseRats? hs with
    | some T, some h =>
      match pinchTemperatures Gen.tol T h with
      | .ok (some (a, b)) => s!"{showRat a} {showRat b}"
      | .ok none => "none"
      | .error e => s!"err {e.tag}"
    | _, _ => "bad-op"
  | _ => "bad-op"
end OP.Drive
