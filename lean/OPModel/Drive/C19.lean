/- Line-protocol handlers for the stream and collection machines (C19). -/
import OPModel.Model.Stream
import OPModel.Model.Collection

namespace OP.Drive

open OP

/-- `stream <ts|none> <tt|none> <dt> <q> <htc> <price> | op | op …` → final observable state. -/
def stream (iso : Rat) (args : List String) : String :=
  match splitGroups args with
  | [tsS, ttS, dtS, qS, htcS, prS] :: ops =>
    let optR (s : String) : Option (Option Rat) := if s = "none" then some none else (parseRat? s).map some
    match optR tsS, optR ttS, parseRat? dtS, parseRat? qS, parseRat? htcS, parseRat? prS, ops.mapM Stream.parseOp? with
    | some ts, some tt, some dt, some q, some htc, some pr, some ops =>
      match Stream.new iso ts tt dt q htc pr with
      | (s, some e) => s!"err {e.tag} at 0 {s.show}"
      | (s, none) =>
        -- run and report the index of the failing op, if any
        let rec go (s : Stream) (i : Nat) : List Stream.Op → String
          | [] => s!"ok {s.show}"
          | op :: rest =>
            match Stream.step iso s op with
            | (s', none) => go s' (i + 1) rest
            | (s', some e) => s!"err {e.tag} at {i} {s'.show}"
        go s 1 ops
    | _, _, _, _, _, _, _ => "bad-op"
  | _ => "bad-op"

structure CState where
  objs  : List Obj := []
  colls : List (String × Coll) := []

def CState.getColl (st : CState) (n : String) : Coll :=
  match st.colls.find? (·.1 = n) with
  | some (_, c) => c
  | none => {}

def CState.setColl (st : CState) (n : String) (c : Coll) : CState :=
  if st.colls.any (·.1 = n) then { st with colls := st.colls.map fun p => if p.1 = n then (n, c) else p }
  else { st with colls := st.colls ++ [(n, c)] }

def CState.obj? (st : CState) (s : String) : Option Obj :=
  s.toNat?.bind fun i => st.objs.find? (·.id = i)

def parseObj? (s : String) : Option Obj :=
  match s.splitOn ":" with
  | [i, n, ts, tt] =>
    match i.toNat?, parseRat? ts, parseRat? tt with
    | some i, some ts, some tt => some { id := i, name := n, ts := ts, tt := tt }
    | _, _, _ => none
  | _ => none

def parseKey? : String → Option SortKey
  | "ts" => some .ts | "tt" => some .tt | "ttTs" => some .ttTs | "tsTt" => some .tsTt | _ => none

def showIds (os : List Obj) : String := "[" ++ ",".intercalate (os.map fun o => toString o.id) ++ "]"

def collStep (st : CState) : List String → CState × String
  | ["add", c, o, k, p] =>
    match st.obj? o with
    | some o =>
      match (st.getColl c).add o (if k = "-" then none else some k) (p = "1") with
      | .ok c' => (st.setColl c c', "ok")
      | .error e => (st, s!"err {e.tag}")
    | none => (st, "bad-op")
  | "addmany" :: c :: p :: ids =>
    match ids.mapM st.obj? with
    | some os =>
      match (st.getColl c).addMany os (p = "1") with
      | .ok c' => (st.setColl c c', "ok")
      | .error e => (st, s!"err {e.tag}")
    | none => (st, "bad-op")
  | ["remove", c, k] =>
    match (st.getColl c).remove k with
    | .ok c' => (st.setColl c c', "ok")
    | .error e => (st, s!"err {e.tag}")
  | "replace" :: c :: ids =>
    match ids.mapM st.obj? with
    | some os => (st.setColl c ((st.getColl c).replace os), "ok")
    | none => (st, "bad-op")
  | ["sortkey", c, k, r] =>
    match parseKey? k with
    | some k => (st.setColl c ((st.getColl c).setSortKey k (r = "1")), "ok")
    | none => (st, "bad-op")
  | ["iter", c] =>
    let (c', os) := (st.getColl c).iter
    (st.setColl c c', showIds os)
  | ["len", c] => (st, toString (st.getColl c).len)
  | ["keys", c] => (st, "[" ++ ",".intercalate (st.getColl c).keys ++ "]")
  | ["index", c, o] =>
    match st.obj? o with
    | some o =>
      let (c', r) := (st.getColl c).getIndex o
      (st.setColl c c', match r with | .ok i => toString i | .error e => s!"err {e.tag}")
    | none => (st, "bad-op")
  | ["geti", c, i] =>
    match i.toInt? with
    | some i =>
      let (c', r) := (st.getColl c).getItemInt i
      (st.setColl c c', match r with | .ok o => toString o.id | .error e => s!"err {e.tag}")
    | none => (st, "bad-op")
  | ["gets", c, k] =>
    (st, match (st.getColl c).getItemStr k with | .ok o => toString o.id | .error e => s!"err {e.tag}")
  | ["has", c, k] => (st, if (st.getColl c).hasKey k then "1" else "0")
  | ["concat", a, b, d] =>
    match Coll.concat (st.getColl a) (st.getColl b) with
    | .ok c => (st.setColl d c, "ok")
    | .error e => (st, s!"err {e.tag}")
  | _ => (st, "bad-op")

/-- `coll id:name:ts:tt … | op | op …` → one result per op, joined by `;`. -/
def coll (args : List String) : String :=
  match splitGroups args with
  | objs :: ops =>
    match objs.mapM parseObj? with
    | some os =>
      let (_, outs) := ops.foldl (fun (acc : CState × List String) op =>
        let (st', o) := collStep acc.1 op
        (st', acc.2 ++ [o])) ({ objs := os }, [])
      " ; ".intercalate outs
    | none => "bad-op"
  | _ => "bad-op"

end OP.Drive
