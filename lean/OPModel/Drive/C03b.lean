import OPModel.Model.Defaults
namespace OP.Drive
open OP

/-- `defaults <DT_CONT> <DT_PHASE_CHANGE> | hot t_min* … | cold t_max* … | U <Hot|Cold|Both> <active 0/1> ts tt|nan dt|nan | …`
    → `ok <HU_T_min> <CU_T_max> | hot cold active ts tt dt | …` (a group `hot -` / `cold -` stands for no stream). -/
def defaults (args : List String) : String :=
  match splitGroups args with
  | [dtc, dpc] :: ("hot" :: hs) :: ("cold" :: cs) :: us =>
    let strip (l : List String) := l.filter (· ≠ "-")
    match parseRat? dtc, parseRat? dpc, parseRats? (strip hs), parseRats? (strip cs),
      us.mapM (fun g => match g with
        | ["U", ty, act, a, b, d] =>
          match parseRat? a, parseOptRat? b, parseOptRat? d with
          | some a, some b, some d =>
            some (({ hot := ty = "Hot" || ty = "Both", cold := ty = "Cold" || ty = "Both", active := act = "1",
                     ts := a, tt := b, dt := d } : UIn), decide (ty = "Hot"))
          | _, _, _ => none
        | _ => none) with
    | some dtc, some dpc, some hs, some cs, some us =>
      let out := prepareUtilities dtc dpc hs cs us
      let b (x : Bool) := if x then "1" else "0"
      "ok " ++ showRat (huTmin cs) ++ " " ++ showRat (cuTmax hs) ++ " | " ++
        " | ".intercalate (out.map fun u => s!"{b u.hot} {b u.cold} {b u.active} {showRat u.ts} {showRat u.tt} {showRat u.dt}")
    | _, _, _, _, _ => "bad-op"
  | _ => "bad-op"
end OP.Drive
