import OPModel.Model.Pockets
import OPModel.Drive.C05
namespace OP.Drive
open OP

def colList (rows : List Row) (c : Nat) : String := ",".intercalate (rows.map fun r => showOptRat (r.get c))

/-- `pockets T… | H…` → `ok T=… H=… NP=… hot=… cold=…`. -/
def pockets (args : List String) : String :=
  match splitGroups args with
  | [ts, hs] =>
    match parseRats? ts, parseRats? hs with
    | some T, some H =>
      if T.length ≠ H.length then "bad-op" else
      let cfg := genCfg
      let cH := Gen.columns.idxOf Gen.col_H_NET
      let cNP := Gen.columns.idxOf Gen.col_H_NET_NP
      let rows : List Row := (T.zip H).map fun (t, h) =>
        (Row.put (Row.put (List.replicate cfg.nCols none) cfg.tI (some t)) cH (some h))
      match gccWithoutPockets cfg Gen.tol cH cNP rows with
      | .ok out =>
        let np := out.filterMap fun r => r.get cNP
        let hcol := out.filterMap fun r => r.get cH
        let (hot, cold) := loadProfiles Gen.tol np
        -- second layer: the code-shaped result against the tidy specification on the same rows
        let spec := if np == npSpec Gen.tol hcol then "1" else "0"
        let clean := if tolClean Gen.tol hcol then "1" else "0"
        s!"ok T={colList out cfg.tI} H={colList out cH} NP={colList out cNP} hot={",".intercalate (hot.map showRat)} cold={",".intercalate (cold.map showRat)} spec={spec} clean={clean}"
      | .error e => s!"err {e.tag}"
    | _, _ => "bad-op"
  | _ => "bad-op"
end OP.Drive
