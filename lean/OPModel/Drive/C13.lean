import OPModel.Model.Graphs
import OPModel.Gen.Constants
namespace OP.Drive
open OP

def locName (utility : Bool) : SegClass → String
  | .cold => if utility then "HotU" else "ColdS"
  | .hot => if utility then "ColdU" else "HotS"
  | .vert => "Unassigned"

/-- `slices <0|1 utility> | x…` → `ok start end | LOC vert j next_j ; …` -/
def slicesOp (args : List String) : String :=
  match splitGroups args with
  | [[u], xs] =>
    match parseRats? xs with
    | some x =>
      let (s, e, sl) := gccSlices Gen.tol Gen.gccVerticalTol x.toArray
      s!"ok {s} {e} | " ++ " ; ".intercalate (sl.map fun (c, a, b) =>
        s!"{locName (u == "1") c} {if c == SegClass.vert then 1 else 0} {a} {b}")
    | none => "bad-op"
  | _ => "bad-op"
end OP.Drive
