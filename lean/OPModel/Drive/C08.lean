import OPModel.Model.Table
import OPModel.Gen.Constants
namespace OP.Drive
open OP

/-- Column layout from the generated constants (live `ProblemTableLabel`, `INTERPOLATION_KEYS`,
    `HEAT_CAPACITY_PAIRS`). -/
def genCfg : TblCfg :=
  let idx := fun (s : String) => Gen.columns.idxOf s
  { nCols := Gen.columns.length, tI := idx Gen.colT, dI := idx Gen.colDT,
    interp := Gen.interpKeys.map idx, pairs := Gen.cpPairs.map fun (a, b) => (idx a, idx b) }

def showRow (r : Row) : String := ",".intercalate (r.map showOptRat)

/-- `insert <nrows> | col <idx> v… | … | req t… | req t…` → `ok c1 c2 … ; row ; row …`. -/
def insert (args : List String) : String :=
  match splitGroups args with
  | [ns] :: groups =>
    match ns.toNat? with
    | none => "bad-op"
    | some n =>
      let cfg := genCfg
      let empty : List Row := List.replicate n (List.replicate cfg.nCols none)
      let step := fun (acc : Option (List Row × List (List Rat))) (g : List String) =>
        acc.bind fun (rows, reqs) =>
          match g with
          | "col" :: ci :: vs =>
            match ci.toNat?, vs.mapM parseOptRat? with
            | some c, some cells =>
              if cells.length = n then some ((rows.zip cells).map (fun (r, v) => r.put c v), reqs) else none
            | _, _ => none
          | "req" :: vs => (parseRats? vs).map fun xs => (rows, reqs ++ [xs])
          | _ => none
      match groups.foldl step (some (empty, [])) with
      | none => "bad-op"
      | some (rows, reqs) =>
        match insertMany cfg Gen.tol rows reqs with
        | .ok (cs, final) => " ; ".intercalate (("ok " ++ " ".intercalate (cs.map toString)) :: final.map showRow)
        | .error e => s!"err {e.tag}"
  | _ => "bad-op"

end OP.Drive
