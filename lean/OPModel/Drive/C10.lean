import OPModel.Model.Zones
import OPModel.Drive.C16
namespace OP.Drive
open OP

/-- a path `c1/c2/…` with hex-encoded components (`.` = the empty path) -/
def decPath (a : String) : Option ZPath :=
  if a = "." then some []
  else (a.splitOn "/").mapM fun c => if c = "-" then some "" else (decHex c.toList).map String.ofList

def encPath (p : ZPath) : String :=
  if p.isEmpty then "." else "/".intercalate (p.map fun c => encHex c.toList)

/-- `zones <label>…` (labels in processing order) → `ok <zone of each stream>… | <tree paths>… | <streams of each tree path>` -/
def zonesOp (args : List String) : String :=
  match args.mapM decPath with
  | some labels =>
    match buildZones labels with
    | .ok st =>
      let fuel := (st.paths.map List.length).foldl max 0 + 2
      "ok " ++ " ".intercalate (st.zones.map encPath) ++ " | " ++ " ".intercalate (st.paths.map encPath)
        ++ " | " ++ " ".intercalate (([] :: st.paths).map fun z =>
            ",".intercalate ((content st.paths st.zones fuel z).map toString))
    | .error e => s!"err {e.tag}"
  | none => "bad-op"
end OP.Drive
