import OPModel.Model.Zones
import OPModel.Drive.C16
namespace OP.Drive
open OP

/-- a path `c1/c2/…` with hex-encoded components (`.` = the empty path) -/
def decPath (a : String) : Option ZPath :=
  if a = "." then some []
  else (a.splitOn "/").mapM fun c => if c = "-" then some "" else (decHex c.toList).map String.ofList

def encPath (p : ZPath) : String :=
  if p.isEmpty then "." else "/".intercalate (p.map fun c => encHex c.toList)

/-- `zones <label>…` (labels in processing order) → `ok <zone of each stream>… | <tree paths>… | <streams of each tree path>` -/
def zonesOp (args : List String) : String :=
  match args.mapM decPath with
  | some labels =>
    match buildZones labels with
    | .ok st =>
      let fuel := (st.paths.map List.length).foldl max 0 + 2
      "ok " ++ " ".intercalate (st.zones.map encPath) ++ " | " ++ " ".intercalate (st.paths.map encPath)
        ++ " | " ++ " ".intercalate (([] :: st.paths).map fun z =>
            ",".intercalate ((content st.paths st.zones fuel z).map toString))
    | .error e => s!"err {e.tag}"
  | none => "bad-op"
end OP.Drive

namespace OP.Drive
open OP

/-- `treezones <root hex> | <tree path>… | <label> <name hex> | …` →
    `ok <zone or ? per stream>… | <tree paths>… | <streams of each tree path>` -/
def treezonesOp (args : List String) : String :=
  match splitGroups args with
  | [r] :: ps :: streams =>
    let root? := if r = "-" then some "" else (decHex r.toList).map String.ofList
    match root?, ps.mapM decPath, streams.mapM (fun g => match g with
        | [l, n] => match decPath l, (if n = "-" then some "" else (decHex n.toList).map String.ofList) with
          | some l, some n => some (l, n)
          | _, _ => none
        | _ => none) with
    | some root, some paths, some ss =>
      match rewriteAll root ss { paths := paths } with
      | .ok st =>
        let zs := st.zones.map fun z => z.getD []
        let fuel := (st.paths.map List.length).foldl max 0 + 2
        "ok " ++ " ".intercalate (st.zones.map fun z => match z with | some p => encPath p | none => "?")
          ++ " | " ++ " ".intercalate (st.paths.map encPath)
          ++ " | " ++ " ".intercalate (st.paths.map fun z => ",".intercalate ((content st.paths zs fuel z).map toString))
      | .error e => s!"err {e.tag}"
    | _, _, _ => "bad-op"
  | _ => "bad-op"
end OP.Drive
