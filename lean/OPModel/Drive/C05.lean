import OPModel.Model.Process
import OPModel.Drive.C01
import OPModel.Drive.C08
namespace OP.Drive
open OP

def genPTCols : PTCols :=
  let idx := fun (s : String) => Gen.columns.idxOf s
  { t := idx Gen.col_T, dT := idx Gen.col_DELTA_T, cpHot := idx Gen.col_CP_HOT, dHHot := idx Gen.col_DELTA_H_HOT,
    hHot := idx Gen.col_H_HOT, cpCold := idx Gen.col_CP_COLD, dHCold := idx Gen.col_DELTA_H_COLD,
    hCold := idx Gen.col_H_COLD, cpNet := idx Gen.col_CP_NET, dHNet := idx Gen.col_DELTA_H_NET,
    hNet := idx Gen.col_H_NET, rcpHot := idx Gen.col_RCP_HOT, rcpCold := idx Gen.col_RCP_COLD }

/-- `pcascade <shifted> | H … | C …` → rows of `get_process_heat_cascade` on that scale; the real
    table uses the shifted table's heat recovery as `known_heat_recovery`, as the pipeline does. -/
def pcascade (args : List String) : String :=
  match parseCasc args with
  | none => "bad-op"
  | some inp =>
    let w := Gen.activityFactor * Gen.tol
    let run (shifted : Bool) (known : Option Rat) : Except Err (List Row) :=
      match streamTemps shifted (inp.hot ++ inp.cold), inp.hot.mapM (·.toSeg shifted), inp.cold.mapM (·.toSeg shifted) with
      | some ts, some hot, some cold =>
        processHeatCascade genCfg genPTCols Gen.tol w (gridOf Gen.gridDp (ts ++ inp.extra)) hot cold known
      | _, _, _ => .error .attributeError
    let res :=
      if inp.shifted then run true none
      else do
        let sh ← run true none
        -- heat recovery of the shifted table: H_hot[0] - H_net[-1]
        let hr ← match sh.head?, sh.getLast? with
          | some r0, some rl =>
            match r0.get genPTCols.hHot, rl.get genPTCols.hNet with
            | some a, some b => Except.ok (a - b)
            | _, _ => Except.error Err.indexError
          | _, _ => Except.error Err.indexError
        run false (some hr)
    match res with
    | .ok rows => " ; ".intercalate ("ok" :: rows.map showRow)
    | .error e => s!"err {e.tag}"

end OP.Drive
