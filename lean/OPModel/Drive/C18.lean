import OPModel.Model.HeatPump
namespace OP.Drive
open OP OP.HP

/-- `hpmetrics h0 h1 h2 h3 Q` → `ok w= qe= qc= Qe= W=` -/
def hpmetrics (args : List String) : String :=
  match parseRats? args with
  | some [h0, h1, h2, h3, q] =>
    let c : Cycle := ⟨h0, h1, h2, h3⟩
    if qCond c = 0 then "err ZeroDivisionError"
    else s!"ok w={showRat (wNet c)} qe={showRat (qEvap c)} qc={showRat (qCond c)} Qe={showRat (QEvap c q)} W={showRat (work c q)}"
  | _ => "bad-op"

/-- `hpstreams duty | h…` → `ok d…` -/
def hpstreams (args : List String) : String :=
  match splitGroups args with
  | [[d], hs] =>
    match parseRat? d, parseRats? hs with
    | some d, some hs => "ok " ++ showRats (streamDuties hs d)
    | _, _ => "bad-op"
  | _ => "bad-op"
end OP.Drive
