import OPModel.Model.Costing
import OPModel.Drive.C20
namespace OP.Drive
open OP OP.HX OP.Costing

/-- `cost <A> <N> <a> <b> <c> <i> <n>` → `ok crf=<bits> cc=<bits> ann=<bits>` -/
def cost (args : List String) : String :=
  match args.mapM parseDec? with
  | some [A, N, a, b, c, i, n] =>
    let f := ratToFloat
    let cc := capitalCost floatOps (f A) (f N) (f a) (f b) (f c)
    s!"ok crf={(crf floatOps (f i) (f n)).toBits} cc={cc.toBits} ann={(annualCost floatOps cc (f i) (f n)).toBits}"
  | _ => "bad-op"

/-- `lmtd <dT1> <dT2>` → `ok <bits>` (the two branches of compute_LMTD_from_dts) -/
def lmtdOp (args : List String) : String :=
  match args.mapM parseDec? with
  | some [a, b] =>
    let fa := ratToFloat a; let fb := ratToFloat b
    let eq := (fa - fb).abs ≤ 1e-6
    s!"ok {(if eq then lmtdEq floatOps fa fb else lmtd floatOps fa fb).toBits}"
  | _ => "bad-op"
end OP.Drive
