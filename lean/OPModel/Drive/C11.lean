import OPModel.Model.Purity
import OPModel.Gen.Constants
import OPModel.Drive.C16
namespace OP.Drive
open OP

def graphDefaultMutable : Bool :=
  Gen.mutableDefaults.contains "OpenPinch.analysis.graph_data.get_output_graph_data"

/-- `graphsets k,k,… k,k,…` (hex keys per call, `-` = none) → `ok <keys of call 1> <keys of call 2> …` -/
def graphsets (args : List String) : String :=
  let dec (a : String) : Option (List String) :=
    if a = "-" then some [] else (a.splitOn ",").mapM fun c => (decHex c.toList).map String.ofList
  match args.mapM dec with
  | some hist =>
    let outs := runHistory graphDefaultMutable {} hist
    "ok " ++ " ".intercalate (outs.map fun ks => if ks.isEmpty then "-" else ",".intercalate (ks.map fun k => encHex k.toList))
  | none => "bad-op"
end OP.Drive
