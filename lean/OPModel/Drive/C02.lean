import OPModel.Model.Site
import OPModel.Gen.Constants
namespace OP.Drive
open OP

/-- `site | T… | H lo hi duty | C lo hi duty …` → `ok qh=… qc=… ut=…`. -/
def site (args : List String) : String :=
  match splitGroups args with
  | ts :: groups =>
    let step := fun (acc : Option (List Seg × List Seg)) (g : List String) =>
      acc.bind fun (h, c) =>
        match g with
        | [k, lo, hi, d] =>
          match parseRat? lo, parseRat? hi, parseRat? d with
          | some lo, some hi, some d =>
            if hi - lo = 0 then none else
            let s : Seg := { lo := lo, hi := hi, cp := d / (hi - lo) }
            if k = "H" then some (h ++ [s], c) else if k = "C" then some (h, c ++ [s]) else none
          | _, _, _ => none
        | _ => none
    match parseRats? ts, groups.foldl step (some ([], [])) with
    | some T, some (h, c) =>
      match siteTargets Gen.tol (Gen.activityFactor * Gen.tol) T h c { qh := 0, qc := 0, qr := 0 },
            siteUtilityColumn Gen.tol (Gen.activityFactor * Gen.tol) T h c with
      | .ok t, .ok ut => s!"ok qh={showRat t.qh} qc={showRat t.qc} ut={",".intercalate (ut.map showRat)}"
      | .error e, _ => s!"err {e.tag}"
      | _, .error e => s!"err {e.tag}"
    | _, _ => "bad-op"
  | _ => "bad-op"
end OP.Drive
