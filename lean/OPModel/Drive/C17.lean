import OPModel.Model.Curves
import OPModel.Gen.Constants
namespace OP.Drive
open OP

/-- `clean T… | H…` → `ok y… | x…`. -/
def clean (args : List String) : String :=
  match splitGroups args with
  | [ts, hs] =>
    match parseRats? ts, parseRats? hs with
    | some T, some H =>
      match cleanCurve Gen.tol T H with
      | .ok pts => "ok " ++ showRats (pts.map (·.2)) ++ " | " ++ showRats (pts.map (·.1))
      | .error e => s!"err {e.tag}"
    | _, _ => "bad-op"
  | _ => "bad-op"

/-- `rdp eps | T h | T h …` → `ok idx…`. -/
def rdpOp (args : List String) : String :=
  match splitGroups args with
  | [e] :: pts =>
    match parseRat? e, pts.mapM (fun g => match g with
      | [a, b] => match parseRat? a, parseRat? b with
        | some a, some b => some ((a, b) : P2)
        | _, _ => none
      | _ => none) with
    | some eps, some ps => "ok " ++ " ".intercalate ((rdp ps.toArray eps).map toString)
    | _, _ => "bad-op"
  | _ => "bad-op"
end OP.Drive
