import OPModel.Model.HX
namespace OP.Drive
open OP OP.HX

def ratToFloat (r : Rat) : Float := Float.ofInt r.num / Float.ofNat r.den

def parseDec? (s : String) : Option Rat :=
  -- decimal literal as printed by Python's repr: [-]digits[.digits][e[+-]digits]
  let (mant, ex) := match s.splitOn "e" with
    | [m, e] => (m, e.toInt?.getD 0)
    | _ => (s, 0)
  let neg := mant.startsWith "-"
  let m := if neg then (mant.drop 1).toString else mant
  let r : Option Rat := match m.splitOn "." with
    | [a] => a.toNat?.map fun n => (n : Rat)
    | [a, b] => match (a ++ b).toNat? with
      | some n => some ((n : Rat) / ((10 ^ b.length : Nat) : Rat))
      | none => none
    | _ => none
  r.map fun x =>
    let y := if ex ≥ 0 then x * ((10 ^ ex.toNat : Nat) : Rat) else x / ((10 ^ (-ex).toNat : Nat) : Rat)
    if neg then -y else y

/-- `entu <ARR> <form> <N> <c> <P>` → `ok eff=… ntu=…` (label form does not matter after normalisation). -/
def entu (args : List String) : String :=
  match args with
  | [a, _form, n, c, p] =>
    match Arr.ofString? a, parseDec? n, parseDec? c, p.toNat? with
    | some a, some n, some c, some p =>
      match hxEff a (ratToFloat n) (ratToFloat c) p with
      | some e =>
        match hxNTU a e (ratToFloat c) p with
        | some t => s!"ok eff={e.toBits} ntu={t.toBits}"
        | none => s!"ok eff={e.toBits} ntu=numeric"
      | none => "ok-numeric"
    | _, _, _, _ => "bad-op"
  | _ => "bad-op"

end OP.Drive
