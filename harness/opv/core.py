"""Shared context for the per-property checks: counting, disagreement and
oracle-failure bookkeeping, known findings, evidence and replay files."""
from __future__ import annotations

import hashlib
import json
import os
import random
import sys
import time
from collections import Counter
from fractions import Fraction
from pathlib import Path

ROOT = Path(__file__).resolve().parents[2]          # /verif (or a snapshot of it)
REPO = Path(os.environ.get("OPENPINCH_REPO", "/repo"))
LEAN_DIR = ROOT / "lean"


class Infra(Exception):
    """Infrastructure problem (exit 2, never a VIOLATION)."""


def frac(x) -> Fraction:
    """Rational value of a Python/numpy float or int: the decimal number its shortest repr
    denotes (358.4 -> 1792/5), i.e. the number the user wrote, not the binary approximation."""
    if isinstance(x, (int, Fraction)):
        return Fraction(x)
    return Fraction(repr(float(x)))


def rs(x) -> str:
    """Rational token for the line protocol."""
    if x is None:
        return "nan"
    f = frac(x)
    return str(f.numerator) if f.denominator == 1 else f"{f.numerator}/{f.denominator}"


def parse_r(tok: str):
    if tok == "nan":
        return None
    if "/" in tok:
        n, d = tok.split("/")
        return Fraction(int(n), int(d))
    return Fraction(int(tok))


def close(a, b, atol=1e-9, rtol=1e-9) -> bool:
    """Numeric agreement between an exact model value and a float implementation value."""
    if a is None or b is None:
        return a is None and b is None
    a = float(a); b = float(b)
    if a != a or b != b:
        return (a != a) and (b != b)
    return abs(a - b) <= atol + rtol * max(abs(a), abs(b))


class Ctx:
    def __init__(self, prop: str, tier: str, seed: int):
        self.prop = prop
        self.tier = tier
        self.seed = seed
        self.rng = random.Random((seed * 1000003) ^ int(hashlib.sha1(prop.encode()).hexdigest()[:8], 16))
        self.t0 = time.time()
        self.evaluations = 0
        self.nontrivial: set[str] = set()
        self.samples: list = []
        self.dist: Counter = Counter()
        self.oracle_failures: list[dict] = []
        self.disagreements: list[dict] = []
        self.fragile_skipped = 0
        self.traces_validated = 0
        self.max_abs_err = 0.0
        self.notes: list[str] = []
        self.lean = None
        self.extra: dict = {}
        self.rule = ""
        self.assumptions: list[str] = []
        self.proof_search_done = False

    # -- sizing ---------------------------------------------------------
    def n(self, quick: int, thorough: int) -> int:
        return thorough if self.tier == "thorough" else quick

    # -- counting -------------------------------------------------------
    def count(self, case, nontrivial: bool, tags=()):
        self.evaluations += 1
        if nontrivial:
            self.nontrivial.add(hashlib.sha1(json.dumps(case, sort_keys=True, default=str).encode()).hexdigest())
        for t in tags:
            self.dist[t] += 1
        if len(self.samples) < 4 or (len(self.samples) < 8 and nontrivial and self.rng.random() < 0.02):
            self.samples.append(case)

    def oracle_fail(self, case, detail: str, cause: str | None = None, clause: str = ""):
        """The *implementation* violates the property on `case`."""
        self.oracle_failures.append({"case": case, "detail": detail, "cause": cause, "clause": clause})

    def disagree(self, case, impl, model, what: str = ""):
        """Model and implementation differ on `case` (correspondence broken)."""
        self.disagreements.append({"case": case, "impl": impl, "model": model, "what": what})

    def err(self, a, b):
        try:
            e = abs(float(a) - float(b))
            if e == e:
                self.max_abs_err = max(self.max_abs_err, e)
        except Exception:
            pass


def load_findings() -> list[dict]:
    p = ROOT / "known_findings.json"
    if not p.exists():
        return []
    return json.loads(p.read_text())["findings"]


def write_replay(ctx: Ctx, k: int, payload: dict) -> str:
    d = ROOT / "replays"
    d.mkdir(exist_ok=True)
    p = d / f"{ctx.prop}-{ctx.tier}-{ctx.seed}-{k}.json"
    p.write_text(json.dumps(payload, indent=1, default=str))
    return str(p)


def load_corpus(prop: str) -> list:
    """Minimised past failures (committed under corpus/<prop>/); always run first."""
    d = ROOT / "corpus" / prop
    out = []
    if d.is_dir():
        for f in sorted(d.glob("*.json")):
            out.append(json.loads(f.read_text()))
    return out
