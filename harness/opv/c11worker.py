"""C11 worker: runs one history of calls in a FRESH interpreter and reports, per call, a canonical dump of the result,
whether the caller's input object changed, and whether module-level state of the library changed.

    python c11worker.py <repo> <history.json>     →  one JSON document on stdout
history.json = {"problems": [dict, …], "ops": [[kind, i], …]}
kinds: svc_dict, svc_dict_of_models (dictionary holding validated records), svc_model (a new validated model per call), svc_same_model (one model object per problem, reused),
       pp (one PinchProblem wrapper reused for the whole history: load(model) + target()), pp_file (the same wrapper, load(P<i>.json) + target()).
"""
import copy
import json
import sys
import warnings


def canon(x):
    return json.dumps(x, sort_keys=True, default=str)


def module_state():
    """Mutable containers reachable at module level of the library: module globals, class attributes and the
    default argument values of functions (a mutable default is module-level state)."""
    import types
    snap = {}
    for name, mod in sorted(sys.modules.items()):
        if not (name == "OpenPinch" or name.startswith("OpenPinch.")) or mod is None:
            continue
        for k, v in sorted(vars(mod).items()):
            if k.startswith("__"):
                continue
            if isinstance(v, (dict, list, set)) and getattr(v, "__module__", None) is None:
                if k == "_function_stats":
                    continue          # timing instrumentation counters (only touched when timing is switched on)
                snap[f"{name}.{k}"] = repr(v)[:20000]
            if isinstance(v, types.FunctionType) and v.__module__ == name:
                for j, d in enumerate(v.__defaults__ or ()):
                    if isinstance(d, (dict, list, set)):
                        snap[f"{name}.{k}.__defaults__[{j}]"] = repr(sorted(d) if isinstance(d, (dict, set)) else d)[:20000]
                    elif hasattr(d, "__dict__") and not isinstance(d, (type, types.FunctionType)) and not isinstance(d, __import__("enum").Enum):
                        snap[f"{name}.{k}.__defaults__[{j}]"] = repr(sorted((a, repr(b)[:2000]) for a, b in vars(d).items()))[:20000]
                for kk, d in (v.__kwdefaults__ or {}).items():
                    if isinstance(d, (dict, list, set)):
                        snap[f"{name}.{k}.__kwdefaults__[{kk}]"] = repr(d)[:20000]
            if isinstance(v, type) and v.__module__ == name:
                for ck, cv in vars(v).items():
                    if isinstance(cv, (dict, list, set)) and not ck.startswith("__") and not ck.startswith("model_") and ck not in ("_abc_impl",):
                        snap[f"{name}.{k}.{ck}"] = repr(cv)[:20000]
    return snap


def main():
    repo, hist_path = sys.argv[1], sys.argv[2]
    sys.path.insert(0, repo)
    warnings.simplefilter("ignore")
    hist = json.load(open(hist_path))
    from OpenPinch.main import pinch_analysis_service
    from OpenPinch.lib.schema import TargetInput
    from OpenPinch.classes.pinch_problem import PinchProblem
    problems = hist["problems"]
    models = {}
    wrapper = None
    kept = []          # (result object, dump at the time)
    out = []
    for kind, i in hist["ops"]:
        rec = {"kind": kind, "i": i}
        before_state = module_state()
        try:
            if kind == "svc_dict":
                d = copy.deepcopy(problems[i]); d0 = canon(d)
                res = pinch_analysis_service(d, f"P{i}")
                rec["input_unchanged"] = canon(d) == d0
            elif kind == "svc_dict_of_models":
                # a dictionary whose lists already hold validated stream / utility records
                m = TargetInput.model_validate(copy.deepcopy(problems[i]))
                d = {"streams": list(m.streams), "utilities": list(m.utilities), "options": m.options}
                if m.zone_tree is not None:
                    d["zone_tree"] = m.zone_tree
                m0 = canon(m.model_dump(mode="json"))
                res = pinch_analysis_service(d, f"P{i}")
                m1 = canon(m.model_dump(mode="json"))
                rec["input_unchanged"] = m1 == m0
                if m1 != m0:
                    a, b = json.loads(m0), json.loads(m1)
                    rec["input_diff"] = sorted({k for k in a if a[k] != b.get(k)})
            elif kind in ("svc_model", "svc_same_model"):
                if kind == "svc_model":
                    m = TargetInput.model_validate(copy.deepcopy(problems[i]))
                else:
                    m = models.setdefault(i, TargetInput.model_validate(copy.deepcopy(problems[i])))
                m0 = canon(m.model_dump(mode="json"))
                res = pinch_analysis_service(m, f"P{i}")
                m1 = canon(m.model_dump(mode="json"))
                rec["input_unchanged"] = m1 == m0
                if m1 != m0:
                    a, b = json.loads(m0), json.loads(m1)
                    rec["input_diff"] = sorted({k for k in a if a[k] != b.get(k)})
            elif kind == "pp":
                if wrapper is None:
                    wrapper = PinchProblem()
                m = TargetInput.model_validate(copy.deepcopy(problems[i]))
                wrapper.load(m)
                # what the wrapper would name the project now, against a fresh wrapper given the same source
                fresh_pp = PinchProblem(); fresh_pp.load(m)
                rec["project_name"] = [getattr(wrapper, "_project_name", None), getattr(fresh_pp, "_project_name", None)]
                wrapper._project_name = f"P{i}"
                res = wrapper.target()
                rec["input_unchanged"] = True
            elif kind == "pp_file":
                # the same reused wrapper, loading from a JSON file whose stem is the project name
                import tempfile, pathlib
                if wrapper is None:
                    wrapper = PinchProblem()
                d = pathlib.Path(tempfile.mkdtemp(prefix="opv_c11_"))
                try:
                    fp = d / f"P{i}.json"
                    fp.write_text(json.dumps(problems[i]))
                    wrapper.load(fp)
                    res = wrapper.target()
                finally:
                    import shutil
                    shutil.rmtree(d, ignore_errors=True)
                rec["input_unchanged"] = True
            else:
                raise ValueError(kind)
            rec["dump"] = canon(res.model_dump(mode="json"))
            rec["graph_keys"] = sorted(g.name for g in res.graphs.values()) if isinstance(res.graphs, dict) else sorted(getattr(g, "name", str(g)) for g in res.graphs)
            kept.append((res, rec["dump"]))
        except Exception as e:  # noqa: BLE001
            rec["raised"] = f"{type(e).__name__}: {e}"[:300]
        after_state = module_state()
        rec["module_state_changed"] = sorted(k for k in set(before_state) | set(after_state) if before_state.get(k) != after_state.get(k))
        out.append(rec)
    # results returned earlier must not have been altered by later calls
    altered = [j for j, (res, d) in enumerate(kept) if canon(res.model_dump(mode="json")) != d]
    print(json.dumps({"ops": out, "earlier_results_altered": altered}))


if __name__ == "__main__":
    main()
