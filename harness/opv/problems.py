"""Shared machinery for the pipeline-level properties: seeded problem generator built from
the repo's own schema, service runner, zone-tree walker, and the exact rational cascade that
serves as the independent oracle of C01/C02/C05/C06 (written from the property text only)."""
from __future__ import annotations

import warnings
from fractions import Fraction as F

ISO = F(1, 100)          # "supply == target meaning a 0.01 K latent stream"


# --------------------------------------------------------------------------- generator

def _temp(rng, mode):
    if mode == "grid10":
        return float(rng.randrange(2, 40) * 10)
    if mode == "int":
        return float(rng.randrange(20, 400))
    return rng.randrange(200, 4000) / 10.0


def gen_streams(rng, n=None, mode=None, labels=None, iso_p=0.12, dts=None, hot_p=0.5, name_clash_p=0.0):
    mode = mode or rng.choice(["grid10", "grid10", "int", "dec1"])
    n = n or rng.randint(1, 10)
    labels = labels or ["A"]
    dts = dts or rng.choice([[0.0], [5.0], [10.0], [0.0, 2.5, 5.0, 10.0], [2.5, 7.5]])
    out = []
    for i in range(n):
        ts = _temp(rng, mode)
        if rng.random() < iso_p:
            tt = ts
        else:
            tt = _temp(rng, mode)
            while tt == ts:
                tt = _temp(rng, mode)
            hot = rng.random() < hot_p
            if hot != (ts > tt):
                ts, tt = tt, ts
        nm = f"S{i+1}" if rng.random() >= name_clash_p else "S1"
        q = float(rng.randrange(1, 90) * 100)
        if ts == tt and rng.random() < hot_p:
            q = -q                               # isothermal hot (condensing) stream
        out.append({
            "name": nm,
            "zone": rng.choice(labels),
            "t_supply": ts,
            "t_target": tt,
            "heat_flow": q,
            "dt_cont": rng.choice(dts),
            "htc": rng.choice([1.0, 1.0, 0.5, 2.0]),
        })
    return out


def gen_labels(rng):
    r = rng.random()
    if r < 0.35:
        return ["A"]
    if r < 0.65:
        return ["A", "B"]
    if r < 0.8:
        return ["A", "B", "C"]
    if r < 0.9:
        return ["A/X", "A/Y", "B"]
    return ["A/X", "B/X", "C"]


def gen_utilities(rng, streams, kind=None):
    """Utility sets: none (defaults only), isothermal / gliding levels inside and outside the process range."""
    kind = kind or rng.choice(["none", "none", "outside", "ladder", "ladder", "mixed"])
    if kind == "none":
        return []
    temps = [s["t_supply"] for s in streams] + [s["t_target"] for s in streams]
    lo, hi = min(temps), max(temps)
    dt = rng.choice([0.0, 5.0, 10.0])
    us = []

    mixed_dt = rng.random() < 0.25          # utilities with different contributions

    def util(name, typ, ts, glide):
        tt = ts if glide == 0 else (ts - glide if typ == "Hot" else ts + glide)
        return {"name": name, "type": typ, "t_supply": float(ts), "t_target": float(tt), "heat_flow": 0.0,
                "dt_cont": (rng.choice([0.0, 5.0, 10.0, 20.0]) if mixed_dt else dt), "htc": 1.0, "price": float(rng.choice([10, 40, 100]))}
    if kind in ("outside", "ladder", "mixed"):
        us.append(util("HPS", "Hot", hi + 40, rng.choice([0, 0, 10])))
        us.append(util("CW", "Cold", lo - 40, rng.choice([0, 0, 5])))
    if kind in ("ladder", "mixed"):
        for k in range(rng.randint(1, 3)):
            us.append(util(f"HU{k}", "Hot", rng.randrange(int(lo), int(hi) + 30), rng.choice([0, 0, 0, 10])))
        for k in range(rng.randint(1, 3)):
            us.append(util(f"CU{k}", "Cold", rng.randrange(int(lo) - 30, int(hi)), rng.choice([0, 0, 0, 5])))
    if kind == "mixed" and rng.random() < 0.5:
        us = [u for u in us if u["name"] not in ("HPS",)] if rng.random() < 0.5 else [u for u in us if u["name"] != "CW"]
    # distinct supply levels per side
    seen = set(); out = []
    for u in us:
        k = (u["type"], u["t_supply"])
        if k not in seen:
            seen.add(k); out.append(u)
    return out


def tree_from_labels(labels, root="Site"):
    """Explicit zone tree (ZoneTreeSchema dict) holding every label as a path of process zones."""
    node = {"name": root, "type": "Site", "children": []}
    for lab in labels:
        cur = node
        for part in label_parts(lab):
            nxt = next((c for c in cur["children"] if c["name"] == part), None)
            if nxt is None:
                nxt = {"name": part, "type": "Process Zone", "children": []}
                cur["children"].append(nxt)
            cur = nxt

    def clean(n):
        n["children"] = [clean(c) for c in n["children"]] or None
        return n
    return clean(node)


def gen_problem(rng, **kw):
    labels = kw.pop("labels", None) or gen_labels(rng)
    util_kind = kw.pop("util_kind", None)
    with_tree = kw.pop("with_tree", None)
    if with_tree is None:
        with_tree = rng.random() < 0.3
    if with_tree and "name_clash_p" not in kw:
        kw["name_clash_p"] = rng.choice([0.0, 0.3, 0.6])       # several streams of one zone may share a name
    streams = gen_streams(rng, labels=labels, **kw)
    pr = {"streams": streams, "utilities": gen_utilities(rng, streams, util_kind), "options": {}}
    if with_tree:
        pr["zone_tree"] = tree_from_labels(sorted({s["zone"] for s in streams}))
    return pr


# --------------------------------------------------------------------------- service

def run_service(problem, project="P"):
    """Call the real service in-process. Returns (output, master_zone) or raises."""
    from OpenPinch.main import pinch_analysis_service
    with warnings.catch_warnings():
        warnings.simplefilter("ignore")
        return pinch_analysis_service(problem, project, True)


def walk(zone, path=()):
    """(path tuple, zone) for every zone of the tree, root first."""
    p = path + (zone.name,)
    yield p, zone
    for z in zone.subzones.values():
        yield from walk(z, p)


def label_parts(label: str):
    if "/" in label:
        return [x.strip() for x in label.split("/") if x.strip()]
    return [label]


def streams_of_zone(problem, path):
    """Input streams labelled into the zone at `path` (root name first): the label's components
    are a prefix-extension of the zone's components below the root."""
    comps = list(path[1:])
    out = []
    for s in problem["streams"]:
        lp = label_parts(s["zone"])
        if lp[:len(comps)] == comps:
            out.append(s)
    return out


# --------------------------------------------------------------------------- exact oracle

def classify(s):
    """(hot?, lo, hi, cp, dt) on the real scale, as exact rationals; from the property text."""
    ts, tt, q, dt = F(s["t_supply"]), F(s["t_target"]), F(s["heat_flow"]), F(s["dt_cont"])
    if ts > tt:
        hot, lo, hi = True, tt, ts
    elif ts < tt:
        hot, lo, hi = False, ts, tt
    elif q >= 0:
        hot, lo, hi = False, ts, ts + ISO       # latent stream: 0.01 K wide, cold for q >= 0
    else:
        hot, lo, hi, q = True, ts - ISO, ts, -q  # condensing stream: the sign marks it hot, the duty is |q|
    return hot, lo, hi, q / (hi - lo), dt


class Exact:
    """Exact heat cascade of a stream set on the shifted (or real) scale."""

    def __init__(self, streams, shifted=True):
        self.segs = []
        for s in streams:
            hot, lo, hi, cp, dt = classify(s)
            sh = (-dt if hot else dt) if shifted else F(0)
            self.segs.append((hot, lo + sh, hi + sh, cp))
        self.tot_hot = sum((cp * (hi - lo) for hot, lo, hi, cp in self.segs if hot), F(0))
        self.tot_cold = sum((cp * (hi - lo) for hot, lo, hi, cp in self.segs if not hot), F(0))
        self.bps = sorted({t for _, lo, hi, _ in self.segs for t in (lo, hi)}, reverse=True)
        d = [self.deficit(t) for t in self.bps]
        self.Qh = max([F(0)] + d)
        self.Qc = self.Qh - self.tot_cold + self.tot_hot
        self.Qr = self.tot_hot - self.Qc

    @staticmethod
    def _above(lo, hi, cp, T):
        return cp * max(F(0), hi - max(lo, T))

    @staticmethod
    def _below(lo, hi, cp, T):
        return cp * max(F(0), min(hi, T) - lo)

    def deficit(self, T):
        """Net heat deficit above T: cold demand above T minus hot supply above T."""
        return sum((self._above(lo, hi, cp, T) * (-1 if hot else 1) for hot, lo, hi, cp in self.segs), F(0))

    def residual(self, T):
        """Heat flowing down through T in the minimum-utility cascade (the GCC)."""
        return self.Qh - self.deficit(T)

    def hot_below(self, T):
        return sum((self._below(lo, hi, cp, T) for hot, lo, hi, cp in self.segs if hot), F(0))

    def cold_below(self, T):
        return sum((self._below(lo, hi, cp, T) for hot, lo, hi, cp in self.segs if not hot), F(0))

    def pinches(self):
        """(hot pinch, cold pinch) per the property text, or None when the residual has no zero.
        Also returns 'allzero' flag."""
        if not self.bps:
            return None, False
        r = [self.residual(t) for t in self.bps]
        zeros = [i for i, v in enumerate(r) if v == 0]
        if not zeros:
            return None, False
        allzero = len(zeros) == len(r)
        # hot pinch
        if r[0] == 0:
            i = 0
            while i + 1 < len(r) and r[i + 1] == 0:
                i += 1
            hot = self.bps[i]
        else:
            hot = self.bps[zeros[0]]
        if r[-1] == 0:
            j = len(r) - 1
            while j - 1 >= 0 and r[j - 1] == 0:
                j -= 1
            cold = self.bps[j]
        else:
            cold = self.bps[zeros[-1]]
        return (hot, cold), allzero
