"""C17 — Curve simplification stays within its tolerance."""
from __future__ import annotations

import math

from ..core import Ctx, close, rs, parse_r, load_corpus, frac
from ..lean import run_driver

TOL = 1e-6


# --------------------------------------------------------------------------- generators

def gen_polyline(rng, big=False):
    """An (h, T) profile as OpenPinch passes it ([enthalpy, temperature] rows, supply end first): a hot stream runs
    down in h and T, a cold stream up.  Shapes: smooth curvature, kinks, isothermal plateaus (phase change), steps
    without enthalpy change, collinear runs, a repeated neighbouring point."""
    n = rng.choice([2, 3, 4, 5, 8, 12, 20, 40, 40] + ([120, 300, 500] if big else []))
    hot = rng.random() < 0.5
    sgn = -1.0 if hot else 1.0
    t = float(rng.randrange(20, 40) * 10)
    h = float(rng.randrange(0, 50) * 100)
    pts = [[h, t]]
    shape = rng.choice(["smooth", "smooth", "kinks", "plateaus", "steps", "collinear"])
    cp = rng.choice([0.5, 2.0, 4.0, 50.0, 2000.0])          # dh per K (kJ/kg or J/kg scale)
    for i in range(n - 1):
        r = rng.random()
        if shape == "collinear":
            dt, dh = 5.0, cp * 5.0
        elif shape == "plateaus" and r < 0.3:
            dt, dh = 0.0, cp * float(rng.randrange(10, 90))      # isothermal: h changes, T does not
        elif shape == "steps" and r < 0.2:
            dt, dh = float(rng.randrange(1, 5)), 0.0            # T changes at constant h
        else:
            dt = rng.choice([0.5, 1.0, 2.0, 5.0])
            cp = max(0.1, cp * (rng.choice([1.0, 1.0, 1.02, 0.97, 1.5, 0.6]) if shape != "smooth" else rng.choice([1.0, 1.01, 0.99, 1.03, 1.05])))
            dh = cp * dt
        t += sgn * dt; h += sgn * dh
        pts.append([round(h, 6), round(t, 6)])
    if rng.random() < 0.1:
        k = rng.randrange(len(pts))
        pts.insert(k, list(pts[k]))                              # repeated neighbouring point
    eps = rng.choice([0.1, 0.5, 1.0, 5.0, 0.01, 0.01] if n < 20 else [0.1, 0.01, 0.01, 0.001, 0.5])
    return {"kind": "rdp", "curve": pts, "eps": eps, "hot": hot, "shape": shape}


def gen_cc(rng):
    """(T, H) composite-curve columns with flat ends and redundant interior points."""
    n = rng.choice([2, 3, 4, 6, 9, 14])
    T = [float(rng.randrange(30, 45) * 10)]
    H = [float(rng.choice([0, 0, 500, 7000]))]
    shape = rng.choice(["generic", "flat_ends", "collinear", "drift", "tiny_extent", "allflat", "t_plateau", "t_plateau"])
    for i in range(n - 1):
        # isothermal parts (latent loads) are plateaus in T over H
        T.append(T[-1] - (rng.choice([10.0, 0.0, 0.0, 5.0]) if shape == "t_plateau" else rng.choice([10.0, 20.0, 5.0])))
        if shape == "allflat":
            dh = 0.0
        elif shape == "tiny_extent":
            dh = rng.choice([0.0, 0.05, -0.05, 1e-7])
        elif shape == "collinear":
            dh = 10.0 * (T[-2] - T[-1])
        elif shape == "drift":
            dh = 10.0 * (T[-2] - T[-1]) + rng.choice([4e-7, 6e-7, 9e-7]) * (i + 1)
        elif shape == "t_plateau":
            dh = float(rng.choice([0, 100, 250, 1000]))
        else:
            dh = float(rng.choice([0, 0, 100, 250, 1000]))
        H.append(H[-1] + dh)
    if shape == "flat_ends":
        for i in range(rng.randint(1, max(1, n // 3))):
            H[i] = H[0]
        k = rng.randint(1, max(1, n // 3))
        for i in range(k):
            H[n - 1 - i] = H[n - 1 - k] if n - 1 - k >= 0 else H[-1]
    if shape == "collinear" and rng.random() < 0.5:
        # a small stream (enthalpy in MW): a straight run with gentle knees, each 1e-5 .. 1e-3 K off the chord of its
        # neighbours - far more than 1e-6 K, although deviation x chord width is tiny
        m = rng.choice([1e-4, 1e-5, 3e-4])
        H = [H[0] * 1e-3]
        for i in range(1, n):
            H.append(H[-1] + m * (T[i - 1] - T[i]))
        for i in range(1, n - 1):
            if rng.random() < 0.4:
                H[i] += m * rng.choice([1e-5, 1e-4, 1e-3]) * rng.choice([1, -1])
        shape = "gentle_knees_small_scale"
    if shape in ("generic", "flat_ends", "t_plateau") and rng.random() < 0.4:
        # the same curve with enthalpies in MW (or in W): the 1e-6 K criterion must not depend on the enthalpy scale
        k = rng.choice([1e-3, 1e-3, 1e-4, 1e3])
        H = [h * k for h in H]
        shape = shape + "_scaled"
    return {"kind": "clean", "T": T, "H": H, "shape": shape}


# --------------------------------------------------------------------------- implementation

def impl_rdp(case):
    import numpy as np
    from OpenPinch.utils.stream_linearisation import _rdp, get_piecewise_data_points
    out = {}
    try:
        out["rdp"] = [[float(a), float(b)] for a, b in _rdp(np.array(case["curve"], dtype=float), case["eps"])]
    except Exception as e:  # noqa: BLE001
        out["rdp"] = f"err {type(e).__name__}"
    if len(case["curve"]) > 150 and (len(case["curve"]) + int(case["curve"][0][0])) % 4:
        # the SLSQP refinement on hundreds of points takes minutes: run it on every fourth long curve only
        out["pw"] = out["rdp"] if isinstance(out["rdp"], str) else [list(p) for p in out["rdp"]]
        return out
    try:
        out["pw"] = [[float(a), float(b)] for a, b in get_piecewise_data_points(case["curve"], case["hot"], case["eps"])]
    except Exception as e:  # noqa: BLE001
        out["pw"] = f"err {type(e).__name__}"
    return out


def impl_clean(case):
    from OpenPinch.utils.miscellaneous import clean_composite_curve
    try:
        y, x = clean_composite_curve(list(case["T"]), list(case["H"]))
        return [float(v) for v in y], [float(v) for v in x]
    except Exception as e:  # noqa: BLE001
        return f"err {type(e).__name__}", None


# --------------------------------------------------------------------------- oracles

def perp(p, a, b):
    """Perpendicular distance of p from the line through a, b (distance to a if a == b)."""
    lx, ly = b[0] - a[0], b[1] - a[1]
    n = math.hypot(lx, ly)
    if n == 0:
        return math.hypot(p[0] - a[0], p[1] - a[1])
    return abs(lx * (p[1] - a[1]) - ly * (p[0] - a[0])) / n


def seg_dist(p, a, b):
    lx, ly = b[0] - a[0], b[1] - a[1]
    L = lx * lx + ly * ly
    t = 0.0 if L == 0 else max(0.0, min(1.0, ((p[0] - a[0]) * lx + (p[1] - a[1]) * ly) / L))
    return math.hypot(p[0] - a[0] - t * lx, p[1] - a[1] - t * ly)


def interp_T(poly, h):
    """T of a strictly h-monotone polyline at enthalpy h."""
    for (ha, ta), (hb, tb) in zip(poly, poly[1:]):
        if min(ha, hb) <= h <= max(ha, hb):
            return ta + (tb - ta) * (h - ha) / (hb - ha)
    return None


def rdp_oracle(case, res):
    """Clauses of the statement on `_rdp` (key rdp) and on `get_piecewise_data_points` (key pw)."""
    fails = []
    curve, eps, hot = case["curve"], case["eps"], case["hot"]
    sgn = -1.0 if hot else 1.0
    for key in ("rdp", "pw"):
        pts = res[key]
        if isinstance(pts, str):
            fails.append(("linearisation_total", f"{key}: {pts}", None)); continue
        refined = key == "pw" and not all(p in curve for p in pts)
        # the >10-breakpoint path hands the points to an SLSQP refinement that moves them
        cause_ref = "slsqp_refinement" if refined else None
        if pts[0] != curve[0] or pts[-1] != curve[-1]:
            fails.append(("keeps_end_points", f"{key}: ends {pts[0]}, {pts[-1]} vs {curve[0]}, {curve[-1]}", None))
        if not refined:
            it = iter(curve)
            if not all(any(p == q for q in it) for p in pts):
                fails.append(("original_order", f"{key}: not a subsequence of the original", None)); continue
            idx, j = [], 0
            for p in pts:
                while curve[j] != p:
                    j += 1
                idx.append(j); j += 1
            for (a, b) in zip(idx, idx[1:]):
                bad = [i for i in range(a + 1, b) if perp(curve[i], curve[a], curve[b]) > eps * (1 + 1e-9) + 1e-12]
                if bad:
                    i = bad[0]
                    fails.append(("within_deviation", f"{key}: point {i} {curve[i]} is {perp(curve[i], curve[a], curve[b])} from chord {curve[a]}-{curve[b]}, eps {eps}", None)); break
        else:
            if any((b[0] - a[0]) * sgn < -1e-9 or (b[1] - a[1]) * sgn < -1e-9 for a, b in zip(pts, pts[1:])):
                fails.append(("original_order", f"{key}: refined points run backwards in h or T", cause_ref))
        # every original point within eps of the simplified polyline
        worst = max((min(seg_dist(p, a, b) for a, b in zip(pts, pts[1:])), i) for i, p in enumerate(curve)) if len(pts) > 1 else (0.0, 0)
        if worst[0] > eps * (1 + 1e-6) + 1e-9:
            fails.append(("within_deviation", f"{key}: original point {worst[1]} {curve[worst[1]]} is {worst[0]} from the simplified polyline, eps {eps}", cause_ref))
        # one-sided bound of the piecewise linearisation (temperature at equal enthalpy)
        if key == "pw" and all((b[0] - a[0]) * sgn > 0 for a, b in zip(pts, pts[1:])) and all((b[0] - a[0]) * sgn > 0 for a, b in zip(curve, curve[1:])):
            d = [(interp_T(pts, h) - t, i) for i, (h, t) in enumerate(curve) if interp_T(pts, h) is not None]
            v, i = max(d) if hot else max((-x, i) for x, i in d)
            if v > eps / 10 * (1 + 1e-6) + 1e-9:
                cause = cause_ref or "one_sided_bound_unrefined"      # plain RDP output: the one-sided refinement never ran
                fails.append(("one_sided_bound", f"pw: simplified {'hot' if hot else 'cold'} profile is {v} K {'above' if hot else 'below'} the original at point {i} {curve[i]}; allowed {eps / 10}", cause))
    return fails


def locally_collinear(pairs, kept):
    """Every removed interior point lies within TOL (in T) of the chord of its two ORIGINAL neighbours — the only test
    clean_composite_curve applies, which lets a slowly bending run drift away point by point."""
    # exactly repeated points are removed first (fix bdc25b9): a lost corner behind a repeated point is NOT drift
    pairs = [p for i, p in enumerate(pairs) if i == 0 or p != pairs[i - 1]]
    for i in range(1, len(pairs) - 1):
        if pairs[i] in kept:
            continue
        (x1, y1), (x2, y2), (x3, y3) = pairs[i - 1], pairs[i], pairs[i + 1]
        if x1 == x3:
            if x1 != x2:
                return False
        elif abs(y2 - (y1 + (y3 - y1) * (x2 - x1) / (x3 - x1))) > TOL * 1.001:
            return False
    return True


def clean_fragile(case):
    """A threshold of clean_composite_curve is met exactly (in exact arithmetic): the variance of H equals TOL, an end
    distance equals TOL, or an interior point is exactly TOL off the chord of its neighbours. Floats decide such a tie
    either way (H = [7.0, 7.002]: variance exactly 1e-6), so model and implementation may legitimately differ."""
    from fractions import Fraction as Fr
    H = [Fr(repr(float(h))) for h in case["H"]]; T = [Fr(repr(float(t))) for t in case["T"]]
    tol, eps = Fr(repr(TOL)), Fr(1, 10**12)
    n = len(H)
    if n == 0:
        return False
    m = sum(H) / n
    var = sum((h - m) ** 2 for h in H) / n
    near = lambda v: abs(abs(v) - tol) <= eps
    if near(var) or any(near(h - H[0]) or near(h - H[-1]) or near(h) for h in H):
        return True
    for i in range(1, n - 1):
        x1, x2, x3, y1, y2, y3 = H[i - 1], H[i], H[i + 1], T[i - 1], T[i], T[i + 1]
        if x1 != x3 and near(y2 - (y1 + (y3 - y1) * (x2 - x1) / (x3 - x1))):
            return True
    return False


def clean_oracle(case, res):
    fails = []
    y, x = res
    T, H = case["T"], case["H"]
    if isinstance(y, str):
        fails.append(("clean_total", f"clean_composite_curve raised {y}", "isclose_relative_tolerance" if max(H) - min(H) <= 1e-5 * max(abs(h) for h in H) + 1e-6 else None))
        return fails
    if len(x) == 0:
        return fails
    pairs = list(zip(H, T))
    it = iter(pairs)
    if not all(any((a, b) == q for q in it) for a, b in zip(x, y)):
        fails.append(("kept_sublist", f"kept {list(zip(x, y))} not a subsequence of the curve", None))
        return fails
    # the kept polyline reproduces every original point between its ends (y over x, vertical parts by range)
    lo_i = next(i for i, p in enumerate(pairs) if p == (x[0], y[0]))
    hi_i = len(pairs) - 1 - next(i for i, p in enumerate(reversed(pairs)) if p == (x[-1], y[-1]))
    if abs(x[0] - H[0]) > TOL or abs(x[-1] - H[-1]) > TOL:
        fails.append(("keeps_first_last_nonflat", f"kept ends H={x[0]},{x[-1]} vs curve ends {H[0]},{H[-1]}", None))
    for i in range(lo_i, hi_i + 1):
        hx, ty = pairs[i]
        ok = False
        for (xa, ya), (xb, yb) in zip(zip(x, y), zip(x[1:], y[1:])):
            if min(xa, xb) - TOL <= hx <= max(xa, xb) + TOL:
                if abs(xb - xa) <= TOL:
                    ok = ok or (min(ya, yb) - TOL <= ty <= max(ya, yb) + TOL)
                else:
                    yi = ya + (yb - ya) * (hx - xa) / (xb - xa)
                    ok = ok or abs(yi - ty) <= TOL * 1.000001 + 1e-9 * abs(ty)
        if not ok and len(x) >= 2:
            fails.append(("deviation_le_tol", f"original point (H={hx}, T={ty}) is off the kept polyline {list(zip(x, y))}", "local_collinearity_drift" if locally_collinear(pairs[lo_i:hi_i + 1], list(zip(x, y))) else None))
            break
    return fails


# --------------------------------------------------------------------------- lines

def rdp_margin(case):
    """Smallest relative margin of any decision an exact RDP takes on this curve: distance-vs-eps tests and
    farthest-point ties.  Below ~1e-9 floats may decide differently from exact arithmetic."""
    from fractions import Fraction as Fr
    pts = [(Fr(repr(a)), Fr(repr(b))) for a, b in case["curve"]]
    eps2 = Fr(repr(case["eps"])) ** 2
    best = 1.0
    stack = [(0, len(pts) - 1)]
    while stack:
        s, e = stack.pop()
        if e <= s + 1:
            continue
        lx, ly = pts[e][0] - pts[s][0], pts[e][1] - pts[s][1]
        L2 = lx * lx + ly * ly
        if L2 == 0:
            continue
        ds = [abs(lx * (pts[i][1] - pts[s][1]) - ly * (pts[i][0] - pts[s][0])) for i in range(s + 1, e)]
        dmax = max(ds); idx = s + 1 + ds.index(dmax)
        # ties for the farthest point
        second = max([d for k, d in enumerate(ds) if s + 1 + k != idx] or [Fr(0)])
        if dmax > 0:
            best = min(best, float((dmax - second) / dmax) if second > 0 else 1.0)
            thr = eps2 * L2
            best = min(best, abs(float((dmax * dmax - thr) / (dmax * dmax if dmax * dmax > thr else (thr if thr > 0 else 1)))))
        if dmax * dmax > eps2 * L2:
            stack.append((s, idx)); stack.append((idx, e))
    return best


def rdp_line(case):
    return "rdp " + rs(case["eps"]) + " | " + " | ".join(f"{rs(a)} {rs(b)}" for a, b in case["curve"])


def clean_line(case):
    return "clean " + " ".join(rs(v) for v in case["T"]) + " | " + " ".join(rs(v) for v in case["H"])


def run(ctx: Ctx):
    ctx.rule = ("(a) _rdp and get_piecewise_data_points on random T-h polylines (2-40 points quick, up to 500 thorough; smooth, kinked, "
                "with isothermal plateaus, zero-enthalpy steps, collinear runs, repeated points; deviation 0.01-5; hot and cold): end "
                "points kept, original order, every original point within the deviation of the chord covering it; kept indices compared "
                "with the Lean model; (b) clean_composite_curve on random composite-curve columns (flat ends, collinear runs, tiny "
                "extents, slowly bending runs): kept points a subsequence, ends kept, every original point within 1e-6 of the kept "
                "polyline; compared with the Lean model. Non-trivial: at least one point removed and one interior point kept.")
    corpus = load_corpus("C17")
    rc = [c for c in corpus if c.get("kind") == "rdp"] + [gen_polyline(ctx.rng, ctx.tier == "thorough") for _ in range(ctx.n(500, 1500))]
    cc = [c for c in corpus if c.get("kind") == "clean"] + [gen_cc(ctx.rng) for _ in range(ctx.n(1500, 30000))]
    model = run_driver([rdp_line(c) for c in rc] + [clean_line(c) for c in cc]) if ctx.lean.driver_ok else None
    for i, c in enumerate(rc):
        res = impl_rdp(c)
        kept = res["rdp"] if isinstance(res["rdp"], list) else []
        ctx.count({"kind": "rdp", "n": len(c["curve"]), "eps": c["eps"], "head": c["curve"][:3]}, 2 < len(kept) < len(c["curve"]),
                  ["rdp", f"n<={10 * (1 + len(c['curve']) // 10)}", "shape_" + c.get("shape", "corpus"), "hot" if c["hot"] else "cold",
                   "pw_refined" if isinstance(res["pw"], list) and not all(p in c["curve"] for p in res["pw"]) else "pw_plain"])
        for clause, detail, cause in rdp_oracle(c, res):
            ctx.oracle_fail(c, detail, cause, clause)
        if model is not None and isinstance(res["rdp"], list):
            m = model[i]
            if not m.startswith("ok"):
                ctx.disagree(c, len(kept), m, "rdp model"); continue
            mi = [int(x) for x in m.split()[1:]]
            # indices of kept points in the implementation (first occurrence scan)
            idx, j = [], 0
            for p in kept:
                while c["curve"][j] != p:
                    j += 1
                idx.append(j); j += 1
            if mi != idx:
                # a tie between two equally distant points may be broken differently in floating point
                if len(mi) == len(idx) or rdp_margin(c) < 1e-9:
                    ctx.fragile_skipped += 1
                else:
                    ctx.disagree(c, idx, mi, "rdp kept indices")
            else:
                ctx.traces_validated += 1
    off = len(rc)
    for i, c in enumerate(cc):
        res = impl_clean(c)
        ctx.count(c, isinstance(res[0], list) and 2 < len(res[0]) < len(c["T"]), [f"clean_{c.get('shape','corpus')}"])
        for clause, detail, cause in clean_oracle(c, res):
            ctx.oracle_fail(c, detail, cause, clause)
        if model is not None:
            m = model[off + i]
            if isinstance(res[0], str):
                if not m.startswith("err"):
                    ctx.disagree(c, res[0], m, "clean: impl raised")
                else:
                    ctx.traces_validated += 1
                continue
            if not m.startswith("ok"):
                ctx.disagree(c, res, m, "clean: model raised"); continue
            toks = m.split(" | ")
            my = [parse_r(v) for v in toks[0].split()[1:]]
            mx = [parse_r(v) for v in toks[1].split()] if len(toks) > 1 else []
            if len(my) != len(res[0]) or any(not close(a, b, atol=1e-9) for a, b in zip(my, res[0])) or any(not close(a, b, atol=1e-9) for a, b in zip(mx, res[1])):
                if c.get("shape") in ("tiny_extent",) or clean_fragile(c):
                    ctx.fragile_skipped += 1          # np.isclose / variance thresholds within float rounding
                else:
                    ctx.disagree(c, res, m, "clean kept points")
            else:
                ctx.traces_validated += 1


def replay(ctx: Ctx, payload: dict) -> int:
    case = payload.get("case") or (payload.get("disagreement") or {}).get("case")
    if not case:
        print("replay names a broken obligation only:", payload.get("broken")); return 1
    if case["kind"] == "rdp":
        res = impl_rdp(case); print("impl:", {k: (v if isinstance(v, str) else len(v)) for k, v in res.items()})
        fails = rdp_oracle(case, res)
    else:
        res = impl_clean(case); print("impl:", res)
        fails = clean_oracle(case, res)
    for f in fails:
        print("property fails:", f)
    return 1 if fails else 0
