"""C12 — Results are invariant under equivalent descriptions of the problem."""
from __future__ import annotations

import copy
import math

from ..core import Ctx, load_corpus, rs
from ..lean import run_driver
from .. import problems as P

TRANSFORMS = ["permute", "split_serial", "split_parallel", "rename_zones", "reorder_zones", "translate", "scale", "mirror", "mirror"]


# --------------------------------------------------------------------------- transformations

def t_permute(rng, pr):
    q = copy.deepcopy(pr)
    rng.shuffle(q["streams"])
    rng.shuffle(q["utilities"])
    return q, {}


def t_split_serial(rng, pr):
    q = copy.deepcopy(pr)
    cands = [i for i, s in enumerate(q["streams"]) if abs(s["t_supply"] - s["t_target"]) >= 2.0]
    for i in rng.sample(cands, k=min(len(cands), rng.choice([1, 1, 2, 3]))):
        s = q["streams"][i]
        lo, hi = sorted((s["t_supply"], s["t_target"]))
        # a split temperature on the 0.5 K lattice strictly inside the range
        tm = lo + round(rng.uniform(0.1, 0.9) * (hi - lo) * 2) / 2
        if not lo < tm < hi:
            continue
        frac = abs(s["t_supply"] - tm) / abs(s["t_supply"] - s["t_target"])
        a = dict(s, t_target=tm, heat_flow=s["heat_flow"] * frac)
        b = dict(s, name=s["name"] + "_b", t_supply=tm, heat_flow=s["heat_flow"] * (1 - frac))
        q["streams"][i] = a
        q["streams"].insert(rng.randrange(len(q["streams"]) + 1), b)
    return q, {}


def t_split_parallel(rng, pr):
    q = copy.deepcopy(pr)
    for i in rng.sample(range(len(q["streams"])), k=min(len(q["streams"]), rng.choice([1, 1, 2]))):
        s = q["streams"][i]
        f = rng.choice([0.5, 0.25, 0.1, 0.75])
        a = dict(s, heat_flow=s["heat_flow"] * f)
        b = dict(s, name=s["name"] + "_p", heat_flow=s["heat_flow"] * (1 - f))
        q["streams"][i] = a
        q["streams"].append(b)
    return q, {}


def t_rename_zones(rng, pr):
    q = copy.deepcopy(pr)
    labels = sorted({c for s in q["streams"] for c in P.label_parts(s["zone"])})
    new = {}
    pool = ["Zeta", "Mill", "Alpha", "Unit 7", "Dryer", "K", "North", "Boiler house"]
    rng.shuffle(pool)
    if rng.random() < 0.5:
        # names that look like the unit-operation zones the preparation generates itself
        pool = rng.sample(["O1", "O2", "O3"], k=3) + pool
    for l, n in zip(labels, pool):
        new[l] = n
    for s in q["streams"]:
        s["zone"] = "/".join(new[c] for c in P.label_parts(s["zone"]))

    def rn(node):
        if node is None:
            return
        if node["name"] in new:
            node["name"] = new[node["name"]]
        for c in node.get("children") or []:
            rn(c)
    rn(q.get("zone_tree"))
    return q, {"zones": new}


def t_reorder_zones(rng, pr):
    """Same zones, listed in another order: streams grouped by zone in a shuffled zone order; tree children shuffled."""
    q = copy.deepcopy(pr)
    labels = sorted({s["zone"] for s in q["streams"]})
    rng.shuffle(labels)
    q["streams"] = [s for l in labels for s in q["streams"] if s["zone"] == l]

    def sh(node):
        if node and node.get("children"):
            rng.shuffle(node["children"])
            for c in node["children"]:
                sh(c)
    sh(q.get("zone_tree"))
    return q, {}


def t_translate(rng, pr):
    q = copy.deepcopy(pr)
    d = rng.choice([10.0, 50.0, -20.0, 100.0, 7.5])
    if rng.random() < 0.4:
        # a description in which one of the temperatures is exactly 0 (utility levels first: their target may be optional)
        pool = [u[k] for u in q["utilities"] for k in ("t_target", "t_supply")] * 2 + [x[k] for x in q["streams"] for k in ("t_supply", "t_target")]
        d = -float(rng.choice(pool))
    for s in q["streams"] + q["utilities"]:
        s["t_supply"] += d; s["t_target"] += d
    return q, {"dT": d}


def t_scale(rng, pr):
    q = copy.deepcopy(pr)
    k = rng.choice([2.0, 0.5, 10.0, 0.1, 3.0])
    for s in q["streams"]:
        s["heat_flow"] *= k
    return q, {"k": k}


def t_mirror(rng, pr):
    """T -> C - T: hot streams become cold ones and vice versa; utilities likewise."""
    q = copy.deepcopy(pr)
    temps = [s[k] for s in q["streams"] + q["utilities"] for k in ("t_supply", "t_target")]
    C = math.ceil((max(temps) + min(temps)) / 10.0) * 10.0 + 200.0
    for s in q["streams"]:
        iso = s["t_supply"] == s["t_target"]
        s["t_supply"], s["t_target"] = C - s["t_supply"], C - s["t_target"]
        if iso:
            s["heat_flow"] = -s["heat_flow"]            # the sign of an isothermal duty carries its kind
    for u in q["utilities"]:
        u["t_supply"], u["t_target"] = C - u["t_supply"], C - u["t_target"]
        u["type"] = {"Hot": "Cold", "Cold": "Hot"}.get(u["type"], u["type"])
    return q, {"C": C}


FUN = {"permute": t_permute, "split_serial": t_split_serial, "split_parallel": t_split_parallel, "rename_zones": t_rename_zones,
       "reorder_zones": t_reorder_zones, "translate": t_translate, "scale": t_scale, "mirror": t_mirror}


# --------------------------------------------------------------------------- observation

def observe(pr):
    out, master = P.run_service(pr)
    recs = {}
    for t in out.targets:
        d = t.model_dump(mode="json")
        recs.setdefault(d["name"], []).append({
            "Qh": float(d["Qh"]), "Qc": float(d["Qc"]), "Qr": float(d["Qr"]),
            "hot": {u["name"]: float(u["heat_flow"]) for u in d["hot_utilities"]},
            "cold": {u["name"]: float(u["heat_flow"]) for u in d["cold_utilities"]},
            # a single pinch temperature is reported as cold_temp only
            "hp": d["temp_pinch"].get("hot_temp") if d["temp_pinch"].get("hot_temp") is not None else d["temp_pinch"].get("cold_temp"),
            "cp": d["temp_pinch"].get("cold_temp") if d["temp_pinch"].get("cold_temp") is not None else d["temp_pinch"].get("hot_temp")})
    graphs = {}
    for key, gs in (out.graphs or {}).items():
        for g in gs.graphs:
            graphs[(key, g.type)] = [[(p.x, p.y) for p in seg.data_points] for seg in g.segments]
    return recs, graphs


def map_name(name, info):
    zones = info.get("zones")
    if not zones:
        return name
    z, _, kind = name.rpartition("/")
    return "/".join(zones.get(c, c) for c in z.split("/")) + "/" + kind


def compare(pr, kind, info, a, b, ga, gb):
    """Failures of the relation between the records of the original (a) and of the transformed problem (b)."""
    fails = []
    k = info.get("k", 1.0); dT = info.get("dT", 0.0); C = info.get("C")
    tot = sum(abs(s["heat_flow"]) for s in pr["streams"]) * max(k, 1.0)
    eps = 1e-6 * max(1.0, tot)
    explicit_util = bool(pr["utilities"])
    names_a = {map_name(n, info): n for n in a}
    if kind in ("split_serial", "split_parallel"):
        # unit-operation records of the pieces have no counterpart: compare the zone-level records only
        names_a = {n: o for n, o in names_a.items() if n in b}
    if set(names_a) != set(b) and kind not in ("split_serial", "split_parallel"):
        fails.append(("same_records", f"records {sorted(set(names_a) ^ set(b))[:6]} exist on one side only"))
    for n, o in names_a.items():
        if n not in b:
            continue
        if len(a[o]) != len(b[n]):
            fails.append(("same_records", f"{n}: {len(a[o])} vs {len(b[n])} records")); continue
        if len(a[o]) > 1:
            continue                      # duplicate record names (unit operations of equal name): no pairing defined
        ra, rb = a[o][0], b[n][0]
        if C is None:
            want = (ra["Qh"] * k, ra["Qc"] * k, ra["Qr"] * k)
        else:
            want = (ra["Qc"], ra["Qh"], ra["Qr"])
        got = (rb["Qh"], rb["Qc"], rb["Qr"])
        # known defect (C03-cold-sufficiency-sign): the cold side decides with the wrong sign of dt_cont whether a
        # default utility is needed, so under mirroring a default utility appears on one side only
        asym_cause = None
        if C is not None and ((("HU" in ra["hot"]) != ("CU" in rb["cold"])) or (("CU" in ra["cold"]) != ("HU" in rb["hot"]))):
            asym_cause = "cold_sufficiency_sign"
        if any(abs(x - y) > eps for x, y in zip(want, got)):
            fails.append(("targets", f"{n}: (Qh,Qc,Qr) transformed {got}, expected {want} from the original"
                          + ("; default utility present on one side of the mirror only" if asym_cause else ""), asym_cause)); continue
        # pinch temperatures
        if C is None:
            wp = (None if ra["hp"] is None else ra["hp"] + dT, None if ra["cp"] is None else ra["cp"] + dT)
        else:
            wp = (None if ra["cp"] is None else C - ra["cp"], None if ra["hp"] is None else C - ra["hp"])
        gp = (rb["hp"], rb["cp"])
        if any((x is None) != (y is None) or (x is not None and abs(x - y) > 1e-6) for x, y in zip(wp, gp)):
            fails.append(("pinch", f"{n}: pinch (hot,cold) transformed {gp}, expected {wp}", asym_cause))
        # utility duties, utility by utility (mirror: only for utilities the user supplied; defaults are placed differently)
        if C is None:
            for side in ("hot", "cold"):
                for un, v in ra[side].items():
                    if abs(rb[side].get(un, 0.0) - v * k) > eps:
                        fails.append(("utility_duties", f"{n}: {side} utility {un} transformed {rb[side].get(un)}, expected {v * k}")); break
        elif explicit_util:
            for side, other in (("hot", "cold"), ("cold", "hot")):
                for un, v in ra[side].items():
                    if un in ("HU", "CU"):
                        continue
                    if abs(rb[other].get(un, 0.0) - v) > eps:
                        # known defect (C03-cold-sufficiency-sign): the cold side decides with the wrong sign of dt_cont whether
                        # a default utility is needed, so a default appears on one side of the mirror only
                        asym = (("HU" in ra["hot"]) != ("CU" in rb["cold"])) or (("CU" in ra["cold"]) != ("HU" in rb["hot"]))
                        fails.append(("utility_duties", f"{n}: {side} utility {un} = {v} should become {other} duty, got {rb[other].get(un)}"
                                      + ("; default utility present on one side of the mirror only" if asym else ""),
                                      "cold_sufficiency_sign" if asym else None)); break
    # graph data: same curves (as point lists) for transformations that do not touch the curves' break points
    if kind == "translate_zero":
        kind = "translate"
    if kind in ("permute", "reorder_zones", "rename_zones", "translate", "scale", "split_serial", "split_parallel"):
        for (key, typ), segs in ga.items():
            kb = (map_name(key, info), typ)
            if kb not in gb:
                fails.append(("graphs", f"graph {kb} missing after the transformation")); continue
            A = [[(x * k, y + dT) for x, y in seg] for seg in segs]
            B = gb[kb]
            bad = curve_diff(A, B) or curve_diff(B, A)
            if bad:
                fails.append(("graphs", f"graph {kb}: point {bad} of one curve is not on the other")); break
    return fails


def curve_diff(A, B):
    """First point of the polylines A that does not lie (to display rounding) on the polylines B."""
    pts = [p for seg in B for p in seg]
    if not pts:
        return None if not any(A) else "missing"
    xr = max(p[0] for p in pts) - min(p[0] for p in pts); yr = max(p[1] for p in pts) - min(p[1] for p in pts)
    sx = max(1.0, max(1.0, xr) / max(1.0, yr))    # bring a wide enthalpy axis to the temperature scale; never stretch a narrow one
    tol = 0.03 + 2e-6 * max(1.0, yr)
    for seg in A:
        for (x, y) in seg:
            best = 1e18
            for sb in B:
                if len(sb) == 1:
                    best = min(best, math.hypot((x - sb[0][0]) / sx, y - sb[0][1]))
                for (x1, y1), (x2, y2) in zip(sb, sb[1:]):
                    ax, ay, bx, by, px, py = x1 / sx, y1, x2 / sx, y2, x / sx, y
                    L = (bx - ax) ** 2 + (by - ay) ** 2
                    t = 0.0 if L == 0 else max(0.0, min(1.0, ((px - ax) * (bx - ax) + (py - ay) * (by - ay)) / L))
                    best = min(best, math.hypot(px - ax - t * (bx - ax), py - ay - t * (by - ay)))
            if best > tol:
                return (round(x, 3), round(y, 3))
    return None


def gen_base(rng):
    labels = rng.choice([["A"], ["A", "B"], ["A", "B", "C"], ["A/X", "A/Y", "B"], ["A", "A/X", "B"], ["A", "A/X"]])
    pr = P.gen_problem(rng, labels=labels, with_tree=(rng.random() < 0.25), name_clash_p=0.0,
                       util_kind=rng.choice(["none", "none", "outside", "ladder", "mixed"]))
    if rng.random() < 0.3:
        # ladders whose intermediate levels glide over 20-60 K with their own contribution (district heating water,
        # hot oil), each with a colder / hotter level behind it
        temps = [s[k] for s in pr["streams"] for k in ("t_supply", "t_target")]
        lo, hi = min(temps), max(temps)
        dt = rng.choice([5.0, 10.0, 2.5])

        def u(name, typ, ts, tt):
            return {"name": name, "type": typ, "t_supply": float(ts), "t_target": float(tt), "heat_flow": 0.0, "dt_cont": dt, "htc": 1.0, "price": 10.0}
        g1, g2 = rng.choice([20, 40, 60]), rng.choice([20, 40, 60])
        c0 = rng.randrange(int(lo), int((lo + hi) / 2) + 1)
        h0 = rng.randrange(int((lo + hi) / 2), int(hi) + 1)
        pr["utilities"] = [u("HPS", "Hot", hi + 60, hi + 60), u("OIL", "Hot", h0 + g2, h0),
                           u("DH", "Cold", c0, c0 + g1), u("CW", "Cold", lo - 40, lo - 35)]
    return pr


def gen_cold_glide(rng):
    """Below-pinch surplus at low temperature met by a GLIDING cold utility with its own contribution (district heating
    return / hot-water generation) whose return-temperature limit binds, with a colder utility behind it."""
    t0 = float(rng.randrange(12, 20) * 10)
    dt = rng.choice([5.0, 10.0])
    du = rng.choice([5.0, 10.0, 15.0])
    S = lambda n, a, b, q: {"name": n, "zone": "A", "t_supply": a, "t_target": b, "heat_flow": q, "dt_cont": dt, "htc": 1.0}
    ss = [S("H1", t0, t0 - 110 - rng.choice([0, 10]), float(rng.randrange(30, 80) * 100)),
          S("C1", t0 - 90, t0 - 20, float(rng.randrange(5, 25) * 100))]
    if rng.random() < 0.5:
        ss.append(S("H2", t0 - 40, t0 - 100, float(rng.randrange(5, 30) * 100)))
    a = t0 - 100 + rng.choice([0.0, 10.0]); g = float(rng.choice([20, 40, 60]))
    U = lambda n, ty, ts, tt, d: {"name": n, "type": ty, "t_supply": ts, "t_target": tt, "heat_flow": 0.0, "dt_cont": d, "htc": 1.0, "price": 10.0}
    us = [U("HPS", "Hot", t0 + 80, t0 + 80, dt), U("DH", "Cold", a, a + g, du), U("CW", "Cold", t0 - 190, t0 - 185, dt)]
    rng.shuffle(us)
    return {"streams": ss, "utilities": us, "options": {}}


def t_translate_zero(rng, pr):
    """Translation that puts the target (or, failing that, the supply) temperature of a gliding utility at exactly 0."""
    q = copy.deepcopy(pr)
    gl = [u for u in q["utilities"] if abs(u["t_target"] - u["t_supply"]) > 1.0]
    pool = [u["t_target"] for u in gl] or [u["t_target"] for u in q["utilities"]] or [q["streams"][0]["t_target"]]
    d = -float(rng.choice(pool))
    for s in q["streams"] + q["utilities"]:
        s["t_supply"] += d; s["t_target"] += d
    return q, {"dT": d}


FUN["translate_zero"] = t_translate_zero


def check_case(ctx, case):
    pr, kind, seed = case["problem"], case["transform"], case["tseed"]
    import random
    q, info = FUN[kind](random.Random(seed), pr)
    try:
        a, ga = observe(pr)
    except Exception as e:  # noqa: BLE001
        ctx.dist["base_raised:" + type(e).__name__] += 1
        return None
    try:
        b, gb = observe(q)
    except Exception as e:  # noqa: BLE001
        return [("transformed_total", f"the transformed problem raised {type(e).__name__}: {e}")]
    return compare(q if kind == "scale" else pr, kind, info, a, b, ga, gb)


def run(ctx: Ctx):
    ctx.rule = ("the service on random problems (1-3 zones, optional user tree, utility ladders with distinct levels) and on their image "
                "under one transformation - permutation of streams/utilities, serial split at an interior temperature, parallel "
                "split, zone renaming, zone reordering, translation of all temperatures, scaling of all duties, mirroring of the "
                "temperature axis; compared record by record: Qh, Qc, Qr, every utility duty, both pinch temperatures, and the graph "
                "point sets for the transformations that keep break points. Non-trivial: Qh > 0 and Qc > 0 in the site record.")
    corpus = load_corpus("C12")
    cases = [c for c in corpus if c.get("kind") == "metamorphic"]
    for _ in range(ctx.n(240, 4000)):
        cases.append({"kind": "metamorphic", "problem": gen_base(ctx.rng), "transform": ctx.rng.choice(TRANSFORMS), "tseed": ctx.rng.randrange(10**6)})
    # fixed shares aimed at the two places where a description-dependent slip hides (so that detection does not hang on
    # the seed): a gliding cold utility whose return limit binds, mirrored; a gliding utility whose target becomes 0
    for _ in range(ctx.n(24, 300)):
        cases.append({"kind": "metamorphic", "problem": gen_cold_glide(ctx.rng), "transform": "mirror", "tseed": ctx.rng.randrange(10**6)})
    for _ in range(ctx.n(24, 300)):
        pr = gen_base(ctx.rng)
        if not any(abs(u["t_target"] - u["t_supply"]) > 1.0 for u in pr["utilities"]):
            pr = gen_cold_glide(ctx.rng)
        cases.append({"kind": "metamorphic", "problem": pr, "transform": "translate_zero", "tseed": ctx.rng.randrange(10**6)})
    model_tie(ctx, cases)
    for c in cases:
        fails = check_case(ctx, c)
        if fails is None:
            continue
        ctx.count({"kind": "metamorphic", "transform": c["transform"], "n": len(c["problem"]["streams"]), "n_util": len(c["problem"]["utilities"])},
                  True, [c["transform"], "util" if c["problem"]["utilities"] else "no_util", "tree" if c["problem"].get("zone_tree") else "no_tree"])
        for f in fails:
            clause, detail = f[0], f[1]
            ctx.oracle_fail(c, f"[{c['transform']}] {detail}", f[2] if len(f) > 2 else None, clause)


def model_tie(ctx, cases):
    """The Lean cascade model on the whole stream set of the original and of the transformed problem: the two model
    results must stand in the relation the C12 theorems state (exactly, over the rationals), and each must agree with
    the site's direct-integration record of the service."""
    if not ctx.lean.driver_ok:
        return
    import random
    from . import c01
    from ..core import parse_r
    lines, meta = [], []
    for c in cases:
        q, info = FUN[c["transform"]](random.Random(c["tseed"]), c["problem"])
        for pr in (c["problem"], q):
            ss = pr["streams"]
            try:
                hot, cold, objs = c01.build_collections(ss)
            except Exception:  # noqa: BLE001
                lines.append("bad"); continue
            lines.append(c01.cascade_line(ss, objs, True, []))
        meta.append((c, info))
    outs = run_driver(lines)
    for k, (c, info) in enumerate(meta):
        a, b = outs[2 * k], outs[2 * k + 1]
        if not (a.startswith("ok") and b.startswith("ok")):
            continue
        da = dict(t.split("=", 1) for t in a.split()[1:5]); db = dict(t.split("=", 1) for t in b.split()[1:5])
        if da["gok"] != "1" or db["gok"] != "1":
            ctx.fragile_skipped += 1; continue
        ta = [parse_r(da[x]) for x in ("qh", "qc", "qr")]; tb = [parse_r(db[x]) for x in ("qh", "qc", "qr")]
        from fractions import Fraction as F
        kk = F(repr(info["k"])) if "k" in info else F(1)
        want = [ta[1], ta[0], ta[2]] if "C" in info else [x * kk for x in ta]
        # the transformed duties are floats (products / quotients), so allow their rounding
        if any(abs(x - y) > F(1, 10**6) * max(1, abs(x)) for x, y in zip(want, tb)):
            ctx.disagree(c, [float(x) for x in want], [float(x) for x in tb], "model targets of the transformed problem do not follow the C12 relation")
        else:
            ctx.traces_validated += 1


def cause_of(case, clause, detail):
    return None


def replay(ctx: Ctx, payload: dict) -> int:
    case = payload.get("case") or (payload.get("disagreement") or {}).get("case")
    if not case:
        print("replay names a broken obligation only:", payload.get("broken")); return 1
    fails = check_case(ctx, case) or []
    for f in fails:
        print("property fails:", f)
    return 1 if fails else 0
