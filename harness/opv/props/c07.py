"""C07 — Pocket-free GCC is the greatest monotone curve under the GCC."""
from __future__ import annotations

from fractions import Fraction as F

from ..core import Ctx, close, rs, parse_r, load_corpus, frac
from ..lean import run_driver

TOL = 1e-6


# --------------------------------------------------------------------------- generator

def gen_gcc(rng):
    n = rng.choice([2, 3, 4, 5, 6, 7, 9, 12, 16, 24, 40])
    T = [float(rng.randrange(30, 60) * 10)]
    latent = rng.random() < 0.3          # 0.01 K intervals: latent streams make near-vertical GCC segments
    for _ in range(n - 1):
        T.append(round(T[-1] - float(rng.choice([10, 10, 20, 30, 50, 5] + ([0.01, 0.01, 0.01] if latent else []))), 6))
    shape = rng.choice(["walk", "walk", "pockets", "threshold_top", "threshold_bot", "two_pinch", "exact_close", "monotone"])
    H = []
    if shape == "monotone":
        p = rng.randrange(0, n)
        H = [abs(i - p) * float(rng.choice([50, 100])) for i in range(n)]
    else:
        h = float(rng.randrange(0, 12) * 50)
        for i in range(n):
            H.append(h)
            step = float(rng.randrange(-6, 7) * 50)
            if latent and i + 1 < n and T[i] - T[i + 1] < 0.02:
                step = float(rng.choice([-5000, 5000, 3000, -3000, 4200]))      # latent duty over 0.01 K
            elif latent and rng.random() < 0.3:
                step += rng.choice([0.4691, -0.4691, 0.25])                        # small kinks next to the steps
            h = max(0.0, h + step)
        # make sure there is a zero
        if min(H) > 0:
            m = min(H); H = [x - m for x in H]
        if shape == "threshold_top":
            for i in range(rng.randint(1, max(1, n // 3))):
                H[i] = 0.0
        if shape == "threshold_bot":
            for i in range(rng.randint(1, max(1, n // 3))):
                H[n - 1 - i] = 0.0
        if shape == "two_pinch" and n >= 5:
            H[rng.randrange(1, n - 1)] = 0.0; H[rng.randrange(1, n - 1)] = 0.0
        if shape == "exact_close" and n >= 5:
            # a pocket whose closing level equals a later row exactly
            i = rng.randrange(0, n - 3)
            H[i + 2] = H[i]
            H[i + 1] = H[i] + 100.0
    if all(x == 0 for x in H):
        H[0] = 100.0
    return {"kind": "gcc", "T": T, "H": H, "shape": shape}


# --------------------------------------------------------------------------- implementation

def impl_np(case):
    from OpenPinch.classes.problem_table import ProblemTable
    from OpenPinch.lib.enums import ProblemTableLabel as PT
    from OpenPinch.analysis.gcc_manipulation import get_GCC_without_pockets, get_seperated_gcc_heat_load_profiles
    pt = ProblemTable({PT.T.value: list(case["T"]), PT.H_NET.value: list(case["H"])})
    try:
        get_GCC_without_pockets(pt)
    except Exception as e:  # noqa: BLE001
        return f"err {type(e).__name__}", None
    T = [float(v) for v in pt.col[PT.T.value]]
    H = [float(v) for v in pt.col[PT.H_NET.value]]
    NP = [float(v) for v in pt.col[PT.H_NET_NP.value]]
    prof = get_seperated_gcc_heat_load_profiles(pt.col[PT.H_NET_NP.value])
    hot = [float(v) for v in prof[PT.H_NET_HOT.value]]
    cold = [float(v) for v in prof[PT.H_NET_COLD.value]]
    return "ok", {"T": T, "H": H, "NP": NP, "hot": hot, "cold": cold}


# --------------------------------------------------------------------------- oracle

def pl(Ts, Vs, x):
    if x >= Ts[0]:
        return Vs[0]
    if x <= Ts[-1]:
        return Vs[-1]
    for i in range(len(Ts) - 1):
        if Ts[i + 1] <= x <= Ts[i]:
            return Vs[i + 1] + (Vs[i] - Vs[i + 1]) * (x - Ts[i + 1]) / (Ts[i] - Ts[i + 1])
    raise AssertionError


def exact_np(T, H):
    """(function NP_expected, set of pocket-closing temperatures, (hot pinch T, cold pinch T)) from the
    property text, over exact rationals. None if the curve has no pinch (or is all zero)."""
    Ts = [frac(t) for t in T]; Hs = [frac(h) for h in H]
    n = len(Ts)
    Z = [i for i in range(n) if Hs[i] == 0]
    if not Z or len(Z) == n:
        return None
    i = 0
    if Hs[0] == 0:
        while i + 1 < n and Hs[i + 1] == 0:
            i += 1
        hp = i
    else:
        hp = Z[0]
    if Hs[-1] == 0:
        j = n - 1
        while j - 1 >= 0 and Hs[j - 1] == 0:
            j -= 1
        cp = j
    else:
        cp = Z[-1]
    closings = set()
    # above the pinch: running minimum from the top; below: from the bottom
    run_above = []
    m = None
    for k in range(0, hp + 1):
        if m is None or Hs[k] < m:
            if m is not None and k > 0 and Hs[k - 1] > m:      # the curve comes down through level m inside (k-1, k)
                t = Ts[k] + (Ts[k - 1] - Ts[k]) * (m - Hs[k]) / (Hs[k - 1] - Hs[k])
                closings.add(t)
            m = Hs[k]
        run_above.append(m)
    run_below = {}
    m = None
    for k in range(n - 1, cp - 1, -1):
        if m is None or Hs[k] < m:
            if m is not None and k < n - 1 and Hs[k + 1] > m:
                t = Ts[k] + (Ts[k + 1] - Ts[k]) * (m - Hs[k]) / (Hs[k + 1] - Hs[k])
                closings.add(t)
            m = Hs[k]
        run_below[k] = m

    def np_at(x):
        x = frac(x)
        if x >= Ts[hp]:
            # min of H over [x, top]: breakpoints >= x plus H(x)
            vals = [pl(Ts, Hs, x)] + [Hs[k] for k in range(0, hp + 1) if Ts[k] >= x]
            return min(vals)
        if x <= Ts[cp]:
            vals = [pl(Ts, Hs, x)] + [Hs[k] for k in range(cp, n) if Ts[k] <= x]
            return min(vals)
        return F(0)
    return np_at, closings, (Ts[hp], Ts[cp])


def oracle(case, res):
    fails = []
    T0, H0 = case["T"], case["H"]
    ex = exact_np(T0, H0)
    if ex is None:
        return fails
    np_at, closings, (thp, tcp) = ex
    T, H, NP = res["T"], res["H"], res["NP"]
    Ts0 = [frac(t) for t in T0]; Hs0 = [frac(h) for h in H0]
    scale = max(1.0, max(abs(h) for h in H0))
    eps = 1e-7 * scale
    # GCC itself unchanged (C08) and rows descending
    for a, b in zip(T, T[1:]):
        if not a - b > TOL:
            fails.append(("rows_descending", f"{a},{b}", None)); break
    for t, h in zip(T, H):
        if abs(h - float(pl(Ts0, Hs0, frac(t)))) > eps:
            fails.append(("gcc_unchanged", f"H at {t}: {h} vs {float(pl(Ts0, Hs0, frac(t)))}", None)); break
    # NP at rows and at interval midpoints
    Tf = [frac(t) for t in T]; NPf = [frac(v) for v in NP]
    pts = list(Tf) + [(a + b) / 2 for a, b in zip(Tf, Tf[1:])]
    # a pocket that closes within TOL (in temperature) of an existing row gets no row of its own, so inside the
    # neighbouring interval the flattened curve may differ from the exact running minimum by slope * TOL
    steep = max([abs(float(Hs0[i]) - float(Hs0[i + 1])) / float(Ts0[i] - Ts0[i + 1]) for i in range(len(Ts0) - 1)] or [0.0])
    for k, x in enumerate(pts):
        got = float(pl(Tf, NPf, x)); want = float(np_at(x))
        if abs(got - want) > eps + (2 * TOL * steep if k >= len(Tf) else 0.0):
            side = "above" if x >= thp else ("below" if x <= tcp else "between")
            fails.append(("np_eq_running_min", f"T={float(x)} ({side} the pinch): H_np={got}, running minimum of the GCC={want}", None)); break
    # breakpoints exactly where pockets close
    new = [t for t in T if all(abs(t - o) > TOL for o in T0)]
    exp = [float(c) for c in closings if all(abs(float(c) - o) > TOL for o in T0)]
    if len(new) != len(exp) or any(abs(a - b) > 1e-5 for a, b in zip(sorted(new), sorted(exp))):
        fails.append(("breakpoint_iff_pocket_closes", f"new rows {sorted(new)} expected closings {sorted(exp)}", None))
    # ends
    if abs(NP[0] - H0[0]) > eps or abs(NP[-1] - H0[-1]) > eps:
        fails.append(("keeps_ends", f"NP ends {NP[0]},{NP[-1]} vs Qh,Qc {H0[0]},{H0[-1]}", None))
    # load profiles
    hot, cold = res["hot"], res["cold"]
    if abs(abs(cold[0]) - H0[0]) > eps or abs(abs(hot[-1]) - H0[-1]) > eps:
        fails.append(("profiles_end_at_targets", f"|cold[0]|={abs(cold[0])} Qh={H0[0]}; |hot[-1]|={abs(hot[-1])} Qc={H0[-1]}", None))
    for k, t in enumerate(T):
        if frac(t) <= thp and abs(cold[k]) > eps:
            fails.append(("profiles_zero_at_pinch_side", f"heating profile {cold[k]} at T={t} <= hot pinch", None)); break
        if frac(t) >= tcp and abs(hot[k]) > eps:
            fails.append(("profiles_zero_at_pinch_side", f"cooling profile {hot[k]} at T={t} >= cold pinch", None)); break
    ac, ah = [abs(v) for v in cold], [abs(v) for v in hot]
    if any(b > a + eps for a, b in zip(ac, ac[1:])) or any(a > b + eps for a, b in zip(ah, ah[1:])):
        fails.append(("profiles_monotone", f"cold {cold} hot {hot}", None))
    return fails


# --------------------------------------------------------------------------- run

def line(case):
    return "pockets " + " ".join(rs(v) for v in case["T"]) + " | " + " ".join(rs(v) for v in case["H"])


def parse_model(out):
    if not out.startswith("ok"):
        return None
    d = {}
    for t in out.split()[1:]:
        k, v = t.split("=", 1)
        if k in ("spec", "clean"):
            d[k] = v; continue
        d[k] = [parse_r(x) for x in v.split(",")] if v else []
    return d


def run(ctx: Ctx):
    ctx.rule = ("get_GCC_without_pockets + get_seperated_gcc_heat_load_profiles on random grand composite curves (2-40 rows; random "
                "walks with 0-6 pockets per side, nested pockets, pockets closing exactly on a row, adjacent to the pinch, threshold "
                "curves, two pinches, monotone curves): H_np compared at every row and interval midpoint with the exact running "
                "minimum of the GCC (Fractions), new rows compared with the exact pocket-closing temperatures, profiles checked; "
                "T / H_net / H_np of the result compared with the Lean model. Non-trivial: the result has at least one new row.")
    corpus = load_corpus("C07")
    cases = [c for c in corpus] + [gen_gcc(ctx.rng) for _ in range(ctx.n(1500, 30000))]
    model = run_driver([line(c) for c in cases]) if ctx.lean.driver_ok and getattr(ctx, "use_model", True) else None
    for i, c in enumerate(cases):
        st, res = impl_np(c)
        if st != "ok":
            ctx.count(c, False, ["impl_raised"])
            ctx.oracle_fail(c, f"get_GCC_without_pockets raised {st}", None, "no_exception")
            continue
        ctx.count(c, len(res["T"]) > len(c["T"]), [f"shape_{c.get('shape','corpus')}", f"new_rows={min(len(res['T']) - len(c['T']), 4)}"])
        for clause, detail, cause in oracle(c, res):
            ctx.oracle_fail(c, detail, cause, clause)
        if model is not None:
            md = parse_model(model[i])
            bad = None
            if md is None:
                bad = f"model: {model[i][:80]}"
            else:
                res2 = dict(res); res2["hot"] = res["hot"]; res2["cold"] = res["cold"]
                for k in ("T", "H", "NP", "hot", "cold"):
                    if len(md[k]) != len(res[k]):
                        bad = f"{k}: rows impl {len(res[k])} model {len(md[k])}"; break
                    for x, y in zip(md[k], res[k]):
                        if not close(x, y, atol=1e-7, rtol=1e-9):
                            bad = f"{k}: impl {y} model {float(x)}"; break
                    if bad:
                        break
            if bad and md is not None and len(md["T"]) != len(res["T"]):
                # a closing temperature whose distance to an existing row is tol to within float rounding is
                # inserted by exact arithmetic and dropped by floats (or vice versa): fragile, not a disagreement
                a, b = [float(x) for x in md["T"]], list(res["T"])
                extra = [x for x in a if all(abs(x - y) > 1e-9 for y in b)] + [y for y in b if all(abs(x - y) > 1e-9 for x in a)]
                if extra and all(any(abs(abs(x - y) - TOL) < 1e-9 for y in a + b if y != x) for x in extra):
                    ctx.fragile_skipped += 1
                    bad = None
                    md = None
            if bad:
                ctx.disagree(c, {k: res[k] for k in ("T", "NP")}, model[i][:300], bad)
            elif md is not None:
                ctx.traces_validated += 1
            # second layer: on tolerance-clean curves the code-shaped model must equal the tidy specification
            # (running minima towards the pinch) that the C07 theorems characterise
            if md is not None:
                if md.get("clean") == "1":
                    ctx.dist["spec_layer_clean"] += 1
                    if md.get("spec") != "1":
                        ctx.disagree(c, None, model[i][:300], "code-shaped pocket model differs from the running-minimum specification on a tolerance-clean curve")
                else:
                    ctx.dist["spec_layer_unclean_skipped"] += 1


def replay(ctx: Ctx, payload: dict) -> int:
    case = payload.get("case") or (payload.get("disagreement") or {}).get("case")
    if not case:
        print("replay names a broken obligation only:", payload.get("broken")); return 1
    st, res = impl_np(case)
    print("impl:", st, res and {k: res[k] for k in ("T", "H", "NP")})
    if ctx.lean.driver_ok:
        print("model:", run_driver([line(case)])[0][:400])
    fails = oracle(case, res) if st == "ok" else [("no_exception", st, None)]
    for f in fails:
        print("property fails:", f)
    return 1 if fails else 0
