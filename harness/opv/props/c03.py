"""C03 — Multi-utility targeting allocates exactly the target duty.
(also hosts the shared utility-level observation used by C04.)"""
from __future__ import annotations

from fractions import Fraction as F

from ..core import Ctx, close, rs, parse_r, load_corpus, frac
from ..lean import run_driver
from .. import problems as P


def gen_util_problem(rng):
    """Stream sets crossed with utility sets; extra shapes aimed at the default-utility decision."""
    pr = P.gen_problem(rng, with_tree=False)
    r = rng.random()
    temps = [s["t_supply"] for s in pr["streams"]] + [s["t_target"] for s in pr["streams"]]
    lo, hi = min(temps), max(temps)
    cls = [P.classify(x) for x in pr["streams"]]
    hu_t_min = max([float(h + d) for hot, l, h, cp, d in cls if not hot] or [hi])      # hottest shifted cold target
    cu_t_max = min([float(l - d) for hot, l, h, cp, d in cls if hot] or [lo])          # coldest shifted hot target
    if r < 0.12:
        # a cold utility that is too warm to reach the coldest hot stream
        dt = rng.choice([5.0, 10.0])
        pr["utilities"] = [u for u in pr["utilities"] if u["type"] == "Hot"] + [
            {"name": "CW", "type": "Cold", "t_supply": lo + rng.choice([-2.0, 0.0, 3.0]), "t_target": lo + rng.choice([-2.0, 0.0, 3.0]),
             "heat_flow": 0.0, "dt_cont": dt, "htc": 1.0, "price": 10.0}]
    elif r < 0.30:
        # the only hot-capable utility is a gliding loop that straddles the hottest shifted cold target,
        # entered in either direction and as type Hot or Both; symmetric variant on the cold side
        dt = rng.choice([0.0, 5.0, 10.0])
        g = rng.choice([20.0, 30.0, 50.0])
        if rng.random() < 0.5:
            a = hu_t_min + dt - rng.choice([5.0, 15.0, 30.0, 60.0]); b = hu_t_min + dt + rng.choice([5.0, 10.0, 20.0])
            if rng.random() < 0.3:
                a, b = b, a               # usual direction (supply hotter); otherwise entered in the heating direction
            pr["utilities"] = [u for u in pr["utilities"] if u["type"] == "Cold"] + [
                {"name": "LOOP", "type": rng.choice(["Hot", "Both"]), "t_supply": a, "t_target": b, "heat_flow": 0.0,
                 "dt_cont": dt, "htc": 1.0, "price": 10.0}]
        else:
            a = cu_t_max - dt + rng.choice([5.0, 15.0, 30.0, 60.0]); b = cu_t_max - dt - rng.choice([5.0, 10.0, 20.0])
            if rng.random() < 0.3:
                a, b = b, a
            pr["utilities"] = [u for u in pr["utilities"] if u["type"] == "Hot"] + [
                {"name": "LOOP", "type": rng.choice(["Cold", "Both"]), "t_supply": a, "t_target": b, "heat_flow": 0.0,
                 "dt_cont": dt, "htc": 1.0, "price": 10.0}]
    elif r < 0.42:
        dt = rng.choice([5.0, 10.0])
        pr["utilities"] = [u for u in pr["utilities"] if u["type"] == "Cold"] + [
            {"name": "LPS", "type": "Hot", "t_supply": hi + rng.choice([-3.0, 0.0, 2.0]), "t_target": hi + rng.choice([-3.0, 0.0, 2.0]),
             "heat_flow": 0.0, "dt_cont": dt, "htc": 1.0, "price": 10.0}]
    return pr


def gen_double_pinch(rng):
    """A zone whose shifted grand composite curve is zero at two different temperatures with a heat-recovery pocket
    between them (hot pinch row != cold pinch row), optionally with intermediate rows inside the pocket, plus an
    ordinary zone; defaults only or a ladder."""
    dt = rng.choice([0.0, 2.5, 5.0, 10.0])
    T0 = float(rng.randrange(3, 10) * 10)
    gaps = [float(rng.choice([20, 25, 50])) for _ in range(4)]
    T1, T2, T3, T4 = T0 + gaps[0], T0 + gaps[0] + gaps[1], T0 + sum(gaps[:3]), T0 + sum(gaps)
    qt, b, qb = (float(rng.randrange(1, 30) * 50) for _ in range(3))
    S = lambda n, z, a, c, d: {"name": n, "zone": z, "t_supply": a, "t_target": c, "heat_flow": d, "dt_cont": dt, "htc": 1.0}
    ss = [S("H1", "A", T3 + dt, T2 + dt, b), S("C2", "A", T1 - dt, T2 - dt, b)]
    if rng.random() < 0.85:
        ss.append(S("C1", "A", T3 - dt, T4 - dt, qt))
    if rng.random() < 0.85:
        ss.append(S("H2", "A", T1 + dt, T0 + dt, qb))
    if rng.random() < 0.4:
        # more rows inside the pocket: the pair split into pieces of different spans with the same total
        m = (T2 + T3) / 2
        ss[0] = S("H1", "A", T3 + dt, m + dt, b / 2); ss.append(S("H1b", "A", m + dt, T2 + dt, b / 2))
    if rng.random() < 0.6:
        ss += [S("H9", "B", 300.0, 100.0, float(rng.randrange(2, 20) * 50)), S("C9", "B", 50.0, 250.0, float(rng.randrange(2, 20) * 50))]
    rng.shuffle(ss)
    return {"streams": ss, "utilities": P.gen_utilities(rng, ss, kind=rng.choice(["none", "outside", "ladder"])), "options": {}}


def gen_top_cold_dt(rng):
    """Individual contributions such that the cold stream with the highest REAL target is not the one with the highest
    SHIFTED target (the top of the heating demand belongs to a stream with a larger dt_cont); defaults only, a hot
    utility just short of the true top, or a ladder."""
    T = float(rng.randrange(15, 30) * 10)
    dA, dB = rng.choice([(2.0, 10.0), (0.0, 7.5), (2.5, 20.0), (5.0, 10.0)])
    delta = rng.choice([1.0, 2.0, (dB - dA) / 2])
    S = lambda n, z, a, b, q, d: {"name": n, "zone": z, "t_supply": a, "t_target": b, "heat_flow": q, "dt_cont": d, "htc": 1.0}
    ss = [S("CA", "A", T - 150, T, float(rng.randrange(2, 30) * 100), dA),
          S("CB", "A", T - 140, T - delta, float(rng.randrange(2, 30) * 100), dB),
          S("H1", "A", T - 20, T - 120, float(rng.randrange(2, 30) * 100), rng.choice([dA, dB, 5.0]))]
    if rng.random() < 0.4:
        ss.append(S("H2", rng.choice(["A", "B"]), T - 60, T - 160, float(rng.randrange(2, 20) * 100), 5.0))
    top = T - delta + dB                           # true top of the shifted heating demand
    r = rng.random()
    utils = []
    if r < 0.4:
        d = rng.choice([0.0, 5.0])
        lvl = top - rng.choice([0.5, 1.5])         # a steam level whose shifted band ends just short of the top
        utils = [{"name": "HP", "type": "Hot", "t_supply": lvl + d, "t_target": lvl + d, "heat_flow": 0.0, "dt_cont": d, "htc": 1.0, "price": 40.0}]
    elif r < 0.6:
        utils = P.gen_utilities(rng, ss, kind="ladder")
    rng.shuffle(ss)
    return {"streams": ss, "utilities": utils, "options": {}}


def observe(problem):
    """Run the service; per zone with a DI target return what C03/C04 look at."""
    from OpenPinch.lib.enums import TargetType, ProblemTableLabel as PT
    out, master = P.run_service(problem)
    zones = []
    for path, z in P.walk(master):
        key = f"{z.name}/{TargetType.DI.value}"
        if key not in z.targets:
            continue
        t = z.targets[key]
        pt = t.pt
        zones.append({
            "path": path, "zone": z, "target": t,
            "Qh": float(t.hot_utility_target), "Qc": float(t.cold_utility_target),
            "hot": [(u.name, float(u.t_min_star), float(u.t_max_star), float(u.heat_flow)) for u in t.hot_utilities],
            "cold": [(u.name, float(u.t_min_star), float(u.t_max_star), float(u.heat_flow)) for u in t.cold_utilities],
            "hot_supply": [float(max(u.t_supply, u.t_target)) for u in t.hot_utilities],
            "cold_supply": [float(min(u.t_supply, u.t_target)) for u in t.cold_utilities],
            "T": [float(v) for v in pt.col[PT.T.value]],
            "NPa": [float(v) for v in pt.col[PT.H_NET_A.value]],
            "UT": [float(v) for v in pt.col[PT.H_NET_UT.value]],
            "hot_pinch": t.hot_pinch, "cold_pinch": t.cold_pinch,
        })
    return out, master, zones


def closure_oracle(ctx: Ctx, problem, out, master, zones):
    from OpenPinch.lib.enums import TargetType
    for zd in zones:
        case = {"kind": "service", "problem": problem, "zone": "/".join(zd["path"])}
        qh, qc = zd["Qh"], zd["Qc"]
        scale = max(1.0, qh + qc)
        sh = sum(d for *_, d in zd["hot"]); sc = sum(d for *_, d in zd["cold"])
        ss = P.streams_of_zone(problem, zd["path"])
        ctx.dist["zone_records"] += 1
        # cause classifiers of the open findings
        hot_star_min = [P.classify(s) for s in ss]
        cu_t_max = min([float(lo - dt) for hot, lo, hi, cp, dt in hot_star_min if hot] or [1e9])
        hu_t_min = max([float(hi + dt) for hot, lo, hi, cp, dt in hot_star_min if not hot] or [-1e9])
        user_cold = [u for u in problem["utilities"] if u["type"] in ("Cold", "Both")]
        user_hot = [u for u in problem["utilities"] if u["type"] in ("Hot", "Both")]
        reach_cold = any(max(u["t_supply"], u["t_target"] if u["t_target"] != u["t_supply"] else u["t_supply"] + 0.1) + u["dt_cont"] <= cu_t_max + 1e-9 for u in user_cold)
        code_thinks_cold = any(max(u["t_supply"], u["t_target"] if u["t_target"] != u["t_supply"] else u["t_supply"] + 0.1) - u["dt_cont"] <= cu_t_max for u in user_cold)
        cold_cause = "cold_sufficiency_sign" if (user_cold and not reach_cold and code_thinks_cold and not any(n == "CU" for n, *_ in zd["cold"])) else None
        if abs(sh - qh) > 1e-6 * scale:
            ctx.oracle_fail(case, f"hot utility duties sum to {sh}, Qh = {qh}; utilities {zd['hot']}", None, "hot_allocation_closes")
        if abs(sc - qc) > 1e-6 * scale:
            ctx.oracle_fail(case, f"cold utility duties sum to {sc}, Qc = {qc}; utilities {zd['cold']}", cold_cause, "cold_allocation_closes")
        for n, lo, hi, d in zd["hot"] + zd["cold"]:
            if d < -1e-9:
                ctx.oracle_fail(case, f"utility {n} duty {d} < 0", None, "duty_nonneg")
        # reachability: a hot utility lying entirely at or below the hot pinch serves nothing; symmetric for cold
        if zd["hot_pinch"] is not None:
            for n, lo, hi, d in zd["hot"]:
                if d > 1e-6 * scale and hi <= float(zd["hot_pinch"]) + 1e-9:
                    ctx.oracle_fail(case, f"hot utility {n} (shifted {lo}..{hi}) below the hot pinch {zd['hot_pinch']} carries {d}", None, "unreachable_gets_zero")
            for n, lo, hi, d in zd["cold"]:
                if d > 1e-6 * scale and lo >= float(zd["cold_pinch"]) - 1e-9:
                    ctx.oracle_fail(case, f"cold utility {n} (shifted {lo}..{hi}) above the cold pinch {zd['cold_pinch']} carries {d}", None, "unreachable_gets_zero")
    # total-process record: utility by utility the sum of the zones' duties
    recs = {}
    for t in out.targets:
        recs.setdefault(t.name, []).append(t)
    root = master
    tz_key = f"{root.name}/{TargetType.TZ.value}"
    if tz_key in recs and len(root.subzones) > 0:
        tz = recs[tz_key][0]
        for side in ("hot_utilities", "cold_utilities"):
            want = {}
            for z in root.subzones.values():
                k = f"{z.name}/{TargetType.DI.value}"
                if k in z.targets:
                    for u in getattr(z.targets[k], side):
                        want[u.name] = want.get(u.name, 0.0) + float(u.heat_flow)
            got = {u.name: float(u.heat_flow) for u in getattr(tz, side)}
            for n, v in want.items():
                if abs(got.get(n, 0.0) - v) > 1e-6 * max(1.0, abs(v)):
                    ctx.oracle_fail({"kind": "service", "problem": problem, "zone": root.name},
                                    f"total-process record lists {n} = {got.get(n)}, zones sum to {v}", None, "tz_utility_sums")


# --------------------------------------------------------------------------- function level (model tie)

def assign_line(zd, side):
    """`assign <hot|cold> <pinch_row> | T… | H… | u ts tt | u ts tt …` for the Lean model."""
    raise NotImplementedError


def run(ctx: Ctx):
    ctx.rule = ("the service on random stream sets crossed with utility sets (none; isothermal and gliding levels inside / outside the "
                "process range; 1-4 levels per side; a cold utility too warm / hot utility too cold for the extreme stream; double-pinch "
                "zones with a pocket between the pinches): for "
                "every zone the hot (cold) duties must sum to Qh (Qc), be non-negative, be zero for utilities beyond the pinch, and the "
                "total-process record must list the per-utility zone sums; _assign_utility / _maximise_utility_duty on the load "
                "profiles of those zones compared with the Lean model; the default-utility decision (_find_extreme_process_temperatures, "
                "_complete_utility_data, _add_default_utilities) on random stream extremes x utilities with missing targets / "
                "contributions compared with the Lean model. Non-trivial: a zone with Qh > 0 and Qc > 0 and >= 2 utilities "
                "on a side.")
    corpus = load_corpus("C03")
    probs = [c["problem"] for c in corpus if c.get("kind") == "service"]
    probs += [gen_util_problem(ctx.rng) for _ in range(ctx.n(300, 6000))]
    probs += [gen_double_pinch(ctx.rng) for _ in range(ctx.n(40, 800))]
    probs += [gen_top_cold_dt(ctx.rng) for _ in range(ctx.n(40, 800))]
    from . import c03model
    for pr in probs:
        try:
            out, master, zones = observe(pr)
        except Exception as e:  # noqa: BLE001
            ctx.count({"kind": "service", "raised": type(e).__name__}, False, ["service_raised:" + type(e).__name__])
            continue
        nt = any(z["Qh"] > 0 and z["Qc"] > 0 and (len(z["hot"]) >= 2 or len(z["cold"]) >= 2) for z in zones)
        ctx.count({"kind": "service", "n_streams": len(pr["streams"]), "utilities": [(u["name"], u["type"], u["t_supply"], u["t_target"]) for u in pr["utilities"]]},
                  nt, ["service_problem", f"n_util={min(len(pr['utilities']), 6)}"])
        closure_oracle(ctx, pr, out, master, zones)
    c03model.correspondence(ctx, probs)
    from . import c03defaults
    c03defaults.correspondence(ctx)


def replay(ctx: Ctx, payload: dict) -> int:
    case = payload.get("case") or (payload.get("disagreement") or {}).get("case")
    if not case:
        print("replay names a broken obligation only:", payload.get("broken")); return 1
    if case.get("kind") == "assign":
        from . import c03model
        return c03model.replay_assign(ctx, case)
    c2 = Ctx(ctx.prop, "quick", 0)
    out, master, zones = observe(case["problem"])
    closure_oracle(c2, case["problem"], out, master, zones)
    for f in c2.oracle_failures:
        print("property fails:", f["clause"], f["detail"], f["case"]["zone"])
    return 1 if c2.oracle_failures else 0
