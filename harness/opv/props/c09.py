"""C09 — Total-site targets are additive over zones and bracketed by bounds."""
from __future__ import annotations

from ..core import Ctx, load_corpus
from .. import problems as P
from . import c03, c02


def site_oracle(ctx: Ctx, problem):
    from OpenPinch.lib.enums import TargetType
    try:
        out, master = P.run_service(problem)
    except Exception as e:  # noqa: BLE001
        ctx.dist["service_raised:" + type(e).__name__] += 1
        return
    DI, TZ, TS = TargetType.DI.value, TargetType.TZ.value, TargetType.TS.value
    root = master
    kd, kz, ks = f"{root.name}/{DI}", f"{root.name}/{TZ}", f"{root.name}/{TS}"
    if kz not in root.targets or ks not in root.targets:
        ctx.dist["no_site_record"] += 1
        return
    di, tz, ts = root.targets[kd], root.targets[kz], root.targets[ks]
    zs = [z.targets[f"{z.name}/{DI}"] for z in root.subzones.values()]
    tot = sum(abs(s["heat_flow"]) for s in problem["streams"])
    eps = 1e-6 * max(1.0, tot)
    case = {"kind": "service", "problem": problem}
    cause = c02.cold_sign_cause(problem, root, master)
    ctx.dist["site_records"] += 1
    f = lambda t: (float(t.hot_utility_target), float(t.cold_utility_target), float(t.heat_recovery_target))
    sqh, sqc, sqr = (sum(f(z)[i] for z in zs) for i in range(3))
    zh, zc, zr = f(tz)
    if abs(zh - sqh) > eps or abs(zc - sqc) > eps or abs(zr - sqr) > eps:
        ctx.oracle_fail(case, f"total-process record ({zh},{zc},{zr}) vs sum of zones ({sqh},{sqc},{sqr})", None, "tz_is_sum")
    for side in ("hot_utilities", "cold_utilities"):
        want = {}
        for z in zs:
            for u in getattr(z, side):
                want[u.name] = want.get(u.name, 0.0) + float(u.heat_flow)
        got = {u.name: float(u.heat_flow) for u in getattr(tz, side)}
        for n, v in want.items():
            if abs(got.get(n, 0.0) - v) > eps:
                ctx.oracle_fail(case, f"total-process {side}: {n} = {got.get(n)}, zones sum to {v}", None, "tz_utility_sums")
    th, tc, tr = f(ts)
    dh, dc, dr = f(di)
    if th > sqh + eps or tc > sqc + eps:
        ctx.oracle_fail(case, f"total-site (Qh,Qc)=({th},{tc}) above the zone sums ({sqh},{sqc})", cause, "ts_le_sum")
    if th < dh - eps or tc < dc - eps:
        ctx.oracle_fail(case, f"total-site (Qh,Qc)=({th},{tc}) below the site's direct integration ({dh},{dc})", cause, "ts_ge_di")
    if abs(tr - (sqr + (sqh - th))) > eps:
        ctx.oracle_fail(case, f"total-site Qr={tr}, zones' recovery + hot utility saved = {sqr + (sqh - th)}", cause, "ts_qr_formula")
    ctx.dist["indirect_recovery>0" if sqh - th > eps else "indirect_recovery=0"] += 1


def gen_glide_site(rng):
    """A hot-oil / hot-water loop with a long glide whose target-temperature limit binds in one zone (load at the far
    end of the glide plus a small load beyond its return temperature) while another zone raises or uses an
    isothermal utility at a level inside the glide; little direct recovery. Mirrored for a gliding cold utility."""
    dt = rng.choice([0.0, 5.0, 10.0])
    t0 = float(rng.randrange(18, 30) * 10)
    g_up, g_dn = float(rng.choice([40, 55, 80])), float(rng.choice([30, 45, 70]))
    q1, q2, q3 = (float(rng.randrange(5, 50) * 100) for _ in range(3))
    mirror = rng.random() < 0.4
    m = (lambda t: 2 * t0 - t) if mirror else (lambda t: t)
    H, C = ("Cold", "Hot") if mirror else ("Hot", "Cold")

    def stream(zone, name, ts, tt, q):
        return {"zone": zone, "name": name, "t_supply": m(ts), "t_target": m(tt), "heat_flow": q, "dt_cont": dt, "htc": 1.0}

    def util(name, typ, ts, tt):
        return {"name": name, "type": typ, "t_supply": m(ts), "t_target": m(tt), "heat_flow": 0.0, "dt_cont": dt, "htc": 1.0,
                "price": float(rng.choice([10, 40, 100]))}
    span = float(rng.choice([20, 40]))
    streams = [stream("R", "far end", t0 + dt, t0 + dt + span, q1),
               stream("R", "beyond", t0 - g_dn - 60 - rng.choice([0, 20]), t0 - g_dn - 10, q2),
               stream("K", "level", t0 + dt, t0 + dt - rng.choice([5.0, 9.0, 20.0]), q3)]
    if rng.random() < 0.3:
        streams.append(stream(rng.choice(["R", "K", "L"]), "extra", t0 - 30, t0 - 80, float(rng.randrange(1, 20) * 100)))
    lvl = t0 - 2 * dt - rng.choice([5.0, 15.0])
    utils = [util("TOP", H, t0 + 120, t0 + 119 if rng.random() < 0.5 else t0 + 120),
             util("LOOP", H, t0 + g_up + 2 * dt, t0 - g_dn),
             util("GEN", C, lvl - 1, lvl),
             util("BOT", C, t0 - g_dn - 160, t0 - g_dn - 155)]
    rng.shuffle(utils)
    return {"streams": streams, "utilities": utils, "options": {}}


def gen_site_problem(rng):
    """1-4 process zones, ladders with intermediate levels that enable inter-zone recovery."""
    if rng.random() < 0.15:
        return gen_glide_site(rng)
    labels = rng.choice([["A"], ["A", "B"], ["A", "B", "C"], ["A", "B", "C", "D"], ["A/X", "A/Y", "B"]])
    pr = P.gen_problem(rng, labels=labels, util_kind=rng.choice(["none", "ladder", "ladder", "mixed", "outside"]))
    if pr["utilities"] and rng.random() < 0.3:
        # two different utilities leaving the same header: equal supply temperature, different return temperature
        for u in rng.sample(pr["utilities"], k=min(len(pr["utilities"]), rng.choice([1, 2]))):
            g = rng.choice([5.0, 10.0, 20.0, 40.0])
            twin = dict(u, name=u["name"] + "b", t_target=u["t_target"] - g if u["type"] == "Hot" else u["t_target"] + g)
            pr["utilities"].insert(rng.randrange(len(pr["utilities"]) + 1), twin)
    return pr


def run(ctx: Ctx):
    ctx.rule = ("the service on random sites of 1-4 process zones (flat labels, nested labels, explicit zone trees) x utility ladders with "
                "and without intermediate levels, plus double-pinch zones with a pocket between the pinches: total-process record = sum of the zones' records (values and per-utility duties); "
                "total-site Qh, Qc <= zone sums and >= the site's own direct-integration targets; Qr formula. The site utility cascade "
                "model is tied under C02. Non-trivial: a site where indirect recovery through the utility system is positive.")
    corpus = load_corpus("C09")
    probs = [c["problem"] for c in corpus if c.get("kind") == "service"]
    probs += [gen_site_problem(ctx.rng) for _ in range(ctx.n(300, 6000))]
    # fixed share: a zone with two separate pinches and a recovery pocket between them (rows strictly between the pinch
    # rows), beside an ordinary zone - whatever leaks out of that pocket into the zone's utility duties raises the
    # total-site targets above the zone sums
    probs += [c03.gen_double_pinch(ctx.rng) for _ in range(ctx.n(40, 800))]
    n0 = 0
    for pr in probs:
        before = ctx.dist["indirect_recovery>0"]
        site_oracle(ctx, pr)
        ctx.count({"kind": "service", "n_streams": len(pr["streams"]), "zones": sorted({s["zone"] for s in pr["streams"]}), "n_util": len(pr["utilities"])},
                  ctx.dist["indirect_recovery>0"] > before, ["service_problem"])
    c02.site_correspondence(ctx, None)


def replay(ctx: Ctx, payload: dict) -> int:
    case = payload.get("case") or (payload.get("disagreement") or {}).get("case")
    if not case:
        print("replay names a broken obligation only:", payload.get("broken")); return 1
    if case.get("kind") == "site":
        return c02.replay(ctx, payload)
    c2 = Ctx(ctx.prop, "quick", 0)
    site_oracle(c2, case["problem"])
    for f in c2.oracle_failures:
        print("property fails:", f["clause"], f["detail"])
    return 1 if c2.oracle_failures else 0
