"""C02 — Every reported target closes the first-law energy balance."""
from __future__ import annotations

from ..core import Ctx, load_corpus, rs, parse_r, close
from ..lean import run_driver
from .. import problems as P
from . import c03


def balance_oracle(ctx: Ctx, problem):
    from OpenPinch.lib.enums import TargetType
    try:
        out, master = P.run_service(problem)
    except Exception as e:  # noqa: BLE001
        ctx.dist["service_raised:" + type(e).__name__] += 1
        return None
    # cause classifier of the open C03 finding (the only recorded way utility duties fail to close)
    for path, z in P.walk(master):
        ss = P.streams_of_zone(problem, path)
        if not ss:
            continue
        tot_h = sum(abs(s["heat_flow"]) for s in ss if P.classify(s)[0])
        tot_c = sum(abs(s["heat_flow"]) for s in ss if not P.classify(s)[0])
        scale = max(1.0, tot_h + tot_c)
        eps = 1e-6 * scale
        for key, t in z.targets.items():
            kind = key.split("/")[-1]
            case = {"kind": "service", "problem": problem, "zone": "/".join(path), "record": key}
            qh, qc, qr = float(t.hot_utility_target), float(t.cold_utility_target), float(t.heat_recovery_target)
            ctx.dist["record_" + kind.replace(" ", "_")] += 1
            cause = None
            if kind != TargetType.DI.value or True:
                # downstream of the recorded C03 finding? (a supplied cold utility too warm, default CU suppressed)
                cause = cold_sign_cause(problem, z, master)
            if abs((qh - qc) - (tot_c - tot_h)) > eps:
                ctx.oracle_fail(case, f"Qh-Qc = {qh-qc}, cold-hot duty = {tot_c-tot_h}", cause if kind != TargetType.DI.value else None, "net_balance")
            if abs(qr - (tot_h - qc)) > eps:
                ctx.oracle_fail(case, f"Qr = {qr}, hot duty - Qc = {tot_h-qc}", cause if kind != TargetType.DI.value else None, "recovery_balance")
            if min(qh, qc, qr) < -eps:
                ctx.oracle_fail(case, f"negative target: Qh={qh} Qc={qc} Qr={qr}", cause if kind != TargetType.DI.value else None, "nonneg")
            hu = sum(float(u.heat_flow) for u in t.hot_utilities)
            cu = sum(float(u.heat_flow) for u in t.cold_utilities)
            if abs((hu - cu) - (qh - qc)) > eps:
                ctx.oracle_fail(case, f"hot-cold utility duties = {hu-cu}, Qh-Qc = {qh-qc}", cause, "utility_net")
    return out, master


def cold_sign_cause(problem, z, master):
    """True cause test of finding C03-cold-sufficiency-sign somewhere in this zone's subtree."""
    for path, zz in P.walk(master):
        ss = P.streams_of_zone(problem, path)
        hots = [P.classify(s) for s in ss]
        cu_t_max = min([float(lo - dt) for hot, lo, hi, cp, dt in hots if hot] or [1e9])
        user_cold = [u for u in problem["utilities"] if u["type"] in ("Cold", "Both")]
        if not user_cold:
            continue
        top = lambda u: max(u["t_supply"], u["t_target"] if u["t_target"] != u["t_supply"] else u["t_supply"] + 0.1)
        reach = any(top(u) + u["dt_cont"] <= cu_t_max + 1e-9 for u in user_cold)
        thinks = any(top(u) - u["dt_cont"] <= cu_t_max for u in user_cold)
        if not reach and thinks:
            return "cold_sufficiency_sign"
    return None


def site_line(T, hot, cold):
    """`site | T… | H lo hi duty | … | C lo hi duty` for the Lean model of the site utility cascade."""
    parts = ["site", "|"] + [rs(t) for t in T]
    for lo, hi, d in hot:
        parts += ["|", "H", rs(lo), rs(hi), rs(d)]
    for lo, hi, d in cold:
        parts += ["|", "C", rs(lo), rs(hi), rs(d)]
    return " ".join(parts)


def site_correspondence(ctx: Ctx, results):
    """_get_site_utility_heat_cascade + the total-site Qh/Qc read-out versus the Lean model."""
    if not ctx.lean.driver_ok:
        return
    from OpenPinch.lib.enums import TargetType, ProblemTableLabel as PT
    from OpenPinch.analysis.indirect_integration_entry import _get_site_utility_heat_cascade
    from OpenPinch.classes.stream import Stream
    import numpy as np
    cases, lines, impl = [], [], []
    rng = ctx.rng
    for _ in range(ctx.n(400, 6000)):
        n = rng.randint(2, 9)
        T = sorted({float(rng.randrange(2, 45) * 10) for _ in range(n)}, reverse=True)
        if len(T) < 2:
            continue
        def util(hotside):
            lo = rng.choice(T[1:]); hi = rng.choice([t for t in T if t > lo])
            return (lo, hi, float(rng.choice([0, 100, 250, 1000, 3300])))
        hot = [util(True) for _ in range(rng.randint(0, 3))]
        cold = [util(False) for _ in range(rng.randint(0, 3))]
        hs = [Stream(f"H{i}", hi, lo, dt_cont=0.0, heat_flow=d, is_process_stream=False) for i, (lo, hi, d) in enumerate(hot)]
        cs = [Stream(f"C{i}", lo, hi, dt_cont=0.0, heat_flow=d, is_process_stream=False) for i, (lo, hi, d) in enumerate(cold)]
        res = _get_site_utility_heat_cascade(np.array(T), hs, cs, is_shifted=True)
        ut = [float(v) for v in res[PT.H_NET_UT.value]]
        cases.append({"kind": "site", "T": T, "hot": hot, "cold": cold})
        lines.append(site_line(T, hot, cold)); impl.append(ut)
    model = run_driver(lines)
    for c, m, ut in zip(cases, model, impl):
        ctx.count(c, len(c["hot"]) > 0 and len(c["cold"]) > 0, ["site_cascade"])
        if not m.startswith("ok"):
            ctx.disagree(c, ut, m, "model raised"); continue
        toks = dict(t.split("=") for t in m.split()[1:])
        mut = [parse_r(x) for x in toks["ut"].split(",")]
        if len(mut) != len(ut) or any(not close(x, y, atol=1e-7, rtol=1e-9) for x, y in zip(mut, ut)):
            ctx.disagree(c, ut, m[:200], "H_net_ut column")
        elif not close(parse_r(toks["qh"]), ut[0], atol=1e-7) or not close(parse_r(toks["qc"]), ut[-1], atol=1e-7):
            ctx.disagree(c, (ut[0], ut[-1]), m[:200], "total-site Qh/Qc")
        else:
            ctx.traces_validated += 1


def gen_balanced_threshold(rng):
    """A threshold zone (hot or cold utility only) in which a hot and a cold stream on the far side of the pinch
    balance EXACTLY, so that the grand composite curve returns to zero at a second row; plus an ordinary zone."""
    q = float(rng.randrange(1, 40) * 50)
    q2 = float(rng.randrange(1, 20) * 50)
    dt = rng.choice([5.0, 2.5, 0.0, 10.0])
    t0 = float(rng.randrange(3, 12) * 10)
    S = lambda n, z, a, b, d: {"name": n, "zone": z, "t_supply": a, "t_target": b, "heat_flow": d, "dt_cont": dt, "htc": 1.0}
    if rng.random() < 0.5:
        # hot utility only: C1 on top; below it H1 exactly serves C2
        ss = [S("C1", "A", t0 + 110, t0 + 110 + rng.choice([20.0, 50.0]), q2), S("H1", "A", t0 + 100, t0 + 60, q), S("C2", "A", t0, t0 + 40, q)]
    else:
        # cold utility only: H3 at the bottom; above it H1 exactly serves C2
        ss = [S("H1", "A", t0 + 100, t0 + 60, q), S("C2", "A", t0, t0 + 40, q), S("H3", "A", t0 - 10 + (0 if dt else 0), t0 - 40, q2)]
    if rng.random() < 0.5:
        # split the balancing pair into several exactly matching pieces
        ss.append(S("H1b", "A", t0 + 100, t0 + 60, q / 2)); ss.append(S("C2b", "A", t0, t0 + 40, q / 2))
    if rng.random() < 0.8:
        ss += [S("H9", "B", 300.0, 100.0, float(rng.randrange(2, 20) * 50)), S("C9", "B", 50.0, 250.0, float(rng.randrange(2, 20) * 50))]
    rng.shuffle(ss)
    return {"streams": ss, "utilities": P.gen_utilities(rng, ss, kind=rng.choice(["none", "none", "outside"])), "options": {}}


def gen_loop_heating_direction(rng):
    """The only hot-capable utility is a gliding loop ENTERED IN THE HEATING DIRECTION (t_supply is its cold end, t_target
    its hot end; type Hot or Both) whose band straddles the hottest shifted cold target: it cannot deliver the top of
    the demand, so the default hot utility is needed."""
    for _ in range(40):
        pr = c03.gen_util_problem(rng)
        lp = [u for u in pr["utilities"] if u["name"] == "LOOP" and u["type"] in ("Hot", "Both") and u["t_supply"] < u["t_target"]]
        if lp and not any(u["type"] == "Hot" and u["name"] != "LOOP" for u in pr["utilities"]):
            return pr
    return pr


def gen_double_match_site(rng):
    """A site whose steam header is declared twice on the generation side: a utility of type Both (used in one zone,
    raised in another) plus a separate Cold-type generation utility half a kelvin away, so that ONE hot utility level
    is matched by TWO cold utilities when generation and use at the same level are netted for the total-site record."""
    L = float(rng.randrange(14, 22) * 10)
    dt = 5.0
    S = lambda n, z, a, b, q: {"name": n, "zone": z, "t_supply": a, "t_target": b, "heat_flow": q, "dt_cont": dt, "htc": 1.0}
    U = lambda n, ty, a, b, pr: {"name": n, "type": ty, "t_supply": a, "t_target": b, "heat_flow": 0.0, "dt_cont": dt, "htc": 1.0, "price": pr}
    ss = [S("A_c1", "A", L - 40, L - 10, float(rng.randrange(3, 12) * 100)), S("A_h1", "A", L - 80, L - 120, float(rng.randrange(1, 5) * 100)),
          S("B_h1", "B", L + 120, L + 20, float(rng.randrange(3, 12) * 100)), S("B_c1", "B", L - 150, L - 100, float(rng.randrange(1, 4) * 100))]
    if rng.random() < 0.4:
        ss.append(S("C_h1", "C", L + 90, L + 30, float(rng.randrange(1, 6) * 100)))
    e = rng.choice([0.5, 0.25, 0.75])
    us = [U("HPS", "Hot", L + 220, L + 219, 30.0), U("LPS", "Both", L, L - 1, 10.0), U("LPG", "Cold", L - e, L - e + 1, 0.0),
          U("CW", "Cold", L - 165, L - 155, 1.0)]
    if rng.random() < 0.5:
        us[1], us[2] = us[2], us[1]
    return {"streams": ss, "utilities": us, "options": {}}


def run(ctx: Ctx):
    ctx.rule = ("the service on random stream sets x zone partitions x utility sets (none, isothermal, gliding, several levels): for "
                "EVERY record returned (direct integration of every zone, total-process sum, total-site) Qh - Qc = cold - hot duty of "
                "the zone's streams, Qr = hot duty - Qc, all three >= 0, and hot - cold utility duties = Qh - Qc; the site utility "
                "cascade (_get_site_utility_heat_cascade and the Qh/Qc read-out) compared with the Lean model on random utility "
                "systems. Non-trivial: a multi-zone problem (a total-site record exists).")
    corpus = load_corpus("C02")
    probs = [c["problem"] for c in corpus if c.get("kind") == "service"]
    probs += [c03.gen_util_problem(ctx.rng) for _ in range(ctx.n(300, 6000))]
    probs += [gen_balanced_threshold(ctx.rng) for _ in range(ctx.n(60, 1200))]
    probs += [gen_loop_heating_direction(ctx.rng) for _ in range(ctx.n(60, 600))]
    probs += [gen_double_match_site(ctx.rng) for _ in range(ctx.n(30, 400))]
    # fixed share: utilities whose optional input duty (heat_flow: existing plant duty, a pasted-back result) is filled in,
    # on sites with a threshold zone (one side without demand) - no record may inherit a number typed into the input
    for _ in range(ctx.n(40, 800)):
        pr = c03.gen_util_problem(ctx.rng) if ctx.rng.random() < 0.5 else gen_balanced_threshold(ctx.rng)
        if not pr["utilities"]:
            pr["utilities"] = P.gen_utilities(ctx.rng, pr["streams"], kind="ladder")
        for u in pr["utilities"]:
            u["heat_flow"] = ctx.rng.choice([None, float(ctx.rng.randrange(1, 40) * 100), float(ctx.rng.randrange(1, 40) * 100)])
        if ctx.rng.random() < 0.6:
            # an only-hot and an only-cold zone beside the rest: each leaves one side of the ladder unused
            hi = max(max(s["t_supply"], s["t_target"]) for s in pr["streams"]); lo = min(min(s["t_supply"], s["t_target"]) for s in pr["streams"])
            pr["streams"] += [{"name": "ZH", "zone": "OnlyHot", "t_supply": hi - 5.0, "t_target": lo + 20.0, "heat_flow": float(ctx.rng.randrange(2, 30) * 50), "dt_cont": 5.0, "htc": 1.0},
                              {"name": "ZC", "zone": "OnlyCold", "t_supply": lo + 5.0, "t_target": hi - 20.0, "heat_flow": float(ctx.rng.randrange(2, 30) * 50), "dt_cont": 5.0, "htc": 1.0}]
        ctx.dist["input_utility_duty_filled"] += 1
        probs.append(pr)
    for pr in probs:
        nz = len({s["zone"] for s in pr["streams"]})
        ctx.count({"kind": "service", "n_streams": len(pr["streams"]), "zones": sorted({s["zone"] for s in pr["streams"]}), "n_util": len(pr["utilities"])},
                  nz >= 2, ["service_problem", f"zones={nz}"])
        balance_oracle(ctx, pr)
    site_correspondence(ctx, None)


def replay(ctx: Ctx, payload: dict) -> int:
    case = payload.get("case") or (payload.get("disagreement") or {}).get("case")
    if not case:
        print("replay names a broken obligation only:", payload.get("broken")); return 1
    if case.get("kind") == "site":
        print("model:", run_driver([site_line(case["T"], case["hot"], case["cold"])])[0]); return 0
    c2 = Ctx(ctx.prop, "quick", 0)
    balance_oracle(c2, case["problem"])
    for f in c2.oracle_failures:
        print("property fails:", f["clause"], f["detail"], f["case"]["record"])
    return 1 if c2.oracle_failures else 0
