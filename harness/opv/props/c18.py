"""C18 — Solved heat-pump cycles obey the first and second laws."""
from __future__ import annotations

import math
import warnings

from ..core import Ctx, load_corpus, rs, parse_r, close
from ..lean import run_driver

FLUIDS = ["water", "ammonia", "R134a", "propane", "isobutane", "R1234yf", "CO2", "R32", "n-Butane", "R245fa"]


def fluid_range(name):
    import CoolProp.CoolProp as CP
    return CP.PropsSI("Ttriple", name) - 273.15, CP.PropsSI("Tcrit", name) - 273.15


_ALL = None


def all_fluids():
    """Every fluid of the property library with at least 30 K of two-phase range above -60 C (cryogens excluded:
    the cycle model works in degrees Celsius around ambient)."""
    global _ALL
    if _ALL is None:
        import CoolProp.CoolProp as CP
        out = []
        for f in sorted(CP.get_global_param_string("FluidsList").split(",")):
            try:
                lo, hi = fluid_range(f)
                lo = max(lo, CP.PropsSI("Tmin", f) - 273.15)
            except Exception:  # noqa: BLE001
                continue
            if (hi - 8.0) - max(lo + 5.0, -60.0) >= 30.0:
                out.append(f)
        _ALL = out
    return _ALL


def gen_case(rng):
    # half of the cases on the common refrigerants, half over the whole library (organic working fluids whose
    # liquid enthalpy is negative on the library's reference state, siloxanes, alcohols, blends)
    f = rng.choice(FLUIDS) if rng.random() < 0.5 else rng.choice(all_fluids())
    lo, hi = fluid_range(f)
    try:
        import CoolProp.CoolProp as CP
        lo = max(lo, CP.PropsSI("Tmin", f) - 273.15)
    except Exception:  # noqa: BLE001
        pass
    lo = max(lo + 5.0, -60.0); hi = hi - 8.0
    te = round(rng.uniform(lo, hi - 15.0), 1)
    tc = round(rng.uniform(te + 8.0, hi), 1)
    sh = rng.choice([0.0, 0.0, 5.0, 10.0]); sc = rng.choice([0.0, 0.0, 3.0, 8.0])
    if sc >= tc - te - 2:
        sc = 0.0
    order = rng.choice(["cond,evap", "evap,cond", "both", "evap,cond,evap", "cond,cond,evap"])
    return {"kind": "cycle", "fluid": f, "Te": te, "Tc": tc, "dT_sh": sh, "dT_sc": sc, "eta": rng.choice([1.0, 0.7, 0.85, 0.5]),
            "Q": rng.choice([1.0, 100.0, 2500.0]), "order": order}


def solve(case):
    import CoolProp
    from OpenPinch.classes.simple_heat_pump import SimpleHeatPumpCycle
    hp = SimpleHeatPumpCycle()
    with warnings.catch_warnings():
        warnings.simplefilter("ignore")
        hp.solve(case["Te"], case["Tc"], dT_sh=case["dT_sh"], dT_sc=case["dT_sc"], eta_comp=case["eta"], refrigerant=case["fluid"],
                 ihx_gas_dt=0.0, Q_h_total=case["Q"])
    return hp


def stream_sets(hp, order):
    """Request the stream sets in the given order; return the last condenser set and the last evaporator set seen."""
    cond = evap = None
    for req in order.split(","):
        if req == "cond":
            cond = hp.build_stream_collection(include_cond=True)
        elif req == "evap":
            evap = hp.build_stream_collection(include_evap=True)
        else:
            both = hp.build_stream_collection(include_cond=True, include_evap=True)
            cond = [s for s in both if s.name.startswith("Condenser")]
            evap = [s for s in both if s.name.startswith("Evaporator")]
    summary = lambda ss: [(s.name, float(s.t_supply), float(s.t_target), float(s.heat_flow)) for s in (ss or [])]
    return summary(sorted(cond or [], key=lambda s: s.name)), summary(sorted(evap or [], key=lambda s: s.name))


def oracle(case):
    import CoolProp.CoolProp as CP
    fails = []
    try:
        hp = solve(case)
    except Exception as e:  # noqa: BLE001
        # the property speaks of the cycles the library SOLVES; a state outside the property library's range
        # (e.g. water compressed from 17 to 355 C at efficiency 0.5: discharge above 2000 K) is not one of them
        case["_unsolved"] = f"{type(e).__name__}: {str(e)[:100]}"
        return [], None
    H, S, T, Pp = list(hp.Hs), list(hp.Ss), list(hp.Ts), list(hp.Ps)
    Qc, Qe, W = float(hp.Q_cond), float(hp.Q_evap), float(hp.work)
    rel = 1e-9 * max(1.0, abs(Qc))
    # the throttled fluid is already at / above the evaporator outlet enthalpy: nothing evaporates (q_evap clipped to 0)
    no_evap = "throttle_outlet_not_below_evaporator_outlet" if H[3] >= H[0] - 1e-6 * abs(H[0]) else None
    if abs(Qc - (Qe + W)) > rel:
        fails.append(("first_law", f"Q_cond {Qc} != Q_evap {Qe} + work {W}", no_evap))
    if not W > 0:
        fails.append(("positive_work", f"work {W}", None))
    if abs(Qc - case["Q"]) > rel:
        fails.append(("requested_duty", f"condenser duty {Qc}, requested {case['Q']}", None))
    if abs(hp.COP_h - (hp.COP_r + 1.0)) > 1e-9 * max(1.0, hp.COP_h):
        fails.append(("cop_relation", f"COP_h {hp.COP_h} vs COP_r + 1 = {hp.COP_r + 1.0}", no_evap))
    # blends carried as pseudo-pure fluids (R404A, R407C, R410A, R507A, SES36, Air): the library's two-phase states of
    # such a fluid are not mutually consistent (bubble and dew line coincide by construction)
    pseudo = "pseudo_pure_blend_two_phase" if CP.get_fluid_param_string(case["fluid"], "pure") == "false" else None
    if S[1] < S[0] - (1e-4 + 1e-8 * abs(S[0])):          # CoolProp's (p, s) -> h -> (h, p) round trip at eta = 1
        fails.append(("compression_entropy", f"s1 {S[1]} < s0 {S[0]}", pseudo))
    if S[3] < S[2] - (1e-4 + 1e-8 * abs(S[2])):
        fails.append(("throttling_entropy", f"s3 {S[3]} < s2 {S[2]}", pseudo))
    if abs(H[3] - H[2]) > 1e-6 * max(1.0, abs(H[2])):
        fails.append(("throttling_isenthalpic", f"h3 {H[3]} vs h2 {H[2]}", None))
    p_e = CP.PropsSI("P", "T", case["Te"] + 273.15, "Q", 1, case["fluid"]); p_c = CP.PropsSI("P", "T", case["Tc"] + 273.15, "Q", 1, case["fluid"])
    if abs(Pp[0] - p_e) > 1e-4 * p_e or abs(Pp[3] - p_e) > 1e-4 * p_e:
        fails.append(("evaporator_pressure", f"p0, p3 = {Pp[0]}, {Pp[3]}; psat(Te) = {p_e}", None))
    if abs(Pp[1] - p_c) > 1e-4 * p_c or abs(Pp[2] - p_c) > 1e-4 * p_c:
        fails.append(("condenser_pressure", f"p1, p2 = {Pp[1]}, {Pp[2]}; psat(Tc) = {p_c}", None))
    # stream sets
    try:
        cond, evap = stream_sets(hp, case["order"])
        ref_c, _ = stream_sets(solve(case), "cond")
        _, ref_e = stream_sets(solve(case), "evap")
    except Exception as e:  # noqa: BLE001
        fails.append(("stream_sets_total", f"build_stream_collection raised {type(e).__name__}: {str(e)[:140]}", None))
        return fails, hp
    tot_c = sum(q for *_, q in cond); tot_e = sum(q for *_, q in evap)
    if cond and abs(tot_c - Qc) > 1e-6 * max(1.0, Qc):
        fails.append(("condenser_streams_carry_duty", f"hot streams carry {tot_c}, condenser duty {Qc} (order {case['order']})", None))
    if evap and abs(tot_e - Qe) > 1e-6 * max(1.0, Qe):
        fails.append(("evaporator_streams_carry_duty", f"cold streams carry {tot_e}, evaporator duty {Qe} (order {case['order']})", no_evap))
    if any(not math.isfinite(q) for *_, q in cond + evap):
        fails.append(("stream_duties_finite", f"non-finite stream duty in {[(n, q) for n, *_, q in cond + evap if not math.isfinite(q)][:3]}", no_evap))
    for n, a, b, q in cond:
        if not b < a:
            fails.append(("hot_streams_cool", f"{n}: {a} -> {b}", None))
    for n, a, b, q in evap:
        if not b > a:
            fails.append(("cold_streams_heat", f"{n}: {a} -> {b}", no_evap))
    for (x, y) in zip(cond, cond[1:]):
        if y[1] > x[2] + 0.011:
            fails.append(("hot_profile_monotone", f"{y[0]} starts at {y[1]} above the end of {x[0]} at {x[2]}", None)); break
    for (x, y) in zip(evap, evap[1:]):
        if y[1] < x[2] - 0.011:
            fails.append(("cold_profile_monotone", f"{y[0]} starts at {y[1]} below the end of {x[0]} at {x[2]}", no_evap)); break
    same = lambda p, q: len(p) == len(q) and all(a[0] == b[0] and abs(a[1] - b[1]) < 1e-9 and abs(a[2] - b[2]) < 1e-9 and (abs(a[3] - b[3]) <= 1e-9 * max(1.0, abs(b[3])) or (a[3] != a[3] and b[3] != b[3])) for a, b in zip(p, q))
    if cond and not same(cond, ref_c):
        fails.append(("order_independent", f"condenser streams after requests '{case['order']}' differ from a lone request: {cond[:2]} vs {ref_c[:2]}", None))
    if evap and not same(evap, ref_e):
        fails.append(("order_independent", f"evaporator streams after requests '{case['order']}' differ from a lone request: {evap[:2]} vs {ref_e[:2]}", None))
    return fails, hp


def run(ctx: Ctx):
    ctx.rule = ("SimpleHeatPumpCycle.solve without internal heat exchanger on random (refrigerant: half from 10 common fluids, half from every fluid of the property library with a two-phase range above -60 C, evaporating / condensing "
                "temperature inside the two-phase range with lift >= 8 K, superheat 0-10, subcooling 0-8, compressor efficiency "
                "0.5-1, duty 1-2500): first law, positive work, COP_h = COP_r + 1, entropy non-decreasing in compression and "
                "throttling, isenthalpic throttling, saturation pressures (against CoolProp directly); the emitted stream sets carry "
                "exactly the condenser / evaporator duty, cool / heat monotonically, and are the same whatever the order of "
                "requests (cond,evap / evap,cond / both / repeated). The cycle bookkeeping (_get_metrics, stream duties) compared "
                "with the Lean model on the state enthalpies. Non-trivial: superheat or subcooling > 0.")
    corpus = load_corpus("C18")
    cases = [c for c in corpus if c.get("kind") == "cycle"] + [gen_case(ctx.rng) for _ in range(ctx.n(250, 4000))]
    lines, metas, slines, smetas = [], [], [], []
    for c in cases:
        fails, hp = oracle(c)
        ctx.count({"kind": "cycle", "fluid": c["fluid"], "Te": c["Te"], "Tc": c["Tc"], "order": c["order"]}, hp is not None and (c["dT_sh"] > 0 or c["dT_sc"] > 0),
                  ["fluid_" + c["fluid"], "order_" + c["order"]] + (["unsolved_by_library"] if hp is None else []))
        for clause, detail, cause in fails:
            ctx.oracle_fail(c, detail, cause, clause)
        if hp is not None and ctx.lean.driver_ok:
            H = list(hp.Hs)
            lines.append("hpmetrics " + " ".join(rs(v) for v in (H[0], H[1], H[2], H[3], c["Q"])))
            metas.append((c, hp))
            try:
                prof = [float(v) for v in hp._build_condenser_profile()[:, 0]]
                duties = [float(x.heat_flow) for x in sorted(hp.build_stream_collection(include_cond=True), key=lambda x: int(x.name.split("_")[1]))]
                if all(a >= b for a, b in zip(prof, prof[1:])) and prof[0] > prof[-1]:
                    slines.append("hpstreams " + rs(float(hp.Q_cond)) + " | " + " ".join(rs(v) for v in prof)); smetas.append((c, duties))
            except Exception:  # noqa: BLE001
                pass
    if lines:
        outs = run_driver(lines)
        for (c, hp), m in zip(metas, outs):
            if not m.startswith("ok"):
                ctx.disagree(c, None, m, "model raised"); continue
            toks = dict(t.split("=") for t in m.split()[1:])
            got = {"w": hp.w_net, "qe": hp.q_evap, "qc": hp._q_cond, "Qe": hp.Q_evap, "W": hp.work}
            bad = [k for k in got if not close(parse_r(toks[k]), float(got[k]), atol=1e-9, rtol=1e-9)]
            if bad:
                ctx.disagree(c, {k: float(got[k]) for k in bad}, m, "cycle metrics")
            else:
                ctx.traces_validated += 1
    if slines:
        outs = run_driver(slines)
        for (c, duties), m in zip(smetas, outs):
            md = [parse_r(v) for v in m.split()[1:]] if m.startswith("ok") else None
            # the implementation drops nothing: zero-width steps (saturated vapour = discharge) give zero-duty streams
            if md is None or len(md) != len(duties) or any(not close(a, b, atol=1e-9, rtol=1e-9) for a, b in zip(md, duties)):
                ctx.disagree(c, duties, m[:200], "condenser stream duties")
            else:
                ctx.traces_validated += 1


def replay(ctx: Ctx, payload: dict) -> int:
    case = payload.get("case") or (payload.get("disagreement") or {}).get("case")
    if not case:
        print("replay names a broken obligation only:", payload.get("broken")); return 1
    fails, _ = oracle(case)
    for f in fails:
        print("property fails:", f)
    return 1 if fails else 0
