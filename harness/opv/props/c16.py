"""C16 — All input channels describe the same problem identically."""
from __future__ import annotations

import csv
import json
import shutil
import tempfile
from pathlib import Path

from ..core import Ctx, load_corpus
from ..lean import run_driver
from .. import problems as P

FORBIDDEN = set(":/?*\\[]")


# --------------------------------------------------------------------------- sheet names

ALPH = ["A", "b", " ", "/", ":", "*", "?", "[", "]", "\\", "'", "-", "Z", "o", "n", "e", "1", "(", ")", "2"]


def gen_labels(rng):
    many = rng.random() < 0.2          # enough collisions on one stem to reach two- and three-digit suffixes
    n = rng.choice([11, 14, 23, 104]) if many and rng.random() < 0.97 else rng.randint(1, 9)
    if many and n == 104 and rng.random() < 0.8:
        n = 12
    base = "".join(rng.choice(ALPH) for _ in range(rng.choice([0, 3, 10, 26, 27, 28, 31, 33, 40])))
    out = []
    for _ in range(n):
        r = rng.random()
        if many and r < 0.9:
            out.append(base if r < 0.6 else base[:31] + rng.choice(["x", "y", "'", " ", ""]) * (len(base) >= 31))
        elif r < 0.45:
            out.append(base)                                   # collisions
        elif r < 0.6:
            out.append(base[:31] + rng.choice(["x", "y", "'", " "]))     # same 31-char prefix
        elif r < 0.7:
            out.append(base[:25] + " (2)")
        else:
            out.append("".join(rng.choice(ALPH) for _ in range(rng.randint(0, 36))))
    return {"kind": "sheet", "labels": out}


def impl_sheets(case):
    from OpenPinch.utils.export import _unique_sheet_name
    used = set()
    out = []
    for lab in case["labels"]:
        try:
            out.append(_unique_sheet_name(lab, used))
        except Exception as e:  # noqa: BLE001
            out.append(f"err {type(e).__name__}")
    return out


def sheet_oracle(case, names):
    fails = []
    good = [n for n in names if not n.startswith("err ")]
    if len(set(good)) != len(good):
        fails.append(("sheet_names_unique", f"{names}", None))
    for n in good:
        if len(n) > 31:
            fails.append(("sheet_name_len", f"{n!r} has {len(n)} characters", None)); break
        if set(n) & FORBIDDEN:
            fails.append(("sheet_name_chars", f"{n!r}", None)); break
        if n == "":
            fails.append(("sheet_name_nonempty", "empty name", None)); break
    if len(good) != len(names):
        fails.append(("sheet_name_allocated", f"{names}", None))
    return fails


def enc(s: str) -> str:
    return "".join(f"{ord(c):04x}" for c in s) or "-"


def sheet_line(case):
    return "sheets " + " ".join(enc(l) for l in case["labels"])


def dec(tok: str) -> str:
    return "" if tok == "-" else "".join(chr(int(tok[i:i + 4], 16)) for i in range(0, len(tok), 4))


# --------------------------------------------------------------------------- wrapper histories

def write_csv_bundle(problem, d: Path):
    """streams.csv / utilities.csv as the template has them: row 1 names, row 2 units, data from row 3."""
    d.mkdir(exist_ok=True)
    with (d / "streams.csv").open("w", newline="") as f:
        w = csv.writer(f)
        w.writerow(["Zone", "Name", "Supply T", "Target T", "Heat flow", "dT cont", "HTC", "Loc", "Index"])
        w.writerow(["", "", "degC", "degC", "kW", "degC", "kW/m2/K", "", ""])
        for s in problem["streams"]:
            w.writerow([s["zone"], s["name"], s["t_supply"], s["t_target"], s["heat_flow"], s["dt_cont"], s["htc"], "", ""])
    with (d / "utilities.csv").open("w", newline="") as f:
        w = csv.writer(f)
        w.writerow(["Name", "Type", "Supply T", "Target T", "dT cont", "Price", "HTC", "Heat flow"])
        w.writerow(["", "", "degC", "degC", "degC", "$/MWh", "kW/m2/K", "kW"])
        for u in problem["utilities"]:
            w.writerow([u["name"], u["type"], u["t_supply"], _cell(u["t_target"]), _cell(u["dt_cont"]), _cell(u["price"]), u["htc"], u["heat_flow"]])


FIXED_HISTORIES = [   # minimised witnesses of past defects, run first on every run (C16-stale-cache, C16-stale-project-name)
    ["load 0 m", "target", "load 1 m", "target"],
    ["load 0 f 0", "target", "load 1 m", "target", "load 0 p", "target", "load 1 f 2", "target", "target"],
]


def wrapper_history(ctx: Ctx, rng, problems, tmp: Path, script=None):
    """load / target histories on ONE PinchProblem versus the service; also fed to the model.

    Sources of a load: a validated model (`m`), a JSON file whose stem names the project (`f k` -> F<k>.json),
    a pair of CSV files (`p`).  What target() returns is identified by (which problem, which project name):
    the problem by the values of its records, the project by the root of the record names.  A file-less
    source has the default project name, whatever was loaded before."""
    from OpenPinch.classes.pinch_problem import PinchProblem
    from OpenPinch.lib.schema import TargetInput
    ops = []
    pp = PinchProblem()
    loaded = None
    outs = []
    fails = []
    vals = lambda res: [(t.name.split("/", 1)[1] if "/" in t.name else "", round(t.Qh, 6), round(t.Qc, 6), round(t.Qr, 6)) for t in res.targets]
    root = lambda res: sorted({t.name.split("/", 1)[0] for t in res.targets})
    ref = {}

    def ref_of(j):
        if j not in ref:
            out, _ = P.run_service(json.loads(json.dumps(problems[j])))
            ref[j] = vals(out)
        return ref[j]
    steps = script if script is not None else [None] * rng.randint(2, 7)
    for step in steps:
        if step is not None:
            tok = step.split()
            do_load = tok[0] == "load"
            i = int(tok[1]) if do_load else None
            r = {"m": 0.0, "f": 0.6, "p": 0.9}[tok[2]] if do_load else None
        else:
            do_load = loaded is None or rng.random() < 0.45
            i = rng.randrange(len(problems)) if do_load else None
            r = rng.random() if do_load else None
        if do_load:
            if r < 0.5:
                pp.load(TargetInput.model_validate(json.loads(json.dumps(problems[i]))))
                loaded = (i, "Untitled"); ops.append(f"load {i} m")
            elif r < 0.85:
                kf = int(tok[3]) if step is not None else rng.randrange(3)
                fp = tmp / f"F{kf}.json"
                fp.write_text(json.dumps(problems[i]))
                pp.load(fp)
                loaded = (i, f"F{kf}"); ops.append(f"load {i} f {kf}")
            else:
                d = tmp / f"csv{i}"
                write_csv_bundle(problems[i], d)
                pp.load((d / "streams.csv", d / "utilities.csv"))
                loaded = (i, "Untitled"); ops.append(f"load {i} p")
            outs.append("ok")
        else:
            res = pp.target()
            ops.append("target")
            got = vals(res)
            which = next((j for j in range(len(problems)) if ref_of(j) == got), None)
            mz = getattr(pp, "_master_zone", None)
            nm = getattr(mz, "name", None) or "?"           # the root zone is named after the project
            if not any(t.name.split("/", 1)[0] == nm for t in res.targets):
                nm = "?"
            outs.append(f"result {which} {'U' if nm == 'Untitled' else nm[1:] if nm[:1] == 'F' and nm[1:].isdigit() else '?'}")
            if got != ref_of(loaded[0]):
                fails.append(("target_returns_loaded_problem", f"history {ops}: target() returned the result of problem {which}, loaded is {loaded[0]}", "stale_result_cache"))
            elif nm != loaded[1]:
                fails.append(("target_names_loaded_project", f"history {ops}: records are named under project {nm!r}; the source loaded last gives {loaded[1]!r} "
                              "(what a fresh PinchProblem reports for it)", "stale_project_name"))
    return ops, outs, fails


# --------------------------------------------------------------------------- channels

def simple_problem(rng):
    pr = P.gen_problem(rng, with_tree=False, labels=rng.choice([["A"], ["A", "B"], ["Plant A", "Plant B"]]))
    for i, s in enumerate(pr["streams"]):
        s["name"] = f"Stream {i+1}"
    if pr["utilities"] and rng.random() < 0.5:
        # optional numbers of a utility left out: None in the dictionary channels, an empty cell in CSV / workbook
        for u in pr["utilities"]:
            for k in ("t_target", "dt_cont", "price"):
                if rng.random() < 0.5:
                    u[k] = {"value": None, "units": {"t_target": "degC", "dt_cont": "degC", "price": "$/MWh"}[k]}
    return pr


def _cell(x):
    """What goes into a CSV / workbook cell: nothing for an unspecified value-with-unit number."""
    return (x["value"] if isinstance(x, dict) else x)


def summary(out):
    d = {}
    for t in out.targets:
        nm = t.name.split("/", 1)[1] if "/" in t.name else t.name
        d.setdefault(nm, []).append((round(float(t.Qh), 5), round(float(t.Qc), 5), round(float(t.Qr), 5),
                                     tuple(sorted((u.name, round(float(u.heat_flow), 5)) for u in t.hot_utilities)),
                                     tuple(sorted((u.name, round(float(u.heat_flow), 5)) for u in t.cold_utilities))))
    return {k: sorted(v) for k, v in d.items()}


def channels(problem, tmp: Path):
    """Yield (channel name, TargetOutput or exception)."""
    from OpenPinch.main import pinch_analysis_service
    from OpenPinch.classes.pinch_problem import PinchProblem
    from OpenPinch.lib.schema import TargetInput
    res = {}

    def run(name, f):
        try:
            res[name] = f()
        except Exception as e:  # noqa: BLE001
            res[name] = e
    run("dict", lambda: pinch_analysis_service(json.loads(json.dumps(problem)), "Project"))
    run("model", lambda: pinch_analysis_service(TargetInput.model_validate(json.loads(json.dumps(problem))), "Project"))
    vu = json.loads(json.dumps(problem))
    units = {"t_supply": "degC", "t_target": "degC", "heat_flow": "kW", "dt_cont": "degC", "htc": "kW/m^2/K", "price": "$/MWh"}
    for rec in vu["streams"] + vu["utilities"]:
        for k, u in units.items():
            if k in rec and rec[k] is not None and not isinstance(rec[k], dict):
                rec[k] = {"value": rec[k], "units": u}
    run("value_with_unit", lambda: pinch_analysis_service(vu, "Project"))
    run("wrapper_from_json", lambda: PinchProblem.from_json(json.loads(json.dumps(problem))).target())
    # a dictionary whose lists hold already validated records, targeted repeatedly, and the same model object twice:
    # every run is the same problem (the caller's records must not have been rewritten by an earlier run)
    from OpenPinch.lib.schema import StreamSchema, UtilitySchema
    plain = json.loads(json.dumps(problem))
    recs = dict(plain)
    try:
        recs["streams"] = [StreamSchema.model_validate(x) for x in plain["streams"]]
        recs["utilities"] = [UtilitySchema.model_validate(x) for x in plain["utilities"]]
    except Exception as e:  # noqa: BLE001
        res["dict_of_records"] = e
    else:
        run("dict_of_records", lambda: pinch_analysis_service(recs, "Project"))
        run("dict_of_records_again", lambda: pinch_analysis_service(recs, "Project"))
        run("dict_of_records_wrapper", lambda: PinchProblem.from_json(recs).target())
    mdl = TargetInput.model_validate(json.loads(json.dumps(problem)))
    run("model_object_first", lambda: pinch_analysis_service(mdl, "Project"))
    run("model_object_again", lambda: pinch_analysis_service(mdl, "Project"))
    jp = tmp / "Project.json"
    jp.write_text(json.dumps(problem))
    run("json_file", lambda: PinchProblem(jp).target())
    d = tmp / "Project"
    write_csv_bundle(problem, d)
    def csv_dir():
        pp = PinchProblem(); pp.load(d); return pp.target()
    def csv_tuple():
        pp = PinchProblem(); pp.load((d / "streams.csv", d / "utilities.csv")); pp._project_name = "Project"; return pp.target()
    run("csv_directory", csv_dir)
    run("csv_pair", csv_tuple)
    # workbook with the template sheets
    def workbook():
        import pandas as pd
        xp = tmp / "Project.xlsx"
        srows = [["Zone", "Name", "Supply T", "Target T", "Heat flow", "dT cont", "HTC", "Loc", "Index"],
                 [None, None, "degC", "degC", "kW", "degC", "kW/m2/K", None, None]]
        srows += [[s["zone"], s["name"], s["t_supply"], s["t_target"], s["heat_flow"], s["dt_cont"], s["htc"], None, None] for s in problem["streams"]]
        urows = [["Name", "Type", "Supply T", "Target T", "dT cont", "Price", "HTC", "Heat flow"],
                 [None, None, "degC", "degC", "degC", "$/MWh", "kW/m2/K", "kW"]]
        urows += [[u["name"], u["type"], u["t_supply"], _cell(u["t_target"]), _cell(u["dt_cont"]), _cell(u["price"]), u["htc"], u["heat_flow"]] for u in problem["utilities"]]
        with pd.ExcelWriter(xp, engine="openpyxl") as wr:
            pd.DataFrame(srows).to_excel(wr, sheet_name="Stream Data", header=False, index=False)
            pd.DataFrame(urows).to_excel(wr, sheet_name="Utility Data", header=False, index=False)
        return PinchProblem(xp).target()
    run("workbook", workbook)
    return res


def channel_oracle(ctx: Ctx, problem):
    tmp = Path(tempfile.mkdtemp(prefix="opv_c16_"))
    try:
        res = channels(problem, tmp)
    finally:
        shutil.rmtree(tmp, ignore_errors=True)
    case = {"kind": "channels", "problem": problem}
    base = res["dict"]
    if isinstance(base, Exception):
        ctx.dist["dict_channel_raised"] += 1
        return
    want = summary(base)
    for name, r in res.items():
        ctx.dist["channel_" + name] += 1
        if isinstance(r, Exception):
            cause = "csv_applymap_removed" if name.startswith("csv") and "applymap" in str(r) else None
            ctx.oracle_fail(case, f"channel {name} raised {type(r).__name__}: {str(r)[:120]}", cause, "channel_total")
            continue
        got = summary(r)
        if got != want:
            k = next((k for k in want if got.get(k) != want[k]), None)
            ctx.oracle_fail(case, f"channel {name} differs from the dictionary channel on record {k!r}: {got.get(k)} vs {want.get(k)}", None, "channels_agree")


# --------------------------------------------------------------------------- run

def run(ctx: Ctx):
    ctx.rule = ("(a) _unique_sheet_name on random label lists (collisions, equal 31-character prefixes, forbidden characters, empty and "
                "whitespace labels, labels that look like generated suffixes) checked for uniqueness / length / characters and compared "
                "with the Lean model; (b) random load/target histories on PinchProblem over 2-3 problems compared with the service and "
                "with the Lean wrapper machine; (c) one logical problem through every channel (dict, validated model, value-with-unit, "
                "wrapper, JSON file, CSV directory, CSV pair, workbook) — targets and utility duties of every record must agree. "
                "Non-trivial: label list with a collision / history with a re-load / problem with utilities.")
    corpus = load_corpus("C16")
    scases = [c for c in corpus if c.get("kind") == "sheet"] + [gen_labels(ctx.rng) for _ in range(ctx.n(1500, 30000))]
    model = run_driver([sheet_line(c) for c in scases]) if ctx.lean.driver_ok else None
    for i, c in enumerate(scases):
        names = impl_sheets(c)
        ctx.count(c, len(set(c["labels"])) < len(c["labels"]), ["sheet_labels"])
        for clause, detail, cause in sheet_oracle(c, names):
            ctx.oracle_fail(c, detail, cause, clause)
        if model is not None:
            m = [dec(t) if not t.startswith("err") else t for t in model[i].split()[1:]] if model[i].startswith("ok") else model[i]
            if m != names:
                ctx.disagree(c, names, m, "sheet names")
            else:
                ctx.traces_validated += 1
    # wrapper histories
    hist_lines, hist_out = [], []
    scripts = list(FIXED_HISTORIES) + [None] * ctx.n(40, 600)
    for script in scripts:
        probs = [simple_problem(ctx.rng) for _ in range(ctx.rng.choice([2, 3]))]
        tmp = Path(tempfile.mkdtemp(prefix="opv_c16h_"))
        try:
            ops, outs, fails = wrapper_history(ctx, ctx.rng, probs, tmp, script)
        finally:
            shutil.rmtree(tmp, ignore_errors=True)
        for o in ops:
            if o.startswith("load"):
                ctx.dist["history_source_" + o.split()[2]] += 1
        case = {"kind": "history", "ops": ops, "problems": probs}
        ctx.count({"kind": "history", "ops": ops}, sum(1 for o in ops if o.startswith("load")) >= 2, ["wrapper_history"])
        for clause, detail, cause in fails:
            ctx.oracle_fail(case, detail, cause, clause)
        hist_lines.append("wrapper " + " | ".join(ops)); hist_out.append((case, outs))
    if ctx.lean.driver_ok and hist_lines:
        hm = run_driver(hist_lines)
        for (case, outs), m in zip(hist_out, hm):
            if m.split(" ; ") != outs:
                ctx.disagree(case, outs, m, "wrapper history")
            else:
                ctx.traces_validated += 1
    # channels
    for _ in range(ctx.n(25, 400)):
        pr = simple_problem(ctx.rng)
        ctx.count({"kind": "channels", "n_streams": len(pr["streams"]), "n_util": len(pr["utilities"])}, len(pr["utilities"]) > 0, ["channel_problem"])
        channel_oracle(ctx, pr)


def replay(ctx: Ctx, payload: dict) -> int:
    case = payload.get("case") or (payload.get("disagreement") or {}).get("case")
    if not case:
        print("replay names a broken obligation only:", payload.get("broken")); return 1
    if case["kind"] == "sheet":
        names = impl_sheets(case); print("impl:", names)
        fails = sheet_oracle(case, names)
        for f in fails:
            print("property fails:", f)
        return 1 if fails else 0
    if case["kind"] == "channels":
        c2 = Ctx(ctx.prop, "quick", 0)
        channel_oracle(c2, case["problem"])
        for f in c2.oracle_failures:
            print("property fails:", f["clause"], f["detail"])
        return 1 if c2.oracle_failures else 0
    print("history:", case["ops"])
    return 1
