"""C20 — Effectiveness-NTU and LMTD relations are mutually consistent."""
from __future__ import annotations

import math

from ..core import Ctx, close, load_corpus
from ..lean import run_driver

ARR = ["CF", "PF", "CrFUU", "CrFMM", "CrFMUmax", "CrFMUmin", "ShellTube", "CondEvap"]
CLOSED = ["CF", "PF", "CrFMUmax", "CrFMUmin", "ShellTube", "CondEvap"]      # closed-form inverse in the code


def label(arr, form):
    from OpenPinch.lib.enums import HeatExchangerTypes as HX
    m = getattr(HX, arr)
    return m if form == "enum" else m.value


def ref_eff(arr, N, c):
    """Textbook single-pass effectiveness (independent of the code's dispatch)."""
    if c == 0:
        return 1 - math.exp(-N)
    if arr == "CF":
        if c == 1:
            return N / (1 + N)
        e = math.exp(-N * (1 - c)); return (1 - e) / (1 - c * e)
    if arr == "PF":
        return (1 - math.exp(-N * (1 + c))) / (1 + c)
    if arr == "CrFMM":
        return 1 / (1 / (1 - math.exp(-N)) + c / (1 - math.exp(-N * c)) - 1 / N)
    if arr == "CrFMUmax":
        return 1 - math.exp(-(1 - math.exp(-N * c)) / c)
    if arr == "CrFMUmin":
        return (1 - math.exp(-c * (1 - math.exp(-N)))) / c
    if arr == "ShellTube":
        d = math.sqrt(1 + c * c)        # Incropera eq. 11.30a: one shell pass, 2, 4, ... tube passes
        return 2 / ((1 + c) + d * (math.exp(N * d) + 1) / (math.exp(N * d) - 1))
    if arr == "CondEvap":
        return 1 - math.exp(-N)
    return None      # CrFUU: series, no independent closed form here


def gen_case(rng):
    arr = rng.choice(ARR)
    form = rng.choice(["enum", "text"])
    N = rng.choice([0.05, 0.3, 0.75, 1.0, 2.0, 3.5, 5.0, 10.0, round(rng.uniform(0.01, 10), 3)])
    c = rng.choice([0.0, 0.1, 0.25, 0.5, 0.9, 1.0, round(rng.uniform(0, 1), 3)])
    P = rng.choice([1, 1, 1, 2, 3, 4])
    return {"kind": "entu", "arr": arr, "form": form, "N": N, "c": c, "P": P}


def impl_entu(case):
    from OpenPinch.utils.heat_exchanger import HX_Eff, HX_NTU
    lab = label(case["arr"], case["form"])
    out = {}
    try:
        out["eff"] = float(HX_Eff(lab, case["N"], case["c"], case["P"]))
    except Exception as e:  # noqa: BLE001
        out["eff"] = f"err {type(e).__name__}"
        return out
    try:
        out["ntu"] = float(HX_NTU(lab, out["eff"], case["c"], case["P"]))
    except Exception as e:  # noqa: BLE001
        out["ntu"] = f"err {type(e).__name__}"
        return out
    try:
        out["eff2"] = float(HX_Eff(lab, out["ntu"], case["c"], case["P"])) if out["ntu"] > 0 else None
    except Exception as e:  # noqa: BLE001
        out["eff2"] = f"err {type(e).__name__}"
    try:
        out["eff_hi"] = float(HX_Eff(lab, case["N"] * 1.25 + 0.01, case["c"], case["P"]))
        out["eff_cf"] = float(HX_Eff(label("CF", "text"), case["N"], case["c"], case["P"]))
    except Exception as e:  # noqa: BLE001
        out["eff_hi"] = f"err {type(e).__name__}"
    return out


def entu_oracle(case, o):
    fails = []
    arr, N, c, P = case["arr"], case["N"], case["c"], case["P"]
    czero = "capacity_ratio_zero" if c == 0 and arr in ("CrFMM", "CrFMUmax", "CrFMUmin") else None
    if isinstance(o["eff"], str):
        fails.append(("total_on_domain", f"HX_Eff raised {o['eff']}", czero)); return fails
    eff = o["eff"]
    if not (-1e-12 <= eff <= 1 + 1e-12):
        fails.append(("eff_in_unit_interval", f"eff={eff}", None))
    r = ref_eff(arr, N / P, c)
    if r is not None and P == 1 and abs(eff - r) > 1e-9:
        cause = "label_form_dispatch" if abs(eff - ref_eff("CF", N, c)) < 1e-12 and arr != "CF" else None
        if cause is None and arr == "ShellTube":
            cause = "shell_tube_fourth_root"
        fails.append(("arrangement_formula", f"eff={eff}, {arr} formula gives {r}", cause))
        return fails
    if c == 0 and P == 1 and abs(eff - (1 - math.exp(-N))) > 1e-9:
        fails.append(("eff_c0", f"eff={eff} vs 1-exp(-N)={1-math.exp(-N)}", None))
    if isinstance(o.get("eff_hi"), float) and o["eff_hi"] < eff - 1e-9:
        fails.append(("eff_mono_ntu", f"eff({N})={eff} > eff({N*1.25+0.01})={o['eff_hi']}",
                      "crossflow_both_mixed_not_monotone" if arr == "CrFMM" else ("crossflow_series_truncated" if arr == "CrFUU" else None)))
    if isinstance(o.get("eff_cf"), float) and eff > o["eff_cf"] + 1e-9 and not (arr == "CondEvap" and c != 0):
        # (a condensing / evaporating fluid has capacity ratio 0 by definition: compared at c = 0 only)
        fails.append(("eff_le_counterflow", f"eff={eff} > counter-flow {o['eff_cf']}",
                      "crossflow_series_truncated" if arr == "CrFUU" else ("shell_tube_fourth_root" if arr == "ShellTube" else None)))
    # round trips
    if isinstance(o.get("ntu"), str):
        fails.append(("total_on_domain", f"HX_NTU raised {o['ntu']}", czero)); return fails
    if 1e-9 < eff < 1 - 1e-9:
        ntu = o["ntu"]
        if ntu == -P or ntu < 0:
            fails.append(("roundtrip", f"HX_NTU returned the sentinel {ntu} for eff={eff}", "label_form_dispatch"))
            return fails
        tol = 3e-5 if arr in ("CrFUU", "CrFMM") else 1e-7
        if isinstance(o.get("eff2"), float) and abs(o["eff2"] - eff) > tol:
            fails.append(("roundtrip", f"eff -> NTU -> eff: {eff} -> {ntu} -> {o['eff2']}", None))
        if eff < 0.999 and arr in CLOSED and abs(ntu - N) > 1e-5 * (1 + N) / max(1e-3, 1 - eff):
            fails.append(("roundtrip", f"NTU -> eff -> NTU: {N} -> {eff} -> {ntu}", None))
    return fails


def gen_lmtd(rng):
    a = rng.choice([5.0, 10.0, 25.0, 0.5, 100.0, round(rng.uniform(0.1, 200), 3)])
    k = rng.choice(["eq", "near", "gen", "gen", "gen", "nonpos", "bothneg", "array"])
    if k == "bothneg":
        # both end differences non-positive (temperature cross at both ends): must be refused as well
        return {"kind": "lmtd", "a": -a, "b": -rng.choice([a, 2 * a, 0.5, 20.0])}
    if k == "array":
        n = rng.randint(2, 5)
        A = [rng.choice([5.0, 30.0, 12.0, 25.0]) for _ in range(n)]; B = [rng.choice([5.0, 30.0, 12.0, 25.0]) for _ in range(n)]
        j = rng.randrange(n)
        kind = rng.choice(["ok", "one", "both", "zero"])
        if kind == "one":
            A[j] = -A[j]
        elif kind == "both":
            A[j], B[j] = -A[j], -B[j]
        elif kind == "zero":
            B[j] = 0.0
        return {"kind": "lmtd", "a": A, "b": B}
    if k == "eq":
        b = a
    elif k == "near":
        b = a + rng.choice([1e-7, -1e-7, 5e-7, 2e-6, -3e-6])
    elif k == "nonpos":
        b = rng.choice([0.0, -1.0, 4e-7])
    else:
        b = rng.choice([5.0, 10.0, 25.0, 0.5, 100.0, round(rng.uniform(0.1, 200), 3)])
    return {"kind": "lmtd", "a": a, "b": b}


def impl_lmtd(case):
    from OpenPinch.utils.heat_exchanger import compute_LMTD_from_dts
    try:
        x = float(compute_LMTD_from_dts(case["a"], case["b"]))
        y = float(compute_LMTD_from_dts(case["b"], case["a"]))
        return x, y
    except ValueError:
        return "refused", "refused"
    except Exception as e:  # noqa: BLE001
        return f"err {type(e).__name__}", None


def impl_lmtd_arr(case):
    import numpy as np
    from OpenPinch.utils.heat_exchanger import compute_LMTD_from_dts
    try:
        return [float(v) for v in np.atleast_1d(compute_LMTD_from_dts(case["a"], case["b"]))]
    except ValueError:
        return "refused"
    except Exception as e:  # noqa: BLE001
        return f"err {type(e).__name__}"


def lmtd_oracle(case, res):
    a, b = case["a"], case["b"]
    fails = []
    if isinstance(a, list):
        pos = all(round(v, 6) > 0 for v in a + b)
        if not pos and res != "refused":
            fails.append(("lmtd_refuses_nonpositive", f"({a},{b}) -> {res}", None))
        elif pos and (not isinstance(res, list) or any(not (min(p, q) - 1e-9 <= v <= (p + q) / 2 + 1e-9) for v, p, q in zip(res, a, b))):
            fails.append(("lmtd_bounds", f"({a},{b}) -> {res}", None))
        return fails
    x, y = res
    if min(a, b) <= 0:
        if x != "refused":
            fails.append(("lmtd_refuses_nonpositive", f"({a},{b}) -> {x}", None))
        return fails
    if x == "refused":
        if round(min(a, b), 6) > 0:
            fails.append(("lmtd_defined_for_positive", f"({a},{b}) refused", None))
        return fails
    if isinstance(x, str):
        fails.append(("lmtd_total", f"({a},{b}) -> {x}", None)); return fails
    if not (min(a, b) - 1e-9 <= x <= (a + b) / 2 + 1e-9):
        fails.append(("lmtd_bounds", f"LMTD({a},{b})={x} not in [{min(a,b)}, {(a+b)/2}]", None))
    if abs(x - y) > 1e-9 * max(1, x):
        fails.append(("lmtd_symmetric", f"{x} vs {y}", None))
    return fails


def bits(tok):
    import struct
    return struct.unpack("<d", struct.pack("<Q", int(tok)))[0]


def entu_line(case):
    return f"entu {case['arr']} {case['form']} {case['N']!r} {case['c']!r} {case['P']}"


def run(ctx: Ctx):
    ctx.rule = ("HX_Eff / HX_NTU over all 8 arrangements x both label forms (enum member, its text) x NTU in (0,10] x c in [0,1] "
                "(including 0 and 1) x 1-4 passes: dispatch checked against independent textbook formulas, range, monotonicity in "
                "NTU, c=0 limit, <= counter-flow, both round trips; compute_LMTD_from_dts on positive pairs (equal, nearly equal, "
                "generic) and non-positive ones. Effectiveness and NTU compared with the Lean model's Float evaluation of the same "
                "formulas. Non-trivial: c in (0,1) and 0 < eff < 1.")
    corpus = load_corpus("C20")
    cases = [c for c in corpus if c["kind"] == "entu"]
    # the finite dispatch domain exhaustively, then random points
    for arr in ARR:
        for form in ("enum", "text"):
            for P in (1, 2):
                cases.append({"kind": "entu", "arr": arr, "form": form, "N": 2.0, "c": 0.5, "P": P})
    cases += [gen_case(ctx.rng) for _ in range(ctx.n(1500, 30000))]
    res = [impl_entu(c) for c in cases]
    model = run_driver([entu_line(c) for c in cases]) if ctx.lean.driver_ok and getattr(ctx, "use_model", True) else None
    for i, c in enumerate(cases):
        o = res[i]
        nt = 0 < c["c"] < 1 and isinstance(o["eff"], float) and 0 < o["eff"] < 1
        ctx.count(c, nt, [f"arr_{c['arr']}", f"form_{c['form']}", f"passes_{c['P']}"])
        for clause, detail, cause in entu_oracle(c, o):
            ctx.oracle_fail(c, detail, cause, clause)
        if model is not None and isinstance(o["eff"], float):
            toks = dict(t.split("=") for t in model[i].split()[1:]) if model[i].startswith("ok") else {}
            bad = None
            if model[i] == "ok-numeric":
                ctx.dist["model_numeric_not_compared"] += 1
                continue
            if not toks:
                bad = f"model {model[i]}"
            else:
                me = bits(toks["eff"])
                if abs(me - o["eff"]) > 1e-9 * max(1.0, abs(me)):
                    bad = f"eff impl {o['eff']} model {me}"
                elif isinstance(o.get("ntu"), float) and "ntu" in toks and toks["ntu"] != "numeric":
                    mn = bits(toks["ntu"])
                    if abs(mn - o["ntu"]) > 1e-7 * max(1.0, abs(mn)):
                        bad = f"ntu impl {o['ntu']} model {mn}"
            if bad:
                ctx.disagree(c, o, model[i], bad)
            else:
                ctx.traces_validated += 1
    lcases = [c for c in corpus if c["kind"] == "lmtd"] + [gen_lmtd(ctx.rng) for _ in range(ctx.n(800, 10000))]
    for c in lcases:
        r = impl_lmtd_arr(c) if isinstance(c["a"], list) else impl_lmtd(c)
        ctx.count(c, isinstance(r, list) or isinstance(r[0], float), ["lmtd_array" if isinstance(c["a"], list) else "lmtd"])
        for clause, detail, cause in lmtd_oracle(c, r):
            ctx.oracle_fail(c, detail, cause, clause)


def replay(ctx: Ctx, payload: dict) -> int:
    case = payload.get("case") or (payload.get("disagreement") or {}).get("case")
    if not case:
        print("replay names a broken obligation only:", payload.get("broken")); return 1
    if case["kind"] == "entu":
        o = impl_entu(case); print("impl:", o)
        fails = entu_oracle(case, o)
    else:
        r = impl_lmtd_arr(case) if isinstance(case["a"], list) else impl_lmtd(case); print("impl:", r)
        fails = lmtd_oracle(case, r)
    for f in fails:
        print("property fails:", f)
    return 1 if fails else 0
