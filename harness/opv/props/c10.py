"""C10 — Zone-tree construction conserves the streams."""
from __future__ import annotations

import warnings
from collections import Counter

from ..core import Ctx, load_corpus
from ..lean import run_driver
from .. import problems as P


# --------------------------------------------------------------------------- generators

LABEL_SETS = [
    ["A"], ["A", "B"], ["A", "B", "C"],
    ["A/X", "A/Y", "B"],
    ["A/X", "B/X", "C"],                    # same leaf name under two parents
    ["A/B", "B"],                           # a label that is a suffix of another
    ["A", "A/B"],                           # a label that is a prefix of another
    ["A/B/C", "B/C", "C"],                  # suffix chain
    ["O1", "A"],                            # label equal to a generated unit-operation name
    ["A/O1", "A"],
    ["O1/O1", "O1"],
    ["A", "A/O1", "A/O2"],                  # two consecutive generated names taken: the search must loop
    ["A/O2", "A", "A/O3", "A/O1", "A/O5"],
    ["A/B", "C/A/B", "B"],
    ["X/Y/Z/W", "Y/Z/W", "X"],
    ["A ", " A/ B", "A/B"],                 # stray blanks around components
]


def gen_case(rng):
    labels = list(rng.choice(LABEL_SETS))
    n = rng.randint(1, 8)
    streams = []
    for i in range(n):
        hot = rng.random() < 0.5
        t1 = float(rng.randrange(5, 40) * 10); span = float(rng.randrange(1, 12) * 10)
        ts, tt = (t1 + span, t1) if hot else (t1, t1 + span)
        name = f"S{i + 1}" if rng.random() > 0.3 else rng.choice(["S1", "H", "O1", labels[0].split("/")[0].strip()])
        streams.append({"name": name, "zone": rng.choice(labels), "t_supply": ts, "t_target": tt,
                        "heat_flow": float(rng.randrange(1, 90) * 100), "dt_cont": rng.choice([0.0, 5.0, 10.0]), "htc": 1.0})
    tree = None
    r = rng.random()
    if r < 0.35:
        tree = P.tree_from_labels([l for l in labels], root="Site")
        if rng.random() < 0.3:
            # a stream labelled with the root itself
            streams[rng.randrange(n)]["zone"] = "Site"
        parents = sorted({"/".join(l.split("/")[:k]).strip() for l in labels for k in range(1, len(l.split("/")))})
        if parents and n >= 2 and rng.random() < 0.4:
            # a stream placed on a zone that has sub-zones gets a generated zone named after it;
            # a LATER stream is labelled with the bare name of that generated zone
            a = rng.randrange(n - 1); b = rng.randrange(a + 1, n)
            streams[a]["zone"] = rng.choice(parents)
            streams[a]["name"] = f"S{a + 1}"
            streams[b]["zone"] = streams[a]["name"]
        if rng.random() < 0.3:
            # labels given relative to the root or with the root in front
            for s in streams:
                if rng.random() < 0.5 and s["zone"] != "Site":
                    s["zone"] = "Site/" + s["zone"]
    utilities = P.gen_utilities(rng, streams, kind=rng.choice(["none", "outside", "ladder"]))
    return {"kind": "prepare", "streams": streams, "utilities": utilities, "zone_tree": tree}


# --------------------------------------------------------------------------- implementation

def sig(name, ts, tt, q):
    return (str(name), round(float(ts), 6), round(float(tt), 6), round(abs(float(q)), 6))


def impl_prepare(case):
    """prepare_problem on validated schema objects → {zone path tuple: Counter of stream signatures}, utilities ids."""
    from OpenPinch.lib.schema import TargetInput
    from OpenPinch.analysis.data_preparation import prepare_problem
    d = {"streams": case["streams"], "utilities": case["utilities"], "options": {}}
    if case.get("zone_tree"):
        d["zone_tree"] = case["zone_tree"]
    with warnings.catch_warnings():
        warnings.simplefilter("ignore")
        inp = TargetInput.model_validate(d)
        master = prepare_problem(streams=inp.streams, utilities=inp.utilities, options=inp.options, project_name="Site", zone_tree=inp.zone_tree)
    zones = {}
    util_ids = []
    for path, z in P.walk(master):
        c = Counter()
        for s in list(z.hot_streams) + list(z.cold_streams):
            c[sig(s.name, s.t_supply, s.t_target, s.heat_flow)] += 1
        zones[path] = (c, len(z.subzones) == 0,
                       sum(float(s.heat_flow) for s in z.hot_streams), sum(float(s.heat_flow) for s in z.cold_streams))
        util_ids.append((path, [id(u) for u in list(z.hot_utilities) + list(z.cold_utilities)],
                         [(u.name, float(u.t_supply), float(u.t_target)) for u in list(z.hot_utilities) + list(z.cold_utilities)]))
    rewritten = [st.zone for st in inp.streams]
    return zones, util_ids, rewritten


# --------------------------------------------------------------------------- model tie

def hexs(t):
    return "-" if t == "" else "".join(f"{ord(c):04x}" for c in t)


def enc_path(p):
    return "." if not p else "/".join(hexs(c) for c in p)


def dec_path(t):
    if t == ".":
        return ()
    return tuple("" if c == "-" else "".join(chr(int(c[i:i + 4], 16)) for i in range(0, len(c), 4)) for c in t.split("/"))


def zones_line(case):
    """Labels split as _split_zone_name does, in the code's processing order (sorted by (zone, name), stable)."""
    order = sorted(range(len(case["streams"])), key=lambda i: (case["streams"][i]["zone"], case["streams"][i]["name"]))
    return order, "zones " + " ".join(enc_path(parts(case["streams"][i]["zone"])) for i in order)


def tree_line(case):
    """`treezones root | tree paths (pre-order) | label name | …` — labels split and stripped as the code does."""
    tree = case["zone_tree"]
    paths = _tree_paths(tree)
    toks = ["treezones", hexs(tree["name"]), "|"] + [enc_path(p) for p in paths]
    for st in case["streams"]:
        comps = [x.strip() for x in st["zone"].split("/") if x.strip()]
        toks += ["|", enc_path(comps), hexs(st["name"])]
    return " ".join(toks)


def compare_tree_model(case, mline, zones, rewritten):
    if not mline.startswith("ok"):
        return f"model: {mline}"
    g = mline[3:].split(" | ")
    mz = g[0].split()
    mp = [dec_path(t) for t in g[1].split()] if len(g) > 1 else []
    mc = (g[2].split(" ") if len(g) > 2 else [])
    for i, st in enumerate(case["streams"]):
        if mz[i] == "?":
            if rewritten[i] != st["zone"]:
                return f"stream {i}: model leaves the label {st['zone']!r}, impl rewrote it to {rewritten[i]!r}"
        elif tuple(rewritten[i].split("/")) != dec_path(mz[i]):
            return f"stream {i} ({st['name']}, label {st['zone']!r}): zone impl {rewritten[i]} model {'/'.join(dec_path(mz[i]))}"
    ip = sorted(zones)
    if ip != sorted(mp):
        return f"tree nodes differ: impl {ip} model {sorted(mp)}"
    for z, txt in zip(mp, mc):
        idx = [int(x) for x in txt.split(",") if x != ""]
        want = Counter(sig(*(case["streams"][k][f] for f in ("name", "t_supply", "t_target", "heat_flow"))) for k in idx)
        if want != zones[z][0]:
            return f"zone {'/'.join(z)}: impl holds {dict(zones[z][0])} model {dict(want)}"
    return None


def compare_model(case, order, mline, zones, rewritten):
    if not mline.startswith("ok"):
        return f"model: {mline}"
    g = mline[3:].split(" | ")
    mz = [dec_path(t) for t in g[0].split()]
    mp = [dec_path(t) for t in g[1].split()] if len(g) > 1 else []
    mc = (g[2].split(" ") if len(g) > 2 else [])
    for k, i in enumerate(order):
        got = tuple(rewritten[i].split("/"))[1:]
        if got != mz[k]:
            return f"stream {i} ({case['streams'][i]['name']}, label {case['streams'][i]['zone']!r}): zone impl {'/'.join(got)} model {'/'.join(mz[k])}"
    ip = sorted(p[1:] for p in zones if len(p) > 1)
    if ip != sorted(mp):
        return f"tree nodes differ: impl {ip} model {sorted(mp)}"
    for z, txt in zip([()] + mp, mc):
        idx = [int(x) for x in txt.split(",") if x != ""]
        want = Counter(sig(*(case["streams"][order[k]][f] for f in ("name", "t_supply", "t_target", "heat_flow"))) for k in idx)
        got = zones[("Site",) + z][0]
        if want != got:
            return f"zone {'/'.join(z) or '<root>'}: impl holds {dict(got)} model {dict(want)}"
    return None


# --------------------------------------------------------------------------- oracle

def parts(label):
    return [x.strip() for x in label.split("/") if x.strip()] if "/" in label else [label]


def resolve_in_tree(tree, label):
    """Path (root first) of the tree node a label names: the full path, the path below the root, or a unique suffix."""
    paths = []

    def rec(n, pre):
        p = pre + [n["name"]]
        paths.append(p)
        for c in n.get("children") or []:
            rec(c, p)
    rec(tree, [])
    comps = [x.strip() for x in label.split("/") if x.strip()]
    if comps in paths:
        return comps
    if [tree["name"]] + comps in paths:
        return [tree["name"]] + comps
    cand = [p for p in paths if len(p) >= len(comps) and p[-len(comps):] == comps]
    return cand[0] if len(cand) == 1 else None


def oracle(case, zones, util_ids):
    fails = []
    streams = [s for s in case["streams"] if s["zone"]]
    allsig = Counter(sig(s["name"], s["t_supply"], s["t_target"], s["heat_flow"]) for s in streams)
    root = next(p for p in zones if len(p) == 1)
    # expected home path (root first) of every stream, without the generated unit-operation leaf
    tree = case.get("zone_tree")
    homes = []
    for s in streams:
        if tree:
            h = resolve_in_tree(tree, s["zone"])
            if h is None:
                homes.append(None); continue
            homes.append(tuple(h))
        else:
            homes.append(tuple(["Site"] + parts(s["zone"])))
    gen_homes = {}
    if tree:
        # a label may also name a zone GENERATED for an earlier stream (placed on the root or on a zone with sub-zones):
        # unique path among tree nodes and generated zones that ends with the label, the generated zone already
        # holding a stream that comes earlier in the input
        tpaths = [tuple(x) for x in _tree_paths(tree)]
        gen = [q for q in zones if q not in tpaths]
        for b, (st, h) in enumerate(zip(streams, homes)):
            if h is not None:
                continue
            comps = tuple(x.strip() for x in st["zone"].split("/") if x.strip())
            if not comps:
                continue
            # generated zones that exist when stream b is processed: those holding a stream that comes earlier
            earlier = {sig(x["name"], x["t_supply"], x["t_target"], x["heat_flow"]) for x in streams[:b]}
            gen_b = [q for q in gen if any(k in earlier for k in zones[q][0])]
            # same order of resolution as for tree nodes: the full path, the path below the root, a unique suffix
            known = tpaths + gen_b
            if comps in known:
                hit = comps
            elif (tpaths[0][0],) + comps in known:
                hit = (tpaths[0][0],) + comps
            else:
                cand = [q for q in known if len(q) >= len(comps) and q[-len(comps):] == comps]
                hit = cand[0] if len(cand) == 1 else None
            if hit is not None and hit in gen_b:
                homes[b] = hit; gen_homes[b] = hit
    unresolved = [s for s, h in zip(streams, homes) if h is None]
    cause = None
    if tree:
        tp = [tuple(x) for x in _tree_paths(tree)]
        inner = [h for h in homes if h is not None and len(h) > 1 and any(len(q) == len(h) + 1 and q[:len(h)] == h for q in tp)]
        if inner:
            cause = "tree_inner_label_dropped"
    # (1) the root holds every labelled stream exactly once
    if zones[root][0] != allsig and not unresolved:
        miss = allsig - zones[root][0]; extra = zones[root][0] - allsig
        fails.append(("root_holds_all_once", f"root is missing {dict(miss)} and has extra {dict(extra)}", cause))
    # (2) every zone with children holds exactly the union of its children
    for p, (c, leaf, qh, qc) in zones.items():
        kids = [q for q in zones if len(q) == len(p) + 1 and q[:len(p)] == p]
        if kids:
            u = Counter()
            for q in kids:
                u += zones[q][0]
            if u != c:
                fails.append(("parent_is_union_of_children", f"zone {'/'.join(p)} holds {dict(c)}, its children together {dict(u)}", cause))
    # (3) every zone holds exactly the streams labelled into it (its own label or a label below it)
    for p, (c, leaf, qh, qc) in zones.items():
        if tree:
            want = Counter(sig(s["name"], s["t_supply"], s["t_target"], s["heat_flow"]) for s, h in zip(streams, homes)
                           if h is not None and h[:len(p)] == p)
            # a stream labelled with the root is moved into a process zone generated for it
            if p not in [tuple(x) for x in _tree_paths(tree)]:
                # a zone generated for a stream placed on the root or on a zone with sub-zones: exactly that one stream,
                # plus the later streams whose label names this generated zone
                named = Counter(sig(streams[b]["name"], streams[b]["t_supply"], streams[b]["t_target"], streams[b]["heat_flow"])
                                for b, q in gen_homes.items() if q == p)
                if sum(c.values()) != 1 + sum(named.values()) or (named - c):
                    fails.append(("leaf_holds_one_stream", f"generated zone {'/'.join(p)} holds {dict(c)}; labelled onto it later: {dict(named)}", cause))
                continue
        else:
            if leaf and len(p) >= 2 and p[:-1] in homes and p[-1].startswith("O") and p[-1][1:].isdigit() and p not in homes:
                # generated unit-operation leaf: exactly one stream, labelled with the parent
                if sum(c.values()) != 1:
                    fails.append(("leaf_holds_one_stream", f"unit-operation zone {'/'.join(p)} holds {dict(c)}", cause))
                else:
                    (k, _), = c.items()
                    own = Counter(sig(s["name"], s["t_supply"], s["t_target"], s["heat_flow"]) for s, h in zip(streams, homes) if h == p[:-1])
                    if k not in own:
                        fails.append(("leaf_stream_from_own_zone", f"unit-operation zone {'/'.join(p)} holds {k}, not labelled {'/'.join(p[1:-1])}", cause))
                continue
            want = Counter(sig(s["name"], s["t_supply"], s["t_target"], s["heat_flow"]) for s, h in zip(streams, homes) if h[:len(p)] == p)
        if want != c:
            fails.append(("zone_holds_its_labelled_streams", f"zone {'/'.join(p)} holds {dict(c)}; labelled into it: {dict(want)}", cause))
    # (4) duties
    for p, (c, leaf, qh, qc) in zones.items():
        pass
    # (5) independent utility copies with equal values
    seen = {}
    ref = None
    for p, ids, vals in util_ids:
        for i in ids:
            if i in seen:
                fails.append(("independent_utility_copies", f"zones {'/'.join(seen[i])} and {'/'.join(p)} share one utility object", None))
            seen[i] = p
        if ref is None:
            ref = sorted(vals)
        elif sorted(vals) != ref:
            fails.append(("every_zone_gets_every_utility", f"zone {'/'.join(p)} has utilities {sorted(vals)}, the root {ref}", None))
    return fails


def _tree_paths(tree):
    out = []

    def rec(n, pre):
        p = pre + [n["name"]]
        out.append(p)
        for c in n.get("children") or []:
            rec(c, p)
    rec(tree, [])
    return out


def run(ctx: Ctx):
    ctx.rule = ("prepare_problem on random label sets (flat, nested, suffix/prefix of one another, equal to generated unit-operation "
                "names, blanks, duplicate stream names) with and without a user zone tree: root holds every labelled stream once, "
                "every parent the union of its children, every zone exactly the streams labelled into it, generated leaves one "
                "stream each, utilities copied independently. Non-trivial: >= 2 label paths and >= 3 streams.")
    corpus = load_corpus("C10")
    cases = [c for c in corpus if c.get("kind") == "prepare"] + [gen_case(ctx.rng) for _ in range(ctx.n(600, 12000))]
    notree = [c for c in cases if not c.get("zone_tree")]
    lines = [zones_line(c) for c in notree]
    model = dict(zip(map(id, notree), run_driver([l for _, l in lines]))) if ctx.lean.driver_ok else {}
    orders = dict(zip(map(id, notree), [o for o, _ in lines]))
    # user-tree cases whose tree has a 'Site' root as the harness generates them (root name = project name)
    withtree = [c for c in cases if c.get("zone_tree")]
    tmodel = dict(zip(map(id, withtree), run_driver([tree_line(c) for c in withtree]))) if ctx.lean.driver_ok and withtree else {}
    for c in cases:
        labs = sorted({s["zone"] for s in c["streams"]})
        try:
            zones, uids, rewritten = impl_prepare(c)
        except Exception as e:  # noqa: BLE001
            ctx.count({"kind": "prepare", "labels": labs, "raised": type(e).__name__}, False, ["raised:" + type(e).__name__, "tree" if c.get("zone_tree") else "no_tree"])
            ctx.oracle_fail(c, f"prepare_problem raised {type(e).__name__}: {e}", None, "prepare_total")
            continue
        ctx.count({"kind": "prepare", "labels": labs, "n": len(c["streams"]), "tree": bool(c.get("zone_tree"))},
                  len(labs) >= 2 and len(c["streams"]) >= 3, ["tree" if c.get("zone_tree") else "no_tree", "labels=" + "|".join(labs)[:30]])
        for clause, detail, cause in oracle(c, zones, uids):
            ctx.oracle_fail(c, detail, cause, clause)
        if id(c) in tmodel:
            bad = compare_tree_model(c, tmodel[id(c)], zones, rewritten)
            if bad:
                ctx.disagree(c, None, tmodel[id(c)][:200], bad)
            else:
                ctx.traces_validated += 1
        if id(c) in model:
            bad = compare_model(c, orders[id(c)], model[id(c)], zones, rewritten)
            if bad:
                ctx.disagree(c, None, model[id(c)][:200], bad)
            else:
                ctx.traces_validated += 1


def replay(ctx: Ctx, payload: dict) -> int:
    case = payload.get("case") or (payload.get("disagreement") or {}).get("case")
    if not case:
        print("replay names a broken obligation only:", payload.get("broken")); return 1
    zones, uids, rewritten = impl_prepare(case)
    fails = oracle(case, zones, uids)
    if ctx.lean.driver_ok and not case.get("zone_tree"):
        order, line = zones_line(case)
        bad = compare_model(case, order, run_driver([line])[0], zones, rewritten)
        if bad:
            print("model and implementation differ:", bad)
    for f in fails:
        print("property fails:", f)
    return 1 if fails else 0
