"""C19 — Stream and stream-collection objects stay consistent under any use."""
from __future__ import annotations

from fractions import Fraction

from ..core import Ctx, close, frac, rs, parse_r, load_corpus
from ..lean import run_driver

TRUSTED_EXTRA = ["modelled, not verified: Python dict ordering and `sorted` stability (the model uses List.mergeSort)"]

TEMPS = [20.0, 50.0, 50.5, 80.0, 100.0, 100.5, 120.0, 150.25, 200.0, -10.0, 0.0]
QS = [0.0, 500.0, -300.0, 1200.5, 1.0, 2500.0]
DTS = [0.0, 5.0, 2.5, 10.0, 0.5]
HTCS = [1.0, 2.0, 0.5, 0.0, -1.0, 4.0]


# --------------------------------------------------------------------------- streams

def gen_stream_case(rng, degenerate_ok: bool):
    ts = rng.choice(TEMPS + [None] if rng.random() < 0.1 else TEMPS)
    tt = rng.choice(TEMPS + [None] if rng.random() < 0.1 else TEMPS)
    if rng.random() < 0.15 and ts is not None:
        tt = ts
    dt = rng.choice(DTS)
    q = rng.choice(QS)
    htc = rng.choice(HTCS)
    price = rng.choice([0.0, 40.0, 12.5])
    ops = []
    for _ in range(rng.randint(0, 8)):
        k = rng.choice(["ts", "tt", "dt", "q", "htc", "shf", "ts", "tt"])
        if k in ("ts", "tt"):
            v = rng.choice(TEMPS)
        elif k == "dt":
            v = rng.choice(DTS)
        elif k in ("q", "shf"):
            v = rng.choice(QS)
        else:
            v = rng.choice(HTCS)
        ops.append((k, v))
    return {"kind": "stream", "init": [ts, tt, dt, q, htc, price], "ops": ops}


def stream_line(case) -> str:
    ts, tt, dt, q, htc, price = case["init"]
    head = " ".join(["none" if ts is None else rs(ts), "none" if tt is None else rs(tt), rs(dt), rs(q), rs(htc), rs(price)])
    return "stream " + head + "".join(f" | {k} {rs(v)}" for k, v in case["ops"])


ATTRS = [("ts", "t_supply"), ("tt", "t_target"), ("dt", "dt_cont"), ("q", "heat_flow"), ("htc", "htc"),
         ("htr", "htr"), ("cp", "CP"), ("rcp", "rCP"), ("ut", "ut_cost"), ("tmin", "t_min"), ("tmax", "t_max"),
         ("tmins", "t_min_star"), ("tmaxs", "t_max_star")]
SETTER = {"ts": "t_supply", "tt": "t_target", "dt": "dt_cont", "q": "heat_flow", "htc": "htc"}


def impl_stream(case):
    """Run the history on the real class. Returns (status, failing index, object)."""
    from OpenPinch.classes.stream import Stream
    ts, tt, dt, q, htc, price = case["init"]
    s = None
    try:
        s = Stream("S", ts, tt, dt_cont=dt, heat_flow=q, htc=htc, price=price)
    except Exception as e:  # noqa: BLE001
        return type(e).__name__, 0, None
    for i, (k, v) in enumerate(case["ops"], start=1):
        try:
            if k == "shf":
                s.set_heat_flow(v)
            else:
                setattr(s, SETTER[k], v)
        except Exception as e:  # noqa: BLE001
            return type(e).__name__, i, s
    return "ok", None, s


def obs(s) -> dict:
    d = {"type": s.type if s.type is not None else "None"}
    for short, attr in ATTRS:
        try:
            d[short] = getattr(s, attr)
        except AttributeError:
            d[short] = None
    return d


def parse_model_stream(out: str):
    toks = out.split()
    if toks[0] == "ok":
        status, idx, rest = "ok", None, toks[1:]
    elif toks[0] == "err":
        status, idx, rest = toks[1], int(toks[3]), toks[4:]
    else:
        return out, None, {}
    d = {}
    for t in rest:
        k, v = t.split("=", 1)
        d[k] = v if k == "type" else parse_r(v)
    return status, idx, d


def stream_oracle(case, s):
    """Property text, clause by clause, on the public attributes. Returns list of (clause, detail, cause)."""
    fails = []
    o = obs(s)
    if o["tmin"] is None or o["tmax"] is None or o["cp"] is None:
        return fails
    span = frac(o["tmax"]) - frac(o["tmin"])
    q = o["q"]
    scale = max(1.0, abs(q))
    degenerate = (o["ts"] is not None and o["ts"] == o["tt"])
    cause = "degenerate_zero_span_zero_duty" if degenerate else None
    if abs(float(frac(o["cp"]) * span) - q) > 1e-9 * scale:
        fails.append(("cp_times_span", f"CP*span={float(frac(o['cp'])*span)} duty={q}", cause))
    if o["tmin"] > o["tmax"]:
        fails.append(("tmin_le_tmax", f"t_min={o['tmin']} > t_max={o['tmax']}", cause))
    if o["type"] in ("Hot", "Cold") and o["tmins"] is not None:
        sgn = -1 if o["type"] == "Hot" else 1
        exp_lo = o["tmin"] + sgn * o["dt"]
        exp_hi = o["tmax"] + sgn * o["dt"]
        if abs(o["tmins"] - exp_lo) > 1e-9 or abs(o["tmaxs"] - exp_hi) > 1e-9:
            c2 = cause
            if c2 is None:
                # orientation of the current temperatures disagrees with the fixed kind?
                flipped = (o["type"] == "Hot" and o["ts"] < o["tt"]) or (o["type"] == "Cold" and o["ts"] > o["tt"])
                c2 = "kind_fixed_at_first_classification" if flipped else None
            fails.append(("shift_direction", f"type={o['type']} dt={o['dt']} t_min={o['tmin']} t_min*={o['tmins']} t_max={o['tmax']} t_max*={o['tmaxs']}", c2))
    if o["htc"] not in (0, 0.0, None):
        if abs(o["htr"] * o["htc"] - 1.0) > 1e-9:
            fails.append(("htr_reciprocal", f"htc={o['htc']} htr={o['htr']}", cause))
    return fails


# --------------------------------------------------------------------------- collections

NAMES = ["a", "b", "a_1", "a_2", "c", "a_1_1", "b_1"]
CT = [10.0, 20.0, 30.0, 30.0, 50.0]
CT2 = [15.0, 25.0, 35.0, 35.0, 45.0]
KEYS = ["ts", "tt", "ttTs", "tsTt"]


def gen_coll_case(rng):
    nobj = rng.randint(1, 7)
    objs = [(i, rng.choice(NAMES), rng.choice(CT), rng.choice(CT2)) for i in range(1, nobj + 1)]
    ops = []
    colls = ["A", "B"]
    for _ in range(rng.randint(3, 14)):
        r = rng.random()
        c = rng.choice(colls)
        if r < 0.30:
            key = "-" if rng.random() < 0.6 else rng.choice(NAMES)
            ops.append(["add", c, str(rng.randint(1, nobj)), key, "1" if rng.random() < 0.85 else "0"])
        elif r < 0.38:
            ids = [str(rng.randint(1, nobj)) for _ in range(rng.randint(0, 4))]
            ops.append(["addmany", c, "1" if rng.random() < 0.85 else "0"] + ids)
        elif r < 0.46:
            ops.append(["remove", c, rng.choice(NAMES)])
        elif r < 0.50:
            ids = [str(rng.randint(1, nobj)) for _ in range(rng.randint(0, 4))]
            ops.append(["replace", c] + ids)
        elif r < 0.60:
            ops.append(["sortkey", c, rng.choice(KEYS), rng.choice(["0", "1"])])
        elif r < 0.75:
            ops.append(["iter", c])
        elif r < 0.80:
            ops.append(["len", c])
        elif r < 0.85:
            ops.append(["index", c, str(rng.randint(1, nobj))])
        elif r < 0.89:
            ops.append(["geti", c, str(rng.randint(-4, 4))])
        elif r < 0.92:
            ops.append(["gets", c, rng.choice(NAMES)])
        elif r < 0.95:
            ops.append(["has", c, rng.choice(NAMES)])
        else:
            ops.append(["concat", rng.choice(colls), rng.choice(colls), rng.choice(colls + ["C"])])
            if "C" not in colls:
                colls.append("C")
    if rng.random() < 0.4:
        # cache filled, then only the sort key changes, then read again (no add/remove in between)
        c = rng.choice(colls)
        ops += [["iter", c], ["sortkey", c, rng.choice(KEYS), rng.choice(["0", "1"])], rng.choice([["iter", c], ["geti", c, "0"], ["index", c, "1"]]), ["iter", c]]
    ops.append(["keys", "A"]); ops.append(["iter", "A"]); ops.append(["len", "A"])
    ops.append(["keys", "B"]); ops.append(["iter", "B"])
    return {"kind": "coll", "objs": objs, "ops": ops}


def coll_line(case) -> str:
    head = " ".join(f"{i}:{n}:{rs(ts)}:{rs(tt)}" for i, n, ts, tt in case["objs"])
    return "coll " + head + "".join(" | " + " ".join(op) for op in case["ops"])


SORTKEYS = {"ts": "t_supply", "tt": "t_target", "ttTs": ["t_target", "t_supply"], "tsTt": ["t_supply", "t_target"]}


def impl_coll(case):
    """Run on the real class; also evaluates the property oracle step by step against an
    independent reference (a list of (key, object) pairs maintained from the abstract spec)."""
    from OpenPinch.classes.stream import Stream
    from OpenPinch.classes.stream_collection import StreamCollection
    objs = {i: Stream(n, ts, tt, heat_flow=1.0) for i, n, ts, tt in case["objs"]}
    ident = {id(o): i for i, o in objs.items()}
    colls: dict[str, StreamCollection] = {}
    keyspec: dict[str, tuple] = {}
    outs, fails = [], []

    def C(n):
        if n not in colls:
            colls[n] = StreamCollection()
            keyspec[n] = ("ts", True)
        return colls[n]

    def members(c):
        return [ident[id(s)] for s in c]

    def check_iter(n, c, step):
        ids = members(c)
        if len(ids) != len(c):
            fails.append(("len_counts_members", f"step {step}: len={len(c)} iterated={len(ids)}"))
        held = sorted(ident[id(v)] for v in c._streams.values())
        if sorted(ids) != held:
            fails.append(("iter_exactly_members", f"step {step}: iterated {ids} held {held}"))
        k, rev = keyspec[n]
        attr = SORTKEYS[k]
        def keyf(i):
            o = objs[i]
            return tuple(getattr(o, a) for a in attr) if isinstance(attr, list) else getattr(o, attr)
        ks = [keyf(i) for i in ids]
        ok = all((ks[j] >= ks[j + 1]) if rev else (ks[j] <= ks[j + 1]) for j in range(len(ks) - 1))
        if not ok:
            fails.append(("iter_sorted", f"step {step}: order {ids} keys {ks} rev={rev}"))
        return ids

    for step, op in enumerate(case["ops"]):
        try:
            if op[0] == "add":
                c = C(op[1]); o = objs[int(op[2])]
                before = sorted(ident[id(v)] for v in c._streams.values()); n0 = len(c)
                c.add(o, None if op[3] == "-" else op[3], op[4] == "1")
                after = sorted(ident[id(v)] for v in c._streams.values())
                if op[4] == "1":
                    if len(c) != n0 + 1 or after != sorted(before + [int(op[2])]):
                        fails.append(("add_never_loses", f"step {step}: before {before} after {after}"))
                outs.append("ok")
            elif op[0] == "addmany":
                c = C(op[1]); ids = [int(x) for x in op[3:]]
                before = sorted(ident[id(v)] for v in c._streams.values())
                c.add_many([objs[i] for i in ids], prevent_overwrite=op[2] == "1")
                after = sorted(ident[id(v)] for v in c._streams.values())
                if op[2] == "1" and after != sorted(before + ids):
                    fails.append(("add_never_loses", f"step {step}: add_many before {before} after {after}"))
                outs.append("ok")
            elif op[0] == "remove":
                C(op[1]).remove(op[2]); outs.append("ok")
            elif op[0] == "replace":
                C(op[1]).replace({f"k{j}": objs[int(x)] for j, x in enumerate(op[2:])}); outs.append("ok")
            elif op[0] == "sortkey":
                C(op[1]).set_sort_key(SORTKEYS[op[2]], reverse=op[3] == "1")
                keyspec[op[1]] = (op[2], op[3] == "1"); outs.append("ok")
            elif op[0] == "iter":
                c = C(op[1]); ids = check_iter(op[1], c, step)
                outs.append("[" + ",".join(map(str, ids)) + "]")
            elif op[0] == "len":
                outs.append(str(len(C(op[1]))))
            elif op[0] == "keys":
                outs.append("[" + ",".join(C(op[1])._streams.keys()) + "]")
            elif op[0] == "index":
                outs.append(str(C(op[1]).get_index(objs[int(op[2])])))
            elif op[0] == "geti":
                outs.append(str(ident[id(C(op[1])[int(op[2])])]))
            elif op[0] == "gets":
                outs.append(str(ident[id(C(op[1])[op[2]])]))
            elif op[0] == "has":
                outs.append("1" if op[2] in C(op[1]) else "0")
            elif op[0] == "concat":
                a, b = C(op[1]), C(op[2])
                d = a + b
                want = sorted([ident[id(v)] for v in a._streams.values()] + [ident[id(v)] for v in b._streams.values()])
                got = sorted(ident[id(v)] for v in d._streams.values())
                if got != want or len(d) != len(a) + len(b):
                    fails.append(("concat_holds_all", f"step {step}: want {want} got {got}"))
                colls[op[3]] = d; keyspec[op[3]] = ("ts", True); outs.append("ok")
        except Exception as e:  # noqa: BLE001
            outs.append(f"err {type(e).__name__}")
    return outs, fails


# --------------------------------------------------------------------------- run

def run(ctx: Ctx):
    ctx.rule = ("random histories: Stream constructor + 0-8 setter calls over a small value grid (ties, equal temperatures, zero duty, "
                "zero/negative htc); StreamCollection histories of 3-19 operations over two or three collections and 1-7 objects with "
                "clashing names. Non-trivial: at least one op after construction and (streams) a re-orientation or isothermal step, "
                "(collections) a key clash or a sort-key change.")
    n_s = ctx.n(1500, 30000)
    n_c = ctx.n(800, 12000)
    corpus = load_corpus("C19")
    for c in corpus:
        c["ops"] = [tuple(o) if c["kind"] == "stream" else o for o in c["ops"]]
    cases = [c for c in corpus if c["kind"] == "stream"] + [gen_stream_case(ctx.rng, True) for _ in range(n_s)]
    n_s = len(cases)
    lines = [stream_line(c) for c in cases]
    ccases = [c for c in corpus if c["kind"] == "coll"] + [gen_coll_case(ctx.rng) for _ in range(n_c)]
    clines = [coll_line(c) for c in ccases]
    model = run_driver(lines + clines) if ctx.lean.driver_ok else None

    for i, case in enumerate(cases):
        status, idx, s = impl_stream(case)
        ts, tt = case["init"][0], case["init"][1]
        tags = ["stream", f"stream_ops={len(case['ops'])}", f"stream_status={status}"]
        nontriv = len(case["ops"]) > 0 and any(k in ("ts", "tt") for k, _ in case["ops"])
        ctx.count(case, nontriv, tags)
        if s is not None and status == "ok":
            for clause, detail, cause in stream_oracle(case, s):
                ctx.oracle_fail(case, detail, cause, clause)
        if model is not None:
            mstatus, midx, md = parse_model_stream(model[i])
            o = obs(s) if s is not None else {}
            bad = None
            if mstatus != status or midx != idx:
                bad = f"status impl={status}@{idx} model={mstatus}@{midx}"
            elif s is not None:
                if md.get("type") != o["type"]:
                    bad = f"type impl={o['type']} model={md.get('type')}"
                for short, _ in ATTRS:
                    if not close(md.get(short), o[short]):
                        bad = f"{short} impl={o[short]} model={md.get(short)}"
                        break
                    if md.get(short) is not None:
                        ctx.err(md[short], o[short])
            if bad:
                ctx.disagree(case, {"status": status, "at": idx, **({k: v for k, v in o.items()})}, model[i], bad)
            else:
                ctx.traces_validated += 1

    for j, case in enumerate(ccases):
        outs, fails = impl_coll(case)
        clash = any(op[0] in ("add", "addmany", "concat") for op in case["ops"])
        ctx.count(case, clash and len({o[1] for o in case["objs"]}) < len(case["objs"]), ["coll", f"coll_ops={len(case['ops'])}"])
        for clause, detail in fails:
            ctx.oracle_fail(case, detail, None, clause)
        if model is not None:
            m = model[n_s + j].split(" ; ")
            if m != outs:
                k = next((t for t in range(min(len(m), len(outs))) if m[t] != outs[t]), None)
                ctx.disagree(case, outs, m, f"first difference at op {k}: {case['ops'][k] if k is not None else '?'}")
            else:
                ctx.traces_validated += 1


def replay(ctx: Ctx, payload: dict) -> int:
    case = payload.get("case") or (payload.get("disagreement") or {}).get("case")
    if not case:
        print("replay file names a broken obligation only:", payload.get("broken"))
        return 1
    if case["kind"] == "stream":
        status, idx, s = impl_stream(case)
        print("impl:", status, idx, obs(s) if s is not None else None)
        if ctx.lean.driver_ok:
            print("model:", run_driver([stream_line(case)])[0])
        fails = stream_oracle(case, s) if s is not None and status == "ok" else []
    else:
        outs, fails = impl_coll(case)
        print("impl:", outs)
        if ctx.lean.driver_ok:
            print("model:", run_driver([coll_line(case)])[0])
    for f in fails:
        print("property fails:", f)
    return 1 if fails else 0
