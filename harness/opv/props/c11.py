"""C11 — Analysis is a pure function of its input."""
from __future__ import annotations

import json
import os
import subprocess
import tempfile
from concurrent.futures import ThreadPoolExecutor
from pathlib import Path

from ..core import Ctx, load_corpus
from ..lean import run_driver
from .. import problems as P

HERE = Path(__file__).resolve().parents[1]
REPO = os.environ.get("OPENPINCH_REPO", "/repo")
KINDS = ["svc_dict", "svc_dict", "svc_model", "svc_same_model", "pp", "pp_file", "svc_dict_of_models"]


def run_worker(problems, ops):
    with tempfile.NamedTemporaryFile("w", suffix=".json", delete=False) as f:
        json.dump({"problems": problems, "ops": ops}, f)
        path = f.name
    try:
        p = subprocess.run(["/venv/bin/python", str(HERE / "c11worker.py"), REPO, path], capture_output=True, text=True, timeout=900)
        if p.returncode != 0:
            raise RuntimeError("worker failed: " + p.stderr[-500:])
        return json.loads(p.stdout.strip().splitlines()[-1])
    finally:
        os.unlink(path)


def gen_pool(rng, m):
    """Problems with different zone names (so that a leaked graph set is visible) and some with utilities."""
    pool = []
    sets = [["A"], ["A", "B"], ["X", "Y"], ["A/U", "A/V"], ["Q"], ["B", "C", "D"]]
    for k in range(m):
        pr = P.gen_problem(rng, labels=sets[k % len(sets)], with_tree=(rng.random() < 0.2),
                           util_kind=rng.choice(["none", "ladder", "outside", "mixed"]))
        if k % 3 == 2 or rng.random() < 0.25:
            # a user tree with generic node types, and streams placed on the root or on a zone that has sub-zones
            labs = sets[k % len(sets)]
            pr["zone_tree"] = P.tree_from_labels(labs, root="Works")

            def retag(n, depth=0):
                n["type"] = rng.choice(["Zone", "Zone", "Sub-Zone", "Process Zone"]) if depth else rng.choice(["Site", "Zone"])
                for c in n.get("children") or []:
                    retag(c, depth + 1)
            retag(pr["zone_tree"])
            inner = ["Works"] + sorted({l.split("/")[0] for l in labs if "/" in l})
            for s in pr["streams"]:
                if rng.random() < 0.35:
                    s["zone"] = rng.choice(inner)
        if rng.random() < 0.3:
            # option values that the preparation step normalises (clamps) before use, and a few ordinary switches
            pr["options"] = dict(rng.sample([("DT_CONT", -2.0), ("DT_PHASE_CHANGE", 0.0), ("ANNUAL_OP_TIME", 0), ("DT_CONT", 10.0),
                                             ("DO_BALANCED_CC", True), ("DO_TURBINE_WORK", True), ("P_TURBINE_BOX", 300.0),
                                             ("DT_PHASE_CHANGE", -1.0), ("DO_VERTICAL_GCC", True)], k=rng.choice([1, 2, 3])))
        pool.append(pr)
    # always present: an analysis whose options are clamped by the preparation step, and a plain problem that needs the
    # generated default utilities (no DT_CONT option, no utilities): a write to shared state shows in the second one
    a = P.gen_problem(rng, labels=["N"], with_tree=False, util_kind="none")
    a["options"] = {"DT_CONT": -2.0, "DT_PHASE_CHANGE": rng.choice([0.0, -1.0, 0.1])}
    b = P.gen_problem(rng, labels=["M", "K"], with_tree=False, util_kind="none")
    b["options"] = {}
    pool += [a, b]
    return pool


def model_line(pool, ops):
    """History for the Lean model: each problem is abstracted to its set of record names (from a fresh run)."""
    raise NotImplementedError


def run(ctx: Ctx):
    ctx.rule = ("a pool of random problems (different zone names, with and without utilities / zone tree) is analysed (a) each in "
                "a fresh interpreter and (b) inside random histories of 2-6 calls run in ONE fresh interpreter per history, mixing "
                "the service on dictionaries, on new validated models, on one reused model object, and a reused PinchProblem "
                "wrapper: every call's result (canonical JSON, including the graph-set keys) must equal the fresh result of the "
                "same problem; the caller's input must be unchanged; results returned earlier must be unchanged at the end; no "
                "module-level container, class attribute or default argument of the library may differ after a call. "
                "Non-trivial: a call that follows a call on a different problem.")
    m = ctx.n(10, 60)
    n_hist = ctx.n(26, 160)
    corpus = load_corpus("C11")
    pool = [c["problem"] for c in corpus if c.get("kind") == "problem"] + gen_pool(ctx.rng, m)
    hists = []
    for c in corpus:
        if c.get("kind") == "history":
            base = len(pool)
            pool += c["problems"]
            hists.append([[k, base + i] for k, i in c["ops"]])
    for _ in range(n_hist):
        L = ctx.rng.randint(2, 6)
        ops = [[ctx.rng.choice(KINDS), ctx.rng.randrange(len(pool))] for _ in range(L)]
        if ctx.rng.random() < 0.5:
            ops.append([ctx.rng.choice(KINDS), ops[0][1]])          # come back to the first problem
        hists.append(ops)
    with ThreadPoolExecutor(max_workers=14) as ex:
        fresh_f = [ex.submit(run_worker, pool, [["svc_dict", i]]) for i in range(len(pool))]
        hist_f = [ex.submit(run_worker, pool, ops) for ops in hists]
        fresh = [f.result() for f in fresh_f]
        hres = [f.result() for f in hist_f]
    ref = {}
    for i, r in enumerate(fresh):
        op = r["ops"][0]
        ctx.count({"kind": "fresh", "i": i}, False, ["fresh_run"])
        if "raised" in op:
            ref[i] = ("raised", op["raised"].split(":")[0])
        else:
            ref[i] = ("ok", op["dump"], op["graph_keys"])
        case = {"kind": "history", "problems": [pool[i]], "ops": [["svc_dict", 0]]}
        if op.get("module_state_changed"):
            ctx.oracle_fail(case, f"module-level state changed by a single call: {op['module_state_changed']}", cause_of(op["module_state_changed"]), "module_state_unchanged")
        if op.get("input_unchanged") is False:
            ctx.oracle_fail(case, "the caller's dictionary was modified", None, "input_unchanged")
    for ops, r in zip(hists, hres):
        used = sorted({i for _, i in ops})
        remap = {i: k for k, i in enumerate(used)}
        case = {"kind": "history", "problems": [pool[i] for i in used], "ops": [[k, remap[i]] for k, i in ops]}
        seen = set()
        for pos, ((kind, i), op) in enumerate(zip(ops, r["ops"])):
            nt = any(j != i for _, j in ops[:pos])
            ctx.count({"kind": "call", "op": kind, "pos": pos}, nt, [kind, f"pos={pos}"])
            pn = op.get("project_name")
            if pn and pn[0] != pn[1]:
                ctx.oracle_fail(case, f"call {pos} ({kind} on problem {remap[i]}): after load the reused wrapper names the project {pn[0]!r}, a fresh wrapper {pn[1]!r}",
                                None, "same_as_fresh")
            if "raised" in op:
                if ref[i][0] != "raised" or ref[i][1] != op["raised"].split(":")[0]:
                    ctx.oracle_fail(case, f"call {pos} ({kind} on problem {remap[i]}) raised {op['raised']}; fresh run: {ref[i][0]}", None, "same_as_fresh")
                continue
            if ref[i][0] == "raised":
                ctx.oracle_fail(case, f"call {pos} ({kind}) returned, the fresh run raised {ref[i][1]}", None, "same_as_fresh"); continue
            if op["dump"] != ref[i][1]:
                extra = sorted(set(op["graph_keys"]) - set(ref[i][2])); missing = sorted(set(ref[i][2]) - set(op["graph_keys"]))
                cause = None
                if kind == "svc_same_model" and (kind, i) in seen:
                    cause = "reused_model_mutated"
                detail = (f"call {pos} ({kind} on problem {remap[i]}) differs from the fresh result of the same problem"
                          + (f": extra graph sets {extra[:6]}" if extra else "") + (f": missing graph sets {missing[:6]}" if missing else ""))
                ctx.oracle_fail(case, detail, cause, "same_as_fresh")
            if op.get("input_unchanged") is False:
                ctx.oracle_fail(case, f"call {pos} ({kind}) modified the caller's input: fields {op.get('input_diff')}", "input_model_mutated" if kind != "svc_dict" else None, "input_unchanged")
            if op.get("module_state_changed"):
                ctx.oracle_fail(case, f"call {pos} ({kind}) changed module-level state: {op['module_state_changed']}", cause_of(op["module_state_changed"]), "module_state_unchanged")
            seen.add((kind, i))
        if r["earlier_results_altered"]:
            ctx.oracle_fail(case, f"results returned by calls {r['earlier_results_altered']} were altered by later calls", None, "earlier_results_unaltered")
    model_check(ctx, pool, hists, hres, ref)


def cause_of(changed):
    return None


def model_check(ctx, pool, hists, hres, ref):
    """The Lean model of the graph-set accumulation (`get_output_graph_data`): each problem is abstracted to the list
    of its record keys; the model returns, per call, the keys of the graph sets in the result."""
    if not ctx.lean.driver_ok:
        return
    lines = []
    for ops in hists:
        toks = []
        for kind, i in ops:
            if ref[i][0] != "ok":
                toks = None; break
            toks.append(",".join(hexs(k) for k in ref[i][2]) or "-")
        lines.append(None if toks is None else "graphsets " + " ".join(toks))
    outs = run_driver([l for l in lines if l is not None])
    it = iter(outs)
    for ops, r, l in zip(hists, hres, lines):
        if l is None:
            continue
        m = next(it)
        got = [sorted(op.get("graph_keys", [])) for op in r["ops"]]
        want = [sorted(unhex(t) for t in g.split(",") if t and t != "-") for g in m.split()[1:]] if m.startswith("ok") else None
        if want != got:
            ctx.disagree({"kind": "history", "ops": ops}, got, m[:300], "graph-set keys per call")
        else:
            ctx.traces_validated += 1


def hexs(t):
    return "".join(f"{ord(c):04x}" for c in t)


def unhex(c):
    return "".join(chr(int(c[i:i + 4], 16)) for i in range(0, len(c), 4))


def replay(ctx: Ctx, payload: dict) -> int:
    case = payload.get("case") or (payload.get("disagreement") or {}).get("case")
    if not case or "problems" not in case:
        print("replay names a broken obligation only:", payload.get("broken")); return 1
    pool = case["problems"]
    fresh = [run_worker(pool, [["svc_dict", i]])["ops"][0] for i in range(len(pool))]
    r = run_worker(pool, case["ops"])
    bad = 0
    for pos, ((kind, i), op) in enumerate(zip(case["ops"], r["ops"])):
        same = op.get("dump") == fresh[i].get("dump")
        print(f"call {pos} {kind} problem {i}: same_as_fresh={same} input_unchanged={op.get('input_unchanged')} module_state_changed={op.get('module_state_changed')}")
        bad += (not same) or op.get("input_unchanged") is False or bool(op.get("module_state_changed"))
    if r["earlier_results_altered"]:
        print("earlier results altered:", r["earlier_results_altered"]); bad += 1
    return 1 if bad else 0
