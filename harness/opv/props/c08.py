"""C08 — Inserting temperature intervals never changes any curve."""
from __future__ import annotations

import math
from fractions import Fraction as F

from ..core import Ctx, close, rs, parse_r, load_corpus, frac
from ..lean import run_driver

TOL = 1e-6
_L = None


def L():
    """Column labels from the live enum / module constants."""
    global _L
    if _L is None:
        from OpenPinch.lib.enums import ProblemTableLabel as PT
        from OpenPinch.classes import problem_table as ptm
        _L = {"cols": [m.value for m in PT], "T": PT.T.value, "dT": PT.DELTA_T.value,
              "interp": list(ptm.INTERPOLATION_KEYS), "pairs": [tuple(p) for p in ptm.HEAT_CAPACITY_PAIRS]}
    return _L


# --------------------------------------------------------------------------- generator

def gen_table(rng):
    """A consistent table: T strictly descending, dT = gap to the row above (0 in row 0),
    dH = CP*dT, cumulative H columns; a random subset of the other columns populated."""
    n = rng.choice([1, 2, 2, 3, 4, 5, 6, 8, 12])
    step = rng.choice([10.0, 20.0, 7.5, 0.5])
    t0 = float(rng.randrange(10, 40) * 10)
    T = [t0]
    for _ in range(n - 1):
        T.append(T[-1] - step * rng.randint(1, 4))
    lab = L()
    tbl = {lab["T"]: T, lab["dT"]: [0.0] + [a - b for a, b in zip(T, T[1:])]}
    for cp, dh in lab["pairs"]:
        if rng.random() < 0.8:
            c = [0.0] + [float(rng.randrange(0, 30) * 5) for _ in range(n - 1)]
            tbl[cp] = c
            tbl[dh] = [x * y for x, y in zip(c, tbl[lab["dT"]])]
    for k in lab["interp"]:
        if rng.random() < 0.45:
            shape = rng.choice(["cum", "rand", "flat"])
            if shape == "cum":
                v, acc = [], float(rng.randrange(0, 50) * 100)
                for i in range(n):
                    v.append(acc); acc -= float(rng.randrange(0, 20) * 50)
            elif shape == "rand":
                v = [float(rng.randrange(-20, 60) * 50) for _ in range(n)]
            else:
                v = [float(rng.randrange(0, 9) * 100)] * n
            tbl[k] = v
    paircols = {c for p in lab["pairs"] for c in p}
    others = [c for c in lab["cols"] if c not in tbl and c not in lab["interp"] and c not in paircols]
    for k in others:
        if rng.random() < 0.2:
            tbl[k] = [float(rng.randrange(0, 9)) for _ in range(n)]
    return tbl


def gen_requests(rng, T):
    """1-6 calls; each call a scalar or a list mixing inside / above / below / duplicates /
    near-existing / unsorted."""
    reqs = []
    lo, hi = T[-1], T[0]
    cur = list(T)
    for _ in range(rng.choice([1, 1, 2, 3, 6])):
        k = rng.choice([1, 1, 2, 3, 5])
        vals = []
        for _ in range(k):
            r = rng.random()
            if r < 0.45 and len(cur) >= 2:
                i = rng.randrange(len(cur) - 1)
                a, b = cur[i], cur[i + 1]
                vals.append(round(b + (a - b) * rng.choice([0.5, 0.25, 0.1, 0.9, 0.731]), 6))
            elif r < 0.6:
                vals.append(hi + rng.choice([5.0, 10.0, 0.5, 33.0]))
            elif r < 0.75:
                vals.append(lo - rng.choice([5.0, 10.0, 0.5, 33.0]))
            elif r < 0.85:
                vals.append(rng.choice(cur))                                   # already present
            elif r < 0.93:
                vals.append(rng.choice(cur) + rng.choice([5e-7, -5e-7, 2e-7]))      # within tol of a row
            else:
                vals.append(round(rng.uniform(lo - 20, hi + 20), 3))
        if rng.random() < 0.3 and vals:
            vals.append(rng.choice(vals))                                       # duplicate in one call
            vals.append(vals[0] + 3e-7)                                         # near-duplicate in one call
        rng.shuffle(vals)
        reqs.append(vals[0] if (len(vals) == 1 and rng.random() < 0.5) else vals)
        for v in (vals if isinstance(vals, list) else [vals]):
            if all(abs(v - c) > TOL for c in cur):
                cur.append(v)
        cur.sort(reverse=True); lo, hi = cur[-1], cur[0]
    return reqs


# --------------------------------------------------------------------------- implementation

def to_rows(pt):
    """Rows as lists over all columns, NaN -> None."""
    out = []
    for r in pt.data.tolist():
        out.append([None if (isinstance(v, float) and math.isnan(v)) else float(v) for v in r])
    return out


def impl_insert(case):
    from OpenPinch.classes.problem_table import ProblemTable
    pt = ProblemTable({k: list(v) for k, v in case["table"].items()})
    before = to_rows(pt)
    counts, snaps = [], []
    for req in case["reqs"]:
        try:
            c = pt.insert_temperature_interval(req if not isinstance(req, list) else list(req))
            counts.append(int(c))
        except Exception as e:  # noqa: BLE001
            counts.append(f"err {type(e).__name__}")
        snaps.append(to_rows(pt))
    return before, counts, snaps


# --------------------------------------------------------------------------- oracle

def interp_col(rows, ti, ci, T):
    """Piecewise-linear value of column ci at T over rows (descending T); end value outside."""
    if T >= rows[0][ti]:
        return rows[0][ci]
    if T <= rows[-1][ti]:
        return rows[-1][ci]
    for a, b in zip(rows, rows[1:]):
        if b[ti] <= T <= a[ti]:
            if a[ci] is None or b[ci] is None:
                return None
            fa, fb, ta, tb = frac(a[ci]), frac(b[ci]), frac(a[ti]), frac(b[ti])
            return float(fb + (fa - fb) * (frac(T) - tb) / (ta - tb))
    return None


def oracle(case, before, counts, snaps):
    lab = L()
    cols = lab["cols"]
    ti, di = cols.index(lab["T"]), cols.index(lab["dT"])
    icols = [cols.index(k) for k in lab["interp"]]
    pairs = [(cols.index(a), cols.index(b)) for a, b in lab["pairs"]]
    fails = []
    prev = before
    for step, (req, cnt, rows) in enumerate(zip(case["reqs"], counts, snaps)):
        if isinstance(cnt, str):
            fails.append(("no_exception", f"call {step} raised {cnt}", None)); break
        Ts = [r[ti] for r in rows]
        # count
        if cnt != len(rows) - len(prev):
            fails.append(("count_returned", f"call {step}: returned {cnt}, rows {len(prev)} -> {len(rows)}", None))
        # order / duplicates
        for a, b in zip(Ts, Ts[1:]):
            if not (a - b > TOL):
                fails.append(("strictly_descending", f"call {step}: rows {a}, {b}", None)); break
        # requested temperatures are now present, old rows are kept
        reqs = req if isinstance(req, list) else [req]
        for v in reqs:
            if not any(abs(v - t) <= TOL for t in Ts):
                fails.append(("requested_present", f"call {step}: {v} not in table", None)); break
        for t in [r[ti] for r in prev]:
            if t not in Ts:
                fails.append(("old_rows_kept", f"call {step}: row {t} lost", None)); break
        # re-insertion adds nothing
        if all(any(abs(v - t) <= TOL for t in [r[ti] for r in prev]) for v in reqs) and (cnt != 0 or rows != prev):
            fails.append(("reinsertion_noop", f"call {step}: request {reqs} all present but count {cnt}", None))
        # curves
        done = False
        for ci in icols:
            for r in rows:
                want = interp_col(prev, ti, ci, r[ti])
                got = r[ci]
                if (want is None) != (got is None) or (want is not None and abs(want - got) > 1e-7 * max(1.0, abs(want))):
                    fails.append(("curves_preserved", f"call {step}: column {cols[ci]} at T={r[ti]}: {got}, curve {want}", None))
                    done = True; break
            if done:
                break
        # bookkeeping of rows i >= 1 (row 0 has no row above)
        for i in range(1, len(rows)):
            r = rows[i]
            gap = rows[i - 1][ti] - r[ti]
            if r[di] is not None and abs(r[di] - gap) > 1e-7:
                cause = "bottom_block_order" if (r[ti] < prev[-1][ti]) else ("mid_block_dt" if prev[-1][ti] <= r[ti] <= prev[0][ti] else "top_block")
                fails.append(("interval_width", f"call {step}: row {i} T={r[ti]} dT={r[di]} gap to row above={gap}", cause)); break
        for cpi, dhi in pairs:
            bad = False
            for i in range(1, len(rows)):
                r = rows[i]
                if r[cpi] is None or r[dhi] is None or r[di] is None:
                    continue
                gap = rows[i - 1][ti] - r[ti]
                if abs(r[dhi] - r[cpi] * gap) > 1e-6 * max(1.0, abs(r[dhi])):
                    fails.append(("dh_eq_cp_dt", f"call {step}: row {i} T={r[ti]} {cols[dhi]}={r[dhi]} CP={r[cpi]} gap={gap}", None))
                    bad = True; break
            if bad:
                break
        prev = rows
    return fails


# --------------------------------------------------------------------------- model line

def table_line(case):
    lab = L()
    cols = lab["cols"]
    tbl = case["table"]
    n = len(tbl[lab["T"]])
    parts = ["insert", str(n)]
    for c in cols:
        if c in tbl:
            parts += ["|", "col", str(cols.index(c))] + [rs(v) for v in tbl[c]]
    for req in case["reqs"]:
        parts += ["|", "req"] + [rs(v) for v in (req if isinstance(req, list) else [req])]
    return " ".join(parts)


def parse_model(out):
    """`ok c1 c2 … ; row ; row …` with rows as comma separated values."""
    if not out.startswith("ok"):
        return None, None
    head, *rows = out.split(" ; ")
    counts = [int(x) for x in head.split()[1:]]
    return counts, [[parse_r(v) for v in r.split(",")] for r in rows]


def run(ctx: Ctx):
    ctx.rule = ("insert_temperature_interval on random consistent tables (1-12 rows, random subset of columns populated, NaN columns) "
                "with sequences of 1-6 calls mixing scalar / list requests: inside any interval (several per interval), above the "
                "top, below the bottom, duplicates, values within tol of a row, unsorted; final table compared cell by cell with "
                "the Lean model, and the property clauses checked after every call. Non-trivial: at least one row actually inserted.")
    corpus = load_corpus("C08")
    cases = [c for c in corpus]
    for _ in range(ctx.n(600, 12000)):
        tbl = gen_table(ctx.rng)
        cases.append({"kind": "insert", "table": tbl, "reqs": gen_requests(ctx.rng, tbl[L()["T"]])})
    res = [impl_insert(c) for c in cases]
    model = None
    if ctx.lean.driver_ok and getattr(ctx, "use_model", True):
        model = run_driver([table_line(c) for c in cases])
    for i, c in enumerate(cases):
        before, counts, snaps = res[i]
        inserted = sum(x for x in counts if isinstance(x, int))
        ctx.count({"n_rows": len(before), "reqs": c["reqs"], "T": c["table"][L()["T"]]}, inserted > 0,
                  [f"calls={len(c['reqs'])}", "inserted>0" if inserted else "inserted=0"])
        for clause, detail, cause in oracle(c, before, counts, snaps):
            ctx.oracle_fail(c, detail, cause, clause)
        if model is not None:
            mc, mrows = parse_model(model[i])
            bad = None
            if mc is None:
                bad = f"model: {model[i][:80]}"
            elif mc != counts:
                bad = f"counts impl {counts} model {mc}"
            elif len(mrows) != len(snaps[-1]):
                bad = f"rows impl {len(snaps[-1])} model {len(mrows)}"
            else:
                for ri, (a, b) in enumerate(zip(mrows, snaps[-1])):
                    for ci, (x, y) in enumerate(zip(a, b)):
                        if not close(x, y, atol=1e-7, rtol=1e-9):
                            bad = f"row {ri} col {L()['cols'][ci]}: impl {y} model {None if x is None else float(x)}"; break
                        if x is not None:
                            ctx.err(x, y)
                    if bad:
                        break
            if bad:
                ctx.disagree(c, {"counts": counts}, model[i][:200], bad)
            else:
                ctx.traces_validated += 1


def replay(ctx: Ctx, payload: dict) -> int:
    case = payload.get("case") or (payload.get("disagreement") or {}).get("case")
    if not case:
        print("replay names a broken obligation only:", payload.get("broken")); return 1
    before, counts, snaps = impl_insert(case)
    print("impl counts:", counts)
    lab = L(); ti = lab["cols"].index(lab["T"]); di = lab["cols"].index(lab["dT"])
    print("impl T/dT:", [(r[ti], r[di]) for r in snaps[-1]])
    if ctx.lean.driver_ok:
        print("model:", run_driver([table_line(case)])[0][:300])
    fails = oracle(case, before, counts, snaps)
    for f in fails:
        print("property fails:", f)
    return 1 if fails else 0
