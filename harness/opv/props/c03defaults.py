"""C03 — correspondence of the default-utility decision with the Lean model (`defaults` driver command)."""
from __future__ import annotations

from fractions import Fraction as F
from types import SimpleNamespace

from ..core import Ctx, rs, parse_r
from ..lean import run_driver


def gen_case(rng):
    dtc = rng.choice([5.0, 0.0, 10.0, 2.5])
    dpc = rng.choice([0.1, 0.01, 1.0])
    nh, nc = rng.choice([0, 1, 2, 4]), rng.choice([0, 1, 2, 4])
    hot = [float(rng.randrange(2, 40) * 5) for _ in range(nh)]
    cold = [float(rng.randrange(10, 60) * 5) + rng.choice([0.0, 2.5]) for _ in range(nc)]
    top = max(cold) if cold else 200.0
    bot = min(hot) if hot else 50.0
    us = []
    for k in range(rng.choice([0, 1, 2, 3, 5])):
        ty = rng.choice(["Hot", "Cold", "Both", "Hot", "Cold"])
        d = rng.choice([None, 0.0, 5.0, 10.0, 20.0])
        base = top if ty == "Hot" or (ty == "Both" and rng.random() < 0.5) else bot
        # levels around the decisive temperature, including exactly on it once the contribution is applied
        ts = base + rng.choice([-20.0, -5.0, 0.0, 5.0, 10.0, 30.0]) + (d or 0.0) * rng.choice([0, 1, -1])
        r = rng.random()
        tt = None if r < 0.25 else (ts if r < 0.4 else ts + rng.choice([-40.0, -10.0, -0.1, 0.1, 10.0, 40.0]))
        us.append({"type": ty, "active": rng.random() < 0.85, "ts": ts, "tt": tt, "dt": d})
    return {"kind": "defaults", "dtc": dtc, "dpc": dpc, "hot": hot, "cold": cold, "us": us}


def impl(case):
    from OpenPinch.analysis.data_preparation import (_find_extreme_process_temperatures, _complete_utility_data,
                                                       _add_default_utilities)
    from OpenPinch.lib.schema import UtilitySchema
    from OpenPinch.lib.config import Configuration
    cfg = Configuration()
    cfg.DT_CONT = case["dtc"]; cfg.DT_PHASE_CHANGE = case["dpc"]
    hot = [SimpleNamespace(t_min_star=x) for x in case["hot"]]
    cold = [SimpleNamespace(t_max_star=x) for x in case["cold"]]
    h, c = _find_extreme_process_temperatures(hot, cold)
    vu = lambda x, u: {"value": x, "units": u}
    us = [UtilitySchema.model_validate({"name": f"U{i}", "type": u["type"], "t_supply": u["ts"], "t_target": vu(u["tt"], "degC"),
                                        "heat_flow": 0.0, "dt_cont": vu(u["dt"], "degC"), "htc": 1.0, "price": 10.0, "active": u["active"]})
          for i, u in enumerate(case["us"])]
    us, a, b = _complete_utility_data(us, cfg, h, c)
    us = _add_default_utilities(us, cfg, a, b, h, c)
    return float(h), float(c), [(u.type in ("Hot", "Both"), u.type in ("Cold", "Both"), bool(u.active), float(u.t_supply),
                                 float(u.t_target), float(u.dt_cont)) for u in us]


def line(case):
    f = lambda x: "nan" if x is None else rs(x)
    g = lambda xs: " ".join(rs(x) for x in xs) if xs else "-"
    s = f"defaults {rs(case['dtc'])} {rs(case['dpc'])} | hot {g(case['hot'])} | cold {g(case['cold'])}"
    for u in case["us"]:
        s += f" | U {u['type']} {1 if u['active'] else 0} {rs(u['ts'])} {f(u['tt'])} {f(u['dt'])}"
    return s


def compare(case, got, mline):
    if not mline.startswith("ok "):
        return f"model: {mline}"
    groups = mline[3:].split(" | ")
    h, c = (parse_r(t) for t in groups[0].split())
    ih, ic, ius = got
    if F(repr(ih)) != h or F(repr(ic)) != c:
        return f"extreme temperatures: impl ({ih}, {ic}) model ({float(h)}, {float(c)})"
    mus = []
    for g in groups[1:]:
        t = g.split()
        mus.append((t[0] == "1", t[1] == "1", t[2] == "1", parse_r(t[3]), parse_r(t[4]), parse_r(t[5])))
    if len(mus) != len(ius):
        return f"{len(ius)} utilities after preparation, model {len(mus)} (defaults added: impl {len(ius) - len(case['us'])}, model {len(mus) - len(case['us'])})"
    for k, (a, b) in enumerate(zip(ius, mus)):
        if a[:3] != b[:3] or any(abs(F(repr(x)) - y) > F(1, 10**9) for x, y in zip(a[3:], b[3:])):
            return f"utility {k}: impl {a} model {tuple(b[:3]) + tuple(float(v) for v in b[3:])}"
    return None


def correspondence(ctx: Ctx, n_quick=600, n_thorough=12000):
    cases = [gen_case(ctx.rng) for _ in range(ctx.n(n_quick, n_thorough))]
    outs = run_driver([line(c) for c in cases]) if ctx.lean.driver_ok else [None] * len(cases)
    for c, m in zip(cases, outs):
        try:
            got = impl(c)
        except Exception as e:  # noqa: BLE001
            ctx.disagree(c, f"raised {type(e).__name__}: {str(e)[:100]}", m, "default-utility preparation raised"); continue
        added = len(got[2]) - len(c["us"])
        ctx.count(c, bool(c["us"]), ["defaults_case", f"defaults_added={added}"])
        if m is None:
            continue
        d = compare(c, got, m)
        if d:
            ctx.disagree(c, str(got), m, d)
