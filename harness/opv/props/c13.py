"""C13 — Graph payloads reproduce the curves of the problem tables."""
from __future__ import annotations

from ..core import Ctx, load_corpus, rs, parse_r
from ..lean import run_driver
from .. import problems as P

VTOL = 1e-3          # GCC_VERTICAL_TOL
TOL = 1e-6


def sources():
    """graph type -> (table attribute, [(column, kind)]) as documented in _create_graph_set / _save_graph_data."""
    from OpenPinch.lib.enums import GraphType as GT, ProblemTableLabel as PT
    return {
        GT.CC.value: ("pt_real", [(PT.H_HOT.value, "cc"), (PT.H_COLD.value, "cc")]),
        GT.SCC.value: ("pt", [(PT.H_HOT.value, "cc"), (PT.H_COLD.value, "cc")]),
        GT.BCC.value: ("pt_real", [(PT.H_HOT_BAL.value, "cc"), (PT.H_COLD_BAL.value, "cc")]),
        GT.GCC.value: ("pt", [(PT.H_NET.value, "gcc"), (PT.H_NET_NP.value, "gcc"), (PT.H_NET_V.value, "gcc"), (PT.H_NET_A.value, "gcc"), (PT.H_NET_UT.value, "gccu")]),
        GT.TSP.value: ("pt", [(PT.H_NET_HOT.value, "cc"), (PT.H_NET_COLD.value, "cc"), (PT.H_HOT_UT.value, "cc"), (PT.H_COLD_UT.value, "cc")]),
        GT.SUGCC.value: ("pt_real", [(PT.H_NET_UT.value, "gccu")]),
        GT.GCC_HP.value: ("pt", [(PT.H_NET_W_AIR.value, "gcc"), (PT.H_NET_HP_PRO.value, "gccu")]),
    }


def pl(T, H, t):
    """H of the table polyline at temperature t (T strictly descending)."""
    if t >= T[0]:
        return H[0]
    if t <= T[-1]:
        return H[-1]
    for i in range(len(T) - 1):
        if T[i] >= t >= T[i + 1]:
            if T[i] == T[i + 1]:
                return H[i]
            return H[i] + (H[i + 1] - H[i]) * (T[i] - t) / (T[i] - T[i + 1])
    return None


def nonflat_extent(H):
    s = next((i for i in range(len(H) - 1) if abs(H[i] - H[i + 1]) > TOL), None)
    if s is None:
        return None
    e = next(i for i in range(len(H) - 1, 0, -1) if abs(H[i] - H[i - 1]) > TOL)
    return s, e


def emitted_on_column(points, T, H):
    """Every emitted point (x = H, y = T) lies on the table curve to display rounding: some temperature within
    0.005 of y has the curve within 0.005 of x (the curve is continuous, so x must lie in its range over that window)."""
    for x, y in points:
        lo, hi = y - 0.00501, y + 0.00501
        vals = [pl(T, H, lo), pl(T, H, hi)] + [h for t, h in zip(T, H) if lo <= t <= hi]
        vals = [v for v in vals if v is not None]
        if not vals or not (min(vals) - 0.00501 - 1e-4 <= x <= max(vals) + 0.00501 + 1e-4):
            return (x, y, pl(T, H, y))
    return None


def column_on_emitted(points, T, H, ext):
    """Every table row inside the non-flat extent lies on the polyline through the emitted points."""
    pts = sorted(points, key=lambda p: -p[1])
    if not pts:
        return ("no points", None)
    steep = max([abs(H[i] - H[i + 1]) / (T[i] - T[i + 1]) for i in range(len(T) - 1) if T[i] - T[i + 1] > 1e-3] or [0.0])
    tol = 0.011 + 0.011 * steep + 1e-4
    for i in range(ext[0], ext[1] + 1):
        t, h = T[i], H[i]
        best = None
        for (x1, y1), (x2, y2) in zip(pts, pts[1:]):
            if y1 + 0.0051 >= t >= y2 - 0.0051:
                hx = x1 if y1 == y2 else x1 + (x2 - x1) * (y1 - min(max(t, y2), y1)) / (y1 - y2)
                d = min(abs(hx - h), abs(x1 - h) if abs(y1 - t) <= 0.0051 else 1e18, abs(x2 - h) if abs(y2 - t) <= 0.0051 else 1e18)
                best = d if best is None else min(best, d)
        if len(pts) == 1 and abs(pts[0][1] - t) <= 0.0051:
            best = abs(pts[0][0] - h)
        if best is None or best > tol:
            return (t, h, best)
    return None


def graph_oracle(ctx, case, out, master):
    from OpenPinch.lib.enums import TargetType, LineColour, ProblemTableLabel as PT, GraphType as GT
    src = sources()
    recs = {}
    for path, z in P.walk(master):
        for key, t in z.targets.items():
            recs.setdefault(key, []).append((t, z))
    names = [t.name for t in out.targets]
    gkeys = list((out.graphs or {}).keys())
    fails = []
    # one graph set per target record, keyed by the record's name
    for n in set(names):
        if names.count(n) == 1 and n not in gkeys:
            fails.append(("one_graph_set_per_record", f"record {n} has no graph set", None))
    for k in gkeys:
        if k not in names:
            fails.append(("one_graph_set_per_record", f"graph set {k} belongs to no record", None))
        elif out.graphs[k].name != k:
            fails.append(("one_graph_set_per_record", f"graph set stored under {k} is named {out.graphs[k].name}", None))
    for key, gs in (out.graphs or {}).items():
        if key not in recs or len(recs[key]) != 1:
            continue
        t, zone = recs[key][0]
        kind = key.rsplit("/", 1)[-1]
        types = [g.type for g in gs.graphs]
        opts = case["problem"].get("options") or {}
        balanced = opts.get("DO_BALANCED_CC", True) or opts.get("DO_AREA_TARGETING", False)
        want_types = {TargetType.DI.value: [GT.CC.value, GT.SCC.value] + ([GT.BCC.value] if balanced else []) + [GT.GCC.value, GT.GCC_HP.value],
                      TargetType.TS.value: [GT.TSP.value, GT.SUGCC.value], TargetType.TZ.value: []}.get(kind)
        if want_types is not None and types != want_types:
            fails.append(("documented_graph_types", f"{key}: graph types {types}, documented {want_types}", None))
        ctx.dist["graph_sets"] += 1
        for g in gs.graphs:
            if g.type not in src:
                continue
            attr, cols = src[g.type]
            table = getattr(t, attr)
            T = [float(v) for v in table.col[PT.T.value]]
            if len(T) < 2:
                continue
            # segments are emitted column after column, in order; group them by walking the columns
            segs = list(g.segments)
            si = 0
            for col, ckind in cols:
                H = [float(v) for v in table.col[col]]
                ext = nonflat_extent(H)
                mine = []
                if ckind == "cc":
                    if si < len(segs):
                        mine = [segs[si]]; si += 1
                else:
                    # a GCC series contributes as many segments as it has runs; they carry the series in the title
                    while si < len(segs) and belongs(segs[si], col, g.type):
                        mine.append(segs[si]); si += 1
                pts = [(p.x, p.y) for s in mine for p in s.data_points]
                ctx.dist["curves"] += 1
                if ext is None:
                    if len({p[0] for p in pts}) > 1:
                        fails.append(("emitted_on_curve", f"{key} {g.type} {col}: flat column but emitted {pts[:4]}", None))
                    continue
                bad = emitted_on_column(pts, T, H)
                if bad:
                    fails.append(("emitted_on_curve", f"{key} {g.type} {col}: emitted point (H={bad[0]}, T={bad[1]}) but the table curve has H={bad[2]} there", None)); continue
                bad = column_on_emitted(pts, T, H, ext)
                if bad:
                    fails.append(("covers_nonflat_extent", f"{key} {g.type} {col}: table row (T={bad[0]}, H={bad[1]}) is not reproduced by the emitted points (off by {bad[2]}); emitted T range {[p[1] for p in pts][:1]}..{[p[1] for p in pts][-1:]}",
                                  "local_collinearity_drift" if bad[2] is not None and bad[2] < 0.05 else None)); continue
                ctx.dist["curves_nonflat_ok"] += 1
                # classification by the sign of the enthalpy change
                if ckind in ("gcc", "gccu"):
                    for s in mine:
                        xs = [p.x for p in s.data_points]
                        d = [a - b for a, b in zip(xs, xs[1:])]
                        if not d:
                            continue
                        pos = any(v > VTOL + 0.011 for v in d); neg = any(v < -VTOL - 0.011 for v in d)
                        if pos and neg:
                            fails.append(("classification_by_sign", f"{key} {g.type} {col}: segment {s.title} mixes rising and falling enthalpy {xs[:6]}", None)); break
                        want = None
                        if pos:
                            want = LineColour.ColdS.value if ckind == "gcc" else LineColour.HotU.value
                        if neg:
                            want = LineColour.HotS.value if ckind == "gcc" else LineColour.ColdU.value
                        if want is not None and s.colour != want:
                            fails.append(("classification_by_sign", f"{key} {g.type} {col}: segment {s.title} with enthalpy {'falling' if pos else 'rising'} downwards has colour {s.colour}, expected {want}", None)); break
        # extents: GCC top = Qh, bottom = Qc; composite spans = stream duties
        if kind == TargetType.DI.value:
            table = t.pt
            hn = [float(v) for v in table.col[PT.H_NET.value]]
            qh, qc = float(t.hot_utility_target), float(t.cold_utility_target)
            if abs(hn[0] - qh) > 1e-3 or abs(hn[-1] - qc) > 1e-3:
                fails.append(("extents", f"{key}: GCC ends ({hn[0]}, {hn[-1]}) vs Qh, Qc ({qh}, {qc})", None))
            for g in gs.graphs:
                if g.type == GT.GCC.value and g.segments:
                    pts = [(p.x, p.y) for s in g.segments if s.title and s.title.startswith("GCC ") or True for p in s.data_points]
                if g.type == GT.CC.value and len(g.segments) >= 2:
                    for s, tot in zip(g.segments[:2], (sum(float(x.heat_flow) for x in zone.hot_streams), sum(float(x.heat_flow) for x in zone.cold_streams))):
                        xs = [p.x for p in s.data_points]
                        if xs and abs((max(xs) - min(xs)) - tot) > 0.02 + 1e-6 * tot:
                            fails.append(("extents", f"{key}: {s.title} spans {max(xs) - min(xs)}, stream duty {tot}", None))
    return fails


def belongs(seg, col, gtype):
    """GCC segments are titled '<series description> <n>'; the series descriptions are distinct per column."""
    from OpenPinch.analysis.graph_data import _series_meta_from_key
    meta = _series_meta_from_key(col)
    base = meta.description or meta.label or "Segment"
    t = seg.title or ""
    return t.startswith(base + " ") and t[len(base) + 1:].isdigit()


def run(ctx: Ctx):
    ctx.rule = ("the service on random problems (1-3 zones, utility ladders, pockets, threshold problems): for every record with graphs, "
                "every emitted curve is compared with its source column of the zone's problem table - every emitted point on the "
                "table polyline to display rounding, every table row of the non-flat extent on the emitted polyline, GCC segment "
                "colours against the sign of the enthalpy change, GCC ends = Qh/Qc and composite spans = stream duties, one graph set "
                "per record keyed by its name with the documented graph types; _iter_gcc_segment_slices / _segment_bounds compared "
                "with the Lean model on random columns. Non-trivial: a record whose GCC has at least three runs.")
    corpus = load_corpus("C13")
    probs = [c["problem"] for c in corpus if c.get("kind") == "service"]
    for _ in range(ctx.n(150, 3000)):
        pr = P.gen_problem(ctx.rng)
        if ctx.rng.random() < 0.5:
            pr["options"] = {k: ctx.rng.random() < 0.5 for k in ("DO_BALANCED_CC", "DO_VERTICAL_GCC", "DO_ASSITED_HT") if ctx.rng.random() < 0.7}
        if ctx.rng.random() < 0.25:
            # a large plant with a very small stream alone at the hottest / coldest end: a real but tiny end segment
            for st in pr["streams"]:
                st["heat_flow"] *= 10.0
            temps = [st[k] for st in pr["streams"] for k in ("t_supply", "t_target")]
            hi, lo = max(temps), min(temps)
            z = pr["streams"][0]["zone"]
            for k in range(ctx.rng.choice([1, 2])):
                # small against the plant (a few 1e-6 of the total duty: inside any RELATIVE tolerance of 1e-5) but
                # well above the absolute display resolution the comparison allows
                tot = sum(abs(st["heat_flow"]) for st in pr["streams"])
                d = max(0.05, tot * ctx.rng.choice([3e-6, 5e-6, 8e-6])) if ctx.rng.random() < 0.7 else ctx.rng.choice([0.05, 0.3, 0.5, 0.02])
                if ctx.rng.random() < 0.5:
                    pr["streams"].append({"name": f"tiny{k}", "zone": z, "t_supply": hi + 20.0, "t_target": hi + 30.0, "heat_flow": d, "dt_cont": 5.0, "htc": 1.0})
                else:
                    pr["streams"].append({"name": f"tiny{k}", "zone": z, "t_supply": lo - 20.0, "t_target": lo - 30.0, "heat_flow": d, "dt_cont": 5.0, "htc": 1.0})
        probs.append(pr)
    for pr in probs:
        case = {"kind": "service", "problem": pr}
        try:
            out, master = P.run_service(pr)
        except Exception as e:  # noqa: BLE001
            ctx.dist["service_raised:" + type(e).__name__] += 1
            continue
        n0 = ctx.dist["curves_nonflat_ok"]
        fails = graph_oracle(ctx, case, out, master)
        ctx.count({"kind": "service", "n_streams": len(pr["streams"]), "n_util": len(pr["utilities"])}, ctx.dist["curves_nonflat_ok"] - n0 >= 6, ["service_problem"])
        for clause, detail, cause in fails:
            ctx.oracle_fail(case, detail, cause, clause)
    slices_correspondence(ctx)


# --------------------------------------------------------------------------- model tie: segment slicing

def gen_column(rng):
    n = rng.choice([2, 3, 4, 6, 9, 14])
    x = [float(rng.choice([0, 0, 100, 500]))]
    for _ in range(n - 1):
        r = rng.random()
        if r < 0.3:
            d = 0.0
        elif r < 0.4:
            d = rng.choice([5e-4, -5e-4, 1e-3, -1e-3, 2e-7])
        else:
            d = float(rng.choice([-300, -100, 50, 100, 250, 0.002, -0.002]))
        x.append(round(x[-1] + d, 7))
    return {"kind": "slices", "x": x, "utility": rng.random() < 0.4}


def impl_slices(case):
    from OpenPinch.analysis.graph_data import _iter_gcc_segment_slices, _segment_bounds
    x = case["x"]; y = [float(500 - 10 * i) for i in range(len(x))]
    out = []
    for loc, vert, xs, ys in _iter_gcc_segment_slices(x, y, case["utility"], None):
        out.append((loc.name, bool(vert), len(xs), int(round((500 - ys[0]) / 10))))
    return _segment_bounds(x), out


def slices_correspondence(ctx):
    corpus = load_corpus("C13")
    cases = [c for c in corpus if c.get("kind") == "slices"] + [gen_column(ctx.rng) for _ in range(ctx.n(1500, 30000))]
    model = run_driver(["slices " + ("1" if c["utility"] else "0") + " | " + " ".join(rs(v) for v in c["x"]) for c in cases]) if ctx.lean.driver_ok else None
    for i, c in enumerate(cases):
        try:
            bounds, sl = impl_slices(c)
        except Exception as e:  # noqa: BLE001
            ctx.count({"kind": "slices", "n": len(c["x"])}, False, ["slices_raised:" + type(e).__name__])
            ctx.oracle_fail(c, f"_iter_gcc_segment_slices raised {type(e).__name__}: {e}", None, "slices_total")
            continue
        ctx.count({"kind": "slices", "x": c["x"][:8], "u": c["utility"]}, len(sl) >= 3, ["slices", f"runs={min(len(sl), 5)}"])
        # oracle: the slices tile [start, end] and are homogeneous
        x = c["x"]
        pos = bounds[0]
        for loc, vert, n, j in sl:
            if j != pos:
                ctx.oracle_fail(c, f"slice starts at {j}, previous ended at {pos}", None, "slices_tile"); break
            ds = [x[k] - x[k + 1] for k in range(j, j + n - 1)]
            cl = {("V" if abs(d) <= VTOL else ("P" if d > 0 else "N")) for d in ds}
            if len(cl) > 1:
                ctx.oracle_fail(c, f"slice at {j} mixes classes {cl}", None, "slices_homogeneous"); break
            pos = j + n - 1
        else:
            if sl and pos != bounds[1]:
                ctx.oracle_fail(c, f"slices end at {pos}, bounds {bounds}", None, "slices_tile")
        if model is not None:
            want = f"ok {bounds[0]} {bounds[1]} | " + " ; ".join(f"{loc} {1 if v else 0} {j} {j + n - 1}" for loc, v, n, j in sl)
            if model[i].strip() != want.strip():
                if any(abs(abs(a - b) - VTOL) < 1e-9 or abs(abs(a - b) - TOL) < 1e-12 for a, b in zip(x, x[1:])):
                    ctx.fragile_skipped += 1          # a step exactly at the threshold: float subtraction decides
                else:
                    ctx.disagree(c, want, model[i], "segment slices")
            else:
                ctx.traces_validated += 1


def replay(ctx: Ctx, payload: dict) -> int:
    case = payload.get("case") or (payload.get("disagreement") or {}).get("case")
    if not case:
        print("replay names a broken obligation only:", payload.get("broken")); return 1
    if case["kind"] == "slices":
        print("impl:", impl_slices(case))
        if ctx.lean.driver_ok:
            print("model:", run_driver(["slices " + ("1" if case["utility"] else "0") + " | " + " ".join(rs(v) for v in case["x"])])[0])
        c2 = Ctx(ctx.prop, "quick", 0); c2.lean = ctx.lean
        return 0
    out, master = P.run_service(case["problem"])
    c2 = Ctx(ctx.prop, "quick", 0)
    fails = graph_oracle(c2, case, out, master)
    for f in fails:
        print("property fails:", f)
    return 1 if fails else 0
