"""Function-level tie for C03/C04: `_target_utility` (with `_assign_utility`, `_maximise_utility_duty`)
on synthetic monotone load profiles versus the Lean model."""
from __future__ import annotations

from ..core import Ctx, close, rs, parse_r
from ..lean import run_driver


def gen_assign(rng):
    n = rng.choice([2, 3, 4, 5, 6, 8, 10])
    T = [float(rng.randrange(30, 45) * 10)]
    for _ in range(n - 1):
        T.append(T[-1] - float(rng.choice([10, 20, 30, 0.01, 0.1])))
    p = rng.randrange(0, n)                     # pinch row
    side = rng.choice(["hot", "cold"])
    H = [0.0] * n
    if side == "hot":                            # heating profile: Qh at the top, non-increasing to 0 at the pinch
        acc = 0.0
        for i in range(p - 1, -1, -1):
            acc += float(rng.choice([0, 100, 250, 400, 1000, 3000]))
            H[i] = acc
    else:                                        # cooling profile (stored negative by the pipeline half of the time)
        acc = 0.0
        for i in range(p + 1, n):
            acc += float(rng.choice([0, 100, 250, 400, 1000]))
            H[i] = acc
        if rng.random() < 0.5:
            H = [-h for h in H]
    k = rng.randint(1, 4)
    if rng.random() < 0.35:
        k = max(k, 2)            # a ladder: a low-grade isothermal level under a gliding one
    us = []
    for j in range(k):
        base = rng.choice(T) + rng.choice([0.0, 5.0, -5.0, 15.0, -15.0, 40.0, -40.0, 0.1])
        glide = rng.choice([0.1, 0.1, 10.0, 30.0, 60.0, 100.0])
        us.append((base + glide, base) if side == "hot" else (base, base + glide))
    if k >= 2 and rng.random() < 0.5:
        # lowest grade isothermal just beyond the pinch, the next one gliding across several rows
        tp = T[p]
        if side == "hot":
            us[0] = (tp + 10.1, tp + 10.0); us[1] = (tp + 10.0 + rng.choice([30.0, 60.0, 120.0]), tp + 15.0)
        else:
            us[0] = (tp - 10.1, tp - 10.0); us[1] = (tp - 10.0 - rng.choice([30.0, 60.0, 120.0]), tp - 15.0)
    us.sort(key=lambda x: -x[0] if side == "hot" else x[0])
    hot_row, cold_row = (p, min(p + rng.choice([0, 0, 1]), n - 1)) if side == "hot" else (max(p - rng.choice([0, 0, 1]), 0), p)
    return {"kind": "assign", "side": side, "T": T, "H": H, "hot_row": hot_row, "cold_row": cold_row, "us": us}


def impl_assign(case):
    import numpy as np
    from OpenPinch.classes.stream import Stream
    from OpenPinch.analysis.utility_targeting import _target_utility
    us = [Stream(f"U{i}", a, b, dt_cont=0.0, heat_flow=0.0, is_process_stream=False) for i, (a, b) in enumerate(case["us"])]
    try:
        _target_utility(us, np.array(case["T"]), np.array(case["H"]), case["hot_row"], case["cold_row"], False)
    except Exception as e:  # noqa: BLE001
        return f"err {type(e).__name__}"
    return [float(u.heat_flow) for u in us]


def line(case):
    parts = ["assign", case["side"], str(case["hot_row"]), str(case["cold_row"]), "|"] + [rs(v) for v in case["T"]] + ["|"] + [rs(v) for v in case["H"]]
    for a, b in case["us"]:
        # (ts, tt) as the assignment reads them: hot (t_max*, t_min*), cold (t_min*, t_max*)
        parts += ["|", "U", rs(a), rs(b)]
    return " ".join(parts)


def correspondence(ctx: Ctx, probs):
    if not ctx.lean.driver_ok:
        return
    cases = [gen_assign(ctx.rng) for _ in range(ctx.n(1500, 30000))]
    model = run_driver([line(c) for c in cases])
    for c, m in zip(cases, model):
        got = impl_assign(c)
        ctx.count(c, isinstance(got, list) and sum(1 for d in got if d > 0) >= 2, ["assign_" + c["side"], f"n_levels={len(c['us'])}"])
        bad = None
        if isinstance(got, str) or not m.startswith("ok"):
            if not (isinstance(got, str) and m.startswith("err")):
                bad = f"impl {got} model {m}"
        else:
            md = [parse_r(x) for x in m.split()[1:]]
            if len(md) != len(got) or any(not close(x, y, atol=1e-7, rtol=1e-9) for x, y in zip(md, got)):
                bad = f"duties impl {got} model {[float(x) for x in md]}"
        if bad:
            ctx.disagree(c, got, m, bad)
        else:
            ctx.traces_validated += 1


def replay_assign(ctx: Ctx, case) -> int:
    print("impl:", impl_assign(case))
    if ctx.lean.driver_ok:
        print("model:", run_driver([line(case)])[0])
    return 0
