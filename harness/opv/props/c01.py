"""C01 — Direct-integration energy targets equal the exact thermodynamic minimum."""
from __future__ import annotations

from fractions import Fraction as F

from ..core import Ctx, close, rs, parse_r, load_corpus
from ..lean import run_driver
from .. import problems as P

COLMAP = None


def colmap():
    global COLMAP
    if COLMAP is None:
        from OpenPinch.lib.enums import ProblemTableLabel as PT
        COLMAP = {"T": PT.T.value, "dT": PT.DELTA_T.value, "cpHot": PT.CP_HOT.value, "dHHot": PT.DELTA_H_HOT.value,
                  "hHot": PT.H_HOT.value, "cpCold": PT.CP_COLD.value, "dHCold": PT.DELTA_H_COLD.value,
                  "hCold": PT.H_COLD.value, "cpNet": PT.CP_NET.value, "dHNet": PT.DELTA_H_NET.value,
                  "hNet": PT.H_NET.value, "rcpHot": PT.RCP_HOT.value, "rcpCold": PT.RCP_COLD.value}
    return COLMAP


def build_collections(streams):
    """Real Stream objects split by their own classification, as data_preparation does."""
    from OpenPinch.classes.stream import Stream
    from OpenPinch.classes.stream_collection import StreamCollection
    hot, cold = StreamCollection(), StreamCollection()
    objs = []
    for s in streams:
        o = Stream(name=s["name"], t_supply=s["t_supply"], t_target=s["t_target"], heat_flow=s["heat_flow"],
                   dt_cont=s["dt_cont"], htc=s["htc"], is_process_stream=True)
        objs.append(o)
        (hot if o.type == "Hot" else cold).add(o)
    return hot, cold, objs


def cascade_line(streams, objs, shifted, extra):
    parts = ["cascade", "1" if shifted else "0"]
    for s, o in zip(streams, objs):
        parts += ["|", "H" if o.type == "Hot" else "C", rs(s["t_supply"]), rs(s["t_target"]), rs(s["heat_flow"]), rs(s["dt_cont"]), rs(s["htc"])]
    if extra:
        parts += ["|", "X"] + [rs(v) for x in extra for v in (x, x + 1.0)]
    return " ".join(parts)


def impl_cascade(streams, shifted, extra):
    from OpenPinch.analysis.problem_table_analysis import create_problem_table_with_t_int, problem_table_algorithm, set_zonal_targets
    from OpenPinch.classes.stream import Stream
    hot, cold, objs = build_collections(streams)
    allst = list(hot) + list(cold)
    # extra grid temperatures enter through utility-like streams, as zone.all_streams does
    extras = [Stream(name=f"U{i}", t_supply=x + 1.0, t_target=x, dt_cont=0.0, heat_flow=0.0, is_process_stream=False) for i, x in enumerate(extra)]
    pt = create_problem_table_with_t_int(allst + extras, is_shifted=shifted)
    problem_table_algorithm(pt, hot, cold, shifted)
    cols = {k: [float(v) for v in pt.col[c]] for k, c in colmap().items()}
    tv = set_zonal_targets(pt, pt)
    return cols, (float(tv["hot_utility_target"]), float(tv["cold_utility_target"]), float(tv["heat_recovery_target"])), objs


def parse_model(out):
    toks = out.split()
    if toks[0] != "ok":
        return None, None
    d = {}
    for t in toks[1:]:
        k, v = t.split("=", 1)
        if k == "gok":
            d[k] = v == "1"
        else:
            d[k] = [parse_r(x) for x in v.split(",")] if k not in ("qh", "qc", "qr") else parse_r(v)
    return d, (d["qh"], d["qc"], d["qr"])


def grid_clean(streams, shifted=True):
    """Cause classifier of known finding C01-sub-window (complement of the theorems' grid
    hypothesis, with margin): True when all distinct stream bounds on the scale are more than
    2·w = 2e-5 K apart."""
    pts = set()
    for s in streams:
        hot, lo, hi, cp, dt = P.classify(s)
        sh = (-dt if hot else dt) if shifted else 0
        pts |= {lo + sh, hi + sh}
    pts = sorted(pts)
    return all(b - a > F(1, 50000) for a, b in zip(pts, pts[1:]))


def gen_excluded(rng):
    """Inputs in the region the theorems exclude: bounds a few 1e-6 K apart, streams narrower
    than the activity window."""
    streams = P.gen_streams(rng, mode="grid10", iso_p=0.0, n=rng.randint(2, 6))
    for s in streams:
        if rng.random() < 0.5:
            s["t_supply"] = round(s["t_supply"] + rng.choice([5e-6, 2e-6, 1.5e-5, 9e-6]), 7)
        if rng.random() < 0.3:
            s["t_target"] = round(s["t_target"] + rng.choice([5e-6, 2e-6, 1.5e-5]), 7)
    if rng.random() < 0.4:
        t = float(rng.randrange(5, 30) * 10)
        streams.append({"name": "N", "zone": "A", "t_supply": t, "t_target": round(t + rng.choice([1e-5, 5e-6, 2e-5]), 7),
                        "heat_flow": float(rng.randrange(1, 50) * 100), "dt_cont": 0.0, "htc": 1.0})
    return streams


def service_oracle(ctx: Ctx, problem):
    from OpenPinch.lib.enums import TargetType, ProblemTableLabel as PT
    try:
        out, master = P.run_service(problem)
    except Exception as e:  # noqa: BLE001
        ctx.dist["service_raised:" + type(e).__name__] += 1
        return
    recs = {}
    for t in out.targets:
        recs.setdefault(t.name, []).append(t)
    for path, z in P.walk(master):
        key = f"{z.name}/{TargetType.DI.value}"
        if key not in z.targets:
            continue
        ss = P.streams_of_zone(problem, path)
        if not ss:
            continue
        ex = P.Exact(ss, shifted=True)
        t = z.targets[key]
        cause = None if grid_clean(ss, True) else "sub_window_geometry"
        tot = float(ex.tot_hot + ex.tot_cold)
        tolr = 1e-6 * max(tot, 1.0)
        case = {"kind": "service", "problem": problem, "zone": "/".join(path)}
        ctx.dist["zone_records"] += 1
        shape = "only_hot" if ex.tot_cold == 0 else "only_cold" if ex.tot_hot == 0 else "threshold" if (ex.Qh == 0 or ex.Qc == 0) else "pinched"
        ctx.dist["shape_" + shape] += 1
        got = (t.hot_utility_target, t.cold_utility_target, t.heat_recovery_target)
        exp = (float(ex.Qh), float(ex.Qc), float(ex.Qr))
        for nm, g, e in zip(("Qh", "Qc", "Qr"), got, exp):
            ctx.err(g, e)
            if abs(g - e) > tolr:
                ctx.oracle_fail(case, f"{nm}: reported {g}, exact cascade {e} (total duty {tot})", cause, "di_targets_exact")
        # serialised record carries the same numbers
        if key in recs and not any(abs(r.Qh - got[0]) <= tolr and abs(r.Qc - got[1]) <= tolr and abs(r.Qr - got[2]) <= tolr for r in recs[key]):
            ctx.oracle_fail(case, f"serialised record {[(r.Qh, r.Qc, r.Qr) for r in recs[key]]} differs from target {got}", None, "record_matches_target")
        pt = t.pt
        h = pt.col[PT.H_NET.value]
        if abs(h[0] - exp[0]) > max(tolr, 1e-4) or abs(h[-1] - exp[1]) > max(tolr, 1e-4):
            ctx.oracle_fail(case, f"pt first/last H_net {h[0]},{h[-1]} vs exact {exp[0]},{exp[1]}", cause, "pt_end_rows")


def run(ctx: Ctx):
    ctx.rule = ("(a) create_problem_table_with_t_int + problem_table_algorithm + set_zonal_targets on random stream sets (1-10 streams; "
                "10 K grid / integer / one-decimal temperatures; coincident and nested ranges; isothermal streams; per-stream dt_cont; "
                "both scales; extra utility grid rows) compared column by column with the Lean model; (b) the service on random "
                "multi-zone problems, every zone's direct-integration record compared with an exact Fraction cascade to 1e-6 of the "
                "total duty. Non-trivial: both hot and cold streams present and Qr > 0.")
    corpus = load_corpus("C01")
    n = ctx.n(400, 6000)
    cases = [c for c in corpus if c["kind"] == "cascade"]
    for _ in range(n):
        streams = P.gen_streams(ctx.rng)
        extra = [float(ctx.rng.randrange(0, 45) * 10) for _ in range(ctx.rng.choice([0, 0, 1, 2]))]
        cases.append({"kind": "cascade", "streams": streams, "shifted": ctx.rng.random() < 0.7, "extra": extra})
    for _ in range(ctx.n(60, 1500)):
        cases.append({"kind": "cascade", "streams": gen_excluded(ctx.rng), "shifted": True, "extra": []})
    impl, lines = [], []
    for c in cases:
        cols, tv, objs = impl_cascade(c["streams"], c["shifted"], c["extra"])
        impl.append((cols, tv))
        lines.append(cascade_line(c["streams"], objs, c["shifted"], c["extra"]))
    model = run_driver(lines) if ctx.lean.driver_ok else None
    for i, c in enumerate(cases):
        cols, tv = impl[i]
        ex = P.Exact(c["streams"], shifted=c["shifted"])
        clean = grid_clean(c["streams"], c["shifted"])
        ctx.count(c, ex.tot_hot > 0 and ex.tot_cold > 0 and ex.Qr > 0,
                  ["cascade", "scale_shifted" if c["shifted"] else "scale_real", "grid_clean" if clean else "grid_close"])
        tot = float(ex.tot_hot + ex.tot_cold)
        # oracle on the implementation (C01 statement, function level)
        for nm, g, e in zip(("Qh", "Qc", "Qr"), tv, (ex.Qh, ex.Qc, ex.Qr)):
            if abs(g - float(e)) > 1e-6 * max(tot, 1.0):
                ctx.oracle_fail(c, f"{nm}: problem_table_algorithm gives {g}, exact cascade {float(e)}", None if clean else "sub_window_geometry", "di_targets_exact")
        if model is None:
            continue
        md, mt = parse_model(model[i])
        if md is None:
            ctx.disagree(c, "ok", model[i], "model raised"); continue
        ctx.dist["theorem_hypotheses_met" if md.get("gok") else "theorem_hypotheses_not_met"] += 1
        bad = None
        for k in colmap():
            a, b = md[k], cols[k]
            if len(a) != len(b):
                bad = f"column {k}: length impl {len(b)} model {len(a)}"; break
            for x, y in zip(a, b):
                if not close(x, y, atol=1e-7, rtol=1e-9):
                    bad = f"column {k}: impl {y} model {float(x)}"; break
                ctx.err(x, y)
            if bad:
                break
        if not bad:
            for nm, x, y in zip(("qh", "qc", "qr"), mt, tv):
                if not close(x, y, atol=1e-7, rtol=1e-9):
                    bad = f"{nm}: impl {y} model {float(x)}"
        if bad:
            if not clean:
                ctx.fragile_skipped += 1
            else:
                ctx.disagree(c, {"targets": tv}, model[i][:300], bad)
        else:
            ctx.traces_validated += 1
    probs = [c["problem"] for c in corpus if c["kind"] == "service"]
    probs += [P.gen_problem(ctx.rng) for _ in range(ctx.n(250, 4000))]
    for pr in probs:
        ctx.count({"kind": "service", "n_streams": len(pr["streams"]), "zones": sorted({s["zone"] for s in pr["streams"]}),
                   "n_util": len(pr["utilities"])}, True, ["service_problem"])
        service_oracle(ctx, pr)


def replay(ctx: Ctx, payload: dict) -> int:
    case = payload.get("case") or (payload.get("disagreement") or {}).get("case")
    if not case:
        print("replay names a broken obligation only:", payload.get("broken")); return 1
    if case["kind"] == "cascade":
        cols, tv, objs = impl_cascade(case["streams"], case["shifted"], case["extra"])
        ex = P.Exact(case["streams"], shifted=case["shifted"])
        print("impl targets:", tv, "exact:", float(ex.Qh), float(ex.Qc), float(ex.Qr))
        if ctx.lean.driver_ok:
            print("model:", run_driver([cascade_line(case["streams"], objs, case["shifted"], case["extra"])])[0][:400])
        tot = float(ex.tot_hot + ex.tot_cold)
        bad = any(abs(g - float(e)) > 1e-6 * max(tot, 1.0) for g, e in zip(tv, (ex.Qh, ex.Qc, ex.Qr)))
        return 1 if bad else 0
    c2 = Ctx(ctx.prop, "quick", 0)
    service_oracle(c2, case["problem"])
    for f in c2.oracle_failures:
        print("property fails:", f["clause"], f["detail"], f["case"]["zone"])
    return 1 if c2.oracle_failures else 0
