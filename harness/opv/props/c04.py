"""C04 — Utility profiles are thermodynamically feasible and lowest-grade-first."""
from __future__ import annotations

from ..core import Ctx, load_corpus
from . import c03


def interp(T, V, x):
    if x >= T[0]:
        return V[0]
    if x <= T[-1]:
        return V[-1]
    for i in range(len(T) - 1):
        if T[i + 1] <= x <= T[i]:
            return V[i + 1] + (V[i] - V[i + 1]) * (x - T[i + 1]) / (T[i] - T[i + 1])
    return V[-1]


def frac_below(lo, hi, t):
    """Fraction of a utility band [lo, hi] lying below temperature t."""
    if t <= lo:
        return 0.0
    if t >= hi:
        return 1.0
    return (t - lo) / (hi - lo)


def greedy(T, NP, utils, side, total):
    """Largest feasible duty for each utility in lowest-grade-first order, given the earlier ones.
    Heating side: utility heat located below T may not exceed the process demand below T (NP(T));
    cooling side: utility cooling located above T may not exceed NP(T)."""
    order = sorted(range(len(utils)), key=lambda i: utils[i][2] if side == "hot" else -utils[i][1])
    pts = sorted(set(T) | {u[1] for u in utils} | {u[2] for u in utils}, reverse=True)
    duty = [0.0] * len(utils)
    for i in order:
        n, lo, hi, _ = utils[i]
        best = total - sum(duty)
        for t in pts:
            f = frac_below(lo, hi, t) if side == "hot" else 1.0 - frac_below(lo, hi, t)
            if f <= 1e-12:
                continue
            used = sum(duty[j] * (frac_below(utils[j][1], utils[j][2], t) if side == "hot" else 1.0 - frac_below(utils[j][1], utils[j][2], t)) for j in range(len(utils)))
            best = min(best, (interp(T, NP, t) - used) / f)
        duty[i] = max(0.0, best)
    return duty


def feasibility_oracle(ctx: Ctx, problem, zones):
    for zd in zones:
        case = {"kind": "service", "problem": problem, "zone": "/".join(zd["path"])}
        scale = max(1.0, zd["Qh"] + zd["Qc"])
        eps = 2e-4 + 1e-6 * scale              # tables are rounded to 4 dp
        ctx.dist["zone_records"] += 1
        for k, (t, npa, ut) in enumerate(zip(zd["T"], zd["NPa"], zd["UT"])):
            if ut < -eps:
                ctx.oracle_fail(case, f"utility GCC {ut} < 0 at T={t}", None, "utility_gcc_nonneg"); break
            if ut > npa + eps:
                ctx.oracle_fail(case, f"utility GCC {ut} above the pocket-free process GCC {npa} at shifted T={t}", None, "utility_gcc_below_process_gcc"); break
        if zd["hot_pinch"] is None:
            continue
        # lowest-grade-first optimum for ladders of isothermal (0.1 K band) utilities with distinct levels
        for side, us, total, pinch in (("hot", zd["hot"], zd["Qh"], float(zd["hot_pinch"])), ("cold", zd["cold"], zd["Qc"], float(zd["cold_pinch"]))):
            if len(us) < 1 or total <= 1e-6:
                continue
            if any(hi - lo > 0.1000001 for _, lo, hi, _ in us):
                continue
            levels = [hi for _, lo, hi, _ in us]
            if len({round(x, 3) for x in levels}) != len(levels):
                continue
            # the load profile of this side: the pocket-free GCC on its side of the pinch, zero beyond it
            # (a band that straddles the pinch may not release heat on the wrong side)
            if side == "hot":
                rows = [(t, v if t >= pinch - 1e-9 else 0.0) for t, v in zip(zd["T"], zd["NPa"])]
            else:
                rows = [(t, v if t <= pinch + 1e-9 else 0.0) for t, v in zip(zd["T"], zd["NPa"])]
            if len(rows) < 2:
                continue
            Ts, Vs = [r[0] for r in rows], [r[1] for r in rows]
            want = greedy(Ts, Vs, us, side, total)
            got = [d for *_, d in us]
            # cause classifier of finding C04-rank-real-supply: ranking by real supply temperature differs
            # from ranking by the shifted level the process sees
            real = zd["hot_supply"] if side == "hot" else zd["cold_supply"]
            shifted = [hi for _, lo, hi, _ in us] if side == "hot" else [lo for _, lo, hi, _ in us]
            rank = lambda v: sorted(range(len(v)), key=lambda i: v[i])
            cause = "utility_rank_by_real_supply" if rank(real) != rank(shifted) else None
            ctx.dist[f"ladder_{side}_{len(us)}"] += 1
            for (n, lo, hi, d), w in zip(us, want):
                if abs(d - w) > 1e-3 + 1e-5 * scale:
                    ctx.oracle_fail(case, f"{side} ladder {[(x[0], x[1], x[2]) for x in us]}: duties {got}, lowest-grade-first optimum {want}", cause, "lowest_grade_first")
                    break


def run(ctx: Ctx):
    ctx.rule = ("the service on random stream sets crossed with utility ladders (1-4 levels per side, inside pockets, at the pinch, "
                "beyond all streams, isothermal and gliding): at every row of the shifted table 0 <= H_net_ut <= H_net_actual; for "
                "ladders of isothermal utilities with distinct levels the assigned duties are compared with the lowest-grade-first "
                "optimum computed independently (greedy LP over all rows and band ends). The assignment model itself is tied and "
                "proved under C03. Non-trivial: a ladder of >= 2 levels on a side with a positive target.")
    corpus = load_corpus("C04")
    probs = [c["problem"] for c in corpus if c.get("kind") == "service"]
    probs += [c03.gen_util_problem(ctx.rng) for _ in range(ctx.n(300, 6000))]
    probs += [c03.gen_double_pinch(ctx.rng) for _ in range(ctx.n(40, 800))]      # a pocket between two pinches
    probs += [c03.gen_top_cold_dt(ctx.rng) for _ in range(ctx.n(20, 400))]
    for pr in probs:
        try:
            out, master, zones = c03.observe(pr)
        except Exception as e:  # noqa: BLE001
            ctx.count({"kind": "service", "raised": type(e).__name__}, False, ["service_raised:" + type(e).__name__])
            continue
        nt = any((len(z["hot"]) >= 2 and z["Qh"] > 0) or (len(z["cold"]) >= 2 and z["Qc"] > 0) for z in zones)
        ctx.count({"kind": "service", "n_streams": len(pr["streams"]), "utilities": [(u["name"], u["type"], u["t_supply"], u["t_target"]) for u in pr["utilities"]]},
                  nt, ["service_problem", f"n_util={min(len(pr['utilities']), 6)}"])
        feasibility_oracle(ctx, pr, zones)
    from . import c03model
    c03model.correspondence(ctx, probs)


def replay(ctx: Ctx, payload: dict) -> int:
    case = payload.get("case") or (payload.get("disagreement") or {}).get("case")
    if not case:
        print("replay names a broken obligation only:", payload.get("broken")); return 1
    if case.get("kind") == "assign":
        from . import c03model
        return c03model.replay_assign(ctx, case)
    c2 = Ctx(ctx.prop, "quick", 0)
    out, master, zones = c03.observe(case["problem"])
    feasibility_oracle(c2, case["problem"], zones)
    for f in c2.oracle_failures:
        print("property fails:", f["clause"], f["detail"], f["case"]["zone"])
    return 1 if c2.oracle_failures else 0
