"""C05 — Composite curves and problem tables are faithful to the streams."""
from __future__ import annotations

from fractions import Fraction as F

from ..core import Ctx, close, rs, parse_r, load_corpus, frac
from ..lean import run_driver
from .. import problems as P
from . import c01


def table_oracle(ctx: Ctx, case, ss, pt, shifted: bool, ref):
    """All clauses of C05 on one table. `ref` = (Qh, Qc, Qr) of the shifted cascade."""
    from OpenPinch.lib.enums import ProblemTableLabel as PT
    ex = P.Exact(ss, shifted=shifted)
    T = [float(v) for v in pt.col[PT.T.value]]
    col = lambda k: [float(v) for v in pt.col[k.value]]
    hh, hc, hn = col(PT.H_HOT), col(PT.H_COLD), col(PT.H_NET)
    dT, cph, cpc, cpn = col(PT.DELTA_T), col(PT.CP_HOT), col(PT.CP_COLD), col(PT.CP_NET)
    dhh, dhc, dhn = col(PT.DELTA_H_HOT), col(PT.DELTA_H_COLD), col(PT.DELTA_H_NET)
    tot = float(ex.tot_hot + ex.tot_cold)
    tol = 2e-4 + 1e-6 * tot          # tables are stored rounded to 4 dp
    scale = "shifted" if shifted else "real"
    cause = None if c01.grid_clean(ss, shifted) else "sub_window_geometry"

    def fail(clause, detail):
        ctx.oracle_fail(case, f"[{scale}] {detail}", cause, clause)

    off = hc[-1]
    for i, t in enumerate(T):
        x = frac(t)
        eh, ec = float(ex.hot_below(x)), float(ex.cold_below(x))
        # an interpolated row may sit at a temperature stored to 4 dp: allow slope * 5e-5
        slack_h = tol + 1e-4 * max(abs(c) for c in cph) if cph else tol
        slack_c = tol + 1e-4 * max(abs(c) for c in cpc) if cpc else tol
        if abs(hh[i] - eh) > slack_h:
            fail("hot_curve_is_content", f"row {i} T={t}: H_hot={hh[i]}, exact hot content below = {eh}"); break
        if abs((hc[i] - off) - ec) > slack_c:
            fail("cold_curve_is_content", f"row {i} T={t}: H_cold-offset={hc[i]-off}, exact cold content below = {ec}"); break
        if abs(hn[i] - (hc[i] - hh[i])) > 3 * tol:
            fail("net_is_cold_minus_hot", f"row {i}: H_net={hn[i]} H_cold-H_hot={hc[i]-hh[i]}"); break
        if hn[i] < -tol:
            fail("net_nonneg", f"row {i}: H_net={hn[i]}"); break
    if abs((hh[0] - hh[-1]) - float(ex.tot_hot)) > tol or abs((hc[0] - hc[-1]) - float(ex.tot_cold)) > tol:
        fail("span_eq_duty", f"hot span {hh[0]-hh[-1]} vs {float(ex.tot_hot)}; cold span {hc[0]-hc[-1]} vs {float(ex.tot_cold)}")
    if shifted and min(hn) > tol:
        fail("net_touches_zero", f"min H_net = {min(hn)}")
    # same targets on both scales
    qh, qc, qr = hn[0], hn[-1], hh[0] - hn[-1]
    for nm, g, e in zip(("Qh", "Qc", "Qr"), (qh, qc, qr), ref):
        if abs(g - e) > tol:
            fail("same_targets_both_scales", f"{nm} read from this table {g}, shifted cascade {e}")
    # row bookkeeping
    for i in range(1, len(T)):
        gap = T[i - 1] - T[i]
        if abs(dT[i] - gap) > 3e-4:
            fail("interval_width", f"row {i}: dT={dT[i]} gap={gap}"); break
        big = 1e-3 + 1e-4 * (abs(cph[i]) + abs(cpc[i]) + gap)
        if abs(dhh[i] - cph[i] * gap) > big or abs(dhc[i] - cpc[i] * gap) > big or abs(dhn[i] - cpn[i] * gap) > big:
            fail("dh_eq_cp_dt", f"row {i}: dH=({dhh[i]},{dhc[i]},{dhn[i]}) CP=({cph[i]},{cpc[i]},{cpn[i]}) gap={gap}"); break
        if abs(cpn[i] - (cpc[i] - cph[i])) > 1e-3:
            fail("cp_net", f"row {i}: CP_net={cpn[i]} CP_cold-CP_hot={cpc[i]-cph[i]}"); break
        if abs((hh[i - 1] - hh[i]) - dhh[i]) > big or abs((hc[i - 1] - hc[i]) - dhc[i]) > big:
            fail("cumulative_matches_dh", f"row {i}: H_hot step {hh[i-1]-hh[i]} dH_hot {dhh[i]}; H_cold step {hc[i-1]-hc[i]} dH_cold {dhc[i]}"); break


def service_oracle(ctx: Ctx, problem):
    from OpenPinch.lib.enums import TargetType
    try:
        out, master = P.run_service(problem)
    except Exception as e:  # noqa: BLE001
        ctx.dist["service_raised:" + type(e).__name__] += 1
        return
    for path, z in P.walk(master):
        key = f"{z.name}/{TargetType.DI.value}"
        if key not in z.targets:
            continue
        ss = P.streams_of_zone(problem, path)
        if not ss:
            continue
        t = z.targets[key]
        exs = P.Exact(ss, shifted=True)
        ref = (float(exs.Qh), float(exs.Qc), float(exs.Qr))
        case = {"kind": "service", "problem": problem, "zone": "/".join(path)}
        ctx.dist["zone_tables"] += 2
        n0 = len(ctx.oracle_failures)
        table_oracle(ctx, case, ss, t.pt, True, ref)
        table_oracle(ctx, case, ss, t.pt_real, False, ref)
        ctx.dist["rows_checked"] += len(t.pt) + len(t.pt_real)


def gen_zero_recovery(rng):
    """Shifted hot streams entirely below the shifted cold streams (heat recovery exactly 0) while
    the real ranges still overlap — the real table must then be re-positioned by a full offset."""
    T = float(rng.randrange(8, 30) * 10)
    dh, dc = rng.choice([5.0, 10.0, 2.5]), rng.choice([5.0, 10.0, 2.5])
    ov = rng.choice([0.25, 0.5, 0.9]) * (dh + dc)
    out = [{"name": "H1", "zone": "A", "t_supply": T + ov / 2, "t_target": T - float(rng.randrange(2, 8) * 10), "heat_flow": float(rng.randrange(1, 60) * 100), "dt_cont": dh, "htc": 1.0},
           {"name": "C1", "zone": "A", "t_supply": T - ov / 2, "t_target": T + float(rng.randrange(2, 8) * 10), "heat_flow": float(rng.randrange(1, 60) * 100), "dt_cont": dc, "htc": 1.0}]
    if rng.random() < 0.5:
        out.append({"name": "H2", "zone": "A", "t_supply": T - 20.0, "t_target": T - 90.0, "heat_flow": float(rng.randrange(1, 30) * 100), "dt_cont": dh, "htc": 1.0})
    return out


def impl_process_cascade(streams, shifted):
    """get_process_heat_cascade on collections built as data_preparation builds them."""
    from OpenPinch.analysis.problem_table_analysis import get_process_heat_cascade, get_heat_recovery_target_from_pt
    hot, cold, objs = c01.build_collections(streams)
    pt = get_process_heat_cascade(hot, cold, hot + cold, is_shifted=True)
    if shifted:
        return pt, objs
    hr = get_heat_recovery_target_from_pt(pt)
    return get_process_heat_cascade(hot, cold, hot + cold, is_shifted=False, known_heat_recovery=float(hr)), objs


def run(ctx: Ctx):
    ctx.rule = ("(a) the service on random multi-zone problems with utilities: both tables (shifted, real) of every zone checked row by "
                "row — including rows added by constant-enthalpy projection, pocket cutting and utility levels — against exact Fraction "
                "heat contents below each row temperature, spans, H_net = H_cold - H_hot >= 0 touching 0, equal targets on both scales, "
                "and dT / CP / dH / cumulative bookkeeping; (b) get_process_heat_cascade (both scales, with the heat-recovery shift and "
                "the projection rows) compared cell by cell with the Lean model composed of cascade + shift + projection + insertion. "
                "Non-trivial: a zone with both hot and cold streams.")
    corpus = load_corpus("C05")
    # (b) function-level correspondence
    cases = [c for c in corpus if c["kind"] == "pcascade"]
    for _ in range(ctx.n(300, 5000)):
        cases.append({"kind": "pcascade", "streams": P.gen_streams(ctx.rng), "shifted": ctx.rng.random() < 0.5})
    for _ in range(ctx.n(40, 600)):
        cases.append({"kind": "pcascade", "streams": gen_zero_recovery(ctx.rng), "shifted": False})
    lines, impl = [], []
    for c in cases:
        pt, objs = impl_process_cascade(c["streams"], c["shifted"])
        impl.append(pt)
        lines.append(pcascade_line(c["streams"], objs, c["shifted"]))
    model = run_driver(lines) if ctx.lean.driver_ok else None
    from . import c08
    for i, c in enumerate(cases):
        ex = P.Exact(c["streams"], shifted=True)
        ctx.count(c, ex.tot_hot > 0 and ex.tot_cold > 0, ["pcascade", "scale_shifted" if c["shifted"] else "scale_real"])
        exs = P.Exact(c["streams"], shifted=True)
        table_oracle(ctx, c, c["streams"], impl[i], c["shifted"], (float(exs.Qh), float(exs.Qc), float(exs.Qr)))
        if model is None:
            continue
        if not model[i].startswith("ok"):
            ctx.disagree(c, "ok", model[i][:100], "model raised"); continue
        mrows = [[parse_r(v) for v in r.split(",")] for r in model[i].split(" ; ")[1:]]
        rows = c08.to_rows(impl[i])
        bad = None
        if len(mrows) != len(rows):
            bad = f"rows impl {len(rows)} model {len(mrows)}"
        else:
            for ri, (a, b) in enumerate(zip(mrows, rows)):
                for ci, (x, y) in enumerate(zip(a, b)):
                    if not close(x, y, atol=1e-6, rtol=1e-9):
                        bad = f"row {ri} col {c08.L()['cols'][ci]}: impl {y} model {None if x is None else float(x)}"; break
                if bad:
                    break
        if bad:
            if not c01.grid_clean(c["streams"], c["shifted"]):
                ctx.fragile_skipped += 1
            else:
                ctx.disagree(c, None, model[i][:200], bad)
        else:
            ctx.traces_validated += 1
    # (a) service level
    probs = [c["problem"] for c in corpus if c["kind"] == "service"]
    probs += [P.gen_problem(ctx.rng) for _ in range(ctx.n(150, 3000))]
    probs += [{"streams": gen_zero_recovery(ctx.rng), "utilities": [], "options": {}} for _ in range(ctx.n(20, 300))]
    for pr in probs:
        ctx.count({"kind": "service", "n_streams": len(pr["streams"]), "zones": sorted({s["zone"] for s in pr["streams"]}),
                   "n_util": len(pr["utilities"])}, True, ["service_problem"])
        service_oracle(ctx, pr)


def pcascade_line(streams, objs, shifted):
    return c01.cascade_line(streams, objs, shifted, []).replace("cascade", "pcascade", 1)


def replay(ctx: Ctx, payload: dict) -> int:
    case = payload.get("case") or (payload.get("disagreement") or {}).get("case")
    if not case:
        print("replay names a broken obligation only:", payload.get("broken")); return 1
    c2 = Ctx(ctx.prop, "quick", 0)
    if case["kind"] == "service":
        service_oracle(c2, case["problem"])
    else:
        pt, objs = impl_process_cascade(case["streams"], case["shifted"])
        exs = P.Exact(case["streams"], shifted=True)
        table_oracle(c2, case, case["streams"], pt, case["shifted"], (float(exs.Qh), float(exs.Qc), float(exs.Qr)))
        if ctx.lean.driver_ok:
            print("model:", run_driver([pcascade_line(case["streams"], objs, case["shifted"])])[0][:300])
    for f in c2.oracle_failures:
        print("property fails:", f["clause"], f["detail"])
    return 1 if c2.oracle_failures else 0
