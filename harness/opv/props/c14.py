"""C14 — The service is total and well-formed on every valid problem."""
from __future__ import annotations

import json
import math
import traceback
import warnings

from ..core import Ctx, load_corpus
from ..lean import run_driver
from .. import problems as P

BOOL_OPTS = ["DO_DIRECT_OPERATION_TARGETING", "DO_DIRECT_SITE_TARGETING", "DO_INDIRECT_PROCESS_TARGETING", "DO_BALANCED_CC",
             "DO_AREA_TARGETING", "DO_EXERGY_TARGETING", "DO_VERTICAL_GCC", "DO_ASSITED_HT", "DO_TURBINE_WORK",
             "DO_PROCESS_HP_TARGETING", "DO_UTILITY_HP_TARGETING"]
HP_OPTS = ("DO_PROCESS_HP_TARGETING", "DO_UTILITY_HP_TARGETING")


def vu(x, unit):
    return {"value": x, "units": unit}


def gen_case(rng):
    shape = rng.choice(["generic", "generic", "generic", "single", "only_hot", "only_cold", "isothermal", "zero_dt", "dup_names", "unused_utils", "vu",
                        "root_only_tree", "zero_duty", "glide_ladder", "glide_ladder", "near_tol", "typed_tree"])
    labels = rng.choice([["A"], ["A", "B"], ["A/X", "A/Y", "B"], ["A/X/U", "A/X/V", "A/Y", "B"], ["/", "A"], ["A/", "/A"]])
    pr = P.gen_problem(rng, labels=labels, with_tree=(rng.random() < 0.2), util_kind=rng.choice(["none", "ladder", "outside", "mixed"]))
    ss = pr["streams"]
    if shape == "single":
        pr["streams"] = ss[:1]
    elif shape == "only_hot":
        pr["streams"] = [s for s in ss if s["t_supply"] > s["t_target"]] or [dict(ss[0], t_supply=200.0, t_target=100.0, heat_flow=abs(ss[0]["heat_flow"]))]
    elif shape == "only_cold":
        pr["streams"] = [s for s in ss if s["t_supply"] < s["t_target"]] or [dict(ss[0], t_supply=100.0, t_target=200.0, heat_flow=abs(ss[0]["heat_flow"]))]
    elif shape == "isothermal":
        for s in ss:
            if rng.random() < 0.6:
                s["t_target"] = s["t_supply"]
                s["heat_flow"] = abs(s["heat_flow"]) * rng.choice([1, -1])
    elif shape == "zero_dt":
        for s in ss + pr["utilities"]:
            s["dt_cont"] = 0.0
    elif shape == "dup_names":
        for s in ss:
            s["name"] = rng.choice(["S", "H1"])
    elif shape == "unused_utils":
        hi = max(max(s["t_supply"], s["t_target"]) for s in ss)
        pr["utilities"] = pr["utilities"] + [
            {"name": "VHP", "type": "Hot", "t_supply": hi + 300.0, "t_target": hi + 300.0, "heat_flow": 0.0, "dt_cont": 5.0, "htc": 1.0, "price": 500.0},
            {"name": "REF", "type": "Cold", "t_supply": -150.0, "t_target": -140.0, "heat_flow": 0.0, "dt_cont": 5.0, "htc": 1.0, "price": 900.0}]
    elif shape == "root_only_tree":
        # a legal tree that is just its root (child list absent, null or empty); every stream labelled with the root
        root = rng.choice(["Plant", "Site", "A"])
        pr["zone_tree"] = {"name": root, "type": rng.choice(["Site", "Process Zone"])}
        k = rng.random()
        if k < 0.35:
            pr["zone_tree"]["children"] = None
        elif k < 0.55:
            pr["zone_tree"]["children"] = []
        for s in ss:
            s["zone"] = root
    elif shape == "zero_duty":
        # streams that carry no duty: some of them, or every stream of one zone
        z = rng.choice(sorted({s["zone"] for s in ss}))
        whole = rng.random() < 0.5
        for s in ss:
            if (s["zone"] == z and (whole or rng.random() < 0.7)) or rng.random() < 0.15:
                s["heat_flow"] = 0.0
        if all(s["heat_flow"] == 0.0 for s in ss):
            ss[0]["heat_flow"] = 500.0
    elif shape == "glide_ladder":
        # two utilities of one kind both carrying load in a zone, the colder one gliding and limited by its return
        # temperature (hot oil / district heating behind steam / cooling water), on a site of several zones
        from . import c09, c12
        g = c09.gen_glide_site(rng) if rng.random() < 0.5 else c12.gen_cold_glide(rng)
        if len({s["zone"] for s in g["streams"]}) < 2:
            g["streams"] += [dict(s, name=s["name"] + "b", zone="Z2") for s in g["streams"][:2]]
        pr["streams"], pr["utilities"] = g["streams"], g["utilities"]
        pr.pop("zone_tree", None)
        ss = pr["streams"]
    elif shape == "typed_tree":
        # a user tree three or four levels deep whose nodes carry the generic type names ("Zone", "Sub-Zone", blank):
        # their kind then follows from the depth (site / process zone / unit operation), so unit operations contain
        # unit operations; targeted with the operation-level options on
        labs = rng.choice([["A/X/U", "A/X/V", "A/Y", "B"], ["A/X/U", "A/X/V"], ["A/X/U/P", "A/X/U/Q", "A/X/V", "B/W"]])
        g = P.gen_problem(rng, labels=labs, with_tree=True, name_clash_p=0.0, util_kind=rng.choice(["none", "ladder"]))
        pr["streams"], pr["utilities"], pr["zone_tree"] = g["streams"], g["utilities"], g["zone_tree"]
        ss = pr["streams"]

        def retype(n, depth, parent_is_operation):
            # below a unit operation only operations are legal (the service rejects anything else as invalid nesting)
            if depth == 1:
                n["type"] = rng.choice(["Zone", "Process Zone"])
            elif depth > 1:
                n["type"] = rng.choice(["Zone", ""]) if parent_is_operation else rng.choice(["Zone", "Zone", "Sub-Zone", "Process Zone", ""])
            is_op = depth > 1 and n["type"] in ("Zone", "")
            for c in n.get("children") or []:
                retype(c, depth + 1, is_op)
        retype(pr["zone_tree"], 0, False)
    elif shape == "near_tol":
        # two stream temperatures that differ by about the tolerance (measured data, unit conversions)
        k = rng.randrange(len(ss))
        ss[k]["t_supply"] = ss[(k + 1) % len(ss)]["t_supply"] + rng.choice([8e-7, 1e-6, 1.2e-6, 3e-6, -1e-6])
        if ss[k]["t_supply"] == ss[k]["t_target"]:
            ss[k]["t_target"] += 10.0
    elif shape == "vu":
        for s in pr["streams"]:
            s["t_supply"] = vu(s["t_supply"], "degC"); s["t_target"] = vu(s["t_target"], "degC")
            s["heat_flow"] = vu(s["heat_flow"], "kW"); s["dt_cont"] = vu(s["dt_cont"], "degC"); s["htc"] = vu(s["htc"], "kW/m^2/degC")
    # options
    opts = {}
    r = rng.random()
    if r < 0.35:
        pass
    elif r < 0.93:
        for k in BOOL_OPTS:
            if k in HP_OPTS:
                continue
            if rng.random() < 0.3:
                opts[k] = rng.random() < 0.6
        if rng.random() < 0.3:
            opts["DT_CONT"] = rng.choice([0.0, 5.0, 10.0])
        if rng.random() < 0.2:
            opts["DT_PHASE_CHANGE"] = rng.choice([0.1, 0.01, 1.0])
    else:
        opts[rng.choice(HP_OPTS)] = True
    if shape == "typed_tree" and rng.random() < 0.7:
        for k in rng.sample(["DO_DIRECT_OPERATION_TARGETING", "DO_INDIRECT_PROCESS_TARGETING"], k=rng.choice([1, 2])):
            opts[k] = True
        for k in HP_OPTS:
            opts.pop(k, None)
    pr["options"] = opts
    return {"kind": "service", "problem": pr, "shape": shape}


def cold_sign_applies(pr):
    """Known defect C03-cold-sufficiency-sign: in some group of streams (the site or a zone) every supplied cold utility
    is too warm for the coldest hot stream, yet the code (testing with the wrong sign of dt_cont) adds no default."""
    cold = [u for u in pr["utilities"] if u["type"] in ("Cold", "Both")]
    if not cold:
        return False
    groups = [pr["streams"]] + [[s for s in pr["streams"] if s["zone"] == z or s["zone"].startswith(z + "/")]
                                for z in {s["zone"].split("/")[0] for s in pr["streams"]} | {s["zone"] for s in pr["streams"]}]
    for g in groups:
        hot_targets = [float(val(s["t_target"])) - float(val(s["dt_cont"])) for s in g
                       if float(val(s["t_supply"])) > float(val(s["t_target"])) or (float(val(s["t_supply"])) == float(val(s["t_target"])) and float(val(s["heat_flow"])) < 0)]
        if not hot_targets:
            continue
        cu_t_max = min(hot_targets)
        top = lambda u: max(u["t_supply"], u["t_target"] if u["t_target"] != u["t_supply"] else u["t_supply"] + 0.1)
        reach = any(top(u) + u["dt_cont"] <= cu_t_max + 1e-9 for u in cold)
        thinks = any(top(u) - u["dt_cont"] <= cu_t_max for u in cold)
        if not reach and thinks:
            return True
    return False


def near_tol_bounds(pr):
    """Known defect family C01-sub-window: two DISTINCT shifted stream / utility bounds closer than the activity window
    (10 x tol = 1e-5 K) - the grid keeps both rows and the site stage refuses an interval narrower than tol."""
    b = set()
    for x in pr["streams"] + pr["utilities"]:
        d = float(val(x.get("dt_cont", 0.0)) or 0.0)
        ts, tt = float(val(x["t_supply"])), float(val(x["t_target"]) if val(x["t_target"]) is not None else val(x["t_supply"]))
        hot = ts > tt or (ts == tt and float(val(x.get("heat_flow", 0.0)) or 0.0) < 0) or x.get("type") == "Hot"
        for t in (ts, tt):
            b.add(round(t - d if hot else t + d, 9)); b.add(round(t, 9))
    v = sorted(b)
    return any(0 < q - p < 1e-5 for p, q in zip(v, v[1:]))


def val(x):
    return x["value"] if isinstance(x, dict) else x


def envelope(pr):
    lo, hi = 1e18, -1e18
    for s in pr["streams"] + pr["utilities"]:
        d = abs(float(val(s.get("dt_cont", 0.0)) or 0.0))
        for k in ("t_supply", "t_target"):
            t = float(val(s[k]))
            lo = min(lo, t - d); hi = max(hi, t + d)
    return lo, hi


def walk_numbers(x, path=""):
    if isinstance(x, dict):
        for k, v in x.items():
            yield from walk_numbers(v, path + "/" + str(k))
    elif isinstance(x, list):
        for i, v in enumerate(x):
            yield from walk_numbers(v, path + f"[{i}]")
    elif isinstance(x, float):
        yield path, x


def service_oracle(case):
    from OpenPinch.main import pinch_analysis_service
    from OpenPinch.lib.schema import TargetOutput
    from OpenPinch.lib.enums import TargetType
    pr = case["problem"]
    fails = []
    opts = pr.get("options") or {}
    hp = [k for k in HP_OPTS if opts.get(k)]
    try:
        with warnings.catch_warnings():
            warnings.simplefilter("ignore")
            out, master = pinch_analysis_service(json.loads(json.dumps(pr)), "P", True)
    except Exception as e:  # noqa: BLE001
        tb = traceback.extract_tb(e.__traceback__)
        where = next((f"{f.filename.split('/')[-1]}:{f.lineno}" for f in reversed(tb) if "/OpenPinch/" in f.filename), "?")
        cause = None
        if hp and any("heat_pump_targeting" in f.filename or "simple_heat_pump" in f.filename for f in tb):
            cause = "hp_targeting_raises"
        zero_dt = any(float(val(x.get("dt_cont", 1.0)) or 0.0) == 0.0 for x in pr["streams"] + pr["utilities"])
        if opts.get("DO_AREA_TARGETING") and zero_dt and isinstance(e, ValueError) and "Invalid temperature differences" in str(e):
            cause = "area_zero_driving_force"
        if opts.get("DO_AREA_TARGETING") and isinstance(e, ValueError) and "composite curves to be balanced" in str(e) and cold_sign_applies(pr):
            cause = "cold_sufficiency_sign"
        if isinstance(e, ValueError) and near_tol_bounds(pr) and ("Infeasible temperature interval" in str(e)
                                                                    or "composite curves to be balanced" in str(e)):
            cause = "sub_window_geometry"
        fails.append(("service_total", f"raised {type(e).__name__}: {str(e)[:120]} at {where} (shape {case.get('shape')}, options {opts})", cause))
        return fails, None
    cause_hp = None
    cause_rep = "hp_targeting_nondeterministic" if hp else None
    # validates against the output schema and is JSON-serialisable
    try:
        d = out.model_dump(mode="json")
        txt = json.dumps(d, allow_nan=False)
        TargetOutput.model_validate(json.loads(txt))
    except Exception as e:  # noqa: BLE001
        fails.append(("json_and_schema", f"{type(e).__name__}: {str(e)[:160]}", cause_hp))
        d = out.model_dump(mode="python")
    # finite numbers only
    for path, v in walk_numbers(d):
        if not math.isfinite(v):
            fails.append(("finite_numbers", f"{path} = {v}", cause_hp)); break
    # one direct-integration record per zone
    names = [t.name for t in out.targets]
    zones = [z for _, z in P.walk(master)]
    for z in zones:
        key = f"{z.name}/{TargetType.DI.value}"
        has_streams = len(z.hot_streams) + len(z.cold_streams) > 0
        unit_op = z.identifier == "Unit Operation" and not opts.get("DO_DIRECT_OPERATION_TARGETING", False)
        n = sum(1 for t in z.targets if t == key)
        if has_streams and not unit_op and n != 1:
            fails.append(("one_di_record_per_zone", f"zone {z.name} ({z.identifier}) has {n} direct-integration records", None))
    # temperatures within the envelope
    lo, hi = envelope(pr)
    for t in d["targets"]:
        for k in ("cold_temp", "hot_temp"):
            v = (t.get("temp_pinch") or {}).get(k)
            # an isothermal stream or utility is represented with a 0.01 K glide, which may carry a site pinch
            if v is not None and not (lo - 0.0101 <= v <= hi + 0.0101):
                fails.append(("temperatures_in_envelope", f"{t['name']} {k} = {v} outside [{lo}, {hi}]", None))
    # default utilities are placed one default contribution and one phase-change step beyond the extreme streams
    extra = float(opts.get("DT_CONT", 5.0)) + float(opts.get("DT_PHASE_CHANGE", 0.1)) + 0.02
    env_lo, env_hi = lo - extra, hi + extra
    if not hp:
        for key, gs in (d.get("graphs") or {}).items():
            for g in gs["graphs"]:
                for sg in g["segments"]:
                    for p in sg["data_points"]:
                        if not (env_lo - 1e-6 <= p["y"] <= env_hi + 1e-6):
                            fails.append(("temperatures_in_envelope", f"graph {key}/{g['type']} has a point at T={p['y']} outside [{env_lo}, {env_hi}]", None)); break
                    else:
                        continue
                    break
    # identical when repeated
    try:
        with warnings.catch_warnings():
            warnings.simplefilter("ignore")
            out2 = pinch_analysis_service(json.loads(json.dumps(pr)), "P")
        if json.dumps(out2.model_dump(mode="json"), sort_keys=True, default=str) != json.dumps(out.model_dump(mode="json"), sort_keys=True, default=str):
            fails.append(("repeatable", "a second call on the same input returned a different result", cause_rep))
    except Exception as e:  # noqa: BLE001
        fails.append(("repeatable", f"the second call raised {type(e).__name__}", cause_rep))
    return fails, out


def run(ctx: Ctx):
    ctx.rule = ("the service on random schema-valid problems including the degenerate shapes (single stream, only hot / only cold, "
                "isothermal, zero contributions, duplicate names, never-needed utilities, value-with-unit numbers, optional zone tree) "
                "x random subsets of the 11 boolean analysis options wired into the pipeline and DT_CONT / DT_PHASE_CHANGE: returns, "
                "output validates and round-trips through JSON with finite numbers only, one direct-integration record per zone, "
                "pinch and graph temperatures inside the input envelope widened by the contributions, identical on repetition. "
                "Non-trivial: a degenerate shape or a non-default option set.")
    corpus = load_corpus("C14")
    cases = [c for c in corpus if c.get("kind") == "service"] + [gen_case(ctx.rng) for _ in range(ctx.n(260, 5000))]
    for c in cases:
        fails, out = service_oracle(c)
        opts = c["problem"].get("options") or {}
        ctx.count({"kind": "service", "shape": c.get("shape"), "options": sorted(k for k, v in opts.items() if v is True), "n": len(c["problem"]["streams"])},
                  c.get("shape") != "generic" or bool(opts), ["shape_" + str(c.get("shape")), "opts=" + str(min(len(opts), 4))] + ["opt_" + k for k, v in opts.items() if v is True])
        for clause, detail, cause in fails:
            ctx.oracle_fail(c, detail, cause, clause)


def replay(ctx: Ctx, payload: dict) -> int:
    case = payload.get("case") or (payload.get("disagreement") or {}).get("case")
    if not case:
        print("replay names a broken obligation only:", payload.get("broken")); return 1
    fails, _ = service_oracle(case)
    for f in fails:
        print("property fails:", f)
    return 1 if fails else 0
