"""C06 — Reported pinch temperatures are where the exact cascade is pinched."""
from __future__ import annotations

from fractions import Fraction as F

from ..core import Ctx, close, rs, load_corpus
from ..lean import run_driver
from .. import problems as P

TOL = 1e-6


# --------------------------------------------------------------------------- columns

def gen_column(rng):
    n = rng.choice([1, 2, 2, 3, 4, 5, 6, 8, 12])
    kind = rng.choice(["generic", "lead", "trail", "both", "interior", "multi", "allzero", "nozero", "tiny"])
    vals = [float(rng.randrange(1, 60) * 10) for _ in range(n)]
    z = lambda: rng.choice([0.0, 0.0, 1e-7, -1e-7, 9.9e-7])
    if kind == "lead":
        for i in range(rng.randint(1, n)):
            vals[i] = z()
    elif kind == "trail":
        for i in range(rng.randint(1, n)):
            vals[n - 1 - i] = z()
    elif kind == "both":
        for i in range(rng.randint(1, max(1, n // 2))):
            vals[i] = z()
        for i in range(rng.randint(1, max(1, n // 2))):
            vals[n - 1 - i] = z()
    elif kind == "interior" and n >= 3:
        vals[rng.randrange(1, n - 1)] = z()
    elif kind == "multi":
        for i in range(n):
            if rng.random() < 0.4:
                vals[i] = z()
    elif kind == "allzero":
        vals = [z() for _ in range(n)]
    elif kind == "tiny":
        vals = [rng.choice([1e-6, 1.1e-6, 9e-7, 0.0, 5.0]) for _ in range(n)]
    T = [float(400 - 10 * i) for i in range(n)]
    return {"kind": "column", "T": T, "h": vals, "shape": kind}


def impl_column(case):
    from OpenPinch.classes.problem_table import ProblemTable
    from OpenPinch.lib.enums import ProblemTableLabel as PT
    pt = ProblemTable({PT.T.value: list(case["T"]), PT.H_NET.value: list(case["h"])})
    rh, rc, valid = pt.pinch_idx()
    try:
        th, tc = pt.pinch_temperatures()
        temps = "none" if th is None else (th, tc)
    except Exception as e:  # noqa: BLE001
        temps = f"err {type(e).__name__}"
    return int(rh), int(rc), bool(valid), temps


def column_oracle(case, rh, rc, valid):
    """Property text on a residual column. Returns [(clause, detail, cause)]."""
    h = case["h"]; n = len(h)
    Z = [i for i, v in enumerate(h) if abs(v) < TOL]
    fails = []
    if n < 2:
        return fails            # a table always has >= 2 rows (two bounds of one stream)
    if not Z:
        if valid:
            fails.append(("absent_iff_no_zero", f"no zero in {h} but pinch rows {rh},{rc} reported", None))
        return fails
    if len(Z) == n:
        if not valid:
            fails.append(("absent_only_if_no_zero", f"all {n} rows are zero but the pinch is reported absent", "pinch_all_zero_reported_absent"))
        return fails
    if not valid:
        fails.append(("absent_only_if_no_zero", f"zeros at {Z} but reported absent", None))
        return fails
    if rh not in Z or rc not in Z:
        fails.append(("pinch_rows_are_zeros", f"rows {rh},{rc} zeros {Z}", None))
    if rh > rc:
        fails.append(("hot_not_colder_than_cold", f"rows {rh},{rc}", None))
    lead = 0
    while lead < n and lead in Z:
        lead += 1
    trail = n - 1
    while trail >= 0 and trail in Z:
        trail -= 1
    inner = [z for z in Z if z >= lead and z <= trail]
    for z in inner:
        if not (rh <= z <= rc):
            fails.append(("zeros_between", f"zero row {z} outside [{rh},{rc}] in {h}", None))
    if 0 in Z and rh != lead - 1:
        fails.append(("threshold_hot_end", f"leading zero run ends at {lead-1}, hot row {rh}", None))
    if (n - 1) in Z and rc != trail + 1:
        fails.append(("threshold_cold_end", f"trailing zero run starts at {trail+1}, cold row {rc}", None))
    return fails


# --------------------------------------------------------------------------- service level

def service_oracle(ctx: Ctx, problem):
    try:
        out, master = P.run_service(problem)
    except Exception as e:  # noqa: BLE001
        ctx.dist["service_raised"] += 1
        return
    from OpenPinch.lib.enums import TargetType
    recs = {}
    for t in out.targets:
        recs.setdefault(t.name, []).append(t)
    for path, z in P.walk(master):
        key = f"{z.name}/{TargetType.DI.value}"
        if key not in z.targets:
            continue
        ss = P.streams_of_zone(problem, path)
        if not ss:
            continue
        ex = P.Exact(ss, shifted=True)
        t = z.targets[key]
        exp, allzero = ex.pinches()
        got = (t.hot_pinch, t.cold_pinch)
        scale = max(1.0, float(ex.tot_hot + ex.tot_cold))
        case = {"kind": "service", "problem": problem, "zone": "/".join(path)}
        ctx.dist["zone_records"] += 1
        if exp is None:
            ctx.dist["svc_no_zero"] += 1
            if got[0] is not None or got[1] is not None:
                ctx.oracle_fail(case, f"residual has no zero but pinch {got} reported", None, "absent_iff_no_zero")
            continue
        if got[0] is None or got[1] is None:
            cause = "pinch_all_zero_reported_absent" if allzero else None
            ctx.oracle_fail(case, f"residual zero at {tuple(map(float, exp))} but pinch reported absent", cause, "absent_only_if_no_zero")
            continue
        ctx.dist["svc_threshold" if (ex.Qh == 0 or ex.Qc == 0) else "svc_pinched"] += 1
        for nm, g in (("hot", got[0]), ("cold", got[1])):
            r = float(ex.residual(F(float(g))))
            if abs(r) > 1e-6 * scale:
                ctx.oracle_fail(case, f"{nm} pinch {g}: exact residual there is {r}", None, "pinch_is_zero_of_residual")
        if got[0] < got[1] - 1e-9:
            ctx.oracle_fail(case, f"hot pinch {got[0]} colder than cold pinch {got[1]}", None, "hot_not_colder_than_cold")
        if abs(got[0] - float(exp[0])) > 1e-5 or abs(got[1] - float(exp[1])) > 1e-5:
            ctx.oracle_fail(case, f"reported {got}, exact cascade gives {tuple(map(float, exp))}", None, "pinch_location")
        # serialisation collapse is consistent with the attributes
        def ser_ok(tp):
            if abs(got[0] - got[1]) < TOL:
                return tp.cold_temp is not None and abs(tp.cold_temp - got[1]) < 1e-9
            return (tp.cold_temp is not None and tp.hot_temp is not None
                    and abs(tp.cold_temp - got[1]) < 1e-9 and abs(tp.hot_temp - got[0]) < 1e-9)
        if key in recs and not any(ser_ok(r.temp_pinch) for r in recs[key]):
            ctx.oracle_fail(case, f"serialised temp_pinch {[r.temp_pinch for r in recs[key]]} vs attributes {got}", None, "serialised_pinch")


# --------------------------------------------------------------------------- run

def col_line(case):
    return "pinch " + " ".join(rs(v) for v in case["h"])


def colt_line(case):
    return "pincht " + " ".join(rs(v) for v in case["T"]) + " | " + " ".join(rs(v) for v in case["h"])


def run(ctx: Ctx):
    ctx.rule = ("(a) pinch_idx / pinch_temperatures on random residual columns (1-12 rows; leading, trailing, both, interior, multiple "
                "zero runs; all-zero; no zero; values within a factor of tol) compared with the Lean model and checked against the "
                "property clauses; (b) the service on random problems (1-10 streams, 1-3 zones, isothermal streams, utilities), the "
                "reported hot/cold pinch of every zone compared with the zeros of an exact Fraction cascade. Non-trivial: column with "
                ">= 1 zero and >= 1 non-zero, or a zone record with a pinch.")
    corpus = load_corpus("C06")
    cols = [c for c in corpus if c["kind"] == "column"] + [gen_column(ctx.rng) for _ in range(ctx.n(3000, 40000))]
    model = run_driver([col_line(c) for c in cols] + [colt_line(c) for c in cols]) if ctx.lean.driver_ok else None
    for i, c in enumerate(cols):
        rh, rc, valid, temps = impl_column(c)
        Z = [v for v in c["h"] if abs(v) < TOL]
        ctx.count(c, 0 < len(Z) < len(c["h"]), [f"col_{c.get('shape','corpus')}"])
        for clause, detail, cause in column_oracle(c, rh, rc, valid):
            ctx.oracle_fail(c, detail, cause, clause)
        if model is not None:
            want = f"{rh} {rc} {1 if valid else 0}"
            mt = model[len(cols) + i]
            if temps == "none" or isinstance(temps, str):
                tw_ok = (mt == temps)
            else:
                a, b = mt.split() if len(mt.split()) == 2 else ("nan", "nan")
                from ..core import parse_r
                tw_ok = a != "nan" and close(parse_r(a), temps[0]) and close(parse_r(b), temps[1])
            fragile = any(abs(abs(v) - TOL) < 1e-15 for v in c["h"])
            if (model[i] != want or not tw_ok) and fragile:
                ctx.fragile_skipped += 1     # a value sits exactly on the float threshold
            elif model[i] != want or not tw_ok:
                ctx.disagree(c, {"rows": want, "temps": str(temps)}, {"rows": model[i], "temps": mt}, "pinch_idx")
            else:
                ctx.traces_validated += 1
    # service level
    probs = [c["problem"] for c in corpus if c["kind"] == "service"]
    probs += [P.gen_problem(ctx.rng) for _ in range(ctx.n(250, 4000))]
    # balanced / threshold shapes on purpose
    for _ in range(ctx.n(30, 300)):
        a = float(ctx.rng.randrange(5, 20) * 10); b = a + float(ctx.rng.randrange(2, 10) * 10)
        q = float(ctx.rng.randrange(1, 50) * 100)
        probs.append({"streams": [
            {"name": "H", "zone": "A", "t_supply": b, "t_target": a, "heat_flow": q, "dt_cont": 0.0, "htc": 1.0},
            {"name": "C", "zone": "A", "t_supply": a, "t_target": b, "heat_flow": q * ctx.rng.choice([1, 1, 0.5, 2]), "dt_cont": 0.0, "htc": 1.0}],
            "utilities": [], "options": {}})
    for pr in probs:
        ctx.count({"kind": "service", "n_streams": len(pr["streams"]), "zones": sorted({s["zone"] for s in pr["streams"]})}, True, ["service_problem"])
        service_oracle(ctx, pr)


def replay(ctx: Ctx, payload: dict) -> int:
    case = payload.get("case") or (payload.get("disagreement") or {}).get("case")
    if not case:
        print("replay names a broken obligation only:", payload.get("broken")); return 1
    if case["kind"] == "column":
        rh, rc, valid, temps = impl_column(case)
        print("impl:", rh, rc, valid, temps)
        if ctx.lean.driver_ok:
            print("model:", run_driver([col_line(case), colt_line(case)]))
        fails = column_oracle(case, rh, rc, valid)
        for f in fails:
            print("property fails:", f)
        return 1 if fails else 0
    c2 = Ctx(ctx.prop, "quick", 0)
    service_oracle(c2, case["problem"])
    for f in c2.oracle_failures:
        print("property fails:", f["clause"], f["detail"], f["case"]["zone"])
    return 1 if c2.oracle_failures else 0
