"""C15 — Area, exchanger-count and capital-cost targets follow their definitions."""
from __future__ import annotations

import math
import warnings

from ..core import Ctx, load_corpus, rs, parse_r, close
from ..lean import run_driver
from .. import problems as P


# --------------------------------------------------------------------------- independent area target

def segs_of(streams, utilities):
    out = []
    for s in list(streams):
        lo, hi = float(s.t_min), float(s.t_max)
        q = abs(float(s.heat_flow))
        if q > 1e-9 and hi > lo:
            out.append((lo, hi, q / (hi - lo), float(s.htc)))
    for u in list(utilities):
        lo, hi = float(u.t_min), float(u.t_max)
        q = abs(float(u.heat_flow))
        if q > 1e-9 and hi > lo:
            out.append((lo, hi, q / (hi - lo), float(u.htc)))
    return out


def curve(segs):
    """(T grid ascending, cumulative H from the bottom)."""
    T = sorted({t for s in segs for t in s[:2]})
    H = [0.0]
    for a, b in zip(T, T[1:]):
        H.append(H[-1] + sum(cp for lo, hi, cp, h in segs if lo <= a and b <= hi) * (b - a))
    return T, H


def t_at(T, H, h, side):
    """Temperature of the curve at enthalpy h; on a vertical part (no stream over a temperature range) the end
    nearer to the inside of the interval is taken: side=+1 approaching from above h, -1 from below."""
    eps = 1e-7 * max(1.0, H[-1])
    x = min(max(h + side * eps, H[0]), H[-1])
    for i in range(len(T) - 1):
        if H[i] <= x <= H[i + 1] and H[i + 1] > H[i]:
            return T[i] + (T[i + 1] - T[i]) * (min(max(h, H[i]), H[i + 1]) - H[i]) / (H[i + 1] - H[i])
    return T[-1] if side < 0 else T[0]


def resist(segs, ta, tb):
    """Duty-weighted film resistance of the streams active over [ta, tb]."""
    mid = (ta + tb) / 2
    act = [(cp, h) for lo, hi, cp, h in segs if lo - 1e-9 <= mid <= hi + 1e-9]
    tot = sum(cp for cp, h in act)
    return sum(cp / h for cp, h in act) / tot if tot > 0 else 0.0


def lmtd(d1, d2):
    if d1 <= 0 or d2 <= 0:
        return None
    if abs(d1 - d2) < 1e-9:
        return (d1 + d2) / 2
    return (d1 - d2) / math.log(d1 / d2)


def area_target(hot, cold):
    Th, Hh = curve(hot); Tc, Hc = curve(cold)
    if abs(Hh[-1] - Hc[-1]) > 1e-6 * max(1.0, Hh[-1]):
        return None, f"balanced composite curves have different spans: hot {Hh[-1]}, cold {Hc[-1]}"
    hs = []
    for h in sorted(Hh + Hc):
        if not hs or h - hs[-1] > 1e-7 * max(1.0, Hh[-1]):
            hs.append(h)
    A = 0.0
    for a, b in zip(hs, hs[1:]):
        if b - a < 1e-9:
            continue
        th1, th2 = t_at(Th, Hh, a, +1), t_at(Th, Hh, b, -1)
        tc1, tc2 = t_at(Tc, Hc, a, +1), t_at(Tc, Hc, b, -1)
        L = lmtd(th2 - tc2, th1 - tc1)
        if L is None:
            return None, f"non-positive driving force in enthalpy interval [{a}, {b}]: hot {th1}..{th2}, cold {tc1}..{tc2}"
        R = resist(hot, th1, th2) + resist(cold, tc1, tc2)
        A += (b - a) * R / L
    return A, None


# --------------------------------------------------------------------------- generators

def gen_case(rng):
    labels = rng.choice([["A"], ["A"], ["A", "B"]])
    pr = P.gen_problem(rng, labels=labels, with_tree=False, name_clash_p=0.0, util_kind=rng.choice(["none", "none", "outside"]))
    for s in pr["streams"]:
        s["dt_cont"] = rng.choice([2.5, 5.0, 10.0])
        s["htc"] = rng.choice([0.1, 0.5, 1.0, 2.0, 5.0])
    for u in pr["utilities"]:
        u["dt_cont"] = rng.choice([2.5, 5.0, 10.0])
        u["htc"] = rng.choice([0.5, 1.0, 4.0])
    opts = {"DO_AREA_TARGETING": True}
    if rng.random() < 0.6:
        opts.update({"FIXED_COST": rng.choice([0.0, 1000.0, 40000.0]), "VARIABLE_COST": rng.choice([500.0, 10000.0]), "COST_EXP": rng.choice([0.6, 0.8, 1.0]),
                     "DISCOUNT_RATE": rng.choice([0.03, 0.07, 0.15]), "SERV_LIFE": rng.choice([5, 10, 20, 30])})
    pr["options"] = opts
    return {"kind": "service", "problem": pr}


# --------------------------------------------------------------------------- oracle

def service_oracle(ctx, case):
    from OpenPinch.lib.enums import TargetType, ProblemTableLabel as PT
    pr = case["problem"]
    fails = []
    try:
        out, master = P.run_service(pr)
    except Exception as e:  # noqa: BLE001
        return [("area_targeting_total", f"service raised {type(e).__name__}: {str(e)[:150]}", None)], 0
    opts = pr["options"]
    a, b, c = float(opts.get("FIXED_COST", 0.0)), float(opts.get("VARIABLE_COST", 10000.0)), float(opts.get("COST_EXP", 0.6))
    i, n = float(opts.get("DISCOUNT_RATE", 0.07)), float(opts.get("SERV_LIFE", 20))
    k = 0
    for path, z in P.walk(master):
        key = f"{z.name}/{TargetType.DI.value}"
        if key not in z.targets or len(z.hot_streams) + len(z.cold_streams) == 0:
            continue
        t = z.targets[key]
        rec = f"{'/'.join(path)}"
        ptr = t.pt_real
        hb = [float(v) for v in ptr.col[PT.H_HOT_BAL.value]]; cb = [float(v) for v in ptr.col[PT.H_COLD_BAL.value]]
        span_h, span_c = hb[0] - hb[-1], cb[0] - cb[-1]
        scale = max(1.0, abs(span_h))
        if abs(span_h - span_c) > 1e-6 * scale:
            fails.append(("balanced_spans_equal", f"{rec}: balanced hot span {span_h}, cold span {span_c}", None))
        A = float(t.area); N = float(t.num_units); CC = float(t.capital_cost); TC = float(t.total_cost)
        hot = segs_of(z.hot_streams, t.hot_utilities); cold = segs_of(z.cold_streams, t.cold_utilities)
        if not hot or not cold:
            continue
        want, why = area_target(hot, cold)
        k += 1
        if want is None:
            ctx.dist["independent_area_undefined"] += 1
        else:
            if not (math.isfinite(A) and A > 0):
                fails.append(("area_finite_positive", f"{rec}: area target {A}", None))
            elif abs(A - want) > 1e-4 * max(1.0, want):
                fails.append(("area_by_definition", f"{rec}: area target {A}, sum over enthalpy intervals of Q*(R_h+R_c)/LMTD = {want}", None))
        if N > 0 and math.isfinite(A) and A > 0:
            cc = N * (a + b * (A / N) ** c)
            if abs(CC - cc) > 1e-9 * max(1.0, cc):
                fails.append(("capital_cost_law", f"{rec}: capital cost {CC}, N(a+b(A/N)^c) = {cc} (N={N}, A={A})", None))
            crf = i * (1 + i) ** n / ((1 + i) ** n - 1)
            if abs(TC - cc * crf) > 1e-9 * max(1.0, cc * crf):
                fails.append(("annualised_cost_law", f"{rec}: annualised cost {TC}, capital x CRF = {cc * crf}", None))
        elif math.isfinite(A) and A > 0 and N <= 0:
            fails.append(("units_positive", f"{rec}: area {A} but {N} units", None))
        # exchanger count by its definition (Euler: streams present + utilities carrying duty - 1 in each region the pinch
        # separates), judged where the regions are unambiguous: default utilities only, one pinch or a threshold problem
        if not case["problem"]["utilities"] and math.isfinite(N):
            want_n = euler_units(z, t)
            if want_n is not None:
                ctx.dist["units_judged"] += 1
                if int(round(N)) != want_n:
                    fails.append(("units_by_definition", f"{rec}: {int(round(N))} units reported, Euler count {want_n}", None))
    return fails, k


def euler_units(z, t):
    """Minimum number of units of a zone served by the two default utilities only: (streams above the pinch + hot
    utility if it carries duty - 1) + (streams below + cold utility if it carries duty - 1); one region for a threshold
    problem. None where the regions are not unambiguous (several pinches, a stream end within 1e-3 K of the pinch)."""
    qh = sum(float(u.heat_flow) for u in t.hot_utilities); qc = sum(float(u.heat_flow) for u in t.cold_utilities)
    if len(list(t.hot_utilities)) > 1 or len(list(t.cold_utilities)) > 1:
        return None
    ss = [(float(x.t_min_star), float(x.t_max_star)) for x in list(z.hot_streams) + list(z.cold_streams)]
    nh, nc = (1 if qh > 1e-6 else 0), (1 if qc > 1e-6 else 0)
    if qh <= 1e-6 or qc <= 1e-6:
        if qh <= 1e-6 and qc <= 1e-6:
            return None
        hp, cp = getattr(t, "hot_pinch", None), getattr(t, "cold_pinch", None)
        return len(ss) + nh + nc - 1
    hp, cp = t.hot_pinch, t.cold_pinch
    if hp is None or cp is None or abs(float(hp) - float(cp)) > 1e-9:
        return None
    tp = float(hp)
    if any(abs(a - tp) < 1e-3 and abs(b - tp) < 1e-3 for a, b in ss):
        return None
    above = sum(1 for a, b in ss if b > tp + 1e-6); below = sum(1 for a, b in ss if a < tp - 1e-6)
    return (above + nh - 1) + (below + nc - 1)


def run(ctx: Ctx):
    ctx.rule = ("the service with area targeting on random problems with strictly positive contributions, random film coefficients "
                "(0.1-5) and cost parameters: balanced composite spans equal; the area target of every zone against an independent "
                "computation (balanced curves rebuilt from the zone's streams and the utility duties of the record, enthalpy intervals, "
                "counter-current LMTD, duty-weighted film resistances); area finite and positive; capital cost = N(a+b(A/N)^c); "
                "annualised cost = capital x CRF; costing / LMTD functions compared with the Lean (Float) model. Non-trivial: a zone "
                "with hot and cold streams and a positive area.")
    corpus = load_corpus("C15")
    cases = [c for c in corpus if c.get("kind") == "service"] + [gen_case(ctx.rng) for _ in range(ctx.n(150, 3000))]
    for c in cases:
        fails, k = service_oracle(ctx, c)
        ctx.count({"kind": "service", "n": len(c["problem"]["streams"]), "opts": sorted(c["problem"]["options"])}, k > 0, ["service_problem", f"zones_checked={min(k, 3)}"])
        for clause, detail, cause in fails:
            ctx.oracle_fail(c, detail, cause, clause)
    costing_correspondence(ctx)


def bits_to_float(b):
    import struct
    return struct.unpack("<d", struct.pack("<Q", int(b)))[0]


def costing_correspondence(ctx):
    """compute_capital_recovery_factor / compute_capital_cost / compute_annual_capital_cost / compute_LMTD_from_dts
    against the Float instance of the Lean formulas, and the monotonicity / annuity laws on the implementation."""
    from OpenPinch.utils.costing import compute_capital_recovery_factor, compute_capital_cost, compute_annual_capital_cost
    from OpenPinch.utils.heat_exchanger import compute_LMTD_from_dts
    rng = ctx.rng
    cases, lines = [], []
    for _ in range(ctx.n(600, 8000)):
        c = {"kind": "cost", "A": rng.choice([0.5, 12.0, 161.195, 3757.02, 98000.0]) * rng.choice([1.0, 1.37]), "N": float(rng.randrange(1, 30)),
             "a": rng.choice([0.0, 1000.0, 40000.0]), "b": rng.choice([500.0, 10000.0]), "c": rng.choice([0.6, 0.8, 1.0, 0.33]),
             "i": rng.choice([0.03, 0.07, 0.15, 0.005]), "n": float(rng.choice([1, 5, 10, 20, 30]))}
        cases.append(c); lines.append("cost " + " ".join(repr(c[k]) for k in ("A", "N", "a", "b", "c", "i", "n")))
    for _ in range(ctx.n(300, 4000)):
        a = rng.choice([0.5, 5.0, 38.0, 57.2727, 213.183]) * rng.choice([1.0, 1.1]); b = a * rng.choice([1.0, 1.0 + 1e-9, 0.5, 2.0, 1.3, 0.05])
        c = {"kind": "lmtd", "a": a, "b": b}
        cases.append(c); lines.append(f"lmtd {a!r} {b!r}")
    model = run_driver(lines) if ctx.lean.driver_ok else None
    for k, c in enumerate(cases):
        ctx.count(c, True, [c["kind"]])
        if c["kind"] == "cost":
            crf = compute_capital_recovery_factor(c["i"], c["n"]); cc = compute_capital_cost(c["A"], c["N"], c["a"], c["b"], c["c"])
            ann = compute_annual_capital_cost(cc, c["i"], c["n"])
            # laws on the implementation
            s = sum(crf / (1 + c["i"]) ** j for j in range(1, int(c["n"]) + 1))
            if abs(s - 1.0) > 1e-9:
                ctx.oracle_fail(c, f"discounted annuities of the capital-recovery factor sum to {s}", None, "crf_annuities_sum_to_one")
            cc2 = compute_capital_cost(c["A"] * 1.25, c["N"], c["a"], c["b"], c["c"])
            if not cc2 > cc or not compute_annual_capital_cost(cc2, c["i"], c["n"]) > ann:
                ctx.oracle_fail(c, f"cost does not increase with area: {cc} -> {cc2}", None, "cost_increases_with_area")
            want = c["N"] * (c["a"] + c["b"] * (c["A"] / c["N"]) ** c["c"])
            if abs(cc - want) > 1e-9 * max(1.0, want):
                ctx.oracle_fail(c, f"capital cost {cc}, N(a+b(A/N)^c) = {want}", None, "capital_cost_law")
            if model is not None:
                toks = dict(t.split("=") for t in model[k].split()[1:]) if model[k].startswith("ok") else {}
                got = (crf, cc, ann)
                for name, g in zip(("crf", "cc", "ann"), got):
                    m = bits_to_float(toks[name]) if name in toks else None
                    if m is None or abs(m - g) > 1e-11 * max(1.0, abs(g)):
                        ctx.disagree(c, g, m, f"costing {name}"); break
                else:
                    ctx.traces_validated += 1
        else:
            got = float(compute_LMTD_from_dts(c["a"], c["b"]))
            lo, hi = min(c["a"], c["b"]), max(c["a"], c["b"])
            if not (lo - 1e-9 <= got <= (lo + hi) / 2 + 1e-9):
                ctx.oracle_fail(c, f"LMTD({c['a']}, {c['b']}) = {got} outside [min, mean]", None, "lmtd_bounds")
            if model is not None:
                m = bits_to_float(model[k].split()[1]) if model[k].startswith("ok") else None
                if m is None or abs(m - got) > 1e-9 * max(1.0, abs(got)):
                    if abs(abs(c["a"] - c["b"]) - 1e-6) < 1e-9:
                        ctx.fragile_skipped += 1
                    else:
                        ctx.disagree(c, got, m, "lmtd")
                else:
                    ctx.traces_validated += 1


def replay(ctx: Ctx, payload: dict) -> int:
    case = payload.get("case") or (payload.get("disagreement") or {}).get("case")
    if not case:
        print("replay names a broken obligation only:", payload.get("broken")); return 1
    if case.get("kind") in ("cost", "lmtd"):
        print("case:", case); return 1
    c2 = Ctx(ctx.prop, "quick", 0)
    fails, _ = service_oracle(c2, case)
    for f in fails:
        print("property fails:", f)
    return 1 if fails else 0
