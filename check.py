#!/venv/bin/python
"""Entry point of every registered check.

    ./check.py C08 --tier quick|thorough        (VERIF_SEED, VERIF_TIER honoured)
    ./check.py C08 --replay replays/C08-...json

Exit 0: property held on everything explored (KNOWN-FINDING lines may be printed).
Exit 1: a `VIOLATION property=<id> replay=<path>` line was printed.
Exit 2: infrastructure error (never a VIOLATION line).
"""
from __future__ import annotations

import argparse
import importlib
import json
import os
import sys
import time
import traceback
from pathlib import Path

HERE = Path(__file__).resolve().parent
sys.path.insert(0, str(HERE / "harness"))
REPO = os.environ.get("OPENPINCH_REPO", "/repo")
sys.path.insert(0, REPO)
os.environ.setdefault("OPENPINCH_VERIF", "1")
os.environ.setdefault("MPLBACKEND", "Agg")

from opv import core, lean  # noqa: E402

TRUSTED = [
    "Lean 4.33 kernel (+ leanchecker re-check in the thorough tier)",
    "axioms propext, Classical.choice, Quot.sound only (audited per theorem with #print axioms)",
    "Mathlib v4.33 lemmas used by the proofs",
    "hand-written Lean model tied to /repo by the correspondence check (differential testing, not proof)",
    "constants translator harness/opv/lean.py:gen_constants",
    "exact-rational semantics of float code; rounding error measured, not proved",
    "independent Python oracle of the property statement (fractions.Fraction)",
]


def main() -> int:
    ap = argparse.ArgumentParser()
    ap.add_argument("prop")
    ap.add_argument("--tier", default=os.environ.get("VERIF_TIER", "quick"))
    ap.add_argument("--replay", default=None)
    args = ap.parse_args()
    prop = args.prop.upper()
    tier = args.tier if args.tier in ("quick", "thorough") else "quick"
    try:
        seed = int(os.environ.get("VERIF_SEED", "0"))
    except ValueError:
        seed = 0
    try:
        mod = importlib.import_module(f"opv.props.{prop.lower()}")
    except ModuleNotFoundError:
        print(f"no check for {prop}", file=sys.stderr)
        return 2

    if args.replay:
        payload = json.loads(Path(args.replay).read_text())
        ctx = core.Ctx(prop, tier, seed)
        try:
            ctx.lean = lean.prepare(prop, "quick")
            return mod.replay(ctx, payload)
        except core.Infra as e:
            print(f"infrastructure error: {e}", file=sys.stderr)
            return 2

    ctx = core.Ctx(prop, tier, seed)
    try:
        ctx.lean = lean.prepare(prop, tier)
        if not ctx.lean.driver_ok:
            ctx.notes.append("driver did not build; correspondence skipped, oracle only")
        mod.run(ctx)
    except core.Infra as e:
        print(f"infrastructure error: {e}", file=sys.stderr)
        return 2
    except Exception:
        traceback.print_exc()
        print("infrastructure error: unexpected exception in the harness", file=sys.stderr)
        return 2

    return finish(ctx, mod)


def finish(ctx: core.Ctx, mod) -> int:
    findings = [f for f in core.load_findings() if f["property"] == ctx.prop]
    open_causes = {f["cause"]: f for f in findings if f["status"] == "open"}
    st = ctx.lean
    violations: list[dict] = []
    known_hit: dict[str, dict] = {}

    # 1. real failing inputs on the implementation
    unlisted = []
    for f in ctx.oracle_failures:
        if f["cause"] and f["cause"] in open_causes:
            known_hit.setdefault(f["cause"], f)
        else:
            unlisted.append(f)
    if unlisted:
        f = unlisted[0]
        violations.append({"kind": "property-fails-on-implementation", "count": len(unlisted), **f})

    # 2. broken proof obligations / correspondence without a failing input
    broken = []
    if not st.all_ok:
        broken += [f"proof:{b}" for b in st.broken()] or ["proof:build"]
    if ctx.disagreements:
        broken.append(f"correspondence:{ctx.prop}")
    if broken and not unlisted:
        d = ctx.disagreements[0] if ctx.disagreements else None
        violations.append({
            "kind": "no-failing-input-found",
            "broken": broken,
            "disagreement": d,
            "n_disagreements": len(ctx.disagreements),
            "build_log_tail": st.build_log[-1500:] if not st.build_ok else "",
        })
    elif broken and unlisted:
        violations[0]["broken"] = broken
        if ctx.disagreements:
            violations[0]["disagreement"] = ctx.disagreements[0]

    wall = time.time() - ctx.t0
    cov = {
        "obligations": st.n_obl,
        "discharged": st.n_ok,
        "checker_cmd": f"cd lean && lake build OPModel.Properties.{ctx.prop} driver && lake env lean .lake/Audit_{ctx.prop}.lean"
                       + (" && lake env leanchecker OPModel.Properties." + ctx.prop if ctx.tier == "thorough" else ""),
        "trusted_base": TRUSTED + list(getattr(mod, "TRUSTED_EXTRA", [])),
        "theorems": [{"name": o["name"], "ok": o["ok"], "axioms": o["axioms"]} for o in st.obligations],
        "audit_errors": st.audit_errors,
        "evaluations": ctx.evaluations,
        "distinct_nontrivial": len(ctx.nontrivial),
        "rule": ctx.rule,
        "samples": ctx.samples[:8] or ["(no cases run)"],
        "traces_validated_against_impl": ctx.traces_validated,
        "disagreements": len(ctx.disagreements),
        "fragile_skipped": ctx.fragile_skipped,
        "oracle_failures": len(ctx.oracle_failures),
        "oracle_failures_known": sum(1 for f in ctx.oracle_failures if f["cause"] in open_causes),
        "max_abs_err_model_vs_impl": ctx.max_abs_err,
        "distribution": dict(ctx.dist),
        "constants": {k: v for k, v in st.constants.items() if not isinstance(v, list)},
        "lean_wall_s": round(st.wall, 2),
        "notes": ctx.notes,
    }
    cov.update(ctx.extra)
    if st.n_ok == 0:
        cov.pop("checker_cmd")      # falls back to the generic counts in the schema
    ev = {
        "property_id": ctx.prop,
        "tier": ctx.tier,
        "seed": ctx.seed,
        "level": "proof",
        "coverage": cov,
        "assumptions": ctx.assumptions,
        "wall_s": round(wall, 2),
        "violations": len(violations),
    }
    (HERE / "evidence").mkdir(exist_ok=True)
    (HERE / "evidence" / f"{ctx.prop}.json").write_text(json.dumps(ev, indent=1, default=str))

    for cause, f in known_hit.items():
        kf = open_causes[cause]
        print(f"KNOWN-FINDING: property={ctx.prop} {kf['id']}: {kf['what']}")
    print(f"[{ctx.prop}] tier={ctx.tier} seed={ctx.seed} theorems={st.n_ok}/{st.n_obl} cases={ctx.evaluations} "
          f"nontrivial={len(ctx.nontrivial)} disagreements={len(ctx.disagreements)} "
          f"oracle_failures={len(ctx.oracle_failures)} wall={wall:.1f}s")
    if not violations:
        return 0
    for k, v in enumerate(violations):
        payload = {"property": ctx.prop, "tier": ctx.tier, "seed": ctx.seed, **v}
        path = core.write_replay(ctx, k, payload)
        tail = " no-failing-input-found" if v["kind"] == "no-failing-input-found" else ""
        print(f"VIOLATION property={ctx.prop} replay={path}{tail}")
    return 1


if __name__ == "__main__":
    sys.exit(main())
